/* t_sorted.c - white-box driver of slice `sorted` (property C04, ordering kernel): the red-black tree and the
 * lyds_* functions of src/tree_data_sorted.c, reached by including the file from the working tree (its
 * non-static functions then replace the archive member, so the whole library runs this copy).
 *
 *   rbs  <every> <ops>                  the static rb_* functions on free-standing leaf-list nodes (int8 values)
 *        i<k>  new data node with key k (id = running number), lyds_create_node + rb_insert_node
 *        r<p>  rb_remove of the node at in-order position p (x when p is out of range)
 *        f<p>  rb_find(rbt, data node at in-order position p)  -> in-order position of the answer, n for NULL
 *        g<k>  rb_find(rbt, a data node with key k that is NOT in the tree)
 *   lyds <type> <place> <every> <ops>   one system-ordered (leaf-)list through the public API
 *        type  i8 str d64 un (leaf-lists) l1 l2 (lists); key k -> value text, see key_text(); l2 instances with an odd key
 *              are created by lyd_new_path with the key predicates in reverse order, and looked up in both orders
 *        place t0 t1 t2 c0 c1 c2: top level / inside container c; 0 alone, 1 nodes before, 2 nodes before and after
 *        i<k>  create an instance with key k and insert it (lyd_new_term / lyd_new_list with the parent, or
 *              lyd_insert_sibling at top level)
 *        a<k>  create it and lyd_insert_node(..., LYD_INSERT_NODE_LAST) as the parsers do for ordered input
 *        u<i>  lyd_unlink_tree of the instance at sibling position i; the node goes to the pool
 *        d<i>  lyd_free_tree of the instance at sibling position i
 *        r<j>  insert pool node j again (lyd_insert_child / lyd_insert_sibling)
 *        q<k>  lyd_find_sibling_val for key k -> 1 / 0
 *        c<k>  add an instance with key k to the SOURCE list (a separate container / top-level chain), sorted insert
 *        C<k>  append it to the source list with LYD_INSERT_NODE_LAST
 *        p<o>  duplicate all source instances into the parent: o = 0 lyd_dup_siblings(first, parent, RECURSIVE), 1 + NO_LYDS,
 *              2 + WITH_PARENTS, 3 lyd_dup_single of each instance in turn, 4 the same with NO_LYDS; at top level the
 *              duplicates are made without parent and inserted with lyd_insert_sibling (lyds_merge). The duplicates get
 *              their identities in source order.
 *        g<o>  lyd_merge_tree / lyd_merge_siblings of the source into the parent, o = 1 with LYD_MERGE_DESTRUCT (Sorted.lyd_merge_list)
 *        s<i>  lyd_unlink_siblings at the instance at position i (lyds_split when it is not the leader); it and ALL
 *              following siblings become the chain (one chain at a time; Sorted.lyds_split)
 *        m     insert the chain again (lyd_insert_child / lyd_insert_sibling of its first node -> lyd_move_nodes -> lyds_merge)
 *   sib  <place> <ops>                  ALL children of one parent (place c: container k of module s2, t: top level of s2):
 *        leaves l1..l6, system-ordered leaf-list sl, user-ordered list ul and leaf-list uu, opaque nodes; schema order
 *        l1 l2 sl l3 ul uu l4 l5 l6 (schema index 0..8; l3 ul uu are defined inside a choice / case, the others follow it)
 *        L<n> create leaf l<n>   S<k> sl instance   U<k> ul instance   V<k> uu instance   O<c> opaque node named c (x y z)
 *        A<i>.<j> lyd_insert_after(sibling at position j, node at position i)   B<i>.<j> lyd_insert_before
 *        X<i> lyd_free_tree of the sibling at position i   Y<i> lyd_unlink_tree -> pool   R<j> insert pool node j again
 *        dump: <schema index>:<key>#<id> for data nodes, ~<name>#<id> for opaque nodes, in sibling order
 *        inv: L sibling / parent links  D data node behind an opaque node  Q lyd_find_sibling_opaq_next differs from a scan
 *             H lyd_find_sibling_first misses a node or answers a different value  V lyd_find_sibling_val likewise
 * After EVERY op: result, state dump (every <every>-th op and the last one, otherwise ~) and the read-only
 * invariant check, `res/dump/inv`; ops separated by one blank.
 *   tree dump: pre-order, (<colour><key>.<id><left><right>), . for NULL; - when there is no metadata
 *   inv: ok or letters  P parent link  R red-red  H black height  O order  K root not black  W rb_next/rb_prev walk
 *        S sibling order differs from the in-order walk  M metadata not on the leader / twice / an unlinked node owns a
 *        tree with other nodes  C instances not
 *        contiguous or out of schema order  F lyd_find_sibling_val misses a present instance  L sibling links
 */
#include "common.h"
#include <unistd.h>
#include <sys/time.h>
#include "tree_data_sorted.c"
#include "libyang.h"

static void
log_cb(LY_LOG_LEVEL level, const char *msg, const char *data_path, const char *schema_path, uint64_t line)
{
    (void)level; (void)msg; (void)data_path; (void)schema_path; (void)line;
}

static const char *MODULE =
        "module s {namespace \"urn:s\"; prefix s; yang-version 1.1;"
        " leaf ta {type int8;}"
        " leaf-list i8 {type int8;}"
        " leaf-list str {type string;}"
        " leaf-list d64 {type decimal64 {fraction-digits 1;}}"
        " leaf-list un {type union {type int8 {range \"0..127\";} type string;}}"
        " list l1 {key k; leaf k {type int8;} leaf v {type string;}}"
        " list l2 {key \"a b\"; leaf a {type int8;} leaf b {type int8;} leaf v {type string;}}"
        " leaf tz {type int8;}"
        " container c {"
        " leaf ta {type int8;}"
        " leaf-list i8 {type int8;}"
        " leaf-list str {type string;}"
        " leaf-list d64 {type decimal64 {fraction-digits 1;}}"
        " leaf-list un {type union {type int8 {range \"0..127\";} type string;}}"
        " list l1 {key k; leaf k {type int8;} leaf v {type string;}}"
        " list l2 {key \"a b\"; leaf a {type int8;} leaf b {type int8;} leaf v {type string;}}"
        " leaf tz {type int8;}"
        " }}";

#define SIBBODY \
        " leaf l1 {type string;} leaf l2 {type string;}" \
        " leaf-list sl {type int8;}" \
        " choice ch {case ca {" \
        " leaf l3 {type string;}" \
        " list ul {key k; ordered-by user; leaf k {type int8;}}" \
        " leaf-list uu {type int8; ordered-by user;}" \
        " }}" \
        " leaf l4 {type string;} leaf l5 {type string;} leaf l6 {type string;}"
static const char *MODULE2 =
        "module s2 {namespace \"urn:s2\"; prefix s2; yang-version 1.1;"
        SIBBODY
        " container k {" SIBBODY " }}";
static const struct lys_module *mod2;

static const char *TYPES[] = {"i8", "str", "d64", "un", "l1", "l2"};
#define NTYPES 6

static struct ly_ctx *ctx;
static const struct lys_module *mod;

/* ---- identities of data nodes: node->priv = index + 1 into these tables ---- */
#define MAXN 200000
static int nkey[MAXN];
static int nn;

static int
node_id(const struct lyd_node *n)
{
    return (int)(intptr_t)n->priv - 1;
}

static void
put_elt(const struct lyd_node *n)
{
    int id = node_id(n);

    if ((id < 0) || (id >= nn)) {
        printf("?.?");
    } else {
        printf("%d.%d", nkey[id], id);
    }
}

/* floor division / modulo */
static int
fdiv(int a, int b)
{
    int q = a / b;

    return ((a % b) && ((a < 0) != (b < 0))) ? q - 1 : q;
}

/* value text(s) of key k such that the order of the type's sort callback is the integer order of k:
 *   i8  decimal;  str three digits of k+500 (strcmp of equal-length digit strings);  d64 k/10 with one fraction digit;
 *   un  k >= 0: the int8 k, k < 0: the string a<three digits of k+500> (lyplg_type_sort_union puts the values of a
 *       LATER member type first, so all strings come before all int8);  l1 key k;  l2 keys a = floor(k/4), b = k mod 4 */
static void
key_text(const char *ty, int k, char *v1, char *v2)
{
    v2[0] = 0;
    if (!strcmp(ty, "i8") || !strcmp(ty, "l1")) {
        sprintf(v1, "%d", k);
    } else if (!strcmp(ty, "str")) {
        sprintf(v1, "%03d", k + 500);
    } else if (!strcmp(ty, "d64")) {
        sprintf(v1, "%s%d.%d", (k < 0) ? "-" : "", abs(k) / 10, abs(k) % 10);
    } else if (!strcmp(ty, "un")) {
        if (k >= 0) {
            sprintf(v1, "%d", k);
        } else {
            sprintf(v1, "a%03d", k + 500);
        }
    } else {
        sprintf(v1, "%d", fdiv(k, 4));
        sprintf(v2, "%d", k - 4 * fdiv(k, 4));
    }
}

static int
is_list_type(const char *ty)
{
    return ty[0] == 'l';
}

/* create an instance under parent (NULL: free-standing top-level node) */
static struct lyd_node *
new_inst(struct lyd_node *parent, const char *ty, int k, int with_id)
{
    char v1[32], v2[32];
    struct lyd_node *n = NULL;
    LY_ERR rc;

    key_text(ty, k, v1, v2);
    if (!strcmp(ty, "l2")) {
        rc = LY_EEXIST;
        if (k & 1) {
            /* odd keys: created by path with the key predicates NOT in schema order (lyd_new_path -> lyd_create_list);
             * an instance with these keys may exist already (duplicates are part of the scripts): then by name */
            char path[128];

            sprintf(path, "%s/s:l2[b='%s'][a='%s']", parent ? "/s:c" : "", v2, v1);
            rc = lyd_new_path(parent, ctx, path, NULL, 0, &n);
            if (rc) {
                n = NULL;
            }
        }
        if (rc) {
            rc = lyd_new_list(parent, mod, ty, 0, &n, v1, v2);
        }
    } else if (!strcmp(ty, "l1")) {
        rc = lyd_new_list(parent, mod, ty, 0, &n, v1);
    } else {
        rc = lyd_new_term(parent, mod, ty, v1, 0, &n);
    }
    if (rc || !n) {
        return NULL;
    }
    if (with_id && (nn < MAXN)) {
        nkey[nn] = k;
        n->priv = (void *)(intptr_t)(nn + 1);
        ++nn;
    }
    return n;
}

/* ---- read-only checker of one red-black tree ---- */
#define MAXT 4096
static struct rb_node *ino[MAXT];
static int nino;

static void
bad_add(char *bad, char c)
{
    if (!strchr(bad, c)) {
        size_t l = strlen(bad);

        bad[l] = c;
        bad[l + 1] = 0;
    }
}

/* returns the black height of the subtree, fills ino[] in-order */
static int
chk_rec(struct rb_node *n, struct rb_node *parent, char *bad, int depth)
{
    int hl, hr;

    if (!n) {
        return 0;
    }
    if (depth > 200) {
        bad_add(bad, 'P');
        return 0;
    }
    if (RBN_PARENT(n) != parent) {
        bad_add(bad, 'P');
    }
    if ((RBN_COLOR(n) == RB_RED) && ((RBN_LEFT(n) && (RBN_COLOR(RBN_LEFT(n)) == RB_RED)) ||
            (RBN_RIGHT(n) && (RBN_COLOR(RBN_RIGHT(n)) == RB_RED)))) {
        bad_add(bad, 'R');
    }
    hl = chk_rec(RBN_LEFT(n), n, bad, depth + 1);
    if (nino < MAXT) {
        ino[nino++] = n;
    }
    hr = chk_rec(RBN_RIGHT(n), n, bad, depth + 1);
    if (hl != hr) {
        bad_add(bad, 'H');
    }
    return hl + ((RBN_COLOR(n) == RB_BLACK) ? 1 : 0);
}

static void
chk_tree(struct rb_node *rbt, char *bad)
{
    int i;
    struct rb_node *it;

    nino = 0;
    if (!rbt) {
        return;
    }
    if (RBN_COLOR(rbt) != RB_BLACK) {
        bad_add(bad, 'K');
    }
    chk_rec(rbt, NULL, bad, 0);
    for (i = 0; i + 1 < nino; i++) {
        if (lyds_compare_single(RBN_DNODE(ino[i]), RBN_DNODE(ino[i + 1])) > 0) {
            bad_add(bad, 'O');
        }
    }
    if (strchr(bad, 'P')) {
        /* the walks follow parent pointers */
        return;
    }
    /* rb_next from the minimum, rb_prev from the maximum */
    it = rbt;
    while (RBN_LEFT(it)) {
        it = RBN_LEFT(it);
    }
    for (i = 0; it && (i < nino); i++, it = rb_next(it)) {
        if (it != ino[i]) {
            bad_add(bad, 'W');
            break;
        }
    }
    if (it || (i != nino)) {
        bad_add(bad, 'W');
    }
    it = rbt;
    while (RBN_RIGHT(it)) {
        it = RBN_RIGHT(it);
    }
    for (i = nino - 1; it && (i >= 0); i--, it = rb_prev(it)) {
        if (it != ino[i]) {
            bad_add(bad, 'W');
            break;
        }
    }
    if (it || (i != -1)) {
        bad_add(bad, 'W');
    }
}

static void
dump_tree(struct rb_node *n, int depth)
{
    if (!n || (depth > 200)) {
        putchar('.');
        return;
    }
    putchar('(');
    putchar((RBN_COLOR(n) == RB_RED) ? 'R' : 'B');
    put_elt(RBN_DNODE(n));
    dump_tree(RBN_LEFT(n), depth + 1);
    dump_tree(RBN_RIGHT(n), depth + 1);
    putchar(')');
}

/* ================================ rbs ================================ */
static void
run_rbs(struct vcase *c)
{
    int every = atoi(c->f[1]);
    char *ops = c->f[2], *tok, *save = NULL;
    struct rb_node *rbt = NULL;
    struct lyd_node **all = NULL;
    int nall = 0, capall = 0, opi = 0, first = 1, nops = 0;
    char *p;

    nn = 0;
    for (p = ops; *p; p++) {
        if (*p == ' ') {
            nops++;
        }
    }
    nops++;
    for (tok = strtok_r(ops, " ", &save); tok; tok = strtok_r(NULL, " ", &save), opi++) {
        char bad[16] = "";
        int arg = atoi(tok + 1);
        int show = (every <= 1) || (opi % every == 0) || (opi == nops - 1);

        if (!first) {
            putchar(' ');
        }
        first = 0;
        bad[0] = 0;
        chk_tree(rbt, bad);     /* fills ino[] for the positions */
        bad[0] = 0;
        if (tok[0] == 'i') {
            struct lyd_node *n = new_inst(NULL, "i8", arg, 1);
            struct rb_node *rbn = NULL;
            ly_bool max = 1;

            if (nall == capall) {
                capall = capall ? 2 * capall : 64;
                all = realloc(all, capall * sizeof *all);
            }
            all[nall++] = n;
            lyds_create_node(n, &rbn);
            if (!rbt) {
                /* lyds_additionally_create_rb_tree(): the first node is the calloc'ed (black) root */
                rbt = rbn;
            } else {
                rb_insert_node(&rbt, rbn, &max);
            }
            printf("%d", (int)max);
        } else if (tok[0] == 'r') {
            if ((arg < 0) || (arg >= nino)) {
                printf("x");
            } else {
                struct rb_node *rbn = ino[arg], *old;

                old = rb_remove(&rbt, rbn);
                if (old != rbn) {
                    printf("!");
                }
                /* the data node stays allocated until the end of the case */
                free(old);
                printf("-");
            }
        } else if (tok[0] == 'f') {
            if ((arg < 0) || (arg >= nino) || !rbt) {
                printf("x");
            } else {
                struct rb_node *r = rb_find(rbt, RBN_DNODE(ino[arg]));
                int i, at = -1;

                for (i = 0; i < nino; i++) {
                    if (ino[i] == r) {
                        at = i;
                    }
                }
                if (!r) {
                    printf("n");
                } else {
                    printf("%d", at);
                }
            }
        } else if (tok[0] == 'g') {
            if (!rbt) {
                printf("x");
            } else {
                struct lyd_node *n = new_inst(NULL, "i8", arg, 0);
                struct rb_node *r = rb_find(rbt, n);
                int i, at = -1;

                for (i = 0; i < nino; i++) {
                    if (ino[i] == r) {
                        at = i;
                    }
                }
                if (!r) {
                    printf("n");
                } else {
                    printf("%d", at);
                }
                lyd_free_tree(n);
            }
        } else {
            printf("?");
        }
        putchar('/');
        bad[0] = 0;
        chk_tree(rbt, bad);
        if (show) {
            dump_tree(rbt, 0);
        } else {
            putchar('~');
        }
        printf("/%s", bad[0] ? bad : "ok");
    }
    lyds_free_tree(rbt);
    for (int i = 0; i < nall; i++) {
        lyd_free_tree(all[i]);
    }
    free(all);
}

/* ================================ lyds ================================ */
struct lst {
    const char *ty;
    int top;                    /* top level (no parent) */
    struct lyd_node *cont;      /* the parent container when !top */
    struct lyd_node *first;     /* first top-level sibling when top */
    struct lyd_node *scratch;   /* second container instance used to create free-standing children */
    struct lyd_node *src;       /* third container instance holding the source list (dup), !top */
    struct lyd_node *srcfirst;  /* first node of the top-level source chain, top */
    const struct lysc_node *schema;
    struct lyd_node *inst[MAXT];
    int ninst;
};

static struct lyd_node *
first_sibling(struct lst *s)
{
    return s->top ? s->first : lyd_child(s->cont);
}

/* collect the instances; C when they are not contiguous / not in schema order, L when sibling links are inconsistent */
static void
collect(struct lst *s, char *bad)
{
    struct lyd_node *it, *fs = first_sibling(s), *prev = NULL;
    int phase = 0;      /* 0 before, 1 inside, 2 after */
    int guard = 0;

    s->ninst = 0;
    if (fs && fs->prev->next) {
        bad_add(bad, 'L');
    }
    for (it = fs; it && (guard < 100000); prev = it, it = it->next, guard++) {
        if (prev && (it->prev != prev)) {
            bad_add(bad, 'L');
        }
        if (!s->top && (lyd_parent(it) != s->cont)) {
            bad_add(bad, 'L');
        }
        if (s->top && it->parent) {
            bad_add(bad, 'L');
        }
        if (it->schema == s->schema) {
            if (phase == 2) {
                bad_add(bad, 'C');
            }
            phase = 1;
            if (s->ninst < MAXT) {
                s->inst[s->ninst++] = it;
            }
        } else {
            if (phase == 1) {
                phase = 2;
            }
            /* nodes of the other schema nodes: the module lists them in schema order, compare the positions */
        }
        if (prev && prev->schema && it->schema && (prev->schema != it->schema)) {
            const struct lysc_node *sc;
            int seen_prev = 0, ok = 0;

            for (sc = lysc_data_parent(it->schema) ? lysc_node_child(lysc_data_parent(it->schema)) : mod->compiled->data; sc; sc = sc->next) {
                if (sc == prev->schema) {
                    seen_prev = 1;
                }
                if (sc == it->schema) {
                    ok = seen_prev;
                    break;
                }
            }
            if (!ok) {
                bad_add(bad, 'C');
            }
        }
    }
    if (fs && (fs->prev != (prev ? prev : fs))) {
        bad_add(bad, 'L');
    }
}

static void
state_check_dump(struct lst *s, struct lyd_node **pool, int npool, int show)
{
    char bad[24] = "";
    int i, owner = -1, nown = 0;
    struct rb_node *rbt = NULL;
    struct lyd_meta *m = NULL;

    collect(s, bad);
    for (i = 0; i < s->ninst; i++) {
        struct lyd_meta *mi = NULL;

        struct rb_node *ti = lyds_get_rb_tree(s->inst[i], &mi);

        /* metadata with a NULL tree on another instance than the leader (the copy that LYD_DUP_NO_LYDS leaves on the
         * duplicate of a leader) is never looked at by the library and not counted */
        if (mi && (ti || !i)) {
            if (!nown) {
                owner = i;
            }
            nown++;
        }
    }
    if ((nown > 1) || ((nown == 1) && (owner != 0))) {
        bad_add(bad, 'M');
    }
    if (s->ninst) {
        rbt = lyds_get_rb_tree(s->inst[0], &m);
    }
    chk_tree(rbt, bad);
    if (rbt) {
        if (nino != s->ninst) {
            bad_add(bad, 'S');
        } else {
            for (i = 0; i < nino; i++) {
                if (RBN_DNODE(ino[i]) != s->inst[i]) {
                    bad_add(bad, 'S');
                }
            }
        }
    }
    /* an unlinked node may keep metadata, but then its tree is the one-node tree of the node itself */
    for (i = 0; i < npool; i++) {
        struct lyd_meta *mi = NULL;
        struct rb_node *t = lyds_get_rb_tree(pool[i], &mi);

        if (t && (RBN_LEFT(t) || RBN_RIGHT(t) || RBN_PARENT(t) || (RBN_DNODE(t) != pool[i]))) {
            bad_add(bad, 'M');
        }
    }
    /* every present instance is found by value / keys */
    for (i = 0; i < s->ninst; i++) {
        char v1[32], v2[32], pred[96];
        struct lyd_node *match = NULL;
        int id = node_id(s->inst[i]);

        if ((id < 0) || (id >= nn)) {
            continue;
        }
        key_text(s->ty, nkey[id], v1, v2);
        if (!strcmp(s->ty, "l1")) {
            sprintf(pred, "[k='%s']", v1);
        } else if (!strcmp(s->ty, "l2")) {
            /* key predicates in both orders */
            sprintf(pred, "[b='%s'][a='%s']", v2, v1);
            if (lyd_find_sibling_val(first_sibling(s), s->schema, pred, 0, &match) || !match ||
                    (node_id(match) < 0) || (nkey[node_id(match)] != nkey[id])) {
                bad_add(bad, 'F');
            }
            match = NULL;
            sprintf(pred, "[a='%s'][b='%s']", v1, v2);
        } else {
            strcpy(pred, v1);
        }
        if (lyd_find_sibling_val(first_sibling(s), s->schema, pred, 0, &match) || !match ||
                (node_id(match) < 0) || (nkey[node_id(match)] != nkey[id])) {
            bad_add(bad, 'F');
        }
        /* a list instance has its keys first and in schema order */
        if (is_list_type(s->ty)) {
            const struct lyd_node *ch = lyd_child(s->inst[i]);

            if (!ch || strcmp(LYD_NAME(ch), (s->ty[1] == '2') ? "a" : "k") ||
                    ((s->ty[1] == '2') && (!ch->next || strcmp(LYD_NAME(ch->next), "b")))) {
                bad_add(bad, 'C');
            }
        }
    }
    if (show) {
        printf("s=");
        for (i = 0; i < s->ninst; i++) {
            if (i) {
                putchar(',');
            }
            put_elt(s->inst[i]);
        }
        printf(";t=");
        if (s->ninst && m) {
            dump_tree(rbt, 0);
        } else {
            putchar('-');
        }
        printf(";m=");
        if (nown) {
            printf("%d", owner);
            if (nown > 1) {
                printf("+");
            }
        } else {
            putchar('-');
        }
        printf(";p=");
        for (i = 0; i < npool; i++) {
            struct lyd_meta *mi = NULL;
            struct rb_node *t;

            if (i) {
                putchar(',');
            }
            put_elt(pool[i]);
            t = lyds_get_rb_tree(pool[i], &mi);
            if (mi && t) {
                putchar('T');
            } else if (mi) {
                putchar('m');
            }
        }
    } else {
        putchar('~');
    }
    printf("/%s", bad[0] ? bad : "ok");
}

static void
add_neighbour_list(struct lst *s, const char *ty)
{
    struct lyd_node *n;

    for (int k = 1; k <= 2; k++) {
        if (s->top) {
            n = new_inst(NULL, ty, k, 0);
            if (n) {
                lyd_insert_sibling(s->first, n, &s->first);
            }
        } else {
            new_inst(s->cont, ty, k, 0);
        }
    }
}

static void
add_leaf(struct lst *s, const char *name)
{
    struct lyd_node *n = NULL;

    if (s->top) {
        if (!lyd_new_term(NULL, mod, name, "1", 0, &n) && n) {
            lyd_insert_sibling(s->first, n, &s->first);
        }
    } else {
        lyd_new_term(s->cont, mod, name, "1", 0, &n);
    }
}

/* a free-standing instance (for r / a / top-level inserts) */
static struct lyd_node *
new_free_inst(struct lst *s, int k)
{
    struct lyd_node *n;

    if (s->top) {
        return new_inst(NULL, s->ty, k, 1);
    }
    n = new_inst(s->scratch, s->ty, k, 1);
    if (n) {
        lyd_unlink_tree(n);
    }
    return n;
}

static void
do_insert(struct lst *s, struct lyd_node *n)
{
    if (s->top) {
        if (s->first) {
            lyd_insert_sibling(s->first, n, &s->first);
        } else {
            s->first = n;
        }
    } else {
        lyd_insert_child(s->cont, n);
    }
}

/* identities of the duplicates of the source instances (from sf on), in source order: the first instance without identity
 * that equals the source instance */
static void
assign_dup_ids(struct lst *s, struct lyd_node *sf)
{
    char bad[24] = "";
    struct lyd_node *it;

    collect(s, bad);
    LY_LIST_FOR(sf, it) {
        if ((it->schema != s->schema) && strcmp(LYD_NAME(it), s->schema->name)) {
            continue;
        }
        for (int i = 0; i < s->ninst; i++) {
            if (!s->inst[i]->priv && !lyd_compare_single(it, s->inst[i], 0) && (nn < MAXN)) {
                nkey[nn] = nkey[node_id(it)];
                s->inst[i]->priv = (void *)(intptr_t)(nn + 1);
                ++nn;
                break;
            }
        }
    }
}

static void
run_lyds(struct vcase *c)
{
    struct lst *s = calloc(1, sizeof *s);
    const char *place = c->f[2];
    int every = atoi(c->f[3]);
    char *ops = c->f[4], *tok, *save = NULL, *p;
    struct lyd_node *pool[MAXT], *chain = NULL;
    int npool = 0, opi = 0, nops = 1, first = 1, ti = -1;

    nn = 0;
    s->ty = c->f[1];
    for (int i = 0; i < NTYPES; i++) {
        if (!strcmp(TYPES[i], s->ty)) {
            ti = i;
        }
    }
    if (ti < 0) {
        printf("?");
        free(s);
        return;
    }
    s->top = (place[0] == 't');
    if (!s->top) {
        lyd_new_inner(NULL, mod, "c", 0, &s->cont);
        lyd_new_inner(NULL, mod, "c", 0, &s->scratch);
        lyd_new_inner(NULL, mod, "c", 0, &s->src);
        s->schema = lys_find_child(s->cont->schema, mod, s->ty, 0, 0, 0);
    } else {
        s->schema = lys_find_child(NULL, mod, s->ty, 0, 0, 0);
    }
    if (place[1] >= '1') {
        add_leaf(s, "ta");
        if (ti > 0) {
            add_neighbour_list(s, TYPES[ti - 1]);
        }
    }
    if (place[1] >= '2') {
        if (ti + 1 < NTYPES) {
            add_neighbour_list(s, TYPES[ti + 1]);
        }
        add_leaf(s, "tz");
    }
    for (p = ops; *p; p++) {
        if (*p == ' ') {
            nops++;
        }
    }
    for (tok = strtok_r(ops, " ", &save); tok; tok = strtok_r(NULL, " ", &save), opi++) {
        char bad[24] = "";
        int arg = atoi(tok + 1);
        int show = (every <= 1) || (opi % every == 0) || (opi == nops - 1);

        if (!first) {
            putchar(' ');
        }
        first = 0;
        collect(s, bad);
        if (tok[0] == 'i') {
            struct lyd_node *n;

            if (s->top) {
                n = new_free_inst(s, arg);
                if (n) {
                    do_insert(s, n);
                }
            } else {
                n = new_inst(s->cont, s->ty, arg, 1);
            }
            printf(n ? "+" : "E");
        } else if (tok[0] == 'a') {
            struct lyd_node *n = new_free_inst(s, arg);

            if (n) {
                struct lyd_node *fs = first_sibling(s);

                lyd_insert_node(s->top ? NULL : s->cont, &fs, n, LYD_INSERT_NODE_LAST);
                if (s->top) {
                    s->first = fs;
                }
            }
            printf(n ? "+" : "E");
        } else if ((tok[0] == 'u') || (tok[0] == 'd')) {
            if ((arg < 0) || (arg >= s->ninst)) {
                printf("x");
            } else {
                struct lyd_node *n = s->inst[arg];

                if (s->top && (s->first == n)) {
                    s->first = n->next;
                }
                if (tok[0] == 'u') {
                    lyd_unlink_tree(n);
                    if (npool < MAXT) {
                        pool[npool++] = n;
                    }
                } else {
                    lyd_free_tree(n);
                }
                printf("-");
            }
        } else if (tok[0] == 'r') {
            if ((arg < 0) || (arg >= npool)) {
                printf("x");
            } else {
                struct lyd_node *n = pool[arg];

                memmove(pool + arg, pool + arg + 1, (npool - arg - 1) * sizeof *pool);
                npool--;
                do_insert(s, n);
                printf("+");
            }
        } else if ((tok[0] == 'c') || (tok[0] == 'C')) {
            struct lyd_node *n;

            if (tok[0] == 'c') {
                if (s->top) {
                    n = new_inst(NULL, s->ty, arg, 1);
                    if (n && s->srcfirst) {
                        lyd_insert_sibling(s->srcfirst, n, &s->srcfirst);
                    } else if (n) {
                        s->srcfirst = n;
                    }
                } else {
                    n = new_inst(s->src, s->ty, arg, 1);
                }
            } else {
                n = new_free_inst(s, arg);
                if (n) {
                    struct lyd_node *fs = s->top ? s->srcfirst : lyd_child(s->src);

                    lyd_insert_node(s->top ? NULL : s->src, &fs, n, LYD_INSERT_NODE_LAST);
                    if (s->top) {
                        s->srcfirst = fs;
                    }
                }
            }
            printf(n ? "+" : "E");
        } else if (tok[0] == 'p') {
            struct lyd_node *sf = s->top ? s->srcfirst : lyd_child(s->src), *it, *dup = NULL;
            struct lyd_node *par = s->top ? NULL : s->cont;
            uint32_t opts = LYD_DUP_RECURSIVE;
            LY_ERR rc = LY_SUCCESS;

            if (!sf) {
                printf("x");
            } else {
                if ((arg == 1) || (arg == 4)) {
                    opts |= LYD_DUP_NO_LYDS;
                } else if (arg == 2) {
                    opts |= LYD_DUP_WITH_PARENTS;
                }
                if (s->top) {
                    /* duplicates without parent, then merged into the siblings */
                    rc = lyd_dup_siblings(sf, NULL, opts, &dup);
                    if (!rc && dup) {
                        if (s->first) {
                            rc = lyd_insert_sibling(s->first, dup, &s->first);
                        } else {
                            s->first = dup;
                        }
                    }
                } else if (arg >= 3) {
                    LY_LIST_FOR(sf, it) {
                        rc = lyd_dup_single(it, (struct lyd_node_inner *)par, opts, &dup);
                        if (rc) {
                            break;
                        }
                    }
                } else {
                    rc = lyd_dup_siblings(sf, (struct lyd_node_inner *)par, opts, &dup);
                }
                assign_dup_ids(s, sf);
                printf(rc ? "E" : "+");
            }
        } else if (tok[0] == 'g') {
            struct lyd_node *sf = s->top ? s->srcfirst : lyd_child(s->src);
            uint16_t mopts = (arg == 1) ? LYD_MERGE_DESTRUCT : 0;
            LY_ERR rc;

            if (!sf) {
                printf("x");
            } else if (s->top) {
                rc = lyd_merge_siblings(&s->first, s->srcfirst, mopts);
                if (s->first) {
                    s->first = lyd_first_sibling(s->first);
                }
                if (mopts) {
                    s->srcfirst = NULL;
                } else {
                    assign_dup_ids(s, s->srcfirst);
                }
                printf(rc ? "E" : "+");
            } else {
                rc = lyd_merge_tree(&s->cont, s->src, mopts);
                if (mopts) {
                    s->src = NULL;
                    lyd_new_inner(NULL, mod, "c", 0, &s->src);
                } else {
                    assign_dup_ids(s, lyd_child(s->src));
                }
                printf(rc ? "E" : "+");
            }
        } else if (tok[0] == 's') {
            if (chain || (arg < 0) || (arg >= s->ninst)) {
                printf("x");
            } else {
                struct lyd_node *n = s->inst[arg];

                if (s->top && (s->first == n)) {
                    s->first = NULL;
                }
                if (lyd_unlink_siblings(n)) {
                    printf("E");
                } else {
                    chain = n;
                    printf("-");
                }
            }
        } else if (tok[0] == 'm') {
            if (!chain) {
                printf("x");
            } else {
                LY_ERR rc = LY_SUCCESS;

                if (!s->top) {
                    rc = lyd_insert_child(s->cont, chain);
                } else if (s->first) {
                    rc = lyd_insert_sibling(s->first, chain, &s->first);
                } else {
                    s->first = chain;
                }
                chain = NULL;
                printf(rc ? "E" : "+");
            }
        } else if (tok[0] == 'q') {
            char v1[32], v2[32], pred[96];
            struct lyd_node *match = NULL;
            LY_ERR rc;

            key_text(s->ty, arg, v1, v2);
            if (!strcmp(s->ty, "l1")) {
                sprintf(pred, "[k='%s']", v1);
            } else if (!strcmp(s->ty, "l2")) {
                if (arg & 1) {
                    sprintf(pred, "[b='%s'][a='%s']", v2, v1);
                } else {
                    sprintf(pred, "[a='%s'][b='%s']", v1, v2);
                }
            } else {
                strcpy(pred, v1);
            }
            rc = lyd_find_sibling_val(first_sibling(s), s->schema, pred, 0, &match);
            if (rc == LY_SUCCESS) {
                printf((match && (node_id(match) >= 0) && (nkey[node_id(match)] == arg)) ? "1" : "W");
            } else if (rc == LY_ENOTFOUND) {
                printf("0");
            } else {
                printf("E");
            }
        } else {
            printf("?");
        }
        putchar('/');
        state_check_dump(s, pool, npool, show);
    }
    for (int i = 0; i < npool; i++) {
        lyd_free_tree(pool[i]);
    }
    lyd_free_siblings(chain);
    lyd_free_all(s->srcfirst);
    if (s->top) {
        lyd_free_all(s->first);
    } else {
        lyd_free_all(s->cont);
        lyd_free_all(s->scratch);
        lyd_free_all(s->src);
    }
    free(s);
}


/* ================================ sib ================================ */
static const char *SIBNAMES[] = {"l1", "l2", "sl", "l3", "ul", "uu", "l4", "l5", "l6"};
static int nsidx[MAXN];     /* schema index of node id, -1 - 'x' .. for opaque nodes: -(name char) */

struct sib {
    int top;
    struct lyd_node *cont;
    struct lyd_node *first;
    struct lyd_node *all[MAXT];
    int nall;
};

static struct lyd_node *
sib_first(struct sib *s)
{
    return s->top ? s->first : lyd_child(s->cont);
}

static void
sib_collect(struct sib *s, char *bad)
{
    struct lyd_node *it, *fs = sib_first(s), *prev = NULL;
    int guard = 0, opq = 0;

    s->nall = 0;
    if (fs && fs->prev->next) {
        bad_add(bad, 'L');
    }
    for (it = fs; it && (guard < 100000); prev = it, it = it->next, guard++) {
        if (prev && (it->prev != prev)) {
            bad_add(bad, 'L');
        }
        if ((!s->top && (lyd_parent(it) != s->cont)) || (s->top && it->parent)) {
            bad_add(bad, 'L');
        }
        if (!it->schema) {
            opq = 1;
        } else if (opq) {
            bad_add(bad, 'D');
        }
        if (s->nall < MAXT) {
            s->all[s->nall++] = it;
        }
    }
    if (fs && (fs->prev != (prev ? prev : fs))) {
        bad_add(bad, 'L');
    }
}

static void
sib_key_pred(const struct lyd_node *n, char *buf)
{
    int id = node_id(n);

    if (!strcmp(LYD_NAME(n), "ul")) {
        sprintf(buf, "[k='%d']", nkey[id]);
    } else {
        sprintf(buf, "%d", nkey[id]);
    }
}

static void
sib_check_dump(struct sib *s)
{
    char bad[24] = "";
    const char *names[] = {"x", "y", "z"};
    int i, j;
    struct lyd_node *fs;

    sib_collect(s, bad);
    fs = sib_first(s);
    /* opaque search = scan */
    for (j = 0; j < 3; j++) {
        struct lyd_node *scan = NULL, *found = NULL;

        for (i = 0; i < s->nall; i++) {
            if (!s->all[i]->schema && !strcmp(LYD_NAME(s->all[i]), names[j])) {
                scan = s->all[i];
                break;
            }
        }
        if (fs) {
            lyd_find_sibling_opaq_next(fs, names[j], &found);
        }
        if (scan != found) {
            bad_add(bad, 'Q');
        }
    }
    /* data node searches */
    for (i = 0; i < s->nall; i++) {
        struct lyd_node *n = s->all[i], *m = NULL;
        int id = node_id(n);
        char buf[64];

        if (!n->schema || (id < 0) || (id >= nn)) {
            continue;
        }
        if (lyd_find_sibling_first(fs, n, &m) || !m || (m->schema != n->schema) || lyd_compare_single(m, n, 0)) {
            bad_add(bad, 'H');
        }
        m = NULL;
        if (n->schema->nodetype == LYS_LEAF) {
            if (lyd_find_sibling_val(fs, n->schema, NULL, 0, &m) || (m != n)) {
                bad_add(bad, 'V');
            }
        } else {
            sib_key_pred(n, buf);
            if (lyd_find_sibling_val(fs, n->schema, buf, 0, &m) || !m || (m->schema != n->schema) ||
                    (node_id(m) < 0) || (nkey[node_id(m)] != nkey[id])) {
                bad_add(bad, 'V');
            }
        }
    }
    for (i = 0; i < s->nall; i++) {
        int id = node_id(s->all[i]);

        if (i) {
            putchar(',');
        }
        if ((id < 0) || (id >= nn)) {
            printf("?");
        } else if (nsidx[id] >= 0) {
            printf("%d:%d#%d", nsidx[id], nkey[id], id);
        } else {
            printf("~%c#%d", -nsidx[id], id);
        }
    }
    printf("/%s", bad[0] ? bad : "ok");
}

static void
sib_insert(struct sib *s, struct lyd_node *n)
{
    if (!s->top) {
        lyd_insert_child(s->cont, n);
    } else if (s->first) {
        lyd_insert_sibling(s->first, n, &s->first);
    } else {
        s->first = n;
    }
}

static void
sib_reg(struct lyd_node *n, int sidx, int key)
{
    if (n && (nn < MAXN)) {
        nkey[nn] = key;
        nsidx[nn] = sidx;
        n->priv = (void *)(intptr_t)(nn + 1);
        ++nn;
    }
}

static void
run_sib(struct vcase *c)
{
    struct sib *s = calloc(1, sizeof *s);
    char *ops = c->f[2], *tok, *save = NULL;
    struct lyd_node *pool[MAXT];
    int npool = 0, first = 1;

    nn = 0;
    s->top = (c->f[1][0] == 't');
    if (!s->top) {
        lyd_new_inner(NULL, mod2, "k", 0, &s->cont);
    }
    for (tok = strtok_r(ops, " ", &save); tok; tok = strtok_r(NULL, " ", &save)) {
        char bad[24] = "", val[16];
        int arg = atoi(tok + 1), arg2 = -1;
        char *dot = strchr(tok, '.');
        struct lyd_node *n = NULL, *par = s->top ? NULL : s->cont;
        LY_ERR rc = LY_SUCCESS;

        if (dot) {
            arg2 = atoi(dot + 1);
        }
        if (!first) {
            putchar(' ');
        }
        first = 0;
        sib_collect(s, bad);
        if (tok[0] == 'L') {
            static const int lidx[] = {0, 0, 1, 3, 6, 7, 8};
            int sidx = ((arg >= 1) && (arg <= 6)) ? lidx[arg] : -1, present = 0;

            for (int i = 0; (sidx >= 0) && (i < s->nall); i++) {
                if (s->all[i]->schema && !strcmp(LYD_NAME(s->all[i]), SIBNAMES[sidx])) {
                    present = 1;
                }
            }
            if ((sidx < 0) || present) {
                printf("x");
            } else {
                rc = lyd_new_term(par, mod2, SIBNAMES[sidx], "v", 0, &n);
                if (!rc && n && s->top) {
                    sib_insert(s, n);
                }
                sib_reg(n, sidx, 0);
                printf((rc || !n) ? "E" : "+");
            }
        } else if ((tok[0] == 'S') || (tok[0] == 'V') || (tok[0] == 'U')) {
            int sidx = (tok[0] == 'S') ? 2 : ((tok[0] == 'U') ? 4 : 5);

            sprintf(val, "%d", arg);
            if (tok[0] == 'U') {
                rc = lyd_new_list(par, mod2, "ul", 0, &n, val);
            } else {
                rc = lyd_new_term(par, mod2, SIBNAMES[sidx], val, 0, &n);
            }
            if (!rc && n && s->top) {
                sib_insert(s, n);
            }
            sib_reg(n, sidx, arg);
            printf((rc || !n) ? "E" : "+");
        } else if (tok[0] == 'O') {
            char name[2] = {tok[1] ? tok[1] : 'x', 0};

            rc = lyd_new_opaq(par, ctx, name, "1", NULL, "s2", &n);
            if (!rc && n && s->top) {
                sib_insert(s, n);
            }
            sib_reg(n, -(int)name[0], 0);
            printf((rc || !n) ? "E" : "+");
        } else if ((tok[0] == 'A') || (tok[0] == 'B')) {
            if ((arg < 0) || (arg >= s->nall) || (arg2 < 0) || (arg2 >= s->nall)) {
                printf("x");
            } else {
                struct lyd_node *node = s->all[arg], *sibl = s->all[arg2];

                if (tok[0] == 'A') {
                    rc = lyd_insert_after(sibl, node);
                } else {
                    rc = lyd_insert_before(sibl, node);
                }
                if (s->top && s->first) {
                    s->first = lyd_first_sibling(sibl);
                }
                printf(rc ? "E" : "+");
            }
        } else if ((tok[0] == 'X') || (tok[0] == 'Y')) {
            if ((arg < 0) || (arg >= s->nall)) {
                printf("x");
            } else {
                n = s->all[arg];
                if (s->top && (s->first == n)) {
                    s->first = n->next;
                }
                if (tok[0] == 'Y') {
                    rc = lyd_unlink_tree(n);
                    if (!rc && (npool < MAXT)) {
                        pool[npool++] = n;
                    }
                } else {
                    lyd_free_tree(n);
                }
                printf(rc ? "E" : "-");
            }
        } else if (tok[0] == 'R') {
            if ((arg < 0) || (arg >= npool)) {
                printf("x");
            } else {
                n = pool[arg];
                memmove(pool + arg, pool + arg + 1, (npool - arg - 1) * sizeof *pool);
                npool--;
                sib_insert(s, n);
                printf("+");
            }
        } else {
            printf("?");
        }
        putchar('/');
        sib_check_dump(s);
    }
    for (int i = 0; i < npool; i++) {
        lyd_free_tree(pool[i]);
    }
    if (s->top) {
        lyd_free_all(s->first);
    } else {
        lyd_free_all(s->cont);
    }
    free(s);
}

int
main(void)
{
    struct vcase c;

    /* the answer of a case is written as one whole line at VEND() or not at all: a process that is killed in the middle
     * of a case must not leave a partial line (it would be taken for the answer of the case) */
    setvbuf(stdout, malloc(64 << 20), _IOFBF, 64 << 20);
    ly_set_log_clb(log_cb);
    ly_log_options(0);
    if (ly_ctx_new(NULL, 0, &ctx)) {
        fprintf(stderr, "ctx\n");
        return 2;
    }
    if (lys_parse_mem(ctx, MODULE, LYS_IN_YANG, (struct lys_module **)&mod)) {
        fprintf(stderr, "module\n");
        return 2;
    }
    if (lys_parse_mem(ctx, MODULE2, LYS_IN_YANG, (struct lys_module **)&mod2)) {
        fprintf(stderr, "module2\n");
        return 2;
    }
    while (vnext(&c)) {
        /* a damaged tree can make the library loop for ever: the case then ends as CRASH(-27) (SIGPROF). The limit is
         * CPU time of this process (independent of the load of the machine), 5 s + 1 s per 25 ops (sanitizer builds
         * of scripts with thousands of ops need tens of seconds) */
        {
            struct itimerval tv = {{0, 0}, {0, 0}};
            long nops = 1;

            for (const char *q = c.f[c.nf - 1]; *q; q++) {
                if (*q == ' ') {
                    nops++;
                }
            }
            tv.it_value.tv_sec = 5 + nops / 25;
            setitimer(ITIMER_PROF, &tv, NULL);
        }
        if (!strcmp(c.f[0], "rbs") && (c.nf >= 3)) {
            run_rbs(&c);
        } else if (!strcmp(c.f[0], "lyds") && (c.nf >= 5)) {
            run_lyds(&c);
        } else if (!strcmp(c.f[0], "sib") && (c.nf >= 3)) {
            run_sib(&c);
        } else {
            printf("?");
        }
        VEND();
        {
            struct itimerval tv = {{0, 0}, {0, 0}};

            setitimer(ITIMER_PROF, &tv, NULL);
        }
    }
    ly_ctx_destroy(ctx);
    return 0;
}
