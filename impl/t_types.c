/* t_types.c — driver of slice `types` (property C03): integer, decimal64 and boolean values and the
 * range restriction, through the public API of the library built from the working tree.
 *
 * Leaf names encode the type (ocaml/run_types.ml maps the same names to the model parameters):
 *   i8 i16 i32 i64 u8 u16 u32 u64      plain integer types
 *   <int>r                             the same with the fixed range of the module text below
 *   d1 d2 d9 d18                       decimal64 with that many fraction-digits; d1r d2r d9r d18r with a range
 *   b                                  boolean
 *   L<name>                            system-ordered leaf-list of the same type, inside container c
 *
 * Cases (hex byte strings, "-" = empty):
 *   intv|decv|boolv <leaf> <hex>       lyd_value_validate(value, len) -> E | hex of the canonical string;
 *                                      when the value has no NUL byte lyd_new_term()+lyd_get_value() must
 *                                      agree, otherwise " NEWTERM=<E|hex>" is appended
 *   decvn <leaf> <hex> <hex next>      as decv through lyd_value_validate only, with the bytes <next>
 *                                      placed in memory right after the value (not counted in its length);
 *                                      regression check: the answer must not depend on <next>
 *   decvx <leaf> <hex>                 as decv through lyd_value_validate only, the value in a heap block of
 *                                      exactly its length (no terminator): any read past the value is seen by ASan
 *   cmp <leaf> <hex a> <hex b>         term a created; lyd_value_compare(a, b) -> 0 equal | 1 differ | E;
 *                                      lyd_compare_single() of the two terms must agree (else " SINGLE=<rc>")
 *   sort <L-leaf> <hex a> <hex b>      both inserted (a first) into the leaf-list; canonical values in
 *                                      the resulting order "<hex> <hex>" | E
 *   range <s|u> <v> <lo> <hi> ...      lyplg_type_validate_range() on hand-made parts (s: int64 compare,
 *                                      u: uint64 compare) -> 1 accepted | 0 rejected
 */
#include "common.h"
#include "libyang.h"
#include "plugins_types.h"

static const char *MODULE =
    "module t {namespace urn:t; prefix t; yang-version 1.1;\n"
    "  leaf i8 {type int8;} leaf i16 {type int16;} leaf i32 {type int32;} leaf i64 {type int64;}\n"
    "  leaf u8 {type uint8;} leaf u16 {type uint16;} leaf u32 {type uint32;} leaf u64 {type uint64;}\n"
    "  leaf i8r {type int8 {range \"-100..-10 | 0 | 5..20 | 100..max\";}}\n"
    "  leaf i16r {type int16 {range \"min..-32000 | -1..1 | 32767\";}}\n"
    "  leaf i32r {type int32 {range \"min..-1000 | -5..5 | 10 | 1000..2000000000\";}}\n"
    "  leaf i64r {type int64 {range \"min..-9223372036854775807 | -1..1 | 9223372036854775806..max\";}}\n"
    "  leaf u8r {type uint8 {range \"1..10 | 20 | 200..max\";}}\n"
    "  leaf u16r {type uint16 {range \"0 | 1000..2000 | 65535\";}}\n"
    "  leaf u32r {type uint32 {range \"10..20 | 4294967295\";}}\n"
    "  leaf u64r {type uint64 {range \"0..9 | 9223372036854775807..9223372036854775808 | 18446744073709551614..max\";}}\n"
    "  leaf d1 {type decimal64 {fraction-digits 1;}} leaf d2 {type decimal64 {fraction-digits 2;}}\n"
    "  leaf d9 {type decimal64 {fraction-digits 9;}} leaf d18 {type decimal64 {fraction-digits 18;}}\n"
    "  leaf d1r {type decimal64 {fraction-digits 1; range \"min..-100.5 | -1.0..1.0 | 922337203685477580.0..max\";}}\n"
    "  leaf d2r {type decimal64 {fraction-digits 2; range \"-10.5..-1.25 | 0 | 3.14..100\";}}\n"
    "  leaf d9r {type decimal64 {fraction-digits 9; range \"-0.000000001..0.000000001 | 1..2.5\";}}\n"
    "  leaf d18r {type decimal64 {fraction-digits 18; range \"-1.5..-0.000000000000000001 | 0.5..9\";}}\n"
    "  leaf b {type boolean;}\n"
    "  container c {\n"
    "    leaf-list Li8 {type int8;} leaf-list Li16 {type int16;} leaf-list Li32 {type int32;} leaf-list Li64 {type int64;}\n"
    "    leaf-list Lu8 {type uint8;} leaf-list Lu16 {type uint16;} leaf-list Lu32 {type uint32;} leaf-list Lu64 {type uint64;}\n"
    "    leaf-list Ld1 {type decimal64 {fraction-digits 1;}} leaf-list Ld2 {type decimal64 {fraction-digits 2;}}\n"
    "    leaf-list Ld9 {type decimal64 {fraction-digits 9;}} leaf-list Ld18 {type decimal64 {fraction-digits 18;}}\n"
    "    leaf-list Lb {type boolean;}\n"
    "  }\n"
    "}\n";

static void
log_cb(LY_LOG_LEVEL level, const char *msg, const char *data_path, const char *schema_path, uint64_t line)
{
    (void)level; (void)msg; (void)data_path; (void)schema_path; (void)line;
}

static void
put_str(const char *s)
{
    vputhex(s, strlen(s));
}

int
main(void)
{
    struct vcase c;
    struct ly_ctx *ctx = NULL;
    struct lys_module *mod = NULL;
    const struct lysc_node *cont;

    ly_set_log_clb(log_cb);
    if (ly_ctx_new(NULL, 0, &ctx) || lys_parse_mem(ctx, MODULE, LYS_IN_YANG, &mod)) {
        fprintf(stderr, "ctx/module\n");
        return 2;
    }
    cont = lys_find_child(NULL, mod, "c", 0, LYS_CONTAINER, 0);

    while (vnext(&c)) {
        const char *comp = c.f[0];

        if ((!strcmp(comp, "intv") || !strcmp(comp, "decv") || !strcmp(comp, "boolv") || !strcmp(comp, "decvn")) && (c.nf >= 3)) {
            int with_next = !strcmp(comp, "decvn") && (c.nf >= 4);
            size_t len, nlen = 0;
            char *s = vunhex(c.f[2], &len), *nx = NULL, *buf;
            const struct lysc_node *schema = lys_find_child(NULL, mod, c.f[1], 0, LYS_LEAF, 0);
            const char *canon = NULL;
            char *first = NULL;

            if (with_next) {
                nx = vunhex(c.f[3], &nlen);
            }
            buf = calloc(1, len + nlen + 8);
            memcpy(buf, s, len);
            if (nlen) {
                memcpy(buf + len, nx, nlen);
            }
            if (!schema) {
                printf("?");
            } else {
                if (lyd_value_validate(ctx, schema, buf, len, NULL, NULL, &canon)) {
                    printf("E");
                    first = NULL;
                } else {
                    put_str(canon);
                    first = strdup(canon);
                    lydict_remove(ctx, canon);
                }
                if (!with_next && !memchr(s, 0, len)) {
                    /* same lexical value through the value-creating API */
                    struct lyd_node *n = NULL;
                    LY_ERR r = lyd_new_term(NULL, mod, c.f[1], buf, 0, &n);

                    if (r) {
                        if (first) {
                            printf(" NEWTERM=E");
                        }
                    } else {
                        const char *v = lyd_get_value(n);

                        if (!first || strcmp(first, v)) {
                            printf(" NEWTERM=");
                            put_str(v);
                        }
                        lyd_free_tree(n);
                    }
                }
            }
            free(first);
            free(buf);
            free(nx);
            free(s);
        } else if (!strcmp(comp, "decvx") && (c.nf >= 3)) {
            size_t len;
            char *s = vunhex(c.f[2], &len), *exact = malloc(len ? len : 1);
            const struct lysc_node *schema = lys_find_child(NULL, mod, c.f[1], 0, LYS_LEAF, 0);
            const char *canon = NULL;

            memcpy(exact, s, len);
            if (!schema) {
                printf("?");
            } else if (lyd_value_validate(ctx, schema, exact, len, NULL, NULL, &canon)) {
                printf("E");
            } else {
                put_str(canon);
                lydict_remove(ctx, canon);
            }
            free(exact);
            free(s);
        } else if (!strcmp(comp, "cmp") && (c.nf >= 4)) {
            size_t la, lb;
            char *a = vunhex(c.f[2], &la), *b = vunhex(c.f[3], &lb);
            struct lyd_node *na = NULL, *nb = NULL;

            if (lyd_new_term(NULL, mod, c.f[1], a, 0, &na)) {
                printf("E");
            } else {
                LY_ERR r = lyd_value_compare((struct lyd_node_term *)na, b, lb);

                if (r == LY_SUCCESS) {
                    printf("0");
                } else if (r == LY_ENOT) {
                    printf("1");
                } else {
                    printf("E");
                }
                if (((r == LY_SUCCESS) || (r == LY_ENOT)) && !memchr(b, 0, lb)) {
                    if (lyd_new_term(NULL, mod, c.f[1], b, 0, &nb)) {
                        printf(" SINGLE=E");
                    } else {
                        LY_ERR r2 = lyd_compare_single(na, nb, 0);

                        if (r2 != r) {
                            printf(" SINGLE=%d", (int)r2);
                        }
                    }
                }
            }
            lyd_free_tree(na);
            lyd_free_tree(nb);
            free(a);
            free(b);
        } else if (!strcmp(comp, "sort") && (c.nf >= 4)) {
            size_t la, lb;
            char *a = vunhex(c.f[2], &la), *b = vunhex(c.f[3], &lb);
            struct lyd_node *root = NULL, *ch;

            if (lyd_new_inner(NULL, mod, "c", 0, &root) || lyd_new_term(root, NULL, c.f[1], a, 0, NULL) ||
                    lyd_new_term(root, NULL, c.f[1], b, 0, NULL)) {
                printf("E");
            } else {
                int k = 0;

                for (ch = lyd_child(root); ch; ch = ch->next) {
                    if (k++) {
                        fputc(' ', stdout);
                    }
                    put_str(lyd_get_value(ch));
                }
            }
            lyd_free_tree(root);
            free(a);
            free(b);
        } else if (!strcmp(comp, "range") && (c.nf >= 3)) {
            int uns = (c.f[1][0] == 'u');
            int n = (c.nf - 3) / 2;
            struct lysc_range range;
            struct ly_err_item *err = NULL;
            char *mem = calloc(1, sizeof(LY_ARRAY_COUNT_TYPE) + (n + 1) * sizeof *range.parts);
            int64_t v = uns ? (int64_t)strtoull(c.f[2], NULL, 10) : (int64_t)strtoll(c.f[2], NULL, 10);
            LY_ERR r;

            memset(&range, 0, sizeof range);
            if (n) {
                *(LY_ARRAY_COUNT_TYPE *)mem = n;
                range.parts = (void *)(mem + sizeof(LY_ARRAY_COUNT_TYPE));
                for (int i = 0; i < n; i++) {
                    if (uns) {
                        range.parts[i].min_u64 = strtoull(c.f[3 + 2 * i], NULL, 10);
                        range.parts[i].max_u64 = strtoull(c.f[4 + 2 * i], NULL, 10);
                    } else {
                        range.parts[i].min_64 = strtoll(c.f[3 + 2 * i], NULL, 10);
                        range.parts[i].max_64 = strtoll(c.f[4 + 2 * i], NULL, 10);
                    }
                }
            }
            r = lyplg_type_validate_range(uns ? LY_TYPE_UINT64 : LY_TYPE_INT64, &range, v, "x", 1, &err);
            printf("%d", r ? 0 : 1);
            ly_err_free(err);
            free(mem);
        } else {
            printf("?");
        }
        ly_err_clean(ctx, NULL);
        VEND();
    }
    (void)cont;
    ly_ctx_destroy(ctx);
    return 0;
}
