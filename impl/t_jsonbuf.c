/* t_jsonbuf.c - white-box driver of slice jsonbuf: the buffer bookkeeping of lyjson_string() of src/json.c (static;
 * reached by including json.c from the working tree).
 *
 * Nothing in json.c is edited. As in t_xmlbuf.c the allocator calls are observed through function-like macros
 * malloc / ly_realloc / free defined after all headers of json.c have been included and before the file itself; while
 * a case runs the hooks record the requested sizes. That sequence (24, then variable size + increment at each growth,
 * then the exact final size) together with the returned length is what the function decides about its block, so it
 * is compared with the model; the stores themselves are observed by the sanitizer build of this driver.
 *
 * Case:  jbuf <events> <hex text>      the text is what follows the opening quotation mark
 *        ->  ok <dynamic> <length> <calls>   |   err <calls>        calls: mN malloc, rN realloc, f free, `-` none
 *        post-conditions (suffix " !<what>"): dynamic value whose strlen differs from the length; success without a
 *        value; the input position not right after the closing quotation mark; error without error record.
 */
#include "common.h"
#include <assert.h>
#include <errno.h>
#include <sys/types.h>
#include "in_internal.h"
#include "json.h"
#include "ly_common.h"
#include "tree_schema_internal.h"

static int jb_on;
static char jb_tr[1 << 20];
static size_t jb_n;

static void
jb_note(char k, size_t n)
{
    if (jb_on && (jb_n + 32 < sizeof jb_tr)) {
        if (k == 'f') {
            jb_n += (size_t)sprintf(jb_tr + jb_n, "%sf", jb_n ? "," : "");
        } else {
            jb_n += (size_t)sprintf(jb_tr + jb_n, "%s%c%zu", jb_n ? "," : "", k, n);
        }
    }
}

static void *
jb_malloc(size_t n)
{
    jb_note('m', n);
    return malloc(n);
}

static void *
jb_realloc(void *p, size_t n)
{
    jb_note('r', n);
    return ly_realloc(p, n);
}

static void
jb_free(void *p)
{
    if (p) {
        jb_note('f', 0);
    }
    free(p);
}

#define malloc(n) jb_malloc(n)
#define ly_realloc(p, n) jb_realloc(p, n)
#define free(p) jb_free(p)
#include "json.c"
#undef malloc
#undef ly_realloc
#undef free

static void
log_cb(LY_LOG_LEVEL level, const char *msg, const char *data_path, const char *schema_path, uint64_t line)
{
    (void)level; (void)msg; (void)data_path; (void)schema_path; (void)line;
}

int
main(void)
{
    struct vcase c;
    struct ly_ctx *ctx = NULL;

    ly_set_log_clb(log_cb);
    if (ly_ctx_new(NULL, 0, &ctx)) {
        fprintf(stderr, "ctx\n");
        return 2;
    }

    while (vnext(&c)) {
        if (!strcmp(c.f[0], "jbuf") && (c.nf > 2)) {
            size_t len;
            char *raw = vunhex(c.f[2], &len), *s;
            struct ly_in *in = NULL;
            struct lyjson_ctx j;
            LY_ERR r;

            /* exact copy: the NUL is the last byte of the block */
            s = malloc(len + 1);
            memcpy(s, raw, len);
            s[len] = '\0';
            free(raw);

            memset(&j, 0, sizeof j);
            ly_in_new_memory(s, &in);
            j.ctx = ctx;
            j.in = in;
            ly_err_clean(ctx, NULL);
            jb_n = 0;
            jb_tr[0] = '\0';
            jb_on = 1;
            r = lyjson_string(&j);
            jb_on = 0;
            if (r) {
                printf("err %s", jb_n ? jb_tr : "-");
                if (!ly_err_last(ctx) || !ly_err_last(ctx)->msg) {
                    printf(" !no-error-record");
                }
            } else {
                printf("ok %d %zu %s", j.dynamic ? 1 : 0, j.value_len, jb_n ? jb_tr : "-");
                if (!j.value) {
                    printf(" !null-value");
                } else if (j.dynamic && (strlen(j.value) != j.value_len)) {
                    printf(" !strlen=%zu", strlen(j.value));
                }
                if ((in->current == s) || (in->current[-1] != '"')) {
                    printf(" !not-after-quote");
                }
                if (j.dynamic) {
                    free((char *)j.value);
                }
            }
            ly_in_free(in, 0);
            ly_err_clean(ctx, NULL);
            free(s);
        } else {
            printf("?");
        }
        VEND();
    }
    ly_ctx_destroy(ctx);
    return 0;
}
