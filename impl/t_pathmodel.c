/* t_pathmodel.c - driver of slice `pathmodel` (property C15): lyd_path / ly_path_parse / lyd_find_path / lyd_new_path2
 * on every node of a generated tree, to be compared with the extracted model coq/PathModel.v.
 *
 * Case lines (TAB separated):
 *   pmd <type> <yang1-hex> <yang2-hex|-> <doc-hex>                      stage 1: dump what the model needs as input
 *       -> "<schema dump> <tree dump>"   or  "M<rc>" (module rejected) / "D<rc>" (document rejected)
 *   pm  <type> <yang1-hex> <yang2-hex|-> <doc-hex> <schema dump> <tree dump> <query>...
 *       -> the answers of the queries separated by one blank
 *   type: d = data (lyd_parse_data, JSON, parse only), r = RPC / action request, y = reply, n = notification (lyd_parse_op)
 *
 * dumps: records joined by ';' in document order (schema: lys_getnext order of the modules of the case, an RPC / action has
 *   its input children, for type y its output children):   <depth>,<module>,<name>,<kind>[,<value-hex>]
 *   kind: c<presence> container (rpc, action, notification: c1) | L<keyless><config-w> list | T<config-w>~<type> leaf-list |
 *         f<key>~<type> leaf | a anydata / anyxml;  type: s | i8..i64 | u8..u64 | b | e<hex name>.<hex name>... | x (other)
 *   an empty dump is "-"
 * queries and answers:
 *   P                      -> P:<hex lyd_path(LYD_PATH_STD) of every node, document order, joined by ','>
 *   W:<flags> / Q:<flag>   -> echoed: what the model has to compute (W: swf, dwf, quotes_ok of the input; Q: the input is the
 *                             example tree of Properties_C15_pathmodel.v)
 *   F:<path-hex>           -> F:<0|E ly_path_parse()>:<S<pos> | I<pos> | N | E<rc>>   lyd_find_path(first sibling, path, type == y)
 *                             pos = child indices from the top level joined by '.'; I = LY_EINCOMPLETE with the partial match
 *   Y:<path-hex>           -> Y:<positions of the nodes lyd_find_xpath(tree, path) selects, joined by ',' | - | E<rc>>
 *   G:<path-hex>:<val-hex> -> G:ok | G:BAD-<what>:<path-hex>   lyd_change_term(node of path, value), then the NEW path of the node
 *                             has to find it (lyd_find_path, lyd_find_xpath) and lyd_new_path2 has to report LY_EEXIST; value restored
 *   N:<path-hex>:<val-hex> -> N:<E<rc> | dump of the created tree>                   lyd_new_path2(NULL, ctx, path, value, ..)
 *   X:<path-hex>:<val-hex> -> X:<E<rc> | <pos of the parent of the first created node or ->:<dump of the created chain>>
 *                             lyd_new_path2(tree, NULL, path, value, ..); the created nodes are freed again
 */
#include "common.h"

#include "libyang.h"
#include "path.h"
#include "xpath.h"

static void
log_cb(LY_LOG_LEVEL level, const char *msg, const char *data_path, const char *schema_path, uint64_t line)
{
    (void)level; (void)schema_path; (void)line;
    if (getenv("LYX_DEBUG")) {
        fprintf(stderr, "LOG: %s (%s)\n", msg, data_path ? data_path : "");
    }
}

/* type of a leaf / leaf-list: s string | i8 .. i64, u8 .. u64 | b boolean | e<hex name>.<hex name>... enumeration | x other */
static void
put_type(const struct lysc_type *t)
{
    LY_ARRAY_COUNT_TYPE u;

    fputc('~', stdout);
    switch (t->basetype) {
    case LY_TYPE_STRING: printf("s"); break;
    case LY_TYPE_INT8: printf("i8"); break;
    case LY_TYPE_INT16: printf("i16"); break;
    case LY_TYPE_INT32: printf("i32"); break;
    case LY_TYPE_INT64: printf("i64"); break;
    case LY_TYPE_UINT8: printf("u8"); break;
    case LY_TYPE_UINT16: printf("u16"); break;
    case LY_TYPE_UINT32: printf("u32"); break;
    case LY_TYPE_UINT64: printf("u64"); break;
    case LY_TYPE_BOOL: printf("b"); break;
    case LY_TYPE_ENUM:
        printf("e");
        LY_ARRAY_FOR(((const struct lysc_type_enum *)t)->enums, u) {
            const char *nm = ((const struct lysc_type_enum *)t)->enums[u].name;

            if (u) {
                fputc('.', stdout);
            }
            vputhex(nm, strlen(nm));
        }
        break;
    default: printf("x"); break;
    }
}

static void
put_kind(const struct lysc_node *s)
{
    switch (s->nodetype) {
    case LYS_LIST:
        printf("L%d%d", (s->flags & LYS_KEYLESS) ? 1 : 0, (s->flags & LYS_CONFIG_W) ? 1 : 0);
        break;
    case LYS_LEAFLIST:
        printf("T%d", (s->flags & LYS_CONFIG_W) ? 1 : 0);
        put_type(((const struct lysc_node_leaflist *)s)->type);
        break;
    case LYS_LEAF:
        printf("f%d", (s->flags & LYS_KEY) ? 1 : 0);
        put_type(((const struct lysc_node_leaf *)s)->type);
        break;
    case LYS_ANYDATA:
    case LYS_ANYXML:
        printf("a");
        break;
    case LYS_CONTAINER:
        printf("c%d", (s->flags & LYS_PRESENCE) ? 1 : 0);
        break;
    default:
        /* rpc, action, notification: never a default node */
        printf("c1");
        break;
    }
}

static int nrec;

static void
dump_schema(const struct lysc_node *parent, const struct lysc_module *mod, int depth, uint32_t opts)
{
    const struct lysc_node *s = NULL;

    while ((s = lys_getnext(s, parent, mod, opts))) {
        if (nrec++) {
            fputc(';', stdout);
        }
        printf("%d,%s,%s,", depth, s->module->name, s->name);
        put_kind(s);
        if (s->nodetype & (LYS_CONTAINER | LYS_LIST | LYS_RPC | LYS_ACTION | LYS_NOTIF)) {
            dump_schema(s, NULL, depth + 1, opts);
        }
    }
}

static void dump_data(const struct lyd_node *first, int depth);

static void
dump_node(const struct lyd_node *n, int depth)
{
    if (nrec++) {
        fputc(';', stdout);
    }
    if (!n->schema) {
        printf("%d,?,?,o,-", depth);
        return;
    }
    printf("%d,%s,%s,", depth, n->schema->module->name, n->schema->name);
    put_kind(n->schema);
    fputc(',', stdout);
    if (n->schema->nodetype & LYD_NODE_TERM) {
        const char *v = lyd_get_value(n);

        vputhex(v, strlen(v));
    } else {
        fputc('-', stdout);
    }
    dump_data(lyd_child(n), depth + 1);
}

static void
dump_data(const struct lyd_node *first, int depth)
{
    const struct lyd_node *n;

    LY_LIST_FOR(first, n) {
        dump_node(n, depth);
    }
}

static void
put_pos(const struct lyd_node *n)
{
    const struct lyd_node *chain[256], *it;
    int d = 0, i;

    if (!n) {
        fputc('-', stdout);
        return;
    }
    for (it = n; it && (d < 256); it = lyd_parent(it)) {
        chain[d++] = it;
    }
    for (i = d - 1; i >= 0; --i) {
        long idx = 0;

        for (it = chain[i]; it->prev->next; it = it->prev) {
            ++idx;
        }
        printf("%s%ld", (i == d - 1) ? "" : ".", idx);
    }
}

static struct lyd_node *
dfs_next(struct lyd_node *n)
{
    struct lyd_node *c = lyd_child(n);

    if (c) {
        return c;
    }
    while (n) {
        if (n->next) {
            return n->next;
        }
        n = lyd_parent(n);
    }
    return NULL;
}

/* the empty value is passed as NULL (an anydata node is then created with an empty tree; terms take NULL as the empty string) */
#define VAL(v) (((v) && (v)[0]) ? (v) : NULL)

static void
put_rc(LY_ERR rc)
{
    printf("E%d", (int)rc);
}

static void
query(struct ly_ctx *ctx, struct lyd_node *tree, int out, char *q)
{
    char *path = NULL, *val = NULL, *colon;
    struct lyd_node *n, *np = NULL, *nn = NULL, *m = NULL;
    struct lyxp_expr *exp = NULL;
    LY_ERR rc;
    uint32_t nopts = out ? LYD_NEW_VAL_OUTPUT : 0;
    int i = 0;

    if (q[0] == 'P') {
        printf("P:");
        if (!tree) {
            fputc('-', stdout);
        }
        for (n = tree; n; n = dfs_next(n)) {
            char *p = n->schema ? lyd_path(n, LYD_PATH_STD, NULL, 0) : NULL;

            if (i++) {
                fputc(',', stdout);
            }
            vputhex(p ? p : "", p ? strlen(p) : 0);
            free(p);
        }
        return;
    }
    if ((q[0] == 'W') || (q[0] == 'Q')) {
        /* well-formedness flags the model has to compute: echoed */
        printf("%s", q);
        return;
    }
    colon = strchr(q + 2, ':');
    if (colon) {
        *colon = 0;
        val = vunhex(colon + 1, NULL);
    }
    path = vunhex(q + 2, NULL);
    printf("%c:", q[0]);
    switch (q[0]) {
    case 'F':
        rc = ly_path_parse(ctx, NULL, path, strlen(path), 0, LY_PATH_BEGIN_EITHER, LY_PATH_PREFIX_FIRST, LY_PATH_PRED_SIMPLE, &exp);
        printf("%s:", rc ? "E" : "0");
        lyxp_expr_free(ctx, exp);
        if (!tree) {
            printf("-");
            break;
        }
        rc = lyd_find_path(tree, path, out, &m);
        if (!rc) {
            printf("S");
            put_pos(m);
        } else if (rc == LY_EINCOMPLETE) {
            printf("I");
            put_pos(m);
        } else if (rc == LY_ENOTFOUND) {
            printf("N");
        } else {
            put_rc(rc);
        }
        break;
    case 'Y': {
        /* lyd_find_xpath(tree, path): the positions of the selected nodes */
        struct ly_set *set = NULL;
        uint32_t k;

        if (!tree) {
            printf("-");
            break;
        }
        rc = lyd_find_xpath(tree, path, &set);
        if (rc) {
            put_rc(rc);
        } else if (!set || !set->count) {
            printf("-");
        } else {
            for (k = 0; k < set->count; k++) {
                if (k) {
                    fputc(',', stdout);
                }
                put_pos(set->dnodes[k]);
            }
        }
        ly_set_free(set, NULL);
        break;
    }
    case 'G': {
        /* change the value of the term node the path selects (lyd_change_term), then the path lyd_path() prints for it has
         * to find it again (path search and XPath search) and creating it has to report LY_EEXIST; the old value is
         * restored afterwards */
        struct ly_set *set = NULL;
        char *old = NULL, *p2 = NULL;
        struct lyd_node *m2 = NULL, *np2 = NULL, *nn2 = NULL;
        const char *bad = NULL;

        if (!tree || lyd_find_path(tree, path, out, &m) || !m || !(m->schema->nodetype & LYD_NODE_TERM)) {
            printf("ok");
            break;
        }
        old = strdup(lyd_get_value(m));
        rc = lyd_change_term(m, val ? val : "");
        if (rc && (rc != LY_EEXIST)) {
            /* not changed (same value, invalid value) */
            printf("ok");
            free(old);
            break;
        }
        tree = lyd_first_sibling(tree);
        p2 = lyd_path(m, LYD_PATH_STD, NULL, 0);
        if (!p2) {
            bad = "path";
        } else if (lyd_find_path(tree, p2, out, &m2) || (m2 != m)) {
            bad = "find_path";
        } else if (lyd_find_xpath(tree, p2, &set) || !set || (set->count != 1) || (set->dnodes[0] != m)) {
            bad = "find_xpath";
        } else if (lyd_new_path2(tree, NULL, p2, lyd_get_value(m), 0, LYD_ANYDATA_STRING, nopts, &np2, &nn2) != LY_EEXIST) {
            bad = "new_path";
            if (np2) {
                lyd_free_tree(np2);
            }
        }
        if (bad) {
            printf("BAD-%s:", bad);
            vputhex(p2 ? p2 : "", p2 ? strlen(p2) : 0);
        } else {
            printf("ok");
        }
        ly_set_free(set, NULL);
        free(p2);
        lyd_change_term(m, old);
        free(old);
        break;
    }
    case 'N':
        rc = lyd_new_path2(NULL, ctx, path, VAL(val), val ? strlen(val) : 0, LYD_ANYDATA_STRING, nopts, &np, &nn);
        if (rc) {
            put_rc(rc);
        } else {
            struct lyd_node *top = np;

            while (top && lyd_parent(top)) {
                top = lyd_parent(top);
            }
            nrec = 0;
            dump_data(top, 0);
            if (!nrec) {
                fputc('-', stdout);
            }
            lyd_free_all(top);
        }
        break;
    case 'X':
        if (!tree) {
            printf("-");
            break;
        }
        rc = lyd_new_path2(tree, NULL, path, VAL(val), val ? strlen(val) : 0, LYD_ANYDATA_STRING, nopts, &np, &nn);
        if (rc) {
            put_rc(rc);
        } else if (!np) {
            printf("-:-");
        } else {
            put_pos(lyd_parent(np));
            fputc(':', stdout);
            /* the created chain only: np and what is below it */
            nrec = 0;
            dump_node(np, 0);
            lyd_free_tree(np);
        }
        break;
    default:
        printf("?");
        break;
    }
    free(path);
    free(val);
}

int
main(void)
{
    struct vcase c;

    ly_set_log_clb(log_cb);
    ly_log_options(LY_LOLOG | LY_LOSTORE_LAST);
    while (vnext(&c)) {
        struct ly_ctx *ctx = NULL;
        struct lyd_node *tree = NULL, *op = NULL;
        struct ly_in *in = NULL;
        const struct lys_module *mods[2] = {NULL, NULL};
        char *txt, type;
        int i, stage1, out;
        LY_ERR rc;

        if ((c.nf < 5) || (strcmp(c.f[0], "pm") && strcmp(c.f[0], "pmd"))) {
            printf("?");
            VEND();
            continue;
        }
        stage1 = !strcmp(c.f[0], "pmd");
        type = c.f[1][0];
        out = (type == 'y');
        rc = ly_ctx_new(NULL, LY_CTX_NO_YANGLIBRARY, &ctx);
        for (i = 0; !rc && (i < 2); i++) {
            if (c.f[2 + i][0] == '-') {
                continue;
            }
            txt = vunhex(c.f[2 + i], NULL);
            rc = lys_parse_mem(ctx, txt, LYS_IN_YANG, (struct lys_module **)&mods[i]);
            free(txt);
        }
        if (rc) {
            printf("M%d", (int)rc);
            goto next;
        }
        txt = vunhex(c.f[4], NULL);
        if (txt[0]) {
            ly_in_new_memory(txt, &in);
            if (type == 'd') {
                rc = lyd_parse_data(ctx, NULL, in, LYD_JSON, LYD_PARSE_ONLY | LYD_PARSE_STRICT, 0, &tree);
            } else {
                rc = lyd_parse_op(ctx, NULL, in, LYD_JSON, (type == 'r') ? LYD_TYPE_RPC_YANG : (type == 'n') ? LYD_TYPE_NOTIF_YANG :
                        LYD_TYPE_REPLY_YANG, &tree, &op);
            }
            ly_in_free(in, 0);
        }
        free(txt);
        if (rc) {
            printf("D%d", (int)rc);
            lyd_free_all(tree);
            goto next;
        }
        tree = lyd_first_sibling(tree);
        if (stage1) {
            nrec = 0;
            for (i = 0; i < 2; i++) {
                if (mods[i] && mods[i]->compiled) {
                    dump_schema(NULL, mods[i]->compiled, 0, out ? LYS_GETNEXT_OUTPUT : 0);
                }
            }
            if (!nrec) {
                fputc('-', stdout);
            }
            fputc(' ', stdout);
            nrec = 0;
            dump_data(tree, 0);
            if (!nrec) {
                fputc('-', stdout);
            }
        } else {
            for (i = 7; i < c.nf; i++) {
                if (i > 7) {
                    fputc(' ', stdout);
                }
                query(ctx, tree, out, c.f[i]);
                tree = lyd_first_sibling(tree);
            }
        }
        lyd_free_all(tree);
next:
        ly_ctx_destroy(ctx);
        VEND();
    }
    return 0;
}
