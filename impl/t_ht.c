/* t_ht.c - driver for src/hash_table.c (public lyht_* API, internals read through
 * hash_table_internal.h) and src/dict.c (lydict_* on a private, otherwise empty context).
 *
 * components
 *   hash   <hex>                               lyht_hash()
 *   hashm  <init> <hex|NULL>                   lyht_hash_multi()
 *   ht     <size> <resize> <val_size> <script> lyht_new() then the script, then a dump of the table
 *            script: comma separated  i<hash>:<val> insert, I insert_no_check, r remove, f find,
 *            n find_next, c find_next_with_collision_cb, d lyht_dup (continue on the duplicate)
 *   dict   <size> <script>                     size 0 = lydict_init(); script: +<hex> insert,
 *            -<hex> remove, *<hex> dup, =<hex> insert_zc (the buffer must be adopted iff the string is new)
 * A failing assert() of the library ends the script with ABORT (asserts are kept in all builds).
 * A library call that does not return within 0.5 s ends the script with FUEL, the model's answer for a
 * loop that runs longer than the arena is large (only reachable on a table corrupted by lyht_dup()).
 */
#include "common.h"
#include <setjmp.h>
#include <signal.h>
#include <sys/time.h>
#include <pthread.h>
#include "dict.c"
#include "hash_table_internal.h"

static jmp_buf abort_jb;
static int abort_armed;

/* glibc's assert() back end: turn a failing library assert into an observable result */
void
__assert_fail(const char *assertion, const char *file, unsigned int line, const char *function)
{
    if (abort_armed) {
        abort_armed = 0;
        longjmp(abort_jb, 1);
    }
    fprintf(stderr, "assert %s failed at %s:%u %s\n", assertion, file, line, function);
    abort();
}

static sigjmp_buf hang_jb;

static void
on_alarm(int sig)
{
    (void)sig;
    siglongjmp(hang_jb, 1);
}

static void
hang_timer(int on)
{
    struct itimerval it;

    memset(&it, 0, sizeof it);
    if (on) {
        signal(SIGALRM, on_alarm);
        it.it_value.tv_usec = 500000;
    }
    setitimer(ITIMER_REAL, &it, NULL);
}

static uint16_t g_val_size;

static uint64_t
val_load(const void *p)
{
    uint64_t v = 0;

    memcpy(&v, p, g_val_size);
    return v;
}

static ly_bool
val_eq(void *v1, void *v2, ly_bool mod, void *cb_data)
{
    (void)mod; (void)cb_data;
    return val_load(v1) == val_load(v2);
}

static ly_bool
col_eq(void *v1, void *v2, ly_bool mod, void *cb_data)
{
    (void)cb_data;
    if (mod) {
        return val_load(v1) == val_load(v2);
    }
    return val_load(v1) / 16 == val_load(v2) / 16;
}

static void
dump_ht(struct ly_ht *ht, int isdict)
{
    uint32_t b, idx, steps;
    struct ly_ht_rec *rec;

    printf("S%" PRIu32 " U%" PRIu32 " R%u F%" PRIu32 " |", ht->size, ht->used, (unsigned)ht->resize, ht->first_free_rec);
    for (b = 0; b < ht->size; b++) {
        uint32_t first = ht->hlists[b].first, last = ht->hlists[b].last;
        int firstp = 1;

        if ((first == LYHT_NO_RECORD) && (last == LYHT_NO_RECORD)) {
            continue;
        }
        printf(" %" PRIu32 "[%" PRIu32 ",%" PRIu32 "]:", b, first, last);
        idx = first;
        steps = 0;
        while ((idx != LYHT_NO_RECORD) && (steps <= ht->size)) {
            if (!firstp) {
                putchar(',');
            }
            firstp = 0;
            if (idx >= ht->size) {
                printf("!%" PRIu32, idx);
                idx = LYHT_NO_RECORD;
            } else {
                rec = lyht_get_rec(ht->recs, ht->rec_size, idx);
                printf("%" PRIu32 "/%" PRIu32 "/", idx, rec->hash);
                if (isdict) {
                    struct ly_dict_rec dr;

                    memcpy(&dr, rec->val, sizeof dr);
                    vputhex(dr.value, strlen(dr.value));
                    printf("*%" PRIu32, dr.refcount);
                } else {
                    printf("%" PRIu64, val_load(rec->val));
                }
                idx = rec->next;
            }
            steps++;
        }
    }
    printf(" | free:");
    idx = ht->first_free_rec;
    steps = 0;
    while ((idx < ht->size) && (idx != LYHT_NO_RECORD) && (steps <= ht->size)) {
        printf("%" PRIu32 ",", idx);
        rec = lyht_get_rec(ht->recs, ht->rec_size, idx);
        idx = rec->next;
        steps++;
    }
    printf(">%" PRIu32, idx);
}

static void
run_ht(struct vcase *c)
{
    uint32_t size = (uint32_t)strtoul(c->f[1], NULL, 10);
    uint16_t rz = (uint16_t)strtoul(c->f[2], NULL, 10);
    struct ly_ht *volatile ht = NULL;
    char *p = c->f[4];
    int nout = 0;

    g_val_size = (uint16_t)strtoul(c->f[3], NULL, 10);
    abort_armed = 1;
    if (setjmp(abort_jb)) {
        hang_timer(0);
        printf(ht ? " || ABORT" : "ABORT");
        return;
    }
    ht = lyht_new(size, g_val_size, val_eq, NULL, rz);
    if (!ht) {
        abort_armed = 0;
        printf("NULL");
        return;
    }
    if (sigsetjmp(hang_jb, 1)) {
        /* the table is corrupt (cyclic chain): do not walk or free it */
        abort_armed = 0;
        printf(" || FUEL");
        return;
    }
    hang_timer(1);
    while (*p && (*p != '-')) {
        char op = *p++;
        uint32_t hash = 0;
        uint64_t val = 0, mv;
        void *match = NULL;
        LY_ERR r;

        if (op != 'd') {
            hash = (uint32_t)strtoul(p, &p, 10);
            p++;    /* ':' */
            val = strtoull(p, &p, 10);
        }
        if (*p == ',') {
            p++;
        }
        /* the separator is printed once the operation has returned (an assert may end it) */
#define SEP() do { if (nout++) { putchar(' '); } } while (0)
        switch (op) {
        case 'i':
        case 'I':
            r = (op == 'i') ? lyht_insert(ht, &val, hash, &match) : lyht_insert_no_check(ht, &val, hash, &match);
            mv = match ? val_load(match) : 0;
            SEP();
            printf("%d=%" PRIu64, (int)r, mv);
            break;
        case 'r':
            r = lyht_remove(ht, &val, hash);
            SEP();
            printf("%d", (int)r);
            break;
        case 'f':
            r = lyht_find(ht, &val, hash, &match);
            SEP();
            if (match) {
                printf("%d=%" PRIu64, (int)r, val_load(match));
            } else {
                printf("%d", (int)r);
            }
            break;
        case 'n':
        case 'c':
            r = (op == 'n') ? lyht_find_next(ht, &val, hash, &match) :
                    lyht_find_next_with_collision_cb(ht, &val, hash, col_eq, &match);
            SEP();
            if (!r && match) {
                printf("%d=%" PRIu64, (int)r, val_load(match));
            } else {
                printf("%d", (int)r);
            }
            break;
        case 'd': {
            struct ly_ht *n = lyht_dup(ht);

            lyht_free(ht, NULL);
            ht = n;
            SEP();
            printf("0");
            break;
        }
        default:
            SEP();
            printf("?");
            break;
        }
    }
    hang_timer(0);
    abort_armed = 0;
    printf(" || ");
    dump_ht(ht, 0);
    lyht_free(ht, NULL);
}

/* strings the driver holds a reference to: hex key -> pointer returned by the dictionary */
struct held {
    char *key;
    const char *ptr;
    uint32_t cnt;
};

static struct held *
held_find(struct held *h, int n, const char *key)
{
    for (int i = 0; i < n; i++) {
        if (h[i].cnt && !strcmp(h[i].key, key)) {
            return &h[i];
        }
    }
    return NULL;
}

static void
run_dict(struct vcase *c)
{
    uint32_t size = (uint32_t)strtoul(c->f[1], NULL, 10);
    static struct ly_ctx fctx;
    struct held *held = NULL;
    int nheld = 0, nout = 0, nop = 0;
    volatile int started = 0;
    char *p = c->f[2];

    memset(&fctx, 0, sizeof fctx);
    abort_armed = 1;
    if (setjmp(abort_jb)) {
        printf(started ? " || ABORT" : "ABORT");
        return;
    }
    if (!size) {
        lydict_init(&fctx.dict);
    } else {
        fctx.dict.hash_tab = lyht_new(size, sizeof(struct ly_dict_rec), lydict_val_eq, NULL, 1);
        pthread_mutex_init(&fctx.dict.lock, NULL);
    }
    started = 1;
    held = calloc(strlen(p) + 2, sizeof *held);
    while (*p && (*p != '-' || p[1])) {
        char op = *p++, *q, save, *s, *buf;
        const char *out = NULL;
        size_t len;
        struct held *h;
        LY_ERR r;

        if ((op != '+') && (op != '-') && (op != '*') && (op != '=')) {
            printf("?");
            break;
        }
        q = strchr(p, ',');
        if (!q) {
            q = p + strlen(p);
        }
        save = *q;
        *q = 0;
        s = vunhex(p, &len);
        h = held_find(held, nheld, p);
        nop++;
        switch (op) {
        case '+':
            if (len && (nop & 1)) {
                /* explicit length, the buffer continues with other bytes */
                buf = malloc(len + 8);
                memcpy(buf, s, len);
                memcpy(buf + len, "~junk~", 7);
                r = lydict_insert(&fctx, buf, len, &out);
                free(buf);
            } else {
                r = lydict_insert(&fctx, s, 0, &out);
            }
            SEP();
            printf("%d=", (int)r);
            if (out) {
                vputhex(out, strlen(out));
            } else {
                printf("NULL");
            }
            if (!r) {
                if (h) {
                    if (h->ptr != out) {
                        printf("!ptr");
                    }
                    h->cnt++;
                } else {
                    held[nheld].key = strdup(p);
                    held[nheld].ptr = out;
                    held[nheld].cnt = 1;
                    nheld++;
                }
            }
            break;
        case '=':
            /* zero copy: the dictionary owns the buffer from now on (adopts it or frees it) */
            buf = malloc(len + 1);
            memcpy(buf, s, len);
            buf[len] = 0;
            r = lydict_insert_zc(&fctx, buf, &out);
            SEP();
            printf("%d=", (int)r);
            if (out) {
                vputhex(out, strlen(out));
            } else {
                printf("NULL");
            }
            if (!r) {
                /* adopted exactly when the string was not there */
                if ((out == buf) != (h == NULL)) {
                    printf("!zc");
                }
                if (h) {
                    if (h->ptr != out) {
                        printf("!ptr");
                    }
                    h->cnt++;
                } else {
                    held[nheld].key = strdup(p);
                    held[nheld].ptr = out;
                    held[nheld].cnt = 1;
                    nheld++;
                }
            }
            break;
        case '-':
            /* alternately through the held pointer and through a private copy */
            r = lydict_remove(&fctx, (h && (nop & 1)) ? h->ptr : s);
            SEP();
            printf("%d=-", (int)r);
            if (!r && h) {
                h->cnt--;
            }
            break;
        case '*':
            r = lydict_dup(&fctx, h ? h->ptr : s, &out);
            SEP();
            printf("%d=", (int)r);
            if (!r && out) {
                vputhex(out, strlen(out));
                if (h && (h->ptr != out)) {
                    printf("!ptr");
                }
                if (h) {
                    h->cnt++;
                }
            } else {
                printf("-");
            }
            break;
        }
        free(s);
        *q = save;
        p = q;
        if (*p == ',') {
            p++;
        }
    }
    abort_armed = 0;
    printf(" || ");
    dump_ht(fctx.dict.hash_tab, 1);
    {
        /* release what is left so that the table can be freed without reports */
        struct ly_ht_rec *rec;
        uint32_t hlist_idx, rec_idx;
        struct ly_ht *ht = fctx.dict.hash_tab;

        LYHT_ITER_ALL_RECS(ht, hlist_idx, rec_idx, rec) {
            struct ly_dict_rec dr;

            memcpy(&dr, rec->val, sizeof dr);
            free(dr.value);
        }
        lyht_free(ht, NULL);
        pthread_mutex_destroy(&fctx.dict.lock);
    }
    for (int i = 0; i < nheld; i++) {
        free(held[i].key);
    }
    free(held);
}

int
main(void)
{
    struct vcase c;

    ly_log_options(0);
    while (vnext(&c)) {
        const char *comp = c.f[0];

        if (!strcmp(comp, "hash") && (c.nf >= 2)) {
            size_t len;
            char *s = vunhex(c.f[1], &len);

            printf("%" PRIu32, lyht_hash(s, len));
            free(s);
        } else if (!strcmp(comp, "hashm") && (c.nf >= 3)) {
            size_t len = 0;
            char *s = strcmp(c.f[2], "NULL") ? vunhex(c.f[2], &len) : NULL;

            printf("%" PRIu32, lyht_hash_multi((uint32_t)strtoul(c.f[1], NULL, 10), s, len));
            free(s);
        } else if (!strcmp(comp, "ht") && (c.nf >= 5)) {
            run_ht(&c);
        } else if (!strcmp(comp, "dict") && (c.nf >= 3)) {
            run_dict(&c);
        } else {
            printf("?");
        }
        VEND();
    }
    return 0;
}
