(* YangLibP.v - proofs about YangLib.v: what the description tells, and the round trip
   rebuild (describe s) src c0 = Ok s' with the same module records as s (as a set), under imports_pinned *)
From LY Require Import Base HashFn ModHash ModHashP YangLib.
From Coq Require Import ZifyBool ZifyNat ZifyN.
Local Open Scope N_scope.

(* ------------------------------------------------------------------------------------------------ *)
(* reflection and small facts                                                                        *)
(* ------------------------------------------------------------------------------------------------ *)
Lemma beq_bytes_refl a : beq_bytes a a = true.
Proof. apply beq_bytes_eq. reflexivity. Qed.

Lemma beq_orev_eq a b : beq_orev a b = true <-> a = b.
Proof.
  destruct a as [x|], b as [y|]; cbn; split; intros H; try discriminate; try reflexivity.
  - apply beq_bytes_eq in H. congruence.
  - injection H as ->. apply beq_bytes_refl.
Qed.

Lemma beq_key_eq a b : beq_key a b = true <-> a = b.
Proof.
  destruct a as [n r], b as [n' r']. unfold beq_key. cbn [fst snd]. rewrite andb_true_iff, beq_bytes_eq, beq_orev_eq.
  split; [intros [-> ->]; reflexivity|intros H; injection H as -> ->; split; reflexivity].
Qed.

Lemma beq_key_refl k : beq_key k k = true.
Proof. apply beq_key_eq. reflexivity. Qed.

Lemma mkey_eq_dec (a b : mkey) : {a = b} + {a <> b}.
Proof.
  destruct (beq_key a b) eqn:E; [left; apply beq_key_eq; exact E|].
  right. intros ->. rewrite beq_key_refl in E. discriminate.
Qed.

Lemma NoDup_app_one {A} (l : list A) k : NoDup l -> ~ In k l -> NoDup (l ++ [k]).
Proof.
  induction l as [|x l IH]; cbn; intros Hnd Hn.
  - constructor; [intros []|constructor].
  - inversion Hnd as [|? ? Hx Hr]; subst. constructor.
    + intros Hin. apply in_app_iff in Hin. destruct Hin as [Hin|[->|[]]]; [contradiction|].
      apply Hn. left. reflexivity.
    + apply IH; [exact Hr|]. intros Hi. apply Hn. right. exact Hi.
Qed.

Lemma named_eq n x : named n x = true <-> y_name x = n.
Proof. unfold named. rewrite beq_bytes_eq. split; congruence. Qed.

Lemma find_key_some k l m : find_key k l = Some m -> In m l /\ key_of m = k.
Proof.
  unfold find_key. intros H. apply find_some in H. destruct H as [H1 H2].
  apply beq_key_eq in H2. split; [exact H1|congruence].
Qed.

Lemma find_key_none k l : find_key k l = None -> ~ In k (map key_of l).
Proof.
  unfold find_key. intros H Hin. apply in_map_iff in Hin. destruct Hin as (x & Hx & Hin).
  pose proof (find_none _ _ H x Hin) as Hf. cbn in Hf. rewrite <- Hx, beq_key_refl in Hf. discriminate.
Qed.

Lemma find_key_nodup k l m : NoDup (map key_of l) -> In m l -> key_of m = k -> find_key k l = Some m.
Proof.
  unfold find_key. induction l as [|x l IH]; intros Hnd Hin Hk; [destruct Hin|].
  cbn [map] in Hnd. inversion Hnd as [|? ? Hx Hnd']; subst. cbn [find].
  destruct (beq_key (key_of m) (key_of x)) eqn:E.
  - apply beq_key_eq in E. destruct Hin as [->|Hin]; [reflexivity|].
    exfalso. apply Hx. rewrite <- E. apply in_map. exact Hin.
  - destruct Hin as [->|Hin]; [rewrite beq_key_refl in E; discriminate|].
    apply IH; [exact Hnd'|exact Hin|reflexivity].
Qed.

Lemma nodup_key_inj l x y : NoDup (map key_of l) -> In x l -> In y l -> key_of x = key_of y -> x = y.
Proof.
  intros Hnd Hx Hy Hk. pose proof (find_key_nodup (key_of x) l x Hnd Hx eq_refl) as H1.
  pose proof (find_key_nodup (key_of x) l y Hnd Hy (eq_sym Hk)) as H2. congruence.
Qed.

(* blank *)
Lemma blank_feats_idem fs : blank_feats (blank_feats fs) = blank_feats fs.
Proof. unfold blank_feats. rewrite map_map. reflexivity. Qed.

Lemma blank_idem m : blank (blank m) = blank m.
Proof.
  unfold blank, blank_h. cbn [y_mod y_ns y_imports y_subs y_deps h_name h_rev h_feats h_subs].
  rewrite blank_feats_idem, map_map.
  assert (E : map (fun x => blank_feats (blank_feats x)) (h_subs (y_mod m)) = map blank_feats (h_subs (y_mod m)))
    by (apply map_ext; intros fs; apply blank_feats_idem).
  rewrite E. reflexivity.
Qed.

Lemma key_blank m : key_of (blank m) = key_of m.
Proof. reflexivity. Qed.
Lemma imports_blank m : y_imports (blank m) = y_imports m.
Proof. reflexivity. Qed.
Lemma impl_blank m : y_impl (blank m) = false.
Proof. reflexivity. Qed.
Lemma name_blank m : y_name (blank m) = y_name m.
Proof. reflexivity. Qed.
Lemma rev_blank m : y_rev (blank m) = y_rev m.
Proof. reflexivity. Qed.

Lemma key_name_rev x y : key_of x = key_of y -> y_name x = y_name y /\ y_rev x = y_rev y.
Proof. unfold key_of. intros H. injection H as -> ->. split; reflexivity. Qed.

(* latest *)
Lemma latest_in l x : latest l = Some x -> In x l.
Proof.
  revert x; induction l as [|m l IH]; intros x H; cbn in H; [discriminate|].
  destruct (latest l) as [m'|].
  - destruct (rev_lt (y_rev m) (y_rev m')); injection H as <-; [right; apply IH; reflexivity|left; reflexivity].
  - injection H as <-. left. reflexivity.
Qed.

Lemma latest_some l : l <> [] -> exists x, latest l = Some x.
Proof.
  destruct l as [|m l]; [congruence|]. intros _. cbn.
  destruct (latest l) as [m'|]; [destruct (rev_lt (y_rev m) (y_rev m'))|]; eauto.
Qed.

(* a duplicate free list whose elements all have the same image has at most one element *)
Lemma nodup_map_filter {A B} (f : A -> B) p (l : list A) : NoDup (map f l) -> NoDup (map f (filter p l)).
Proof.
  induction l as [|x l IH]; intros H; cbn; [constructor|].
  cbn in H. inversion H as [|? ? Hx Hr]; subst.
  destruct (p x); [|apply IH; exact Hr].
  cbn. constructor; [|apply IH; exact Hr].
  intros Hin. apply Hx. apply in_map_iff in Hin. destruct Hin as (y & Hy & Hin).
  apply filter_In in Hin. rewrite <- Hy. apply in_map. apply Hin.
Qed.

Lemma nodup_const {A B} (f : A -> B) (l : list A) k :
  NoDup (map f l) -> (forall x, In x l -> f x = k) -> l = [] \/ exists x, l = [x].
Proof.
  destruct l as [|x [|y l]]; intros Hnd Hk; [left; reflexivity|right; eauto|].
  exfalso. cbn in Hnd. inversion Hnd as [|? ? Hx _]; subst. apply Hx. left.
  rewrite (Hk x), (Hk y); [reflexivity|right; left; reflexivity|left; reflexivity].
Qed.

(* ------------------------------------------------------------------------------------------------ *)
(* what the description tells                                                                        *)
(* ------------------------------------------------------------------------------------------------ *)
(* reading the entries back: name, revision, implemented, enabled feature names *)
Definition entry_obs (e : yl_module) : bytes * option bytes * bool * list bytes :=
  (ym_name e, ym_rev e, true, ym_features e).
Definition imp_obs (e : yl_imp) : bytes * option bytes * bool * list bytes :=
  (yi_name e, match yi_rev e with [] => None | r => Some r end, false, []).
Definition undescribe (y : yl) : list (bytes * option bytes * bool * list bytes) :=
  map entry_obs (yl_modules y) ++ map imp_obs (yl_imponly y).

(* the conditions under which a module record is fully visible in the description: a present revision is
   not the empty string, and a module that is not implemented has no enabled feature *)
Definition visible (m : ymod) : Prop :=
  y_rev m <> Some [] /\ (y_impl m = false -> enabled_names (concat (groups (y_mod m))) = []).

Lemma describe_module_obs c m : y_impl m = true -> entry_obs (describe_module c m) = obs_flat (y_mod m).
Proof.
  intros H. unfold entry_obs, describe_module, obs_flat, yl_features. cbn [ym_name ym_rev ym_features].
  rewrite H. unfold y_impl in H. rewrite H. reflexivity.
Qed.

Lemma describe_imponly_obs m : visible m -> y_impl m = false -> imp_obs (describe_imponly m) = obs_flat (y_mod m).
Proof.
  intros [Hr Hf] H. unfold imp_obs, describe_imponly, obs_flat. cbn [yi_name yi_rev].
  rewrite (Hf H). unfold y_impl in H. rewrite H. unfold y_name, y_rev in *.
  destruct (h_rev (y_mod m)) as [[|b r]|] eqn:E; [exfalso; apply Hr; reflexivity|reflexivity|reflexivity].
Qed.

Theorem describe_tells_obs cid c : (forall m, In m c -> visible m) ->
  forall o, In o (undescribe (describe cid c)) <-> In o (map (fun m => obs_flat (y_mod m)) c).
Proof.
  intros Hv o. unfold undescribe, describe. cbn [yl_modules yl_imponly].
  rewrite in_app_iff, !map_map, !in_map_iff. split.
  - intros [(m & Ho & Hin)|(m & Ho & Hin)]; apply filter_In in Hin; destruct Hin as [Hin Hi]; exists m; split; try exact Hin.
    + rewrite <- Ho. symmetry. apply describe_module_obs. exact Hi.
    + rewrite <- Ho. symmetry. apply describe_imponly_obs; [apply Hv; exact Hin|].
      destruct (y_impl m); [discriminate|reflexivity].
  - intros (m & Ho & Hin). destruct (y_impl m) eqn:Hi.
    + left. exists m. split; [rewrite describe_module_obs by exact Hi; exact Ho|].
      apply filter_In. split; assumption.
    + right. exists m. split; [rewrite describe_imponly_obs by (try apply Hv; assumption); exact Ho|].
      apply filter_In. split; [exact Hin|]. rewrite Hi. reflexivity.
Qed.

(* ------------------------------------------------------------------------------------------------ *)
(* set_features restores the module from the names of its enabled features                           *)
(* ------------------------------------------------------------------------------------------------ *)
Lemma existsb_beq_in n names : existsb (beq_bytes n) names = true <-> In n names.
Proof.
  rewrite existsb_exists. split.
  - intros (x & Hin & Hx). apply beq_bytes_eq in Hx. subst. exact Hin.
  - intros Hin. exists n. split; [exact Hin|apply beq_bytes_refl].
Qed.

(* in a list of features with distinct names, a feature is enabled iff its name is an enabled name *)
Lemma enabled_name_iff fs f : NoDup (map f_name fs) -> In f fs ->
  (In (f_name f) (enabled_names fs) <-> f_en f = true).
Proof.
  intros Hnd Hin. unfold enabled_names. rewrite in_map_iff. split.
  - intros (g & Hg & Hgin). apply filter_In in Hgin. destruct Hgin as [Hgin Hen].
    assert (g = f) as <-; [|exact Hen].
    clear Hen. induction fs as [|x fs IH]; [destruct Hin|].
    cbn in Hnd. inversion Hnd as [|? ? Hx Hr]; subst.
    destruct Hin as [->|Hin], Hgin as [->|Hgin]; try reflexivity.
    + exfalso. apply Hx. rewrite <- Hg. apply in_map. exact Hgin.
    + exfalso. apply Hx. rewrite Hg. apply in_map. exact Hin.
    + apply IH; assumption.
  - intros Hen. exists f. split; [reflexivity|]. apply filter_In. split; assumption.
Qed.

Lemma set_feats_restore names all fs :
  (forall f, In f fs -> In f all) -> NoDup (map f_name all) -> names = enabled_names all ->
  set_feats names fs = fs /\ set_feats names (blank_feats fs) = fs.
Proof.
  intros Hsub Hnd ->. unfold set_feats, blank_feats. rewrite map_map. cbn [f_name].
  assert (H : forall f, In f fs -> mkfeat (f_name f) (existsb (beq_bytes (f_name f)) (enabled_names all)) = f).
  { intros f Hf. destruct f as [n e]. cbn [f_name]. f_equal.
    destruct (existsb (beq_bytes n) (enabled_names all)) eqn:E.
    - apply existsb_beq_in in E. apply (enabled_name_iff all (mkfeat n e) Hnd (Hsub _ Hf)) in E. cbn in E. congruence.
    - destruct e; [|reflexivity]. exfalso.
      assert (Hin : In n (enabled_names all)) by (apply (enabled_name_iff all (mkfeat n true) Hnd (Hsub _ Hf)); reflexivity).
      apply existsb_beq_in in Hin. congruence. }
  split; (rewrite <- (map_id fs) at 2; apply map_ext_in; exact H).
Qed.

Lemma set_features_restore h : h_impl h = true -> NoDup (map f_name (concat (groups h))) ->
  set_features h true (enabled_names (concat (groups h))) = h /\
  set_features (blank_h h) true (enabled_names (concat (groups h))) = h.
Proof.
  intros Hi Hnd. destruct h as [n r i fs subs]. cbn [h_impl] in Hi. subst i.
  unfold set_features, blank_h. cbn [h_name h_rev h_feats h_subs].
  set (all := concat (groups (mkhmod n r true fs subs))) in *.
  assert (Hfs : forall f, In f fs -> In f all).
  { intros f Hf. unfold all, groups. cbn [h_feats h_subs concat]. apply in_app_iff. left. exact Hf. }
  assert (Hsubs : forall g, In g subs -> forall f, In f g -> In f all).
  { intros g Hg f Hf. unfold all, groups. cbn [h_feats h_subs concat]. apply in_app_iff. right.
    apply in_concat. exists g. split; assumption. }
  destruct (set_feats_restore _ all fs Hfs Hnd eq_refl) as [E1 E2].
  rewrite E1, E2. rewrite map_map.
  assert (M1 : map (set_feats (enabled_names all)) subs = subs).
  { rewrite <- (map_id subs) at 2. apply map_ext_in. intros g Hg.
    apply (set_feats_restore _ all g (Hsubs g Hg) Hnd eq_refl). }
  assert (M2 : map (fun x => set_feats (enabled_names all) (blank_feats x)) subs = subs).
  { rewrite <- (map_id subs) at 2. apply map_ext_in. intros g Hg.
    apply (set_feats_restore _ all g (Hsubs g Hg) Hnd eq_refl). }
  rewrite M1, M2. split; reflexivity.
Qed.

Lemma has_feature_enabled h n : In n (enabled_names (concat (groups h))) -> has_feature h n = true.
Proof.
  unfold has_feature, enabled_names. intros H. apply in_map_iff in H. destruct H as (f & Hf & Hin).
  apply filter_In in Hin. apply existsb_exists. exists f. split; [apply Hin|]. rewrite Hf. apply beq_bytes_refl.
Qed.

Lemma has_feature_blank h n : has_feature (blank_h h) n = has_feature h n.
Proof.
  unfold has_feature, groups, blank_h. cbn [h_feats h_subs concat].
  rewrite !existsb_app. f_equal.
  - unfold blank_feats. induction (h_feats h) as [|f fs IH]; cbn; [reflexivity|]. rewrite IH. reflexivity.
  - induction (h_subs h) as [|g gs IH]; cbn [map concat]; [reflexivity|].
    rewrite !existsb_app, IH. f_equal.
    unfold blank_feats. induction g as [|f fs IHg]; cbn; [reflexivity|]. rewrite IHg. reflexivity.
Qed.

Lemma set_feats_blank names fs : set_feats names (blank_feats fs) = set_feats names fs.
Proof. unfold set_feats, blank_feats. rewrite map_map. reflexivity. Qed.

Lemma set_features_blank h i names : set_features (blank_h h) i names = set_features h i names.
Proof.
  unfold set_features, blank_h. cbn [h_name h_rev h_feats h_subs]. rewrite set_feats_blank, map_map.
  f_equal. apply map_ext. intros fs. apply set_feats_blank.
Qed.

Lemma blank_eq_parts x m : blank x = blank m ->
  blank_h (y_mod x) = blank_h (y_mod m) /\ y_ns x = y_ns m /\ y_imports x = y_imports m /\
  y_subs x = y_subs m /\ y_deps x = y_deps m.
Proof.
  intros H. split; [exact (f_equal y_mod H)|]. split; [exact (f_equal y_ns H)|]. split; [exact (f_equal y_imports H)|].
  split; [exact (f_equal y_subs H)|exact (f_equal y_deps H)].
Qed.

(* ------------------------------------------------------------------------------------------------ *)
(* the round trip                                                                                    *)
(* ------------------------------------------------------------------------------------------------ *)
Section Roundtrip.
  Variable src : list ymod.         (* the module sources *)
  Variable s : ctx.                 (* the original context *)
  Variable c0 : ctx.                (* the context the rebuild starts from (the internal modules) *)
  Variable rk : mkey -> nat.        (* import depth *)

  (* every module called n, in the context or in the sources, has revision r *)
  Definition unamb (n : bytes) (r : option bytes) : Prop :=
    forall x, In x s \/ In x src -> y_name x = n -> y_rev x = r.

  (* request i (an import or a load request) means module m *)
  Definition denotes (i : import) (m : ymod) : Prop :=
    match snd i with
    | Some r => key_of m = (fst i, Some r)
    | None => y_name m = fst i /\ unamb (fst i) (y_rev m)
    end.

  Inductive reach : ymod -> ymod -> Prop :=
  | reach_refl m : reach m m
  | reach_step m i m' m'' : In i (y_imports m) -> In m' s -> denotes i m' -> reach m' m'' -> reach m m''.

  (* an entry x of a rebuilding context stands for module m of the original: the same source; it may be
     implemented with any feature state only if m is implemented (the rebuild cannot undo implemented), and an
     entry that is not implemented has no enabled feature *)
  Definition sub (x m : ymod) : Prop :=
    blank x = blank m /\ (y_impl x = true -> y_impl m = true) /\ (y_impl x = false -> x = blank x).
  Definition Inv (c : ctx) : Prop :=
    NoDup (map key_of c) /\ forall x, In x c -> exists m, In m s /\ sub x m.
  Definition ClosedEx (stack : list mkey) (c : ctx) : Prop :=
    forall x, In x c -> ~ In (key_of x) stack -> forall i, In i (y_imports x) ->
    forall m', In m' s -> denotes i m' -> In (key_of m') (map key_of c).

  Hypothesis Hs_nodup : NoDup (map key_of s).
  Hypothesis Hsrc_nodup : NoDup (map key_of src).
  Hypothesis Hsrc : forall m, In m s ->
    In (key_of m) (map key_of c0) \/ exists ms, In ms src /\ key_of ms = key_of m /\ blank ms = blank m.
  Hypothesis Himp : forall m, In m s -> forall i, In i (y_imports m) ->
    exists m', In m' s /\ denotes i m' /\ (rk (key_of m') < rk (key_of m))%nat.
  Hypothesis Hrk : forall m, In m s -> (rk (key_of m) <= length src)%nat.
  Hypothesis Hblank : forall m, In m s -> y_impl m = false -> blank m = m.
  Hypothesis Himpl1 : forall m m', In m s -> In m' s -> y_impl m = true -> y_impl m' = true ->
    y_name m = y_name m' -> m = m'.
  Hypothesis Hfeat : forall m, In m s -> NoDup (map f_name (concat (groups (y_mod m)))).
  Hypothesis Hreq : forall m, In m s -> y_impl m = true -> y_rev m = None -> unamb (y_name m) None.
  Hypothesis Hreach : forall m, In m s -> y_impl m = false ->
    In (key_of m) (map key_of c0) \/ exists m0, In m0 s /\ y_impl m0 = true /\ reach m0 m.
  (* augment / deviation statements go through imports of the module, and the context is settled: what an
     implemented module augments or deviates is implemented *)
  Hypothesis Hdeps_imp : forall m, In m s -> forall e, In e (y_deps m) -> In (fst e) (y_imports m).
  Hypothesis Hdeps_impl : forall d, In d s -> y_impl d = true -> forall e, In e (y_deps d) ->
    forall t, In t s -> denotes (fst e) t -> y_impl t = true.
  Hypothesis H0inv : Inv c0.
  Hypothesis H0closed : ClosedEx [] c0.

  Lemma sub_key x m : sub x m -> key_of x = key_of m.
  Proof. intros [H _]. rewrite <- (key_blank x), <- (key_blank m), H. reflexivity. Qed.
  Lemma sub_imports x m : sub x m -> y_imports x = y_imports m.
  Proof. intros [H _]. rewrite <- (imports_blank x), <- (imports_blank m), H. reflexivity. Qed.
  Lemma sub_blank x m : sub x m -> blank x = blank m.
  Proof. intros [H _]. exact H. Qed.
  Lemma sub_refl_impl m : y_impl m = true -> sub m m.
  Proof. intros Hi. split; [reflexivity|]. split; [auto|]. intros H. congruence. Qed.
  Lemma sub_blank_of ms m : blank ms = blank m -> sub (blank ms) m.
  Proof.
    intros H. split; [rewrite blank_idem; exact H|]. split; [rewrite impl_blank; discriminate|].
    intros _. symmetry. apply blank_idem.
  Qed.

  Lemma s_key_inj m m' : In m s -> In m' s -> key_of m = key_of m' -> m = m'.
  Proof. intros Hm Hm' Hk. exact (nodup_key_inj s m m' Hs_nodup Hm Hm' Hk). Qed.

  Lemma denotes_key i m m' : In m s -> In m' s -> denotes i m -> denotes i m' -> key_of m = key_of m'.
  Proof.
    unfold denotes. destruct i as [n [r|]]; cbn [fst snd].
    - intros _ _ -> ->. reflexivity.
    - intros Hm Hm' [Hn Hu] [Hn' Hu']. unfold key_of. rewrite Hn, Hn'. f_equal.
      rewrite (Hu' m (or_introl Hm) Hn). reflexivity.
  Qed.

  Lemma inv_key_in c x : Inv c -> In x c -> exists m, In m s /\ sub x m /\ key_of x = key_of m.
  Proof. intros [_ H] Hx. destruct (H x Hx) as (m & Hm & Hs). exists m. split; [exact Hm|]. split; [exact Hs|]. apply sub_key. exact Hs. Qed.

  (* lys_parse_load finds the module a request means: in the context when it is there, else in the sources *)
  Lemma resolve_spec c i m : Inv c -> In m s -> denotes i m ->
    (forall k, In k (map key_of c0) -> In k (map key_of c)) ->
    (In (key_of m) (map key_of c) -> resolve c src i = R_ctx (key_of m)) /\
    (~ In (key_of m) (map key_of c) ->
     exists ms, resolve c src i = R_src ms /\ key_of ms = key_of m /\ blank ms = blank m).
  Proof.
    intros Hinv Hm Hd H0.
    assert (Hfromsrc : ~ In (key_of m) (map key_of c) ->
                       exists ms, In ms src /\ key_of ms = key_of m /\ blank ms = blank m).
    { intros Hn. destruct (Hsrc m Hm) as [Hc0|H]; [exfalso; apply Hn, H0, Hc0|exact H]. }
    destruct i as [n [r|]]; unfold denotes in Hd; cbn [fst snd] in Hd; unfold resolve.
    - (* revision-date given *)
      rewrite <- Hd.
      destruct (find_key (key_of m) c) as [x|] eqn:Ef.
      + apply find_key_some in Ef. destruct Ef as [Hx Hk]. rewrite Hk. split; [reflexivity|].
        intros Hn. exfalso. apply Hn. rewrite <- Hk. apply in_map. exact Hx.
      + apply find_key_none in Ef. split; [intros Hin; contradiction|].
        intros _. destruct (Hfromsrc Ef) as (ms & Hms & Hk & Hb).
        rewrite (find_key_nodup (key_of m) src ms Hsrc_nodup Hms Hk). exists ms. repeat split; assumption.
    - (* no revision-date: unambiguous name *)
      destruct Hd as [Hn Hu].
      assert (Hall : forall x, In x (filter (named n) c) -> key_of x = key_of m).
      { intros x Hx. apply filter_In in Hx. destruct Hx as [Hx Hnx]. apply named_eq in Hnx.
        destruct (inv_key_in c x Hinv Hx) as (m' & Hm' & Hs' & Hk).
        destruct (key_name_rev _ _ Hk) as [Hn1 Hr1].
        unfold key_of. rewrite Hnx, Hr1, (Hu m' (or_introl Hm')), Hn by congruence. reflexivity. }
      destruct Hinv as [Hnd Hinv].
      destruct (nodup_const key_of (filter (named n) c) (key_of m) (nodup_map_filter _ _ _ Hnd) Hall) as [E|[x E]].
      + rewrite E. split.
        * intros Hin. exfalso. apply in_map_iff in Hin. destruct Hin as (x & Hk & Hx).
          assert (Hf : In x (filter (named n) c)).
          { apply filter_In. split; [exact Hx|]. apply named_eq. destruct (key_name_rev _ _ Hk). congruence. }
          rewrite E in Hf. destruct Hf.
        * intros Hnin. destruct (Hfromsrc Hnin) as (ms & Hms & Hk & Hb).
          assert (Hne : filter (named n) src <> []).
          { intros E'. assert (Hf : In ms (filter (named n) src)).
            { apply filter_In. split; [exact Hms|]. apply named_eq. destruct (key_name_rev _ _ Hk). congruence. }
            rewrite E' in Hf. destruct Hf. }
          destruct (latest_some _ Hne) as (ms' & El). rewrite El.
          apply latest_in in El. apply filter_In in El. destruct El as [Hms' Hn']. apply named_eq in Hn'.
          assert (Hk' : key_of ms' = key_of m).
          { unfold key_of. rewrite Hn', (Hu ms' (or_intror Hms') Hn'), Hn. reflexivity. }
          assert (ms' = ms) as -> by (apply (nodup_key_inj src); congruence).
          exists ms. repeat split; assumption.
      + rewrite E.
        assert (Hx : In x (filter (named n) c)) by (rewrite E; left; reflexivity).
        pose proof (Hall x Hx) as Hkx. apply filter_In in Hx. destruct Hx as [Hxc _].
        assert (Hf : forallb (fun s0 => beq_orev (y_rev s0) (y_rev x)) (filter (named n) src) = true).
        { apply forallb_forall. intros y Hy. apply filter_In in Hy. destruct Hy as [Hy Hny]. apply named_eq in Hny.
          apply beq_orev_eq. rewrite (Hu y (or_intror Hy) Hny). destruct (key_name_rev _ _ Hkx). congruence. }
        rewrite Hf, Hkx. split; [reflexivity|].
        intros Hnin. exfalso. apply Hnin. rewrite <- Hkx. apply in_map. exact Hxc.
  Qed.

  Lemma inv_app_blank c ms m : Inv c -> In m s -> key_of ms = key_of m -> blank ms = blank m ->
    ~ In (key_of m) (map key_of c) -> Inv (c ++ [blank ms]).
  Proof.
    intros [Hnd Hinv] Hm Hk Hb Hn. split.
    - rewrite map_app. cbn [map]. rewrite key_blank, Hk.
      apply NoDup_app_one; assumption.
    - intros x Hx. apply in_app_iff in Hx. destruct Hx as [Hx|[<-|[]]]; [apply Hinv; exact Hx|].
      exists m. split; [exact Hm|]. apply sub_blank_of. exact Hb.
  Qed.

  (* the depth first loading of a request that means m *)
  Lemma parse_load_spec : forall fuel stack c i m,
    Inv c -> ClosedEx stack c -> (forall k, In k (map key_of c0) -> In k (map key_of c)) ->
    In m s -> denotes i m -> (rk (key_of m) < fuel)%nat ->
    (forall k, In k stack -> (rk (key_of m) < rk k)%nat) ->
    exists l, parse_load fuel src stack c i = Ok (c ++ l, key_of m) /\
              Inv (c ++ l) /\ ClosedEx stack (c ++ l) /\ In (key_of m) (map key_of (c ++ l)).
  Proof.
    induction fuel as [|fuel IH]; intros stack c i m Hinv Hcl H0 Hm Hd Hf Hst; [lia|].
    cbn [parse_load].
    destruct (resolve_spec c i m Hinv Hm Hd H0) as [Rin Rout].
    destruct (in_dec mkey_eq_dec (key_of m) (map key_of c)) as [Hin|Hnin].
    - (* already present *)
      rewrite (Rin Hin).
      assert (Hex : existsb (beq_key (key_of m)) stack = false).
      { apply not_true_is_false. intros E. apply existsb_exists in E. destruct E as (k & Hk & E).
        apply beq_key_eq in E. subst k. specialize (Hst _ Hk). lia. }
      rewrite Hex. exists []. rewrite app_nil_r. split; [reflexivity|]. split; [exact Hinv|]. split; [exact Hcl|exact Hin].
    - destruct (Rout Hnin) as (ms & -> & Hk & Hb).
      rewrite Hk.
      (* the imports of the new module *)
      assert (Himps : y_imports ms = y_imports m).
      { rewrite <- (imports_blank ms), Hb. reflexivity. }
      set (st := key_of m :: stack).
      assert (Hloop : forall is c1, (forall i1, In i1 is -> In i1 (y_imports m)) ->
                Inv c1 -> ClosedEx st c1 -> (forall k, In k (map key_of c0) -> In k (map key_of c1)) ->
                exists l1, load_list (parse_load fuel src st) is c1 = Ok (c1 ++ l1) /\ Inv (c1 ++ l1) /\
                           ClosedEx st (c1 ++ l1) /\
                           (forall i1, In i1 is -> forall m1, In m1 s -> denotes i1 m1 ->
                                                              In (key_of m1) (map key_of (c1 ++ l1)))).
      { induction is as [|i1 is IHis]; intros c1 Hsub Hinv1 Hcl1 H01.
        - exists []. rewrite app_nil_r. cbn [load_list]. split; [reflexivity|]. split; [exact Hinv1|].
          split; [exact Hcl1|]. intros i1 [].
        - cbn [load_list].
          destruct (Himp m Hm i1 (Hsub i1 (or_introl eq_refl))) as (m1 & Hm1 & Hd1 & Hrk1).
          destruct (IH st c1 i1 m1 Hinv1 Hcl1 H01 Hm1 Hd1) as (l & E & Hinv2 & Hcl2 & Hin2).
          { lia. }
          { intros k [<-|Hks]; [exact Hrk1|]. specialize (Hst _ Hks). lia. }
          rewrite E.
          destruct (IHis (c1 ++ l)) as (l2 & E2 & Hinv3 & Hcl3 & Hall3); try assumption.
          { intros i2 Hi2. apply Hsub. right. exact Hi2. }
          { intros k Hk0. rewrite map_app. apply in_app_iff. left. apply H01. exact Hk0. }
          exists (l ++ l2). rewrite app_assoc. split; [exact E2|]. split; [exact Hinv3|]. split; [exact Hcl3|].
          intros i2 [<-|Hi2] m2 Hm2 Hd2.
          + rewrite (denotes_key i1 m2 m1 Hm2 Hm1 Hd2 Hd1).
            rewrite map_app. apply in_app_iff. left. exact Hin2.
          + apply (Hall3 i2 Hi2 m2 Hm2 Hd2). }
      assert (Hinv1 : Inv (c ++ [blank ms])) by (apply (inv_app_blank c ms m); assumption).
      assert (Hcl1 : ClosedEx st (c ++ [blank ms])).
      { intros x Hx Hns i1 Hi1 m1 Hm1 Hd1. apply in_app_iff in Hx. destruct Hx as [Hx|[<-|[]]].
        - rewrite map_app. apply in_app_iff. left.
          apply (Hcl x Hx) with (i := i1); try assumption. intros Hs. apply Hns. right. exact Hs.
        - exfalso. apply Hns. left. rewrite key_blank. symmetry. exact Hk. }
      destruct (Hloop (y_imports ms) (c ++ [blank ms])) as (l1 & E1 & Hinv2 & Hcl2 & Hall2); try assumption.
      { intros i1 Hi1. rewrite <- Himps. exact Hi1. }
      { intros k Hk0. rewrite map_app. apply in_app_iff. left. apply H0. exact Hk0. }
      rewrite E1. exists ([blank ms] ++ l1). rewrite app_assoc. split; [reflexivity|]. split; [exact Hinv2|]. split.
      + (* the module has left the stack: all its imports are present *)
        intros x Hx Hns i1 Hi1 m1 Hm1 Hd1.
        destruct (mkey_eq_dec (key_of x) (key_of m)) as [Ek|Nk].
        * destruct (inv_key_in _ x Hinv2 Hx) as (m' & Hm' & Hs' & Hk').
          assert (m' = m) as -> by (apply s_key_inj; congruence).
          apply (Hall2 i1); try assumption. rewrite Himps, <- (sub_imports x m Hs'). exact Hi1.
        * apply (Hcl2 x Hx) with (i := i1); try assumption. intros [E|Hs]; [congruence|contradiction].
      + rewrite map_app. apply in_app_iff. left. rewrite map_app. apply in_app_iff. right.
        cbn [map]. rewrite key_blank, Hk. left. reflexivity.
  Qed.

  (* everything reachable from a present module of a closed context is present *)
  Lemma closed_reach c m m' : Inv c -> ClosedEx [] c -> In m s -> reach m m' -> In m' s ->
    In (key_of m) (map key_of c) -> In (key_of m') (map key_of c).
  Proof.
    intros Hinv Hcl Hm Hr. induction Hr as [m|m i m1 m2 Hi Hm1 Hd Hr IH]; intros Hm' Hin; [exact Hin|].
    apply IH; try assumption.
    apply in_map_iff in Hin. destruct Hin as (x & Hk & Hx).
    destruct (inv_key_in c x Hinv Hx) as (mm & Hmm & Hs & Hkk).
    assert (mm = m) as -> by (apply s_key_inj; congruence).
    apply (Hcl x Hx) with (i := i); try assumption; [intros []|].
    rewrite (sub_imports x m Hs). exact Hi.
  Qed.

  (* _lys_set_implemented with the described features makes the entry equal to the original module *)
  Lemma set_implemented_spec c m : Inv c -> In m s -> y_impl m = true -> In (key_of m) (map key_of c) ->
    exists c', set_implemented c (key_of m) (F_list (yl_features m)) = Ok c' /\ Inv c' /\ In m c' /\
               map key_of c' = map key_of c /\
               (forall x, In x c -> key_of x <> key_of m -> In x c') /\
               (forall x, In x c' -> In x c \/ x = m) /\
               (forall st, ClosedEx st c -> ClosedEx st c').
  Proof.
    intros Hinv Hm Hi Hin. unfold set_implemented.
    apply in_map_iff in Hin. destruct Hin as (x & Hkx & Hx).
    destruct Hinv as [Hnd Hinv'].
    rewrite (find_key_nodup (key_of m) c x Hnd Hx Hkx).
    destruct (Hinv' x Hx) as (m' & Hm' & Hs').
    assert (m' = m) as -> by (apply s_key_inj; try assumption; rewrite <- Hkx; symmetry; apply sub_key; exact Hs').
    unfold yl_features. rewrite Hi.
    set (names := enabled_names (concat (groups (y_mod m)))).
    assert (Hhas : fspec_ok (y_mod x) (F_list names) = true).
    { cbn [fspec_ok]. apply forallb_forall. intros n Hn.
      destruct (blank_eq_parts x m (sub_blank x m Hs')) as (Hb1 & _).
      rewrite <- has_feature_blank, Hb1, has_feature_blank. apply has_feature_enabled. exact Hn. }
    rewrite Hhas. cbn [negb].
    assert (Hden : negb (y_impl x) && existsb (fun x0 => named (fst (key_of m)) x0 && y_impl x0) c = false).
    { destruct (y_impl x) eqn:Hix; [reflexivity|]. cbn [negb andb].
      apply not_true_is_false. intros E. apply existsb_exists in E. destruct E as (y & Hy & E).
      apply andb_true_iff in E. destruct E as [Hny Hiy]. apply named_eq in Hny. cbn [key_of fst] in Hny.
      destruct (Hinv' y Hy) as (my & Hmy & Hsy).
      assert (Himy : y_impl my = true) by (apply Hsy; exact Hiy).
      assert (Hnmy : y_name my = y_name m).
      { destruct (key_name_rev _ _ (sub_key y my Hsy)) as [Hn1 _]. congruence. }
      assert (my = m) as -> by (apply Himpl1; assumption).
      assert (y = x) as -> by (apply (nodup_key_inj c); try assumption; rewrite (sub_key _ _ Hsy); symmetry; exact Hkx).
      congruence. }
    rewrite Hden.
    set (upd := fun x0 => if beq_key (key_of m) (key_of x0)
                          then mkymod (apply_fspec (y_mod x0) true (F_list names)) (y_ns x0) (y_imports x0) (y_subs x0) (y_deps x0)
                          else x0).
    assert (Hupd_x : upd x = m).
    { unfold upd. rewrite Hkx, beq_key_refl. cbn [apply_fspec].
      destruct (set_features_restore (y_mod m) Hi (Hfeat m Hm)) as [_ R2].
      destruct (blank_eq_parts x m (sub_blank x m Hs')) as (Hb1 & Hb2 & Hb3 & Hb4 & Hb5).
      rewrite <- set_features_blank, Hb1, Hb2, Hb3, Hb4, Hb5. fold names in R2. rewrite R2. destruct m; reflexivity. }
    assert (Hupd_o : forall y, In y c -> y <> x -> upd y = y).
    { intros y Hy Hne. unfold upd. destruct (beq_key (key_of m) (key_of y)) eqn:E; [|reflexivity].
      apply beq_key_eq in E. exfalso. apply Hne. apply (nodup_key_inj c); congruence. }
    assert (Hupd_k : forall y, key_of (upd y) = key_of y).
    { intros y. unfold upd. destruct (beq_key (key_of m) (key_of y)); reflexivity. }
    assert (Hupd_i : forall y, y_imports (upd y) = y_imports y).
    { intros y. unfold upd. destruct (beq_key (key_of m) (key_of y)); reflexivity. }
    assert (Hkeys : map key_of (map upd c) = map key_of c).
    { rewrite map_map. apply map_ext. exact Hupd_k. }
    exists (map upd c). split; [reflexivity|].
    assert (Hcase : forall y, In y c -> (y = x /\ upd y = m) \/ (key_of y <> key_of m /\ upd y = y)).
    { intros y Hy. destruct (beq_key (key_of m) (key_of y)) eqn:E.
      - apply beq_key_eq in E. left.
        assert (y = x) as -> by (apply (nodup_key_inj c); congruence). split; [reflexivity|exact Hupd_x].
      - right. split; [intros E'; rewrite E', beq_key_refl in E; discriminate|].
        unfold upd. rewrite E. reflexivity. }
    split; [split|]; [| |split; [|split; [|split; [|split]]]].
    - rewrite Hkeys. exact Hnd.
    - intros y Hy. apply in_map_iff in Hy. destruct Hy as (y0 & <- & Hy0).
      destruct (Hcase y0 Hy0) as [[-> ->]|[_ ->]]; [exists m; split; [exact Hm|apply sub_refl_impl; exact Hi]|].
      apply Hinv'. exact Hy0.
    - rewrite <- Hupd_x. apply in_map. exact Hx.
    - exact Hkeys.
    - intros y Hy Hne. destruct (Hcase y Hy) as [[-> _]|[_ E]]; [congruence|]. rewrite <- E. apply in_map. exact Hy.
    - intros y Hy. apply in_map_iff in Hy. destruct Hy as (y0 & <- & Hy0).
      destruct (Hcase y0 Hy0) as [[-> ->]|[_ ->]]; [right; reflexivity|left; exact Hy0].
    - intros st Hcl y Hy Hns i Hii m1 Hm1 Hd1. apply in_map_iff in Hy. destruct Hy as (y0 & <- & Hy0).
      rewrite Hkeys. rewrite Hupd_k in Hns. rewrite Hupd_i in Hii. apply (Hcl y0 Hy0 Hns i Hii m1 Hm1 Hd1).
  Qed.

  Lemma request_denotes m : In m s -> y_impl m = true -> denotes (y_name m, y_rev m) m.
  Proof.
    intros Hm Hi. unfold denotes. cbn [fst snd]. destruct (y_rev m) as [r|] eqn:E.
    - unfold key_of. rewrite E. reflexivity.
    - split; [reflexivity|]. rewrite <- E. rewrite E. apply Hreq; assumption.
  Qed.

  Lemma sub_deps x m : sub x m -> y_deps x = y_deps m.
  Proof. intros [H _]. exact (f_equal y_deps H). Qed.

  (* the target of an augment / deviation statement of an entry that stands for d *)
  Lemma target_key_spec c x d i k : Inv c -> In x c -> In d s -> sub x d -> In i (y_imports d) ->
    target_key c i = Some k -> exists t, In t s /\ denotes i t /\ key_of t = k.
  Proof.
    intros Hinv Hx Hd Hs Hi Ht. destruct (Himp d Hd i Hi) as (m' & Hm' & Hden & _).
    exists m'. split; [exact Hm'|]. split; [exact Hden|].
    unfold target_key in Ht. destruct i as [n [r|]]; cbn [fst snd] in *; unfold denotes in Hden; cbn [fst snd] in Hden.
    - destruct (find_key (n, Some r) c) as [y|] eqn:Ef; [|discriminate]. injection Ht as <-.
      apply find_key_some in Ef. destruct Ef as [_ Hk]. congruence.
    - destruct (filter (named n) c) as [|y [|z l]] eqn:Ef; try discriminate. injection Ht as <-.
      assert (Hy : In y (filter (named n) c)) by (rewrite Ef; left; reflexivity).
      apply filter_In in Hy. destruct Hy as [Hy Hny]. apply named_eq in Hny.
      destruct (inv_key_in c y Hinv Hy) as (my & Hmy & _ & Hky).
      destruct Hden as [Hn Hu]. destruct (key_name_rev _ _ Hky) as [Hn1 Hr1].
      assert (Hrv : y_rev my = y_rev m') by (apply (Hu my (or_introl Hmy)); congruence).
      unfold key_of. rewrite Hn, Hny, Hr1, Hrv. reflexivity.
  Qed.

  Lemma blank_mark x : blank (mkymod (apply_fspec (y_mod x) true F_keep) (y_ns x) (y_imports x) (y_subs x) (y_deps x)) = blank x.
  Proof. destruct x as [[n r i fs ss] ns is sb dp]. reflexivity. Qed.

  (* lys_implement of the targets: entries that stand for implemented modules of the original become implemented,
     nothing else changes *)
  Lemma implement_targets_spec : forall fuel c todo, Inv c ->
    (forall k, In k todo -> exists t, In t s /\ key_of t = k /\ y_impl t = true) ->
    let c' := implement_targets fuel c todo in
    Inv c' /\ map key_of c' = map key_of c /\ (forall x, In x c -> y_impl x = true -> In x c') /\
    (forall st, ClosedEx st c -> ClosedEx st c').
  Proof.
    induction fuel as [|fuel IH]; intros c todo Hinv Htodo; cbn [implement_targets].
    { split; [exact Hinv|]. split; [reflexivity|]. split; auto. }
    destruct todo as [|k r].
    { split; [exact Hinv|]. split; [reflexivity|]. split; auto. }
    assert (Hr : forall k0, In k0 r -> exists t, In t s /\ key_of t = k0 /\ y_impl t = true)
      by (intros k0 Hk0; apply Htodo; right; exact Hk0).
    destruct (find_key k c) as [x|] eqn:Ef; [|apply IH; assumption].
    destruct (y_impl x) eqn:Hix; [apply IH; assumption|].
    apply find_key_some in Ef. destruct Ef as [Hx Hkx].
    destruct (Htodo k (or_introl eq_refl)) as (t & Ht & Hkt & Hit).
    destruct Hinv as [Hnd Hinv'].
    destruct (Hinv' x Hx) as (t' & Ht' & Hs').
    assert (t' = t) as -> by (apply s_key_inj; try assumption; rewrite <- (sub_key x t' Hs'); congruence).
    set (mk := fun y => if beq_key k (key_of y)
                        then mkymod (apply_fspec (y_mod y) true F_keep) (y_ns y) (y_imports y) (y_subs y) (y_deps y) else y).
    assert (Hmk_k : forall y, key_of (mk y) = key_of y) by (intros y; unfold mk; destruct (beq_key k (key_of y)); reflexivity).
    assert (Hmk_i : forall y, y_imports (mk y) = y_imports y) by (intros y; unfold mk; destruct (beq_key k (key_of y)); reflexivity).
    assert (Hkeys : map key_of (mark_impl k c) = map key_of c).
    { unfold mark_impl. fold mk. rewrite map_map. apply map_ext. exact Hmk_k. }
    assert (Hinv1 : Inv (mark_impl k c)).
    { split; [rewrite Hkeys; exact Hnd|]. intros y' Hy'. unfold mark_impl in Hy'. fold mk in Hy'.
      apply in_map_iff in Hy'. destruct Hy' as (y & <- & Hy). unfold mk.
      destruct (beq_key k (key_of y)) eqn:E; [|apply Hinv'; exact Hy].
      apply beq_key_eq in E. assert (y = x) as -> by (apply (nodup_key_inj c); congruence).
      exists t. split; [exact Ht|]. split; [rewrite blank_mark; apply Hs'|]. split; [intros _; exact Hit|discriminate]. }
    assert (Htodo1 : forall k0, In k0 (r ++ targets c x) -> exists t0, In t0 s /\ key_of t0 = k0 /\ y_impl t0 = true).
    { intros k0 Hk0. apply in_app_iff in Hk0. destruct Hk0 as [Hk0|Hk0]; [apply Hr; exact Hk0|].
      unfold targets in Hk0. apply in_flat_map in Hk0. destruct Hk0 as (e & He & Hk0).
      destruct (target_key c (fst e)) as [k1|] eqn:Etk; [|destruct Hk0]. destruct Hk0 as [<-|[]].
      rewrite (sub_deps x t Hs') in He.
      destruct (target_key_spec c x t (fst e) k1 (conj Hnd Hinv') Hx Ht Hs' (Hdeps_imp t Ht e He) Etk) as (t0 & Ht0 & Hden & Hk1).
      exists t0. split; [exact Ht0|]. split; [exact Hk1|]. apply (Hdeps_impl t Ht Hit e He t0 Ht0 Hden). }
    specialize (IH (mark_impl k c) (r ++ targets c x) Hinv1 Htodo1). cbv zeta in IH.
    destruct IH as (I1 & I2 & I3 & I4). split; [exact I1|]. split; [rewrite I2; exact Hkeys|]. split.
    - intros y Hy Hiy. apply I3; [|exact Hiy]. unfold mark_impl. fold mk.
      assert (E : mk y = y).
      { unfold mk. destruct (beq_key k (key_of y)) eqn:E; [|reflexivity]. apply beq_key_eq in E.
        assert (y = x) as -> by (apply (nodup_key_inj c); congruence). congruence. }
      rewrite <- E. apply in_map. exact Hy.
    - intros st Hcl. apply I4. intros y' Hy' Hns i Hii m1 Hm1 Hd1. unfold mark_impl in Hy'. fold mk in Hy'.
      apply in_map_iff in Hy'. destruct Hy' as (y & <- & Hy). rewrite Hkeys. rewrite Hmk_k in Hns. rewrite Hmk_i in Hii.
      apply (Hcl y Hy Hns i Hii m1 Hm1 Hd1).
  Qed.

  (* ly_ctx_load_module for the entry of an implemented module m *)
  Lemma load_module_spec c m : Inv c -> ClosedEx [] c -> (forall k, In k (map key_of c0) -> In k (map key_of c)) ->
    In m s -> y_impl m = true ->
    exists c', load_module (S (length src)) src c (y_name m) (y_rev m) (F_list (yl_features m)) = Ok c' /\
               Inv c' /\ ClosedEx [] c' /\ (forall k, In k (map key_of c) -> In k (map key_of c')) /\ In m c' /\
               (forall x, In x c -> y_impl x = true -> key_of x <> key_of m -> In x c').
  Proof.
    intros Hinv Hcl H0 Hm Hi. unfold load_module.
    destruct (parse_load_spec (S (length src)) [] c (y_name m, y_rev m) m Hinv Hcl H0 Hm (request_denotes m Hm Hi))
      as (l & E & Hinv1 & Hcl1 & Hin1).
    { specialize (Hrk m Hm). lia. }
    { intros k []. }
    rewrite E.
    destruct (set_implemented_spec (c ++ l) m Hinv1 Hm Hi Hin1) as (c' & E' & Hinv2 & Hin2 & Hkeys & Hkeep & _ & Hclk).
    rewrite E'. unfold implement_deps.
    rewrite (find_key_nodup (key_of m) c' m (proj1 Hinv2) Hin2 eq_refl).
    assert (Htodo : forall k, In k (targets c' m) -> exists t, In t s /\ key_of t = k /\ y_impl t = true).
    { intros k Hk. unfold targets in Hk. apply in_flat_map in Hk. destruct Hk as (e & He & Hk).
      destruct (target_key c' (fst e)) as [k1|] eqn:Etk; [|destruct Hk]. destruct Hk as [<-|[]].
      destruct (target_key_spec c' m m (fst e) k1 Hinv2 Hin2 Hm (sub_refl_impl m Hi) (Hdeps_imp m Hm e He) Etk)
        as (t0 & Ht0 & Hden & Hk1).
      exists t0. split; [exact Ht0|]. split; [exact Hk1|]. apply (Hdeps_impl m Hm Hi e He t0 Ht0 Hden). }
    destruct (implement_targets_spec (deps_fuel c' + length (y_deps m)) c' (targets c' m) Hinv2 Htodo) as (I1 & I2 & I3 & I4).
    eexists. split; [reflexivity|]. split; [exact I1|]. split; [apply I4, Hclk, Hcl1|]. split; [|split; [apply I3; assumption|]].
    - intros k Hk. rewrite I2, Hkeys, map_app. apply in_app_iff. left. exact Hk.
    - intros x Hx Hix Hne. apply I3; [|exact Hix]. apply Hkeep; [|exact Hne]. apply in_app_iff. left. exact Hx.
  Qed.

  Lemma rebuild_from_spec cx : forall ms c, (forall m, In m ms -> In m s /\ y_impl m = true) ->
    Inv c -> ClosedEx [] c -> (forall k, In k (map key_of c0) -> In k (map key_of c)) ->
    exists c', rebuild_from (S (length src)) src c (map (describe_module cx) ms) = Ok c' /\
               Inv c' /\ ClosedEx [] c' /\ (forall k, In k (map key_of c) -> In k (map key_of c')) /\
               (forall m, In m ms -> In m c') /\
               (forall x, In x c -> y_impl x = true -> ~ In (key_of x) (map key_of ms) -> In x c').
  Proof.
    induction ms as [|m ms IH]; intros c Hms Hinv Hcl H0.
    - exists c. cbn [map rebuild_from]. split; [reflexivity|]. split; [exact Hinv|]. split; [exact Hcl|].
      split; [auto|]. split; [intros m []|auto].
    - cbn [map rebuild_from describe_module ym_name ym_rev ym_features].
      destruct (Hms m (or_introl eq_refl)) as [Hm Hi].
      destruct (load_module_spec c m Hinv Hcl H0 Hm Hi) as (c1 & E & Hinv1 & Hcl1 & Hk1 & Hin1 & Hkeep1).
      rewrite E.
      destruct (IH c1) as (c2 & E2 & Hinv2 & Hcl2 & Hk2 & Hin2 & Hkeep2); try assumption.
      { intros m' Hm'. apply Hms. right. exact Hm'. }
      { intros k Hk. apply Hk1, H0, Hk. }
      exists c2. split; [exact E2|]. split; [exact Hinv2|]. split; [exact Hcl2|].
      split; [intros k Hk; apply Hk2, Hk1, Hk|]. split.
      + intros m' [<-|Hm']; [|apply Hin2; exact Hm'].
        destruct (in_dec mkey_eq_dec (key_of m) (map key_of ms)) as [Hd|Hd].
        * apply in_map_iff in Hd. destruct Hd as (m' & Hk' & Hm').
          assert (m' = m) as <- by (apply s_key_inj; [apply Hms; right; exact Hm'|exact Hm|exact Hk']).
          apply Hin2. exact Hm'.
        * apply Hkeep2; assumption.
      + intros x Hx Hix Hn. apply Hkeep2.
        * apply Hkeep1; [exact Hx|exact Hix|]. intros Ek. apply Hn. cbn [map]. left. symmetry. exact Ek.
        * exact Hix.
        * intros Hin. apply Hn. cbn [map]. right. exact Hin.
  Qed.

  Theorem roundtrip_section cid :
    exists s', rebuild (describe cid s) src c0 = Ok s' /\ NoDup (map key_of s') /\ (forall x, In x s' <-> In x s).
  Proof.
    unfold rebuild, describe. cbn [yl_modules].
    destruct (rebuild_from_spec s (filter y_impl s) c0) as (c' & E & Hinv & Hcl & Hk & Hin & _).
    { intros m Hm. apply filter_In in Hm. exact Hm. }
    { exact H0inv. }
    { exact H0closed. }
    { auto. }
    exists c'. split; [exact E|]. split; [apply Hinv|].
    assert (Himpl_in : forall m, In m s -> y_impl m = true -> In m c').
    { intros m Hm Hi. apply Hin. apply filter_In. split; assumption. }
    intros x. split.
    - intros Hx. destruct (inv_key_in c' x Hinv Hx) as (m & Hm & Hs & Hkx).
      destruct (y_impl m) eqn:Hi.
      + assert (x = m) as -> by (apply (nodup_key_inj c'); [apply Hinv|exact Hx|apply Himpl_in; assumption|exact Hkx]).
        exact Hm.
      + destruct Hs as (Hb & Him & Hbx).
        assert (Hix : y_impl x = false) by (destruct (y_impl x); [specialize (Him eq_refl); congruence|reflexivity]).
        rewrite (Hbx Hix), Hb, (Hblank m Hm Hi). exact Hm.
    - intros Hm. destruct (y_impl x) eqn:Hi; [apply Himpl_in; assumption|].
      assert (Hkin : In (key_of x) (map key_of c')).
      { destruct (Hreach x Hm Hi) as [H0k|(m0 & Hm0 & Hi0 & Hr)]; [apply Hk; exact H0k|].
        apply (closed_reach c' m0 x Hinv Hcl Hm0 Hr Hm). apply in_map. apply Himpl_in; assumption. }
      apply in_map_iff in Hkin. destruct Hkin as (y & Hky & Hy).
      destruct (inv_key_in c' y Hinv Hy) as (m & Hm' & Hs & Hkm).
      assert (m = x) as -> by (apply s_key_inj; congruence).
      destruct Hs as (Hb & Him & Hbx).
      assert (Hiy : y_impl y = false) by (destruct (y_impl y); [specialize (Him eq_refl); congruence|reflexivity]).
      rewrite (Hbx Hiy), Hb, (Hblank x Hm Hi) in Hy. exact Hy.
  Qed.
End Roundtrip.

(* ------------------------------------------------------------------------------------------------ *)
(* the theorem with its hypotheses as one record                                                     *)
(* ------------------------------------------------------------------------------------------------ *)
(* imports_pinned: an import without revision-date names a module of which the context and the sources hold one
   revision only (for such a name the resolution cannot depend on the loading history) *)
Definition imports_pinned (src : list ymod) (s : ctx) : Prop :=
  forall m, In m s -> forall n, In (n, None) (y_imports m) -> exists r, unamb src s n r.

Record rt_ok (src : list ymod) (s c0 : ctx) (rk : mkey -> nat) : Prop := mk_rt_ok {
  (* one record per (name, revision) in the context and in the sources *)
  rt_s_nodup : NoDup (map key_of s);
  rt_src_nodup : NoDup (map key_of src);
  (* same module sources: every module of the context is an internal one or its text is in the sources *)
  rt_src : forall m, In m s ->
    In (key_of m) (map key_of c0) \/ exists ms, In ms src /\ key_of ms = key_of m /\ blank ms = blank m;
  (* every import of a module of the context means a module of the context (imports_pinned for imports without
     revision-date is part of denotes), and imports are acyclic: rk decreases *)
  rt_imports : forall m, In m s -> forall i, In i (y_imports m) ->
    exists m', In m' s /\ denotes src s i m' /\ (rk (key_of m') < rk (key_of m))%nat;
  rt_rk : forall m, In m s -> (rk (key_of m) <= length src)%nat;
  (* a module that is not implemented has no enabled feature *)
  rt_blank : forall m, In m s -> y_impl m = false -> blank m = m;
  (* one implemented revision per module name; distinct feature names in a module *)
  rt_impl1 : forall m m', In m s -> In m' s -> y_impl m = true -> y_impl m' = true -> y_name m = y_name m' -> m = m';
  rt_feat : forall m, In m s -> NoDup (map f_name (concat (groups (y_mod m))));
  (* an implemented module without revision is the only revision of its name *)
  rt_req : forall m, In m s -> y_impl m = true -> y_rev m = None -> unamb src s (y_name m) None;
  (* every import-only module is internal or imported (transitively) by an implemented module *)
  rt_reach : forall m, In m s -> y_impl m = false ->
    In (key_of m) (map key_of c0) \/ exists m0, In m0 s /\ y_impl m0 = true /\ reach src s m0 m;
  (* the rebuild starts from modules of the context (their final or their freshly parsed state) *)
  (* augment / deviation statements go through imports of the module, and the original context is settled: what an
     implemented module augments or deviates is implemented *)
  rt_deps_imp : forall m, In m s -> forall e, In e (y_deps m) -> In (fst e) (y_imports m);
  rt_deps_impl : forall d, In d s -> y_impl d = true -> forall e, In e (y_deps d) ->
    forall t, In t s -> denotes src s (fst e) t -> y_impl t = true;
  rt_c0_inv : Inv s c0;
  rt_c0_closed : ClosedEx src s [] c0
}.

Theorem yanglib_roundtrip src s c0 rk cid : rt_ok src s c0 rk ->
  exists s', rebuild (describe cid s) src c0 = Ok s' /\ NoDup (map key_of s') /\
             (forall x, In x s' <-> In x s) /\
             (forall h, In h (ctx_obs s') <-> In h (ctx_obs s)).
Proof.
  intros [H1 H2 H3 H4 H5 H6 H7 H8 H9 H10 H13 H14 H11 H12].
  destruct (roundtrip_section src s c0 rk H1 H2 H3 H4 H5 H6 H7 H8 H9 H10 H13 H14 H11 H12 cid) as (s' & E & Hnd & Hiff).
  exists s'. split; [exact E|]. split; [exact Hnd|]. split; [exact Hiff|].
  intros h. unfold ctx_obs. rewrite !in_map_iff. split; intros (x & Hx & Hin); exists x; (split; [exact Hx|]); apply Hiff; exact Hin.
Qed.

Lemma rt_ok_imports_pinned src s c0 rk : rt_ok src s c0 rk -> imports_pinned src s.
Proof.
  intros H m Hm n Hi. destruct (rt_imports _ _ _ _ H m Hm _ Hi) as (m' & _ & Hd & _).
  unfold denotes in Hd. cbn [fst snd] in Hd. exists (y_rev m'). apply Hd.
Qed.

(* ------------------------------------------------------------------------------------------------ *)
(* a concrete instance: the hypotheses are satisfiable by a context with a pinned import of a module  *)
(* that has two revisions in the sources, an import without revision-date, and an enabled feature     *)
(* ------------------------------------------------------------------------------------------------ *)
Definition e_x : bytes := [120].            (* x *)
Definition e_a : bytes := [97].             (* a *)
Definition e_b : bytes := [98].             (* b *)
Definition e_r19 : bytes := [50;48;49;57;45;48;49;45;48;49].     (* 2019-01-01 *)
Definition e_r20 : bytes := [50;48;50;48;45;48;49;45;48;49].     (* 2020-01-01 *)
Definition e_ns (n : bytes) : bytes := [117;114;110;58] ++ n.    (* urn:<name> *)

Definition e_X (impl en : bool) : ymod :=
  mkymod (mkhmod e_x (Some e_r20) impl [mkfeat [102] en; mkfeat [103] false] [[mkfeat [104] en]]) (e_ns e_x)
         [(e_a, Some e_r19); (e_b, None)] [([120;45;115;49], Some e_r20)] [].
Definition e_A19 : ymod := mkymod (mkhmod e_a (Some e_r19) false [mkfeat [102] false] []) (e_ns e_a) [(e_b, None)] [] [].
Definition e_A20 : ymod := mkymod (mkhmod e_a (Some e_r20) false [] []) (e_ns e_a) [] [] [].
Definition e_B : ymod := mkymod (mkhmod e_b None false [] []) (e_ns e_b) [] [] [].

Definition e_src : list ymod := [e_X false false; e_A19; e_A20; e_B].
Definition e_s : ctx := [e_X true true; e_A19; e_B].
Definition e_rk (k : mkey) : nat := if beq_bytes (fst k) e_x then 2 else if beq_bytes (fst k) e_a then 1 else 0.

Ltac in_cases :=
  repeat match goal with
         | H : In _ (_ :: _) |- _ => destruct H as [<-|H]
         | H : In _ [] |- _ => destruct H
         | H : _ \/ _ |- _ => destruct H
         | H : False |- _ => destruct H
         end; subst.

Lemma e_unamb_b : unamb e_src e_s e_b None.
Proof. intros x Hx Hn. unfold e_s, e_src in Hx. in_cases; try reflexivity; cbn in Hn; discriminate. Qed.

Lemma e_rt_ok_c0 c0 : Inv e_s c0 -> ClosedEx e_src e_s [] c0 -> rt_ok e_src e_s c0 e_rk.
Proof.
  intros HI HC. constructor.
  - cbn. repeat constructor; cbn; intuition discriminate.
  - cbn. repeat constructor; cbn; intuition discriminate.
  - intros m Hm. right. unfold e_s in Hm. in_cases.
    + exists (e_X false false). split; [left; reflexivity|split; reflexivity].
    + exists e_A19. split; [right; left; reflexivity|split; reflexivity].
    + exists e_B. split; [right; right; right; left; reflexivity|split; reflexivity].
  - intros m Hm i Hi. unfold e_s in Hm. in_cases; cbn in Hi; in_cases.
    + exists e_A19. split; [right; left; reflexivity|]. split; [unfold denotes; simpl; reflexivity|cbn; lia].
    + exists e_B. split; [right; right; left; reflexivity|]. split; [split; [reflexivity|exact e_unamb_b]|cbn; lia].
    + exists e_B. split; [right; right; left; reflexivity|]. split; [split; [reflexivity|exact e_unamb_b]|cbn; lia].
  - intros m Hm. unfold e_s in Hm. in_cases; cbn; lia.
  - intros m Hm Hi. unfold e_s in Hm. in_cases; try reflexivity. discriminate.
  - intros m m' Hm Hm' Hi Hi' _. unfold e_s in Hm, Hm'. in_cases; try reflexivity; discriminate.
  - intros m Hm. unfold e_s in Hm. in_cases; cbn; repeat constructor; cbn; intuition discriminate.
  - intros m Hm Hi Hr. unfold e_s in Hm. in_cases; discriminate.
  - intros m Hm Hi. right. exists (e_X true true). split; [left; reflexivity|]. split; [reflexivity|].
    unfold e_s in Hm. in_cases; try discriminate.
    + eapply reach_step with (i := (e_a, Some e_r19)) (m' := e_A19);
        [left; reflexivity|right; left; reflexivity|unfold denotes; simpl; reflexivity|apply reach_refl].
    + eapply reach_step with (i := (e_b, None)) (m' := e_B);
        [right; left; reflexivity|right; right; left; reflexivity|split; [reflexivity|exact e_unamb_b]|apply reach_refl].
  - intros m Hm e He. unfold e_s in Hm. in_cases; destruct He.
  - intros d Hd _ e He. unfold e_s in Hd. in_cases; destruct He.
  - exact HI.
  - exact HC.
Qed.

Lemma e_rt_ok : rt_ok e_src e_s [] e_rk.
Proof. apply e_rt_ok_c0; [split; [constructor|intros x []]|intros x []]. Qed.

(* a populated rebuilding context: x is already implemented with another feature state (f, h off, g on) *)
Definition e_Xpre : ymod :=
  mkymod (mkhmod e_x (Some e_r20) true [mkfeat [102] false; mkfeat [103] true] [[mkfeat [104] false]]) (e_ns e_x)
         [(e_a, Some e_r19); (e_b, None)] [([120;45;115;49], Some e_r20)] [].
Definition e_c0pre : ctx := [e_Xpre; e_A19; e_B].

Lemma e_rt_ok_pre : rt_ok e_src e_s e_c0pre e_rk.
Proof.
  apply e_rt_ok_c0.
  - split; [cbn; repeat constructor; cbn; intuition discriminate|].
    intros x Hx. unfold e_c0pre in Hx. in_cases.
    + exists (e_X true true). split; [left; reflexivity|]. split; [reflexivity|]. split; [auto|discriminate].
    + exists e_A19. split; [right; left; reflexivity|]. split; [reflexivity|]. split; [discriminate|reflexivity].
    + exists e_B. split; [right; right; left; reflexivity|]. split; [reflexivity|]. split; [discriminate|reflexivity].
  - intros x Hx _ i Hi m' Hm' _. unfold e_s in Hm'. in_cases; cbn; auto.
Qed.

Lemma e_rebuild_pre : rebuild (describe [] e_s) e_src e_c0pre = Ok e_s.
Proof. vm_compute. reflexivity. Qed.

(* the features argument matters in a populated context: the empty array (an entry without feature leaves)
   disables g, NULL would leave it enabled *)
Lemma e_keep_vs_empty :
  load_module 5 e_src e_c0pre e_x (Some e_r20) (F_list []) = Ok [e_X true false; e_A19; e_B] /\
  load_module 5 e_src e_c0pre e_x (Some e_r20) F_keep = Ok e_c0pre /\
  load_module 5 e_src e_c0pre e_x (Some e_r20) F_all <> load_module 5 e_src e_c0pre e_x (Some e_r20) (F_list []).
Proof. split; [vm_compute; reflexivity|]. split; [vm_compute; reflexivity|vm_compute; discriminate]. Qed.

(* and the model computes: the rebuild of this context from its description gives the same list *)
Lemma e_rebuild : rebuild (describe [] e_s) e_src [] = Ok e_s.
Proof. vm_compute. reflexivity. Qed.

(* with the internal modules: a context as ly_ctx_new makes it, then x loaded with feature f, h *)
Lemma e_rebuild_internal :
  rebuild (describe [] (initial_ctx ++ e_s)) e_src initial_ctx = Ok (initial_ctx ++ e_s).
Proof. vm_compute. reflexivity. Qed.

(* an import without revision-date of a module with two revisions is outside the model *)
Lemma e_unmodelled :
  rebuild (describe [] [e_X true true]) [mkymod (y_mod (e_X false false)) (e_ns e_x) [(e_a, None)] [] []; e_A19; e_A20] [e_A19]
  = Err E_UNMODELLED.
Proof. vm_compute. reflexivity. Qed.

(* ------------------------------------------------------------------------------------------------ *)
(* submodule graphs: the includes array of a module                                                  *)
(* ------------------------------------------------------------------------------------------------ *)
Definition akeys (a : iarr) : list nat := map fst a.
Definition done_ (a : iarr) (k : nat) : Prop := arr_find k a = Some true.

Lemma arr_find_none j a : arr_find j a = None <-> ~ In j (akeys a).
Proof.
  induction a as [|[k p] a IH]; cbn; [tauto|].
  destruct (Nat.eqb k j) eqn:E.
  - apply Nat.eqb_eq in E. split; [discriminate|]. intros H. exfalso. apply H. left. exact E.
  - apply Nat.eqb_neq in E. rewrite IH. tauto.
Qed.

Lemma arr_find_in j a b : arr_find j a = Some b -> In j (akeys a).
Proof.
  intros H. destruct (in_dec Nat.eq_dec j (akeys a)) as [Hi|Hn]; [exact Hi|].
  apply arr_find_none in Hn. congruence.
Qed.

Lemma in_arr_find j a : In j (akeys a) -> exists b, arr_find j a = Some b.
Proof.
  intros H. destruct (arr_find j a) as [b|] eqn:E; [eauto|]. apply arr_find_none in E. contradiction.
Qed.

Lemma akeys_fill j a : akeys (arr_fill j a) = akeys a.
Proof.
  unfold akeys, arr_fill. rewrite map_map. apply map_ext. intros [k p]. cbn.
  destruct (Nat.eqb k j) eqn:E; [apply Nat.eqb_eq in E; subst; reflexivity|reflexivity].
Qed.

Lemma arr_find_fill j k a :
  arr_find k (arr_fill j a) = if Nat.eqb k j then (match arr_find k a with Some _ => Some true | None => None end)
                              else arr_find k a.
Proof.
  induction a as [|[i p] a IH]; [cbn; destruct (Nat.eqb k j); reflexivity|].
  change (arr_fill j ((i, p) :: a)) with ((if Nat.eqb i j then (j, true) else (i, p)) :: arr_fill j a).
  destruct (Nat.eqb i j) eqn:Eij; cbn [arr_find].
  - apply Nat.eqb_eq in Eij. subst i. destruct (Nat.eqb j k) eqn:Ejk.
    + apply Nat.eqb_eq in Ejk. subst k. rewrite Nat.eqb_refl. reflexivity.
    + exact IH.
  - destruct (Nat.eqb i k) eqn:Eik.
    + apply Nat.eqb_eq in Eik. subst i. rewrite Eij. reflexivity.
    + exact IH.
Qed.

Lemma fill_done j a : In j (akeys a) -> done_ (arr_fill j a) j.
Proof.
  intros H. unfold done_. rewrite arr_find_fill, Nat.eqb_refl. destruct (in_arr_find j a H) as [b ->]. reflexivity.
Qed.

Lemma fill_done_mono j a k : done_ a k -> done_ (arr_fill j a) k.
Proof.
  unfold done_. intros H. rewrite arr_find_fill, H. destruct (Nat.eqb k j); reflexivity.
Qed.

Lemma arr_find_app k a j :
  arr_find k (a ++ [(j, true)]) = match arr_find k a with Some b => Some b | None => if Nat.eqb j k then Some true else None end.
Proof.
  induction a as [|[i p] a IH]; cbn; [reflexivity|]. destruct (Nat.eqb i k); [reflexivity|exact IH].
Qed.

Lemma inject_keys_in j a : In j (akeys a) -> akeys (arr_inject j a) = akeys a.
Proof.
  intros H. unfold arr_inject. destruct (in_arr_find j a H) as [b ->]. apply akeys_fill.
Qed.

Lemma inject_keys_new j a : ~ In j (akeys a) -> akeys (arr_inject j a) = akeys a ++ [j].
Proof.
  intros H. unfold arr_inject. apply arr_find_none in H. rewrite H. unfold akeys. rewrite map_app. reflexivity.
Qed.

Lemma inject_done j a : done_ (arr_inject j a) j.
Proof.
  unfold arr_inject. destruct (arr_find j a) as [b|] eqn:E.
  - apply fill_done. exact (arr_find_in _ _ _ E).
  - unfold done_. rewrite arr_find_app, E, Nat.eqb_refl. reflexivity.
Qed.

Lemma inject_done_mono j a k : done_ a k -> done_ (arr_inject j a) k.
Proof.
  unfold arr_inject. intros H. destruct (arr_find j a); [apply fill_done_mono; exact H|].
  unfold done_ in *. rewrite arr_find_app, H. reflexivity.
Qed.

Lemma inject_keys_cases j a k : In k (akeys (arr_inject j a)) <-> In k (akeys a) \/ k = j.
Proof.
  destruct (in_dec Nat.eq_dec j (akeys a)) as [Hi|Hn].
  - rewrite (inject_keys_in j a Hi). split; [auto|]. intros [H| ->]; assumption.
  - rewrite (inject_keys_new j a Hn), in_app_iff. cbn. split.
    + intros [H|[<-|[]]]; [left; exact H|right; reflexivity].
    + intros [H| ->]; [left; exact H|right; left; reflexivity].
Qed.

Lemma inject_nodup j a : NoDup (akeys a) -> NoDup (akeys (arr_inject j a)).
Proof.
  intros H. destruct (in_dec Nat.eq_dec j (akeys a)) as [Hi|Hn].
  - rewrite (inject_keys_in j a Hi). exact H.
  - rewrite (inject_keys_new j a Hn). apply NoDup_app_one; assumption.
Qed.

(* a' extends a: the same keys at the same positions, possibly more at the end; parsed stays parsed *)
Definition aext (a a' : iarr) : Prop :=
  (exists e, akeys a' = akeys a ++ e) /\ (forall k, done_ a k -> done_ a' k).

Lemma aext_refl a : aext a a.
Proof. split; [exists []; rewrite app_nil_r; reflexivity|auto]. Qed.

Lemma aext_trans a b c : aext a b -> aext b c -> aext a c.
Proof.
  intros [[e1 H1] D1] [[e2 H2] D2]. split; [|auto].
  exists (e1 ++ e2). rewrite H2, H1, app_assoc. reflexivity.
Qed.

Lemma aext_inject j a : aext a (arr_inject j a).
Proof.
  split; [|intros k; apply inject_done_mono].
  destruct (in_dec Nat.eq_dec j (akeys a)) as [Hi|Hn].
  - exists []. rewrite (inject_keys_in j a Hi), app_nil_r. reflexivity.
  - exists [j]. apply inject_keys_new. exact Hn.
Qed.

Lemma aext_fill j a : aext a (arr_fill j a).
Proof. split; [exists []; rewrite akeys_fill, app_nil_r; reflexivity|intros k; apply fill_done_mono]. Qed.

Lemma aext_incl a a' k : aext a a' -> In k (akeys a) -> In k (akeys a').
Proof. intros [[e H] _] Hi. rewrite H. apply in_app_iff. left. exact Hi. Qed.

Lemma nth_find u a j b : NoDup (akeys a) -> nth_error a u = Some (j, b) -> arr_find j a = Some b.
Proof.
  revert u; induction a as [|[k p] a IH]; intros [|u] Hnd H; cbn in *; try discriminate.
  - injection H as -> ->. rewrite Nat.eqb_refl. reflexivity.
  - inversion Hnd as [|? ? Hk Hr]; subst.
    destruct (Nat.eqb k j) eqn:E.
    + apply Nat.eqb_eq in E. subst k. exfalso. apply Hk. apply nth_error_In in H. apply (in_map fst) in H. exact H.
    + apply (IH u); assumption.
Qed.

Section SubGraph.
  Variable incs : list (list nat).
  Let n := length incs.
  Definition inc_of (k : nat) : list nat := nth k incs [].

  (* include statements name existing submodules (1 .. n-1) and not the (sub)module itself *)
  Definition wf_incs : Prop := forall k j, In j (inc_of k) -> (1 <= j < n)%nat /\ j <> k.

  (* the include closure of the module *)
  Inductive sreach : nat -> Prop :=
  | sr_main j : In j (inc_of O) -> sreach j
  | sr_step k j : sreach k -> In j (inc_of k) -> sreach j.

  Hypothesis Hwf : wf_incs.

  Lemma sreach_range j : sreach j -> (1 <= j < n)%nat.
  Proof. intros [j' H|k j' _ H]; apply (Hwf _ _ H). Qed.

  (* distinct numbers in 1 .. n-1 are at most n-1 *)
  Lemma range_length (l : list nat) : NoDup l -> (forall x, In x l -> (1 <= x < n)%nat) -> (length l <= n - 1)%nat.
  Proof.
    intros Hnd Hr. rewrite <- (seq_length (n - 1) 1). apply NoDup_incl_length; [exact Hnd|].
    intros x Hx. apply in_seq. specialize (Hr x Hx). lia.
  Qed.

  Definition AInv (a : iarr) : Prop := NoDup (akeys a) /\ forall j, In j (akeys a) -> sreach j.
  (* every parsed submodule has its includes in the array, or they are being parsed (stack) *)
  Definition AClosed (stack : list nat) (a : iarr) : Prop :=
    forall k, done_ a k -> forall j, In j (inc_of k) -> In j (akeys a) \/ In j stack.

  Lemma aclosed_weaken st x a : AClosed st a -> AClosed (x :: st) a.
  Proof. intros H k Hk j Hj. destruct (H k Hk j Hj); [left|right; right]; assumption. Qed.

  Definition SubPost (early : bool) (stack : list nat) (cur : nat) (a a' : iarr) : Prop :=
    AInv a' /\ aext a a' /\
    (early = false -> AClosed (cur :: stack) a -> AClosed (cur :: stack) a' /\
                      forall j, In j (inc_of cur) -> In j (akeys a') \/ In j stack).

  Lemma parse_sub_spec early v11 : forall fuel stack cur a,
    AInv a -> sreach cur -> NoDup (cur :: stack) -> (forall x, In x stack -> sreach x) ->
    (n <= fuel + length stack)%nat ->
    match parse_sub fuel early v11 incs stack cur a with
    | Ok a' => SubPost early stack cur a a'
    | Err _ => v11 = true
    end.
  Proof.
    induction fuel as [|fuel IH]; intros stack cur a Hinv Hcur Hnd Hst Hfuel.
    { exfalso. assert (Hl : (length (cur :: stack) <= n - 1)%nat).
      { apply range_length; [exact Hnd|]. intros x [<-|Hx]; apply sreach_range; auto. }
      cbn in Hl, Hfuel. pose proof (sreach_range cur Hcur). lia. }
    cbn [parse_sub]. fold (inc_of cur).
    set (step := fun (a0 : iarr) (j : nat) =>
      match arr_find j a0 with
      | Some true => Ok (a0, early)
      | found =>
          if match found with None => v11 | Some _ => false end then Err E_SUB11
          else if existsb (Nat.eqb j) stack then Ok (a0, early)
          else match parse_sub fuel early v11 incs (cur :: stack) j a0 with
               | Err e => Err e
               | Ok a1 => Ok (arr_inject j a1, false)
               end
      end).
    (* the loop over a suffix of the includes of cur *)
    assert (Hloop : forall is a0, (forall j, In j is -> In j (inc_of cur)) -> AInv a0 ->
      match sub_loop step is a0 with
      | Ok a' => AInv a' /\ aext a0 a' /\
                 (early = false -> AClosed (cur :: stack) a0 -> AClosed (cur :: stack) a' /\
                                   forall j, In j is -> In j (akeys a') \/ In j stack)
      | Err _ => v11 = true
      end).
    { induction is as [|j is IHis]; intros a0 Hsub Hinv0; cbn [sub_loop].
      - split; [exact Hinv0|]. split; [apply aext_refl|]. intros _ Hc. split; [exact Hc|]. intros j [].
      - assert (Hj : In j (inc_of cur)) by (apply Hsub; left; reflexivity).
        assert (Hjr : sreach j) by (eapply sr_step; eassumption).
        assert (Hsub' : forall j0, In j0 is -> In j0 (inc_of cur)) by (intros j0 Hj0; apply Hsub; right; exact Hj0).
        (* the cases in which nothing is parsed: the include is present and parsed, or it is an ancestor *)
        assert (Hskip : forall (Hpres : In j (akeys a0) \/ In j stack),
                  match (if early then Ok a0 else sub_loop step is a0) with
                  | Ok a' => AInv a' /\ aext a0 a' /\
                             (early = false -> AClosed (cur :: stack) a0 -> AClosed (cur :: stack) a' /\
                                forall j0, In j0 (j :: is) -> In j0 (akeys a') \/ In j0 stack)
                  | Err _ => v11 = true
                  end).
        { intros Hpres. destruct early.
          - split; [exact Hinv0|]. split; [apply aext_refl|]. discriminate.
          - specialize (IHis a0 Hsub' Hinv0). destruct (sub_loop step is a0) as [a'|e]; [|exact IHis].
            destruct IHis as (I1 & I2 & I3). split; [exact I1|]. split; [exact I2|].
            intros He Hc. destruct (I3 He Hc) as [C1 C2]. split; [exact C1|].
            intros j0 [<-|Hj0]; [|apply C2; exact Hj0].
            destruct Hpres as [Hp|Hp]; [left; eapply aext_incl; eassumption|right; exact Hp]. }
        unfold step at 1.
        destruct (arr_find j a0) as [[|]|] eqn:Ef.
        + (* parsed in the module *)
          apply Hskip. left. exact (arr_find_in _ _ _ Ef).
        + (* listed by the module, not parsed yet *)
          destruct (existsb (Nat.eqb j) stack) eqn:Est.
          * apply Hskip. right. apply existsb_exists in Est. destruct Est as (x & Hx & E). apply Nat.eqb_eq in E. subst x. exact Hx.
          * assert (Hjn : ~ In j stack).
            { intros Hin. assert (existsb (Nat.eqb j) stack = true) by (apply existsb_exists; exists j; split; [exact Hin|apply Nat.eqb_refl]). congruence. }
            assert (Hjc : j <> cur) by (apply (Hwf _ _ Hj)).
            specialize (IH (cur :: stack) j a0 Hinv0 Hjr).
            assert (Hnd' : NoDup (j :: cur :: stack)).
            { constructor; [|exact Hnd]. intros [E|Hin]; [congruence|contradiction]. }
            assert (Hst' : forall x, In x (cur :: stack) -> sreach x) by (intros x [<-|Hx]; auto).
            specialize (IH Hnd' Hst'). cbn [length] in IH. specialize (IH ltac:(lia)).
            destruct (parse_sub fuel early v11 incs (cur :: stack) j a0) as [a1|e]; [|exact IH].
            destruct IH as (J1 & J2 & J3).
            assert (Hinv2 : AInv (arr_inject j a1)).
            { split; [apply inject_nodup; apply J1|]. intros k Hk. apply inject_keys_cases in Hk.
              destruct Hk as [Hk| ->]; [apply J1; exact Hk|exact Hjr]. }
            specialize (IHis (arr_inject j a1) Hsub' Hinv2).
            destruct (sub_loop step is (arr_inject j a1)) as [a'|e]; [|exact IHis].
            destruct IHis as (I1 & I2 & I3). split; [exact I1|].
            assert (Hext : aext a0 (arr_inject j a1)) by (eapply aext_trans; [exact J2|apply aext_inject]).
            split; [eapply aext_trans; eassumption|].
            intros He Hc. destruct (J3 He (aclosed_weaken _ j _ Hc)) as [K1 K2].
            assert (Hc2 : AClosed (cur :: stack) (arr_inject j a1)).
            { intros k Hk i Hi.
              destruct (Nat.eq_dec k j) as [->|Hkj].
              - destruct (K2 i Hi) as [Hp|Hp]; [left; apply inject_keys_cases; left; exact Hp|right; exact Hp].
              - assert (Hk1 : done_ a1 k).
                { unfold done_, arr_inject in *. destruct (arr_find j a1).
                  - rewrite arr_find_fill in Hk. apply Nat.eqb_neq in Hkj. rewrite Hkj in Hk. exact Hk.
                  - rewrite arr_find_app in Hk. destruct (arr_find k a1) as [b|]; [exact Hk|].
                    destruct (Nat.eqb j k) eqn:E; [apply Nat.eqb_eq in E; congruence|discriminate]. }
                destruct (K1 k Hk1 i Hi) as [Hp|[<-|Hp]].
                + left. apply inject_keys_cases. left. exact Hp.
                + left. apply inject_keys_cases. right. reflexivity.
                + right. exact Hp. }
            destruct (I3 He Hc2) as [C1 C2]. split; [exact C1|].
            intros j0 [<-|Hj0]; [|apply C2; exact Hj0].
            left. eapply aext_incl; [exact I2|]. apply inject_keys_cases. right. reflexivity.
        + (* not listed by the module *)
          destruct v11; [reflexivity|].
          destruct (existsb (Nat.eqb j) stack) eqn:Est.
          * apply Hskip. right. apply existsb_exists in Est. destruct Est as (x & Hx & E). apply Nat.eqb_eq in E. subst x. exact Hx.
          * assert (Hjn : ~ In j stack).
            { intros Hin. assert (existsb (Nat.eqb j) stack = true) by (apply existsb_exists; exists j; split; [exact Hin|apply Nat.eqb_refl]). congruence. }
            assert (Hjc : j <> cur) by (apply (Hwf _ _ Hj)).
            specialize (IH (cur :: stack) j a0 Hinv0 Hjr).
            assert (Hnd' : NoDup (j :: cur :: stack)).
            { constructor; [|exact Hnd]. intros [E|Hin]; [congruence|contradiction]. }
            assert (Hst' : forall x, In x (cur :: stack) -> sreach x) by (intros x [<-|Hx]; auto).
            specialize (IH Hnd' Hst'). cbn [length] in IH. specialize (IH ltac:(lia)).
            destruct (parse_sub fuel early false incs (cur :: stack) j a0) as [a1|e]; [|exact IH].
            destruct IH as (J1 & J2 & J3).
            assert (Hinv2 : AInv (arr_inject j a1)).
            { split; [apply inject_nodup; apply J1|]. intros k Hk. apply inject_keys_cases in Hk.
              destruct Hk as [Hk| ->]; [apply J1; exact Hk|exact Hjr]. }
            specialize (IHis (arr_inject j a1) Hsub' Hinv2).
            destruct (sub_loop step is (arr_inject j a1)) as [a'|e]; [|exact IHis].
            destruct IHis as (I1 & I2 & I3). split; [exact I1|].
            assert (Hext : aext a0 (arr_inject j a1)) by (eapply aext_trans; [exact J2|apply aext_inject]).
            split; [eapply aext_trans; eassumption|].
            intros He Hc. destruct (J3 He (aclosed_weaken _ j _ Hc)) as [K1 K2].
            assert (Hc2 : AClosed (cur :: stack) (arr_inject j a1)).
            { intros k Hk i Hi.
              destruct (Nat.eq_dec k j) as [->|Hkj].
              - destruct (K2 i Hi) as [Hp|Hp]; [left; apply inject_keys_cases; left; exact Hp|right; exact Hp].
              - assert (Hk1 : done_ a1 k).
                { unfold done_, arr_inject in *. destruct (arr_find j a1).
                  - rewrite arr_find_fill in Hk. apply Nat.eqb_neq in Hkj. rewrite Hkj in Hk. exact Hk.
                  - rewrite arr_find_app in Hk. destruct (arr_find k a1) as [b|]; [exact Hk|].
                    destruct (Nat.eqb j k) eqn:E; [apply Nat.eqb_eq in E; congruence|discriminate]. }
                destruct (K1 k Hk1 i Hi) as [Hp|[<-|Hp]].
                + left. apply inject_keys_cases. left. exact Hp.
                + left. apply inject_keys_cases. right. reflexivity.
                + right. exact Hp. }
            destruct (I3 He Hc2) as [C1 C2]. split; [exact C1|].
            intros j0 [<-|Hj0]; [|apply C2; exact Hj0].
            left. eapply aext_incl; [exact I2|]. apply inject_keys_cases. right. reflexivity. }
    specialize (Hloop (inc_of cur) a (fun j H => H) Hinv).
    destruct (sub_loop step (inc_of cur) a) as [a'|e]; [|exact Hloop].
    exact Hloop.
  Qed.
  Definition AllDoneBefore (u : nat) (a : iarr) : Prop :=
    forall i j, (i < u)%nat -> nth_error (akeys a) i = Some j -> done_ a j.

  Lemma ainv_length a : AInv a -> (length a <= n - 1)%nat.
  Proof.
    intros [Hnd Hr]. rewrite <- (map_length fst a). apply range_length; [exact Hnd|].
    intros x Hx. apply sreach_range. apply Hr. exact Hx.
  Qed.

  Lemma aext_nth a a' i : aext a a' -> (i < length a)%nat -> nth_error (akeys a') i = nth_error (akeys a) i.
  Proof.
    intros [[e H] _] Hi. rewrite H. apply nth_error_app1. unfold akeys. rewrite map_length. exact Hi.
  Qed.

  Lemma main_loop_spec early v11 : forall fuel u a,
    AInv a -> (n + 1 <= fuel + u)%nat -> (u <= length a)%nat -> AllDoneBefore u a ->
    match main_loop fuel early v11 incs u a with
    | Ok a' => AInv a' /\ aext a a' /\ (forall j, In j (akeys a') -> done_ a' j) /\
               (early = false -> AClosed [] a -> AClosed [] a')
    | Err _ => v11 = true
    end.
  Proof.
    induction fuel as [|fuel IH]; intros u a Hinv Hf Hu Hdone.
    { pose proof (ainv_length a Hinv). lia. }
    cbn [main_loop]. destruct (nth_error a u) as [[j b]|] eqn:En.
    - assert (Hul : (u < length a)%nat) by (apply nth_error_Some; congruence).
      assert (Hkey : nth_error (akeys a) u = Some j) by (unfold akeys; rewrite (map_nth_error fst u a En); reflexivity).
      assert (Hfind : arr_find j a = Some b) by (apply (nth_find u); [apply Hinv|exact En]).
      destruct b.
      + (* already parsed *)
        apply IH; [exact Hinv|lia|lia|].
        intros i j0 Hi Hn. destruct (Nat.eq_dec i u) as [->|Hne]; [|apply (Hdone i); [lia|exact Hn]].
        rewrite Hkey in Hn. injection Hn as <-. exact Hfind.
      + assert (Hjr : sreach j) by (apply Hinv; eapply arr_find_in; exact Hfind).
        pose proof (parse_sub_spec early v11 (S (length incs)) [] j a Hinv Hjr) as Hp.
        assert (Hnd1 : NoDup [j]) by (constructor; [intros []|constructor]).
        specialize (Hp Hnd1 (fun x H => match H with end)). cbn [length] in Hp. specialize (Hp ltac:(fold n; lia)).
        destruct (parse_sub (S (length incs)) early v11 incs [] j a) as [a1|e]; [|exact Hp].
        destruct Hp as (J1 & J2 & J3).
        assert (Hj1 : In j (akeys a1)) by (eapply aext_incl; [exact J2|eapply arr_find_in; exact Hfind]).
        assert (Hinv2 : AInv (arr_fill j a1)) by (unfold AInv; rewrite akeys_fill; exact J1).
        assert (Hext : aext a (arr_fill j a1)) by (eapply aext_trans; [exact J2|apply aext_fill]).
        specialize (IH (S u) (arr_fill j a1) Hinv2 ltac:(lia)).
        assert (Hlen : (S u <= length (arr_fill j a1))%nat).
        { unfold arr_fill. rewrite map_length. destruct J2 as [[e He] _].
          assert (Hl : length (akeys a1) = (length (akeys a) + length e)%nat) by (rewrite He, app_length; reflexivity).
          unfold akeys in Hl. rewrite !map_length in Hl. lia. }
        specialize (IH Hlen).
        assert (Hdone2 : AllDoneBefore (S u) (arr_fill j a1)).
        { intros i j0 Hi Hn. rewrite (aext_nth a _ i Hext) in Hn by lia.
          destruct (Nat.eq_dec i u) as [->|Hne].
          - rewrite Hkey in Hn. injection Hn as <-. apply fill_done. exact Hj1.
          - apply Hext. apply (Hdone i); [lia|exact Hn]. }
        specialize (IH Hdone2).
        destruct (main_loop fuel early v11 incs (S u) (arr_fill j a1)) as [a'|e]; [|exact IH].
        destruct IH as (I1 & I2 & I3 & I4). split; [exact I1|]. split; [eapply aext_trans; eassumption|].
        split; [exact I3|]. intros He Hc. apply (I4 He).
        destruct (J3 He (aclosed_weaken _ j _ Hc)) as [K1 K2].
        intros k Hk i Hi.
        destruct (Nat.eq_dec k j) as [->|Hkj].
        * destruct (K2 i Hi) as [Hp|[]]. left. rewrite akeys_fill. exact Hp.
        * assert (Hk1 : done_ a1 k).
          { unfold done_ in *. rewrite arr_find_fill in Hk. apply Nat.eqb_neq in Hkj. rewrite Hkj in Hk. exact Hk. }
          left. rewrite akeys_fill. destruct (K1 k Hk1 i Hi) as [Hp|[<-|[]]]; [exact Hp|exact Hj1].
    - (* the end of the array *)
      assert (Hul : (length a <= u)%nat) by (apply nth_error_None; exact En).
      split; [exact Hinv|]. split; [apply aext_refl|]. split; [|auto].
      intros j Hj. apply In_nth_error in Hj. destruct Hj as [i Hi].
      apply (Hdone i j); [|exact Hi].
      assert (Hlt : (i < length (akeys a))%nat) by (apply nth_error_Some; congruence).
      unfold akeys in Hlt. rewrite map_length in Hlt. lia.
  Qed.

  Lemma initial_not_done l k : ~ done_ (map (fun j => (j, false)) l) k.
  Proof. unfold done_. induction l as [|x l IH]; cbn; [discriminate|]. destruct (Nat.eqb x k); [discriminate|exact IH]. Qed.

  (* the final includes array: every entry once, only submodules of the include closure; without the early
     return all of them; refused graphs only in YANG 1.1 *)
  Theorem includes_order_spec early v11 : NoDup (inc_of O) ->
    match includes_order_gen early v11 incs with
    | Ok l => NoDup l /\ (forall j, In j l -> sreach j) /\ (early = false -> forall j, sreach j -> In j l)
    | Err _ => v11 = true
    end.
  Proof.
    intros Hnd0. unfold includes_order_gen. fold (inc_of O).
    set (a0 := map (fun j => (j, false)) (inc_of O)).
    assert (Hk0 : akeys a0 = inc_of O).
    { unfold a0, akeys. rewrite map_map. cbn [fst]. apply map_id. }
    assert (Hinv0 : AInv a0).
    { split; [rewrite Hk0; exact Hnd0|]. intros j Hj. rewrite Hk0 in Hj. apply sr_main. exact Hj. }
    pose proof (main_loop_spec early v11 (S (length incs)) O a0 Hinv0) as H.
    specialize (H ltac:(fold n; lia) ltac:(lia) (fun i j Hi _ => match Nat.nlt_0_r i Hi with end)).
    destruct (main_loop (S (length incs)) early v11 incs O a0) as [a'|e]; [|exact H].
    destruct H as (I1 & I2 & I3 & I4). fold (akeys a').
    split; [apply I1|]. split; [apply I1|].
    intros He j Hj.
    assert (Hc : AClosed [] a') by (apply (I4 He); intros k Hk; exfalso; exact (initial_not_done _ _ Hk)).
    induction Hj as [j Hj|k j Hk IHk Hj].
    - eapply aext_incl; [exact I2|]. rewrite Hk0. exact Hj.
    - destruct (Hc k (I3 k IHk) j Hj) as [Hp|[]]. exact Hp.
  Qed.
End SubGraph.

(* ---- the feature list of the description for a module given by its submodule graph ---- *)
(* [gs] = the feature arrays by (sub)module number (0 = the module); the context holds them in the order of the
   final includes array; ylib_feature() lists the enabled features of all of them *)
Definition listed_features (gs : list (list feat)) (order : list nat) : list bytes :=
  enabled_names (concat (nth O gs [] :: regroup gs order)).

Lemma nodup_app_inv {A} (l l' : list A) : NoDup (l ++ l') -> NoDup l /\ NoDup l' /\ forall x, In x l -> ~ In x l'.
Proof.
  induction l as [|a l IH]; cbn; intros H.
  - split; [constructor|]. split; [exact H|]. intros x [].
  - inversion H as [|? ? Ha Hr]; subst. destruct (IH Hr) as (H1 & H2 & H3).
    split; [constructor; [intros Hi; apply Ha; apply in_app_iff; left; exact Hi|exact H1]|].
    split; [exact H2|]. intros x [<-|Hx]; [intros Hi; apply Ha; apply in_app_iff; right; exact Hi|apply H3; exact Hx].
Qed.

Lemma nodup_app_intro {A} (l l' : list A) : NoDup l -> NoDup l' -> (forall x, In x l -> ~ In x l') -> NoDup (l ++ l').
Proof.
  induction l as [|a l IH]; cbn; intros H1 H2 H3; [exact H2|].
  inversion H1 as [|? ? Ha Hr]; subst. constructor.
  - intros Hi. apply in_app_iff in Hi. destruct Hi as [Hi|Hi]; [contradiction|]. apply (H3 a); [left; reflexivity|exact Hi].
  - apply IH; [exact Hr|exact H2|]. intros x Hx. apply H3. right. exact Hx.
Qed.

Lemma nodup_names_pick (gs : list (list feat)) : NoDup (map f_name (concat gs)) ->
  forall idx, NoDup idx -> NoDup (map f_name (concat (map (fun j => nth j gs []) idx))).
Proof.
  intros Hnd.
  (* names of different arrays are different, every array has distinct names *)
  assert (Hone : forall i, NoDup (map f_name (nth i gs []))).
  { clear - Hnd. induction gs as [|g gs IHg]; intros i; [destruct i; constructor|].
    cbn [concat] in Hnd. rewrite map_app in Hnd. destruct (nodup_app_inv _ _ Hnd) as (H1 & H2 & _).
    destruct i as [|i]; [exact H1|apply IHg; exact H2]. }
  assert (Hdis : forall i j x, i <> j -> In x (map f_name (nth i gs [])) -> ~ In x (map f_name (nth j gs []))).
  { clear - Hnd. induction gs as [|g gs IHg]; intros i j x Hij Hi Hj; [destruct i; destruct Hi|].
    cbn [concat] in Hnd. rewrite map_app in Hnd. destruct (nodup_app_inv _ _ Hnd) as (H1 & H2 & H3).
    assert (Hsub : forall k y, In y (map f_name (nth k gs [])) -> In y (map f_name (concat gs))).
    { intros k y Hy. apply in_map_iff in Hy. destruct Hy as (f & Hf & Hin). apply in_map_iff. exists f. split; [exact Hf|].
      apply in_concat. exists (nth k gs []). split; [|exact Hin].
      destruct (nth_in_or_default k gs []) as [H|E]; [exact H|rewrite E in Hin; destruct Hin]. }
    destruct i as [|i], j as [|j]; cbn [nth] in *; try congruence.
    - apply (H3 x Hi). apply (Hsub j). exact Hj.
    - apply (H3 x Hj). apply (Hsub i). exact Hi.
    - apply (IHg H2 i j x); [congruence|exact Hi|exact Hj]. }
  induction idx as [|i idx IH]; intros Hi; cbn [map concat]; [constructor|].
  inversion Hi as [|? ? Hni Hr]; subst. rewrite map_app.
  apply nodup_app_intro; [apply Hone|apply IH; exact Hr|].
  intros x Hx Hx'. apply in_map_iff in Hx'. destruct Hx' as (f' & Hf' & Hin').
  apply in_concat in Hin'. destruct Hin' as (g' & Hg' & Hfg').
  apply in_map_iff in Hg'. destruct Hg' as (j & <- & Hj).
  apply (Hdis i j x); [intros ->; contradiction|exact Hx|].
  apply in_map_iff. exists f'. split; assumption.
Qed.

(* the description lists every enabled feature of the module and of the submodules of its include closure, each
   exactly once (given distinct feature names in the module, which the parser checks, and without the early return
   in the include loop); as coded it lists no feature twice and only features of the closure *)
Theorem listed_features_spec incs (gs : list (list feat)) early v11 :
  wf_incs incs -> NoDup (inc_of incs O) -> NoDup (map f_name (concat gs)) ->
  match includes_order_gen early v11 incs with
  | Ok order =>
      NoDup (listed_features gs order) /\
      (forall x, In x (listed_features gs order) ->
         exists k f, (k = O \/ sreach incs k) /\ In f (nth k gs []) /\ f_en f = true /\ f_name f = x) /\
      (early = false -> forall k f, (k = O \/ sreach incs k) -> In f (nth k gs []) -> f_en f = true ->
         In (f_name f) (listed_features gs order))
  | Err _ => v11 = true
  end.
Proof.
  intros Hwf Hnd0 Hnames.
  pose proof (includes_order_spec incs Hwf early v11 Hnd0) as H.
  destruct (includes_order_gen early v11 incs) as [order|e]; [|exact H].
  destruct H as (Ho1 & Ho2 & Ho3).
  assert (H0 : ~ In O order).
  { intros Hi. pose proof (sreach_range incs Hwf O (Ho2 O Hi)). lia. }
  assert (Hidx : NoDup (O :: order)) by (constructor; assumption).
  unfold listed_features, regroup.
  change (nth O gs [] :: map (fun j => nth j gs []) order) with (map (fun j => nth j gs []) (O :: order)).
  split; [|split].
  - unfold enabled_names. apply nodup_map_filter. apply nodup_names_pick; assumption.
  - intros x Hx. unfold enabled_names in Hx. apply in_map_iff in Hx. destruct Hx as (f & Hf & Hin).
    apply filter_In in Hin. destruct Hin as [Hin Hen]. apply in_concat in Hin. destruct Hin as (g & Hg & Hfg).
    apply in_map_iff in Hg. destruct Hg as (k & <- & Hk).
    exists k, f. split; [destruct Hk as [<-|Hk]; [left; reflexivity|right; apply Ho2; exact Hk]|]. repeat split; assumption.
  - intros He k f Hk Hin Hen. unfold enabled_names. apply in_map_iff. exists f. split; [reflexivity|].
    apply filter_In. split; [|exact Hen]. apply in_concat. exists (nth k gs []). split; [|exact Hin].
    apply in_map_iff. exists k. split; [reflexivity|]. destruct Hk as [->|Hk]; [left; reflexivity|right; apply (Ho3 He); exact Hk].
Qed.

(* the defect of the include loop, concrete (confirmed on the library): module includes s1, s2; s2 includes s1, s3 *)
Lemma sub_skip_witness :
  includes_order_gen true false [[1; 2]; []; [1; 3]; []]%nat = Ok [1; 2]%nat /\
  includes_order_gen false false [[1; 2]; []; [1; 3]; []]%nat = Ok [1; 2; 3]%nat /\
  sreach [[1; 2]; []; [1; 3]; []]%nat 3 /\ wf_incs [[1; 2]; []; [1; 3]; []]%nat.
Proof.
  split; [vm_compute; reflexivity|]. split; [vm_compute; reflexivity|]. split.
  - apply (sr_step _ 2%nat 3%nat); [apply sr_main; cbn; auto|cbn; auto].
  - intros k j Hj. unfold inc_of in Hj.
    destruct k as [|[|[|[|k]]]]; cbn in Hj; repeat (destruct Hj as [<-|Hj]; [cbn; lia|]); try destruct Hj.
    destruct k; destruct Hj.
Qed.

(* injected includes as the library orders them (confirmed on the library): chain m -> s1 -> s2 -> s3 and diamond *)
Lemma includes_order_examples :
  includes_order false [[1]; [2]; [3]; []]%nat = Ok [1; 3; 2]%nat /\
  includes_order false [[1; 2]; [3]; [3]; []]%nat = Ok [1; 2; 3]%nat /\
  includes_order true [[1]; [2]; [3]; []]%nat = Err E_SUB11 /\
  includes_order true [[3; 1; 2]; [2]; []; [1; 2]]%nat = Ok [3; 1; 2]%nat.
Proof. repeat split; vm_compute; reflexivity. Qed.

(* ------------------------------------------------------------------------------------------------ *)
(* submodule entries and deviation lists of the description                                          *)
(* ------------------------------------------------------------------------------------------------ *)
Lemma describe_submodules c m :
  ym_submodules (describe_module c m) = y_subs m /\ yi_submodules (describe_imponly m) = y_subs m.
Proof. split; reflexivity. Qed.

(* the submodule entries of a module given by its submodule graph: [sinfo j] = name and revision of submodule j;
   the includes array (y_subs) is [map sinfo] of the order that lysp_load_submodules produces.  Every submodule of
   the include closure is described exactly once, with its revision, and nothing else is. *)
Theorem described_submodules_spec incs v11 (sinfo : nat -> bytes * option bytes) :
  wf_incs incs -> NoDup (inc_of incs O) -> (forall i j, fst (sinfo i) = fst (sinfo j) -> i = j) ->
  match includes_order v11 incs with
  | Ok order =>
      NoDup (map fst (map sinfo order)) /\
      (forall j, sreach incs j -> In (sinfo j) (map sinfo order)) /\
      (forall e, In e (map sinfo order) -> exists j, sreach incs j /\ e = sinfo j)
  | Err _ => v11 = true
  end.
Proof.
  intros Hwf Hnd Hinj. pose proof (includes_order_spec incs Hwf false v11 Hnd) as H.
  change (includes_order v11 incs) with (includes_order_gen false v11 incs).
  destruct (includes_order_gen false v11 incs) as [order|e]; [|exact H].
  destruct H as (H1 & H2 & H3). split; [|split].
  - rewrite map_map. clear H2 H3. induction order as [|i order IH]; cbn; [constructor|].
    inversion H1 as [|? ? Hi Hr]; subst. constructor; [|apply IH; exact Hr].
    intros Hin. apply in_map_iff in Hin. destruct Hin as (j & Hj & Hjin). apply Hinj in Hj. subst j. contradiction.
  - intros j Hj. apply in_map. apply (H3 eq_refl). exact Hj.
  - intros e He. apply in_map_iff in He. destruct He as (j & <- & Hj). exists j. split; [apply H2; exact Hj|reflexivity].
Qed.

(* the deviation list of an implemented module names exactly the implemented modules of the context that deviate
   it (the modules lys_implement registers in its deviated_by); other modules have none *)
Theorem describe_deviations_spec c m :
  (y_impl m = true -> forall n, In n (ym_deviations (describe_module c m)) <->
     exists d, In d c /\ y_impl d = true /\ deviates d m = true /\ y_name d = n) /\
  (y_impl m = false -> ym_deviations (describe_module c m) = []).
Proof.
  unfold describe_module, yl_deviations. cbn [ym_deviations]. split; intros Hi; rewrite Hi; [|reflexivity].
  intros n. rewrite in_map_iff. split.
  - intros (d & Hn & Hd). apply filter_In in Hd. destruct Hd as [Hd Hb]. apply andb_true_iff in Hb.
    exists d. repeat split; try assumption; apply Hb.
  - intros (d & Hd & Hid & Hdev & Hn). exists d. split; [exact Hn|]. apply filter_In. split; [exact Hd|].
    rewrite Hid, Hdev. reflexivity.
Qed.

Lemma no_deps_no_deviations c m : (forall d, In d c -> y_deps d = []) -> yl_deviations c m = [].
Proof.
  intros H. unfold yl_deviations. destruct (y_impl m); [|reflexivity].
  replace (filter (fun d => y_impl d && deviates d m) c) with (@nil ymod); [reflexivity|].
  symmetry. induction c as [|d c IH]; [reflexivity|]. cbn [filter].
  unfold deviates at 1. rewrite (H d (or_introl eq_refl)). cbn [existsb]. rewrite andb_false_r.
  apply IH. intros d' Hd'. apply H. right. exact Hd'.
Qed.

(* two module entries say the same: all leaves equal, the deviation leaf-list (ordered by the system) as a set *)
Definition entry_same (e e' : yl_module) : Prop :=
  ym_name e = ym_name e' /\ ym_rev e = ym_rev e' /\ ym_ns e = ym_ns e' /\ ym_features e = ym_features e' /\
  ym_submodules e = ym_submodules e' /\ forall n, In n (ym_deviations e) <-> In n (ym_deviations e').

Lemma deviations_same_set c c' m : (forall x, In x c' <-> In x c) ->
  forall n, In n (yl_deviations c' m) <-> In n (yl_deviations c m).
Proof.
  intros Hiff n. unfold yl_deviations. destruct (y_impl m); [|tauto].
  rewrite !in_map_iff. split; intros (d & Hn & Hd); apply filter_In in Hd; destruct Hd as [Hd Hb]; exists d;
    (split; [exact Hn|]); apply filter_In; (split; [apply Hiff; exact Hd|exact Hb]).
Qed.

(* describe after rebuild after describe = describe: the rebuilt context has the same module records, so its
   description has the same import-only-module entries and module entries that say the same (name, revision,
   namespace, features, submodules, deviations) *)
Theorem describe_rebuild_describe src s c0 rk cid : rt_ok src s c0 rk ->
  exists s', rebuild (describe cid s) src c0 = Ok s' /\
    (forall e, In e (yl_imponly (describe cid s')) <-> In e (yl_imponly (describe cid s))) /\
    (forall e, In e (yl_modules (describe cid s')) -> exists e', In e' (yl_modules (describe cid s)) /\ entry_same e e') /\
    (forall e, In e (yl_modules (describe cid s)) -> exists e', In e' (yl_modules (describe cid s')) /\ entry_same e e').
Proof.
  intros Hok. destruct (yanglib_roundtrip src s c0 rk cid Hok) as (s' & E & _ & Hiff & _).
  exists s'. split; [exact E|].
  assert (Hiff' : forall x, In x s <-> In x s') by (intros x; symmetry; apply Hiff).
  unfold describe. cbn [yl_modules yl_imponly]. split; [|split].
  - intros e. rewrite !in_map_iff. split; intros (m & He & Hm); apply filter_In in Hm; destruct Hm as [Hm Hb]; exists m;
      (split; [exact He|]); apply filter_In; (split; [apply Hiff; exact Hm|exact Hb]).
  - intros e He. apply in_map_iff in He. destruct He as (m & <- & Hm). apply filter_In in Hm. destruct Hm as [Hm Hb].
    exists (describe_module s m). split; [apply in_map; apply filter_In; split; [apply Hiff; exact Hm|exact Hb]|].
    unfold entry_same, describe_module. cbn [ym_name ym_rev ym_ns ym_features ym_submodules ym_deviations].
    repeat (split; [reflexivity|]). apply deviations_same_set. exact Hiff.
  - intros e He. apply in_map_iff in He. destruct He as (m & <- & Hm). apply filter_In in Hm. destruct Hm as [Hm Hb].
    exists (describe_module s' m). split; [apply in_map; apply filter_In; split; [apply Hiff; exact Hm|exact Hb]|].
    unfold entry_same, describe_module. cbn [ym_name ym_rev ym_ns ym_features ym_submodules ym_deviations].
    repeat (split; [reflexivity|]). apply deviations_same_set. exact Hiff'.
Qed.

(* the model computes: x deviates a, loading x implements a; the description of a lists x, the rebuild from the
   description gives the same context *)
Definition d_a : ymod := mkymod (mkhmod e_a (Some e_r19) false [] []) (e_ns e_a) [] [([97;45;115;49], None)] [].
Definition d_x (impl : bool) : ymod :=
  mkymod (mkhmod e_x None impl [] []) (e_ns e_x) [(e_a, None)] [] [((e_a, None), true)].
Lemma e_deviation_roundtrip :
  load_module 5 [d_x false; d_a] [] e_x None (F_list []) = Ok (settle [d_x true; d_a]) /\
  y_impl (nth 1 (settle [d_x true; d_a]) d_a) = true /\
  ym_deviations (describe_module (settle [d_x true; d_a]) (nth 1 (settle [d_x true; d_a]) d_a)) = [e_x] /\
  rebuild (describe [] (settle [d_x true; d_a])) [d_x false; d_a] [] = Ok (settle [d_x true; d_a]).
Proof. repeat split; vm_compute; reflexivity. Qed.

(* the hypotheses of the round trip hold for a settled context with a deviation and an augment: x deviates a,
   b augments a and imports x, a has a submodule; and the model computes the round trip *)
Definition d_ai : ymod := mkymod (mkhmod e_a (Some e_r19) true [] []) (e_ns e_a) [] [([97;45;115;49], None)] [].
Definition d_y (impl : bool) : ymod :=
  mkymod (mkhmod e_b None impl [] []) (e_ns e_b) [(e_a, None); (e_x, None)] [] [((e_a, None), false)].
Definition d_s : ctx := [d_y true; d_ai; d_x true].
Definition d_src : list ymod := [d_y false; d_a; d_x false].
Definition d_rk (k : mkey) : nat := if beq_bytes (fst k) e_b then 2 else if beq_bytes (fst k) e_x then 1 else 0.

Lemma d_unamb_a : unamb d_src d_s e_a (Some e_r19).
Proof. intros x Hx Hn. unfold d_s, d_src in Hx. in_cases; try reflexivity; cbn in Hn; discriminate. Qed.
Lemma d_unamb_x : unamb d_src d_s e_x None.
Proof. intros x Hx Hn. unfold d_s, d_src in Hx. in_cases; try reflexivity; cbn in Hn; discriminate. Qed.
Lemma d_unamb_b : unamb d_src d_s e_b None.
Proof. intros x Hx Hn. unfold d_s, d_src in Hx. in_cases; try reflexivity; cbn in Hn; discriminate. Qed.

Lemma d_rt_ok : rt_ok d_src d_s [] d_rk.
Proof.
  constructor.
  - cbn. repeat constructor; cbn; intuition discriminate.
  - cbn. repeat constructor; cbn; intuition discriminate.
  - intros m Hm. right. unfold d_s in Hm. in_cases.
    + exists (d_y false). split; [left; reflexivity|split; reflexivity].
    + exists d_a. split; [right; left; reflexivity|split; reflexivity].
    + exists (d_x false). split; [right; right; left; reflexivity|split; reflexivity].
  - intros m Hm i Hi. unfold d_s in Hm. in_cases; cbn in Hi; in_cases.
    + exists d_ai. split; [right; left; reflexivity|]. split; [split; [reflexivity|exact d_unamb_a]|cbn; lia].
    + exists (d_x true). split; [right; right; left; reflexivity|]. split; [split; [reflexivity|exact d_unamb_x]|cbn; lia].
    + exists d_ai. split; [right; left; reflexivity|]. split; [split; [reflexivity|exact d_unamb_a]|cbn; lia].
  - intros m Hm. unfold d_s in Hm. in_cases; cbn; lia.
  - intros m Hm Hi. unfold d_s in Hm. in_cases; discriminate.
  - intros m m' Hm Hm' _ _ Hn. unfold d_s in Hm, Hm'. in_cases; try reflexivity; cbn in Hn; discriminate.
  - intros m Hm. unfold d_s in Hm. in_cases; cbn; constructor.
  - intros m Hm _ Hr. unfold d_s in Hm. in_cases; try discriminate; [exact d_unamb_b|exact d_unamb_x].
  - intros m Hm Hi. unfold d_s in Hm. in_cases; discriminate.
  - intros m Hm e He. unfold d_s in Hm. in_cases; cbn in He; in_cases; cbn; auto.
  - intros d Hd _ e He t Ht Hden. unfold d_s in Hd. in_cases; cbn in He; in_cases;
      unfold denotes in Hden; cbn [fst snd] in Hden; destruct Hden as [Hn _]; unfold d_s in Ht; in_cases;
      try reflexivity; cbn in Hn; discriminate.
  - split; [constructor|intros x []].
  - intros x [].
Qed.

Lemma d_rebuild : rebuild (describe [] d_s) d_src [] = Ok d_s /\ settle d_s = d_s.
Proof. split; vm_compute; reflexivity. Qed.

(* ------------------------------------------------------------------------------------------------ *)
(* the change counter across lys_set_implemented                                                     *)
(* ------------------------------------------------------------------------------------------------ *)
Definition newf (fs : fspec) (f : feat) : feat :=
  match fs with
  | F_keep => f
  | F_all => mkfeat (f_name f) true
  | F_list names => mkfeat (f_name f) (existsb (beq_bytes (f_name f)) names)
  end.

Lemma apply_fspec_map h i fs :
  apply_fspec h i fs = mkhmod (h_name h) (h_rev h) i (map (newf fs) (h_feats h)) (map (map (newf fs)) (h_subs h)).
Proof.
  destruct fs; cbn [apply_fspec newf]; unfold set_features, set_feats, all_feats.
  - rewrite map_id. f_equal. symmetry. rewrite <- (map_id (h_subs h)) at 2. apply map_ext. intros l. apply map_id.
  - reflexivity.
  - reflexivity.
Qed.

Lemma newf_fix fs f : feat_change true fs f = false -> newf fs f = f.
Proof.
  destruct f as [n e]. destruct fs as [| |names]; cbn [feat_change newf f_name f_en]; intros H; [reflexivity| |].
  - destruct e; [reflexivity|discriminate].
  - destruct (existsb (beq_bytes n) names); destruct e; try reflexivity; discriminate.
Qed.

Lemma newf_moves fs f : feat_change true fs f = true -> newf fs f <> f.
Proof.
  destruct f as [n e]. destruct fs as [| |names]; cbn [feat_change newf f_name f_en]; intros H E; [discriminate| |].
  - destruct e; [discriminate|]. discriminate.
  - destruct (existsb (beq_bytes n) names); destruct e; try discriminate.
Qed.

Lemma map_fix_all {A} (f : A -> A) l : (forall x, In x l -> f x = x) -> map f l = l.
Proof. intros H. rewrite <- (map_id l) at 2. apply map_ext_in. exact H. Qed.

Lemma map_fix_inv {A} (f : A -> A) l : map f l = l -> forall x, In x l -> f x = x.
Proof.
  induction l as [|a l IH]; intros H x Hx; [destruct Hx|]. cbn in H. injection H as H1 H2.
  destruct Hx as [<-|Hx]; [exact H1|apply IH; assumption].
Qed.

Lemma nochange_apply h fs : h_impl h = true -> sf_change true h fs = false -> apply_fspec h true fs = h.
Proof.
  intros Hi Hc. rewrite apply_fspec_map. unfold sf_change, groups in Hc. cbn [concat] in Hc.
  rewrite existsb_app in Hc. apply orb_false_iff in Hc. destruct Hc as [H1 H2].
  assert (F1 : map (newf fs) (h_feats h) = h_feats h).
  { apply map_fix_all. intros f Hf. apply newf_fix. destruct (feat_change true fs f) eqn:E; [|reflexivity].
    assert (existsb (feat_change true fs) (h_feats h) = true) by (apply existsb_exists; exists f; split; assumption). congruence. }
  assert (F2 : map (map (newf fs)) (h_subs h) = h_subs h).
  { apply map_fix_all. intros g Hg. apply map_fix_all. intros f Hf. apply newf_fix.
    destruct (feat_change true fs f) eqn:E; [|reflexivity].
    assert (existsb (feat_change true fs) (concat (h_subs h)) = true).
    { apply existsb_exists. exists f. split; [apply in_concat; exists g; split; assumption|exact E]. }
    congruence. }
  rewrite F1, F2. destruct h; cbn in *; subst; reflexivity.
Qed.

Lemma change_apply h fs : sf_change true h fs = true -> apply_fspec h true fs <> h.
Proof.
  intros Hc E. rewrite apply_fspec_map in E. unfold sf_change, groups in Hc. cbn [concat] in Hc.
  apply existsb_exists in Hc. destruct Hc as (f & Hf & Hfc). apply (newf_moves fs f Hfc).
  assert (E1 : map (newf fs) (h_feats h) = h_feats h) by (destruct h; cbn in *; congruence).
  assert (E2 : map (map (newf fs)) (h_subs h) = h_subs h) by (destruct h; cbn in *; congruence).
  apply in_app_iff in Hf. destruct Hf as [Hf|Hf]; [exact (map_fix_inv _ _ E1 f Hf)|].
  apply in_concat in Hf. destruct Hf as (g & Hg & Hfg).
  exact (map_fix_inv _ _ (map_fix_inv _ _ E2 g Hg) f Hfg).
Qed.

Lemma implement_deps_nodeps c k m : find_key k c = Some m -> y_deps m = [] -> implement_deps c k = c.
Proof. intros Hf Hd. unfold implement_deps, targets. rewrite Hf, Hd. reflexivity. Qed.

Section CounterOps.
  Variables (c : ctx) (k : mkey) (fs : fspec) (m : ymod).
  Hypothesis Hnd : NoDup (map key_of c).
  Hypothesis Hfind : find_key k c = Some m.
  Hypothesis Hdeps : y_deps m = [].             (* no augment / deviation statements in the module *)

  Let upd := fun x => if beq_key k (key_of x)
                      then mkymod (apply_fspec (y_mod x) true fs) (y_ns x) (y_imports x) (y_subs x) (y_deps x) else x.

  Lemma upd_others x : In x c -> x <> m -> upd x = x.
  Proof.
    intros Hx Hne. unfold upd. destruct (beq_key k (key_of x)) eqn:E; [|reflexivity].
    apply beq_key_eq in E. exfalso. apply Hne. apply find_key_some in Hfind. destruct Hfind as [Hm Hk].
    apply (nodup_key_inj c); congruence.
  Qed.

  Lemma upd_m : upd m = mkymod (apply_fspec (y_mod m) true fs) (y_ns m) (y_imports m) (y_subs m) (y_deps m).
  Proof. unfold upd. apply find_key_some in Hfind. destruct Hfind as [_ Hk]. rewrite Hk, beq_key_refl. reflexivity. Qed.

  Lemma set_impl_op_shape cd ci c' n : set_impl_op cd ci c k fs = Ok (c', n) ->
    c' = map upd c /\ n = si_events cd ci m fs.
  Proof.
    unfold set_impl_op, set_implemented. rewrite Hfind.
    destruct (negb (fspec_ok (y_mod m) fs)); [discriminate|].
    destruct (negb (y_impl m) && existsb (fun x => named (fst k) x && y_impl x) c); [discriminate|].
    fold upd. cbv zeta.
    assert (Hf2 : find_key k (map upd c) = Some (upd m)).
    { apply find_key_nodup.
      - rewrite map_map.
        assert (Ek : map (fun x => key_of (upd x)) c = map key_of c)
          by (apply map_ext; intros x; unfold upd; destruct (beq_key k (key_of x));
              [unfold key_of, y_name, y_rev; cbn [y_mod]; rewrite apply_fspec_map|]; reflexivity).
        rewrite Ek. exact Hnd.
      - apply in_map. apply find_key_some in Hfind. apply Hfind.
      - rewrite upd_m. apply find_key_some in Hfind. destruct Hfind as [_ Hk]. rewrite <- Hk.
        unfold key_of, y_name, y_rev. cbn [y_mod]. rewrite apply_fspec_map. reflexivity. }
    rewrite (implement_deps_nodeps (map upd c) k (upd m) Hf2) by (rewrite upd_m; exact Hdeps).
    intros H. injection H as <- <-. split; [reflexivity|].
    rewrite Nat.sub_diag. destruct ci; cbn; rewrite N.add_0_r; reflexivity.
  Qed.

  (* nothing counted: nothing changed *)
  Lemma set_impl_zero_nochange c' : set_impl_op true true c k fs = Ok (c', 0) -> c' = c.
  Proof.
    intros H. destruct (set_impl_op_shape true true c' 0 H) as [-> Hn].
    unfold si_events in Hn. destruct (y_impl m) eqn:Hi; [|discriminate].
    destruct (sf_change true (y_mod m) fs) eqn:Hc; [discriminate|].
    apply map_fix_all. intros x Hx.
    destruct (mkey_eq_dec (key_of x) k) as [Ek|Nk].
    - assert (x = m) as ->.
      { apply find_key_some in Hfind. destruct Hfind as [Hm Hk]. apply (nodup_key_inj c); congruence. }
      rewrite upd_m, (nochange_apply (y_mod m) fs Hi Hc). destruct m; reflexivity.
    - apply upd_others; [exact Hx|]. intros ->. apply Nk. apply find_key_some in Hfind. apply Hfind.
  Qed.

  (* nothing changed: nothing counted *)
  Lemma set_impl_nochange_zero c' n : set_impl_op true true c k fs = Ok (c', n) -> c' = c -> n = 0.
  Proof.
    intros H E. destruct (set_impl_op_shape true true c' n H) as [Hc' ->]. rewrite Hc' in E.
    assert (Hm : In m c) by (apply find_key_some in Hfind; apply Hfind).
    pose proof (map_fix_inv upd c E m Hm) as Hum. rewrite upd_m in Hum.
    unfold si_events. destruct (y_impl m) eqn:Hi.
    - destruct (sf_change true (y_mod m) fs) eqn:Hc; [|reflexivity].
      exfalso. apply (change_apply (y_mod m) fs Hc). exact (f_equal y_mod Hum).
    - exfalso. assert (Hi' : y_impl m = true).
      { rewrite <- Hum. unfold y_impl. cbn [y_mod]. rewrite apply_fspec_map. reflexivity. }
      congruence.
  Qed.
End CounterOps.

(* every lys_set_implemented that changes the implemented set or the enabled features is counted at least once,
   one that changes nothing is not counted; with the counter arithmetic: the value differs afterwards *)
Theorem set_implemented_counted c k fs m c' n :
  NoDup (map key_of c) -> find_key k c = Some m -> y_deps m = [] ->
  set_impl_op true true c k fs = Ok (c', n) ->
  (c' <> c -> 1 <= n) /\ (c' = c -> n = 0) /\ n <= 1 /\
  (forall cnt, cnt < U16 -> c' <> c -> cc_after cnt n <> cnt).
Proof.
  intros Hnd Hf Hd H.
  assert (Hle : n <= 1).
  { destruct (set_impl_op_shape c k fs m Hnd Hf Hd true true c' n H) as [_ ->]. unfold si_events.
    destruct (y_impl m); [destruct (sf_change true (y_mod m) fs)|]; lia. }
  assert (H1 : c' <> c -> 1 <= n).
  { intros Hne. destruct (N.eq_dec n 0) as [->|Hn]; [|lia]. exfalso. apply Hne.
    apply (set_impl_zero_nochange c k fs m Hnd Hf Hd c' H). }
  split; [exact H1|]. split; [apply (set_impl_nochange_zero c k fs m Hnd Hf Hd c' n H)|]. split; [exact Hle|].
  intros cnt Hcnt Hne. apply cc_after_changes; [exact Hcnt|]. specialize (H1 Hne). unfold U16. lia.
Qed.

(* regression of the two seeded variants: a change that only disables features is not counted when the disable arm
   does not set the change flag; making a module implemented is not counted when lys_implement does not count *)
Definition cnt_m (impl e1 e2 : bool) : ymod :=
  mkymod (mkhmod e_x None impl [mkfeat [102] e1; mkfeat [103] e2] []) (e_ns e_x) [] [] [].
Lemma counter_seed_witnesses :
  set_impl_op true true [cnt_m true true true] (e_x, None) (F_list [[102]]) = Ok ([cnt_m true true false], 1) /\
  set_impl_op false true [cnt_m true true true] (e_x, None) (F_list [[102]]) = Ok ([cnt_m true true false], 0) /\
  set_impl_op true true [cnt_m false false false] (e_x, None) F_keep = Ok ([cnt_m true false false], 1) /\
  set_impl_op true false [cnt_m false false false] (e_x, None) F_keep = Ok ([cnt_m true false false], 0) /\
  set_impl_op true true [cnt_m true true false] (e_x, None) (F_list [[102]]) = Ok ([cnt_m true true false], 0).
Proof. repeat split; vm_compute; reflexivity. Qed.
