(* Siblings.v - ALL children of one parent: where lyd_insert_node() (src/tree_data.c) links a new node among the
   siblings, and lyd_insert_after() / lyd_insert_before() for user-ordered instances.  MODEL ONLY (proofs: SiblingsP.v).

   A sibling is (schema index | opaque, key, identity).  The schema index is the position of the node's schema node among
   the data-definition children of the parent's schema node in the order of lys_getnext(), i.e. with choices and cases
   flattened; opaque nodes have none.  `sys i` says that schema node i is a system-ordered (leaf-)list (its instances are
   placed by lyds_insert, see Sorted.v: stable by key); for every other schema node the key plays no role. *)
From LY Require Import Base Sorted.

Record snode : Type := mkS { sidx : option nat; skey : Z; sid : N }.

Definition is_opaq (n : snode) : bool := match sidx n with None => true | Some _ => false end.
Definition has_idx (j : nat) (n : snode) : bool := match sidx n with Some i => Nat.eqb i j | None => false end.

Section Siblings.
Variable sys : nat -> bool.

(* ---------- Spec: the canonical order ----------
   data nodes before opaque nodes, data nodes by schema index, instances of a system-ordered (leaf-)list by key; instances of
   any other schema node, and opaque nodes among themselves, compare Eq: they stay where the calls put them *)
Definition srank (n : snode) : Z * Z * Z :=
  match sidx n with
  | None => (1, 0, 0)%Z
  | Some i => (0, Z.of_nat i, if sys i then skey n else 0)%Z
  end.

Definition lex3 (a b : Z * Z * Z) : comparison :=
  match a, b with
  | (a1, a2, a3), (b1, b2, b3) =>
    match Z.compare a1 b1 with
    | Eq => match Z.compare a2 b2 with Eq => Z.compare a3 b3 | c => c end
    | c => c
    end
  end.

Definition scmp (a b : snode) : comparison := lex3 (srank a) (srank b).

(* Spec of lyd_insert_node(DEFAULT): behind every sibling that is not greater *)
Definition spec_insert (l : list snode) (x : snode) : list snode := stable_insert scmp l x.

(* ---------- as coded: lyd_insert_node_ordby_schema -> lyd_insert_node_find_anchor ---------- *)
Fixpoint first_pos (p : snode -> bool) (l : list snode) : option nat :=
  match l with
  | [] => None
  | m :: r => if p m then Some 0 else option_map S (first_pos p r)
  end.

Definition insert_at (q : nat) (x : snode) (l : list snode) : list snode := firstn q l ++ x :: skipn q l.

(* lyd_insert_get_next_anchor(), parent WITHOUT children hash table: walk the siblings, stop at the first opaque node or at
   the first data node whose schema node follows the new node's; insert before it, at the end if there is none *)
Fixpoint insert_before_first (p : snode -> bool) (x : snode) (l : list snode) : list snode :=
  match l with
  | [] => [x]
  | m :: r => if p m then x :: l else m :: insert_before_first p x r
  end.

Definition linear_insert (i : nat) (l : list snode) (x : snode) : list snode :=
  insert_before_first (fun m => match sidx m with None => true | Some j => Nat.ltb i j end) x l.

(* lyd_insert_get_next_anchor(), parent WITH children hash table:
       schema = lys_getnext(new_node->schema, sparent, ...);
       while (schema) { if (!lyd_find_sibling_schema(first_sibling, schema, &match)) break; schema = lys_getnext(schema, sparent, ...); }
   the first instance of the closest following schema node that has one.  hi = the last schema index the walk reaches: the last
   child of the data parent's schema node (sparent = first_sibling->parent->schema).  The seeded change C04-8 takes sparent from
   the new node, so for a node inside a choice the walk ends with its case (hi = last index of the case). *)
Definition hash_anchor (hi i : nat) (l : list snode) : option nat :=
  match find (fun j => existsb (has_idx j) l) (seq (S i) (hi - i)) with
  | Some j => first_pos (has_idx j) l
  | None => None
  end.

(* lyd_insert_node_find_anchor(): no anchor but the last sibling is opaque: "cannot insert data node after opaque nodes"
       anchor = first_sibling->prev; while ((anchor != first_sibling) && !anchor->prev->schema) anchor = anchor->prev;
   the first node of the trailing run of opaque nodes.  by_name = true is the seeded change C04-3: the first opaque sibling
   that has the NAME (here: key) of the last one (lyd_find_sibling_opaq_next). *)
Fixpoint trail_start (l : list snode) : nat :=
  match l with
  | [] => 0
  | m :: r => if forallb is_opaq l then 0 else S (trail_start r)
  end.

Definition opaq_fallback (by_name : bool) (l : list snode) : option nat :=
  match rev l with
  | [] => None
  | z :: _ =>
    if is_opaq z then
      if by_name then first_pos (fun m => is_opaq m && Z.eqb (skey m) (skey z)) l else Some (trail_start l)
    else None
  end.

Definition hash_insert (by_name : bool) (hi i : nat) (l : list snode) (x : snode) : list snode :=
  match hash_anchor hi i l with
  | Some q => insert_at q x l
  | None => match opaq_fallback by_name l with Some q => insert_at q x l | None => l ++ [x] end
  end.

(* lyd_insert_node(parent, first_sibling, node, LYD_INSERT_NODE_DEFAULT).  ht: the parent has a children hash table.
   opaque node: lyd_insert_node_last.  Instance of a system-ordered (leaf-)list that has instances already: lyds_insert
   (Sorted.v, C04_lyds_insert_spec: stable by key inside the run), here the Spec position.  Otherwise by the anchor. *)
Definition sib_insert (by_name : bool) (hi : nat -> nat) (ht : bool) (l : list snode) (x : snode) : list snode :=
  match sidx x with
  | None => l ++ [x]
  | Some i =>
    if sys i && existsb (has_idx i) l then spec_insert l x
    else if ht then hash_insert by_name (hi i) i l x else linear_insert i l x
  end.

(* ---------- lyd_insert_after(sibling, node) / lyd_insert_before(sibling, node), both among the siblings ----------
       sibling != node; a data node must be an instance of a user-ordered (leaf-)list (not sys here) and, when the sibling is a
       data node too, of the same schema node; then lyd_unlink(node) and relink next to the sibling.
   skip_adjacent = true is the seeded change C04-4 in lyd_insert_after: `if (node->prev == sibling) return LY_SUCCESS;` where
   prev of the FIRST sibling is the LAST one.  user i: schema node i is a user-ordered (leaf-)list. *)
Variable user : nat -> bool.

Definition move_ok (node sibl : snode) : bool :=
  match sidx node with
  | None => true
  | Some i => user i && match sidx sibl with None => true | Some j => Nat.eqb i j end
  end.

Definition remove_at (q : nat) (l : list snode) : list snode := remove_nth q l.

Definition sib_move (skip_adjacent after : bool) (l : list snode) (i j : nat) : option (list snode) :=
  match nth_error l i, nth_error l j with
  | Some node, Some sibl =>
    if Nat.eqb i j then None
    else if negb (move_ok node sibl) then None
    else if skip_adjacent && after && (Nat.eqb i (S j) || (Nat.eqb i 0 && Nat.eqb (S j) (length l))) then Some l
    else
      let l' := remove_at i l in
      let j' := if Nat.ltb i j then j - 1 else j in
      Some (insert_at (if after then S j' else j') node l')
  | _, _ => None
  end.

(* ---------- histories ---------- *)
Inductive sop : Type :=
| SNew (x : snode) (ht : bool)      (* create / re-insert a node; ht: the parent has a children hash table at that moment *)
| SAfter (i j : nat)
| SBefore (i j : nat)
| SDel (i : nat).                   (* lyd_free_tree / lyd_unlink_tree of the sibling at position i *)

Definition sib_step (hi : nat -> nat) (l : list snode) (o : sop) : list snode :=
  match o with
  | SNew x ht => sib_insert false hi ht l x
  | SAfter i j => match sib_move false true l i j with Some l' => l' | None => l end
  | SBefore i j => match sib_move false false l i j with Some l' => l' | None => l end
  | SDel i => remove_at i l
  end.

End Siblings.
