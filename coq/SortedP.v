(* SortedP.v - proofs about Sorted.v: the sibling sequence of a system-ordered (leaf-)list kept by
   lyds_insert / lyds_link_data_node / lazy tree creation / lyds_unlink is the stable sorted sequence and
   stays equal to the in-order walk of the red-black tree owned by the leader. *)
From Coq Require Import Permutation.
From LY Require Import Base RBTree Sorted RBTreeP.

Section SortedP.
Variable A : Type.
Variable cmp : A -> A -> comparison.
Variable ideq : A -> A -> bool.
Hypothesis cmp_antisym : forall a b, cmp a b = CompOpp (cmp b a).
Hypothesis cmp_trans : forall a b c, le cmp a b -> le cmp b c -> le cmp a c.
Hypothesis ideq_spec : forall a b, ideq a b = true <-> a = b.

Notation tree := (RBTree.tree A).
Notation path := (RBTree.path A).
Notation SI := (stable_insert cmp).


(* the facts of RBTreeP.v used below, instantiated with the hypotheses of this section *)
Lemma L_rb_insert_inv (t : tree) x :
  rb_inv cmp t -> exists t', rb_insert cmp t x = Some t' /\ rb_inv cmp t' /\ inorder t' = SI (inorder t) x.
Proof. apply rb_insert_inv; assumption. Qed.
Lemma L_rb_remove_inv (t : tree) i :
  rb_inv cmp t -> i < size t ->
  exists t', rb_remove t i = Some t' /\ rb_inv cmp t' /\ inorder t' = remove_nth i (inorder t).
Proof. apply rb_remove_inv; assumption. Qed.
Lemma L_si_split l x :
  sorted cmp l -> exists l1 l2, l = l1 ++ l2 /\ SI l x = l1 ++ x :: l2 /\
                            Forall (fun y => le cmp y x) l1 /\ Forall (fun y => cmp y x = Gt) l2.
Proof. apply stable_insert_split; assumption. Qed.
Lemma L_si_perm l x : Permutation (x :: l) (SI l x).
Proof. apply stable_insert_perm; assumption. Qed.
Lemma L_si_sorted l x : sorted cmp l -> sorted cmp (SI l x).
Proof. apply stable_insert_sorted; assumption. Qed.
Lemma L_si_length l x : length (SI l x) = S (length l).
Proof. apply (stable_insert_length A cmp); assumption. Qed.
Lemma L_si_app_le l1 l2 x : Forall (fun y => le cmp y x) l1 -> SI (l1 ++ l2) x = l1 ++ SI l2 x.
Proof. apply si_app_le; assumption. Qed.
Lemma L_sorted_app l1 l2 :
  sorted cmp (l1 ++ l2) <-> sorted cmp l1 /\ sorted cmp l2 /\ (forall a b, In a l1 -> In b l2 -> le cmp a b).
Proof. apply sorted_app; assumption. Qed.
Lemma L_rn_sorted i (l : list A) : sorted cmp l -> sorted cmp (remove_nth i l).
Proof. apply remove_nth_sorted; assumption. Qed.
Lemma L_rn_length (l : list A) i : i < length l -> length (remove_nth i l) = length l - 1.
Proof. apply (remove_nth_length A cmp); assumption. Qed.
Lemma L_size_inorder (t : tree) : size t = length (inorder t).
Proof. apply (size_inorder A cmp); assumption. Qed.
Lemma L_find_sound (t : tree) x i : rb_find cmp ideq t x = Some i -> nth_error (inorder t) i = Some x.
Proof. apply rb_find_sound; assumption. Qed.
Lemma L_find_complete (t : tree) x :
  sorted cmp (inorder t) -> In x (inorder t) -> exists i, rb_find cmp ideq t x = Some i.
Proof. apply rb_find_complete; assumption. Qed.
Lemma L_isort_gen_perm (l acc : list A) : Permutation (l ++ acc) (fold_left SI l acc).
Proof. apply isort_gen_perm; assumption. Qed.
Lemma L_rb_history (ops : list (op A)) :
  ops_valid ops 0 ->
  exists t, rb_run cmp ops = Some t /\ rb_inv cmp t /\ inorder t = seq_run cmp ops /\ sorted cmp (seq_run cmp ops).
Proof. apply rb_history; assumption. Qed.

Lemma ideq_refl' a : ideq a a = true.
Proof. now apply ideq_spec. Qed.

Lemma ideq_neq a b : a <> b -> ideq a b = false.
Proof. intro H. destruct (ideq a b) eqn:E; [|reflexivity]. apply ideq_spec in E. contradiction. Qed.

(* ---------- the position of a data node in the tree ---------- *)
Lemma locate_id_spec (t : tree) x : forall (p p' : path) nd,
  locate_id ideq t x p = Some (p', nd) ->
  exists c l r, nd = Node c l x r /\
    before p' ++ inorder nd ++ after p' = before p ++ inorder t ++ after p.
Proof.
  induction t as [|c l IHl k r IHr]; intros p p' nd H; cbn [locate_id] in H; [discriminate|].
  destruct (ideq k x) eqn:E.
  - apply ideq_spec in E. subst k. injection H as <- <-. exists c, l, r. auto.
  - destruct (locate_id ideq l x (FL c k r :: p)) as [z|] eqn:El.
    + injection H as ->. apply IHl in El. destruct El as (c' & l' & r' & -> & H). exists c', l', r'.
      split; [reflexivity|]. rewrite H. cbn [before after inorder]. lnorm. reflexivity.
    + apply IHr in H. destruct H as (c' & l' & r' & -> & H). exists c', l', r'.
      split; [reflexivity|]. rewrite H. cbn [before after inorder]. lnorm. reflexivity.
Qed.

Lemma locate_id_complete (t : tree) x : forall p : path, In x (inorder t) -> locate_id ideq t x p <> None.
Proof.
  induction t as [|c l IHl k r IHr]; intros p Hin; [destruct Hin|]. cbn [locate_id].
  destruct (ideq k x) eqn:E; [discriminate|].
  cbn [inorder] in Hin. apply in_app_or in Hin. destruct Hin as [Hin|[Hin|Hin]].
  - specialize (IHl (FL c k r :: p) Hin). destruct (locate_id ideq l x (FL c k r :: p)); [discriminate|contradiction].
  - subst k. rewrite ideq_refl' in E. discriminate.
  - destruct (locate_id ideq l x (FL c k r :: p)); [discriminate|]. now apply IHr.
Qed.

Lemma NoDup_split_unique (a : list A) : forall a' b b' x,
  NoDup (a ++ x :: b) -> a ++ x :: b = a' ++ x :: b' -> a = a' /\ b = b'.
Proof.
  induction a as [|y a IH]; intros a' b b' x Hnd Heq.
  - destruct a' as [|y' a']; cbn [app] in *.
    + injection Heq as <-. auto.
    + injection Heq as <- ->. inversion Hnd as [|? ? Hx _]; subst. exfalso. apply Hx. apply in_or_app. right. left. reflexivity.
  - destruct a' as [|y' a']; cbn [app] in *.
    + injection Heq as -> <-. inversion Hnd as [|? ? Hx _]; subst. exfalso. apply Hx. apply in_or_app. right. left. reflexivity.
    + injection Heq as <- Heq. inversion Hnd as [|? ? _ Hnd']; subst.
      destruct (IH _ _ _ _ Hnd' Heq) as (-> & ->). auto.
Qed.

Lemma insert_after_spec pk x (l1 l2 : list A) :
  ~ In pk l1 -> insert_after ideq pk x (l1 ++ pk :: l2) = l1 ++ pk :: x :: l2.
Proof.
  induction l1 as [|y l1 IH]; intro Hn; cbn [app insert_after].
  - now rewrite ideq_refl'.
  - rewrite ideq_neq by (intro; subst; apply Hn; left; reflexivity).
    f_equal. apply IH. intro. apply Hn. right. assumption.
Qed.

Lemma last_opt_some (l : list A) y : last_opt l = Some y -> exists l', l = l' ++ [y].
Proof.
  induction l as [|z l IH]; intro H; [discriminate|]. rewrite last_opt_cons in H.
  destruct (last_opt l) as [w|] eqn:E.
  - injection H as ->. destruct (IH eq_refl) as (l' & ->). exists (z :: l'). reflexivity.
  - injection H as ->. apply last_opt_none in E. subst l. exists []. reflexivity.
Qed.

(* lyds_link_data_node puts the data node where the tree put its red-black node *)
Lemma link_spec (t' : tree) x (l1 l2 : list A) :
  inorder t' = l1 ++ x :: l2 -> NoDup (l1 ++ x :: l2) -> link ideq (l1 ++ l2) t' x = l1 ++ x :: l2.
Proof.
  intros Hi Hnd. unfold link.
  destruct (locate_id ideq t' x []) as [[p nd]|] eqn:E.
  2:{ exfalso. apply (locate_id_complete t' x []); [|exact E]. rewrite Hi. apply in_or_app. right. left. reflexivity. }
  apply locate_id_spec in E. destruct E as (c & l & r & -> & Heq).
  cbn [before after app] in Heq. rewrite app_nil_r, Hi in Heq.
  replace (before p ++ inorder (Node c l x r) ++ after p)
    with ((before p ++ inorder l) ++ x :: (inorder r ++ after p)) in Heq by (cbn [inorder]; lnorm; reflexivity).
  symmetry in Heq. destruct (NoDup_split_unique _ _ _ _ _ Hnd Heq) as (H1 & H2).
  rewrite rb_prev_spec, <- H1. destruct (last_opt l1) as [pk|] eqn:El.
  - destruct (last_opt_some _ _ El) as (l1' & ->). rewrite <- !app_assoc. cbn [app].
    apply insert_after_spec. rewrite <- app_assoc in Hnd. cbn [app] in Hnd.
    apply NoDup_remove_2 in Hnd. intro Hin. apply Hnd. apply in_or_app. left. exact Hin.
  - apply last_opt_none in El. rewrite El. reflexivity.
Qed.

(* the `max` output of rb_insert_node: the new node is the last one *)
Lemma descend_mx_false (t : tree) x : forall p : path, snd (descend cmp t x p false) = false.
Proof. induction t as [|c l IHl k r IHr]; intro p; cbn [descend]; [reflexivity|]. destruct (cmp k x); auto. Qed.

Lemma descend_mx_true (t : tree) x : forall p : path,
  sorted cmp (inorder t) -> snd (descend cmp t x p true) = true -> Forall (fun y => le cmp y x) (inorder t).
Proof.
  induction t as [|c l IHl k r IHr]; intros p Hs H; [constructor|].
  cbn [descend] in H. cbn [inorder] in *. apply L_sorted_app in Hs. destruct Hs as (Sl & Skr & Hlk).
  cbn [sorted] in Skr. destruct Skr as (_ & Sr).
  assert (Hgo : le cmp k x -> snd (descend cmp r x (FR c l k :: p) true) = true ->
                Forall (fun y => le cmp y x) (inorder l ++ k :: inorder r)).
  { intros Hkx Hr. apply Forall_app. split.
    - apply Forall_forall. intros y Hy. apply (cmp_trans y k x); [|exact Hkx]. apply Hlk; [exact Hy|left; reflexivity].
    - constructor; [exact Hkx|]. exact (IHr _ Sr Hr). }
  destruct (cmp k x) eqn:E.
  - apply Hgo; [unfold le; congruence|exact H].
  - apply Hgo; [unfold le; congruence|exact H].
  - rewrite descend_mx_false in H. discriminate.
Qed.

Lemma rb_insert_max_spec (t : tree) x :
  sorted cmp (inorder t) -> rb_insert_max cmp t x = true -> SI (inorder t) x = inorder t ++ [x].
Proof.
  intros Hs H. unfold rb_insert_max in H. apply descend_mx_true in H; [|exact Hs].
  rewrite <- (app_nil_r (inorder t)) at 1. rewrite L_si_app_le by exact H. reflexivity.
Qed.

Lemma SI_NoDup l x : NoDup l -> ~ In x l -> NoDup (SI l x).
Proof. intros Hnd Hx. apply (Permutation_NoDup (L_si_perm l x)). now constructor. Qed.

(* one insertion: tree and siblings move together *)
Lemma insert_link (t : tree) x :
  rb_inv cmp t -> NoDup (inorder t) -> ~ In x (inorder t) ->
  exists t', rb_insert cmp t x = Some t' /\ rb_inv cmp t' /\ inorder t' = SI (inorder t) x /\
             link ideq (inorder t) t' x = SI (inorder t) x.
Proof.
  intros Hinv Hnd Hx. destruct (L_rb_insert_inv t x Hinv) as (t' & E & Hinv' & Hi).
  exists t'. repeat split; try assumption; try (destruct Hinv' as (? & ? & ?); assumption).
  destruct (L_si_split (inorder t) x (proj1 Hinv)) as (l1 & l2 & El & Es & _).
  rewrite Es in Hi. rewrite El at 1. rewrite Es. apply link_spec; [exact Hi|].
  rewrite <- Es. now apply SI_NoDup.
Qed.

Lemma NoDup_app_l (a b : list A) : NoDup (a ++ b) -> NoDup a.
Proof.
  induction a as [|y a IH]; intro H; [constructor|]. cbn [app] in H. inversion H as [|? ? Hy Hnd]; subst.
  constructor; [|auto]. intro Hin. apply Hy. apply in_or_app. now left.
Qed.

(* lazy creation: the instances are inserted one by one; the result is the insertion sort of the siblings *)
Lemma create_nodes_spec (rest : list A) : forall done (t : tree),
  rb_inv cmp t -> inorder t = done -> NoDup (done ++ rest) ->
  exists t', create_nodes cmp ideq rest done t = Some (fold_left SI rest done, t') /\
             rb_inv cmp t' /\ inorder t' = fold_left SI rest done.
Proof.
  induction rest as [|x rest IH]; intros done t Hinv Hi Hnd; cbn [create_nodes fold_left].
  - exists t. auto.
  - assert (Hnd1 : NoDup done /\ ~ In x done).
    { split; [exact (NoDup_app_l _ _ Hnd)|]. apply NoDup_remove_2 in Hnd. intro. apply Hnd. apply in_or_app. now left. }
    destruct Hnd1 as (Hndd & Hxd). subst done.
    destruct (insert_link t x Hinv Hndd Hxd) as (t1 & -> & Hinv1 & Hi1 & Hl1).
    assert (Hdone : (if rb_insert_max cmp t x then inorder t ++ [x] else link ideq (inorder t) t1 x) = SI (inorder t) x).
    { destruct (rb_insert_max cmp t x) eqn:Em; [|exact Hl1]. symmetry. apply rb_insert_max_spec; [exact (proj1 Hinv)|exact Em]. }
    rewrite Hdone. apply IH; [exact Hinv1|exact Hi1|].
    apply (Permutation_NoDup (l := inorder t ++ x :: rest)); [|exact Hnd].
    etransitivity; [symmetry; apply Permutation_middle|]. change (x :: inorder t ++ rest) with ((x :: inorder t) ++ rest).
    apply Permutation_app_tail. apply L_si_perm.
Qed.

Lemma rb_inv_single x : rb_inv cmp (Node Black Leaf x Leaf).
Proof. split; [cbn; auto|]. split; [reflexivity|]. exists 1. cbn. auto. Qed.

Lemma create_tree_spec (l : list A) :
  l <> [] -> NoDup l ->
  exists t', create_tree cmp ideq l = Some (isort cmp l, t') /\ rb_inv cmp t' /\ inorder t' = isort cmp l.
Proof.
  intros Hne Hnd. destruct l as [|ld rest]; [contradiction|]. unfold create_tree, isort. cbn [fold_left Sorted.stable_insert].
  apply (create_nodes_spec rest [ld] (Node Black Leaf ld Leaf) (rb_inv_single ld) eq_refl Hnd).
Qed.

(* ---------- the state invariant ---------- *)
(* the leader's tree (when it exists and is not the NULL pointer) walks exactly the siblings *)
Definition lyds_ok (s : lst A) : Prop :=
  NoDup (sibs s) /\
  match rbt s with
  | Some (Node c l k r) => inorder (Node c l k r) = sibs s /\ rb_inv cmp (Node c l k r)
  | _ => True
  end.

(* what lyd_insert_node makes of the sibling sequence *)
Definition insert_result (s : lst A) (x : A) : list A :=
  match sibs s with
  | [] => [x]
  | _ :: _ => match rbt s with
              | Some (Node _ _ _ _) => SI (sibs s) x
              | _ => SI (isort cmp (sibs s)) x
              end
  end.

Theorem lyds_insert_spec (s : lst A) x b :
  lyds_ok s -> ~ In x (sibs s) ->
  exists s', lyds_insert cmp ideq s x b = Some s' /\ lyds_ok s' /\ sibs s' = insert_result s x.
Proof.
  intros (Hnd & Ht) Hx. unfold lyds_insert, insert_result. destruct (sibs s) as [|y ys] eqn:Es.
  - eexists. split; [reflexivity|]. split; [|reflexivity]. split; [cbn; repeat constructor; intros []|].
    cbn [rbt]. destruct b; [|exact I]. split; [reflexivity|apply rb_inv_single].
  - assert (Hcase : exists sb t, (match rbt s with
                                  | Some (Node c l k r) => Some (y :: ys, Node c l k r)
                                  | _ => create_tree cmp ideq (y :: ys)
                                  end) = Some (sb, t) /\ rb_inv cmp t /\ inorder t = sb /\
                                 sb = match rbt s with Some (Node _ _ _ _) => y :: ys | _ => isort cmp (y :: ys) end).
    { destruct (create_tree_spec (y :: ys)) as (t' & Ec & Hinv & Hi); [discriminate|exact Hnd|].
      destruct (rbt s) as [[|c l k r]|].
      - exists (isort cmp (y :: ys)), t'. auto.
      - destruct Ht as (Hi' & Hinv'). exists (y :: ys), (Node c l k r). auto.
      - exists (isort cmp (y :: ys)), t'. auto. }
    destruct Hcase as (sb & t & -> & Hinv & Hi & Hsb).
    assert (Hp : Permutation (y :: ys) sb).
    { rewrite Hsb. destruct (rbt s) as [[|? ? ? ?]|]; try reflexivity;
        (unfold isort; etransitivity; [|apply L_isort_gen_perm]; rewrite app_nil_r; reflexivity). }
    assert (Hndb : NoDup sb) by exact (Permutation_NoDup Hp Hnd).
    assert (Hxb : ~ In x sb) by (intro Hin; apply Hx; exact (Permutation_in _ (Permutation_sym Hp) Hin)).
    subst sb. destruct (insert_link t x Hinv Hndb Hxb) as (t1 & -> & Hinv1 & Hi1 & Hl1).
    eexists. split; [reflexivity|]. cbn [sibs rbt]. rewrite Hl1. split.
    + split; [now apply SI_NoDup|]. destruct t1 as [|c1 l1 k1 r1]; [exact I|]. split; [exact Hi1|exact Hinv1].
    + rewrite Hsb. destruct (rbt s) as [[|? ? ? ?]|]; reflexivity.
Qed.

Lemma NoDup_nth_unique (l : list A) : forall i j x,
  NoDup l -> nth_error l i = Some x -> nth_error l j = Some x -> i = j.
Proof.
  intros i j x Hnd Hi Hj. apply (proj1 (NoDup_nth_error l) Hnd); [|congruence].
  apply nth_error_Some. congruence.
Qed.

Lemma remove_nth_NoDup (l : list A) : forall i, NoDup l -> NoDup (remove_nth i l).
Proof.
  induction l as [|y l IH]; intros i Hnd; [constructor|]. inversion Hnd as [|? ? Hy Hnd']; subst.
  destruct i as [|i]; cbn [remove_nth]; [exact Hnd'|]. constructor; [|auto].
  intro Hin. apply Hy. clear - Hin. revert i Hin. induction l as [|w l IH]; intros i Hin; [destruct Hin|].
  destruct i; cbn in Hin; [right; exact Hin|]. destruct Hin as [<-|Hin]; [left; reflexivity|right; eauto].
Qed.

Theorem lyds_unlink_spec (s : lst A) i :
  lyds_ok s -> i < length (sibs s) ->
  exists s' b, lyds_unlink cmp ideq s i = Some (s', b) /\ lyds_ok s' /\ sibs s' = remove_nth i (sibs s).
Proof.
  intros (Hnd & Ht) Hi. unfold lyds_unlink.
  destruct (nth_error (sibs s) i) as [x|] eqn:Ex; [|apply nth_error_None in Ex; lia].
  destruct (rbt s) as [t|] eqn:Er.
  2:{ eexists _, _. split; [reflexivity|]. split; [|reflexivity]. split; [now apply remove_nth_NoDup|exact I]. }
  destruct (sibs s) as [|y [|y2 ys]] eqn:Es; [cbn in Hi; lia| |].
  - destruct i as [|i]; [|cbn in Hi; lia]. eexists _, _. split; [reflexivity|]. split; [|reflexivity].
    split; [constructor|exact I].
  - destruct t as [|c l k r].
    + (* metadata without a tree *)
      cbn [rb_find]. eexists _, _. split; [reflexivity|]. split; [|reflexivity]. split; [now apply remove_nth_NoDup|exact I].
    + destruct Ht as (Hio & Hinv).
      assert (Hin : In x (inorder (Node c l k r))) by (rewrite Hio; eapply nth_error_In, Ex).
      destruct (L_find_complete _ x (proj1 Hinv) Hin) as (j & Ej).
      rewrite Ej. pose proof (L_find_sound _ x j Ej) as Hj.
      rewrite Hio in Hj. assert (j = i) by exact (NoDup_nth_unique _ _ _ _ Hnd Hj Ex). subst j.
      assert (Hsz : i < size (Node c l k r)) by (rewrite L_size_inorder, Hio; exact Hi).
      destruct (L_rb_remove_inv _ i Hinv Hsz) as (t' & -> & Hinv' & Hi').
      eexists _, _. split; [reflexivity|]. cbn [sibs rbt]. split; [|reflexivity].
      split; [now apply remove_nth_NoDup|]. destruct t' as [|c' l' k' r']; [exact I|].
      split; [rewrite Hi', Hio; reflexivity|exact Hinv'].
Qed.

(* ---------- histories of public calls on one list ---------- *)
Fixpoint lyds_run (ops : list (op A)) (s : lst A) : option (lst A) :=
  match ops with
  | [] => Some s
  | Ins x :: r => match lyds_insert cmp ideq s x false with Some s' => lyds_run r s' | None => None end
  | Rem i :: r => match lyds_unlink cmp ideq s i with Some (s', _) => lyds_run r s' | None => None end
  end.

Lemma isort_gen_sorted_id (l : list A) : forall acc, sorted cmp (acc ++ l) -> fold_left SI l acc = acc ++ l.
Proof.
  induction l as [|x l IH]; intros acc Hs; cbn [fold_left]; [now rewrite app_nil_r|].
  assert (Hx : SI acc x = acc ++ [x]).
  { rewrite <- (app_nil_r acc) at 1. rewrite L_si_app_le; [reflexivity|].
    apply L_sorted_app in Hs. destruct Hs as (_ & _ & H). apply Forall_forall. intros y Hy.
    apply H; [exact Hy|left; reflexivity]. }
  rewrite Hx, IH; rewrite <- app_assoc; [reflexivity|exact Hs].
Qed.

Lemma isort_sorted_id (l : list A) : sorted cmp l -> isort cmp l = l.
Proof. intro Hs. unfold isort. now rewrite isort_gen_sorted_id. Qed.

Lemma lyds_history_gen (ops : list (op A)) : forall s,
  lyds_ok s -> sorted cmp (sibs s) ->
  ops_valid ops (length (sibs s)) -> ops_fresh cmp ops (sibs s) ->
  exists s', lyds_run ops s = Some s' /\ lyds_ok s' /\ sibs s' = fold_left (seq_step cmp) ops (sibs s).
Proof.
  induction ops as [|o ops IH]; intros s Hok Hs Hv Hf; cbn [lyds_run fold_left].
  - exists s. auto.
  - destruct o as [x|i]; cbn [ops_valid ops_fresh seq_step] in *.
    + destruct Hf as (Hx & Hf). destruct (lyds_insert_spec s x false Hok Hx) as (s1 & -> & Hok1 & Hs1).
      assert (Hres : insert_result s x = SI (sibs s) x).
      { unfold insert_result. rewrite (isort_sorted_id _ Hs). destruct (sibs s) as [|y ys]; [reflexivity|].
        destruct (rbt s) as [[|? ? ? ?]|]; reflexivity. }
      rewrite Hres in Hs1. rewrite <- Hs1. apply IH; try assumption.
      * rewrite Hs1. now apply L_si_sorted.
      * rewrite Hs1, L_si_length. exact Hv.
      * rewrite Hs1. exact Hf.
    + destruct Hv as (Hi & Hv). destruct (lyds_unlink_spec s i Hok Hi) as (s1 & b & -> & Hok1 & Hs1).
      rewrite <- Hs1. apply IH; try assumption.
      * rewrite Hs1. now apply L_rn_sorted.
      * rewrite Hs1, L_rn_length by exact Hi. exact Hv.
      * rewrite Hs1. exact Hf.
Qed.

(* any history of lyd_insert_node / lyd_unlink calls on one system-ordered (leaf-)list that starts with no
   instance: no NULL dereference in the model, the leader's tree walks exactly the siblings, and the sibling
   sequence is the history replayed on the abstract stable sorted sequence *)
Theorem lyds_history (ops : list (op A)) :
  ops_valid ops 0 -> ops_fresh cmp ops [] ->
  exists s', lyds_run ops (mkLst [] None) = Some s' /\ lyds_ok s' /\
             sibs s' = seq_run cmp ops /\ sorted cmp (sibs s').
Proof.
  intros Hv Hf. destruct (lyds_history_gen ops (mkLst [] None)) as (s' & E & Hok & Hs); try assumption.
  - split; [constructor|exact I].
  - exact I.
  - exists s'. repeat split; try assumption; try (destruct Hok; assumption).
    rewrite Hs. destruct (L_rb_history ops Hv) as (_ & _ & _ & _ & Hsorted). exact Hsorted.
Qed.

(* ---------- duplication of the instances of a (leaf-)list into a parent (lyd_dup, fixed code) ---------- *)
Lemma L_isort_gen_sorted (l acc : list A) : sorted cmp acc -> sorted cmp (fold_left SI l acc).
Proof. apply isort_gen_sorted; assumption. Qed.

Lemma isort_sorted (l : list A) : sorted cmp (isort cmp l).
Proof. unfold isort. apply L_isort_gen_sorted. exact I. Qed.

Lemma isort_perm (l : list A) : Permutation l (isort cmp l).
Proof. unfold isort. etransitivity; [|apply L_isort_gen_perm]. now rewrite app_nil_r. Qed.

Lemma isort_snoc (l : list A) x : isort cmp (l ++ [x]) = SI (isort cmp l) x.
Proof. unfold isort. now rewrite fold_left_app. Qed.

Definition no_tree (s : lst A) : Prop := match rbt s with Some (Node _ _ _ _) => False | _ => True end.

Lemma lyds_ok_sorted (s : lst A) : lyds_ok s -> ~ no_tree s -> sorted cmp (sibs s).
Proof.
  intros (_ & Ht) Hn. unfold no_tree in Hn. destruct (rbt s) as [[|c l k r]|]; try (exfalso; apply Hn; exact I).
  destruct Ht as (<- & Hs & _). exact Hs.
Qed.

Lemma insert_result_perm (s : lst A) x : Permutation (x :: sibs s) (insert_result s x).
Proof.
  unfold insert_result. destruct (sibs s) as [|y ys]; [reflexivity|].
  destruct (rbt s) as [[|? ? ? ?]|]; try apply L_si_perm;
    (etransitivity; [apply perm_skip, isort_perm|apply L_si_perm]).
Qed.

Lemma isort_insert_result (s : lst A) x :
  lyds_ok s -> isort cmp (insert_result s x) = SI (isort cmp (sibs s)) x.
Proof.
  intro Hok. unfold insert_result. destruct (sibs s) as [|y ys] eqn:Es; [reflexivity|].
  destruct (rbt s) as [[|c l k r]|] eqn:Er.
  - apply isort_sorted_id. apply L_si_sorted. apply isort_sorted.
  - assert (Hs : sorted cmp (sibs s)).
    { apply lyds_ok_sorted; [exact Hok|]. unfold no_tree. rewrite Er. auto. }
    rewrite Es in Hs. rewrite (isort_sorted_id _ Hs). apply isort_sorted_id. now apply L_si_sorted.
  - apply isort_sorted_id. apply L_si_sorted. apply isort_sorted.
Qed.

Lemma lyds_append_ok (s : lst A) x : lyds_ok s -> no_tree s -> ~ In x (sibs s) -> lyds_ok (lyds_append s x) /\ no_tree (lyds_append s x).
Proof.
  intros (Hnd & _) Hn Hx. unfold lyds_append, lyds_ok, no_tree in *. cbn [sibs rbt]. split; [|exact Hn].
  split.
  - apply (Permutation_NoDup (l := x :: sibs s)); [apply Permutation_cons_append|now constructor].
  - destruct (rbt s) as [[|? ? ? ?]|]; try exact I. destruct Hn.
Qed.

Lemma dup_first_meta_ok sm (s s' : lst A) : lyds_ok s' -> lyds_ok (dup_first_meta sm s s') /\ sibs (dup_first_meta sm s s') = sibs s'.
Proof.
  intro Hok. unfold dup_first_meta. destruct (sibs s); [|auto]. destruct sm; [|auto].
  split; [|reflexivity]. split; [exact (proj1 Hok)|exact I].
Qed.

(* a duplicate that is the only instance was inserted into an empty list: there is no tree yet *)
Lemma dup_alone_no_tree after sm (s s' : lst A) x :
  lyds_ok s -> ~ In x (sibs s) -> lyds_insert cmp ideq s x false = Some s' ->
  dup_alone ideq true after (dup_first_meta sm s s') x = true -> no_tree (dup_first_meta sm s s').
Proof.
  intros Hok Hx E Ha. unfold dup_alone in Ha. apply andb_true_iff in Ha. destruct Ha as (_ & Ha).
  destruct (lyds_insert_spec s x false Hok Hx) as (s2 & E2 & _ & Hs2). rewrite E in E2. injection E2 as <-.
  assert (Hl : length (sibs s') = S (length (sibs s))).
  { rewrite Hs2. symmetry. apply (Permutation_length (insert_result_perm s x)). }
  unfold lyds_insert in E. unfold dup_first_meta, no_tree in *. destruct (sibs s) as [|y ys] eqn:Es.
  - injection E as <-. destruct sm; exact I.
  - exfalso. destruct (sibs s') as [|a [|b l]]; cbn in *; try discriminate; lia.
Qed.

Lemma lyds_dup_rest_spec after (xs : list A) : forall (s : lst A) fast,
  lyds_ok s -> (fast = true -> no_tree s) -> NoDup (sibs s ++ xs) ->
  exists s', lyds_dup_rest cmp ideq true after fast s xs = Some s' /\ lyds_ok s' /\
             isort cmp (sibs s') = fold_left SI xs (isort cmp (sibs s)) /\ Permutation (sibs s ++ xs) (sibs s').
Proof.
  induction xs as [|x xs IH]; intros s fast Hok Hf Hnd; cbn [lyds_dup_rest fold_left].
  - exists s. rewrite app_nil_r. auto.
  - assert (Hx : ~ In x (sibs s)).
    { apply NoDup_remove_2 in Hnd. intro Hin. apply Hnd. apply in_or_app. now left. }
    destruct fast.
    + destruct (lyds_append_ok s x Hok (Hf eq_refl) Hx) as (Hok1 & Hn1).
      destruct (IH (lyds_append s x) true Hok1 (fun _ => Hn1)) as (s' & E & Hok' & Hi & Hp).
      { cbn [lyds_append sibs]. rewrite <- app_assoc. exact Hnd. }
      exists s'. split; [exact E|]. split; [exact Hok'|]. split.
      * rewrite Hi. cbn [lyds_append sibs]. now rewrite isort_snoc.
      * etransitivity; [|exact Hp]. cbn [lyds_append sibs]. rewrite <- app_assoc. reflexivity.
    + destruct (lyds_insert_spec s x false Hok Hx) as (s1 & E1 & Hok1 & Hs1). rewrite E1.
      assert (Hp1 : Permutation (x :: sibs s) (sibs s1)) by (rewrite Hs1; apply insert_result_perm).
      destruct (IH s1 (dup_alone ideq true after s1 x) Hok1) as (s' & E & Hok' & Hi & Hp).
      { intro Ha. pose proof (dup_alone_no_tree after false s s1 x Hok Hx E1) as H.
        unfold dup_first_meta in H. destruct (sibs s); apply H; exact Ha. }
      { apply (Permutation_NoDup (l := sibs s ++ x :: xs)); [|exact Hnd].
        etransitivity; [symmetry; apply Permutation_middle|]. change (x :: sibs s ++ xs) with ((x :: sibs s) ++ xs).
        now apply Permutation_app_tail. }
      exists s'. split; [exact E|]. split; [exact Hok'|]. split.
      * rewrite Hi, Hs1. now rewrite isort_insert_result.
      * etransitivity; [|exact Hp]. etransitivity; [symmetry; apply Permutation_middle|].
        change (x :: sibs s ++ xs) with ((x :: sibs s) ++ xs). now apply Permutation_app_tail.
Qed.

(* lyd_dup_siblings of the instances xs into a parent (fixed code): never a NULL dereference, the leader's tree (if
   any) walks the siblings, the siblings are the old ones plus the duplicates, and sorting them (which the next
   sorted insert does if there is no tree yet) gives the duplicates inserted one by one; when a tree exists the
   siblings are sorted already *)
Theorem lyds_dup_spec after sm (s : lst A) (xs : list A) :
  lyds_ok s -> NoDup (sibs s ++ xs) ->
  exists s', lyds_dup cmp ideq true after sm s xs = Some s' /\ lyds_ok s' /\
             isort cmp (sibs s') = fold_left SI xs (isort cmp (sibs s)) /\
             Permutation (sibs s ++ xs) (sibs s') /\ (~ no_tree s' -> sorted cmp (sibs s')).
Proof.
  intros Hok Hnd. unfold lyds_dup. destruct xs as [|x xs].
  - exists s. split; [reflexivity|]. split; [exact Hok|]. split; [reflexivity|]. split; [rewrite app_nil_r; reflexivity|].
    now apply lyds_ok_sorted.
  - assert (Hx : ~ In x (sibs s)).
    { apply NoDup_remove_2 in Hnd. intro Hin. apply Hnd. apply in_or_app. now left. }
    destruct (lyds_insert_spec s x false Hok Hx) as (s1 & E1 & Hok1 & Hs1). rewrite E1.
    destruct (dup_first_meta_ok sm s s1 Hok1) as (Hok2 & Hs2).
    assert (Hp1 : Permutation (x :: sibs s) (sibs s1)) by (rewrite Hs1; apply insert_result_perm).
    destruct (lyds_dup_rest_spec after xs (dup_first_meta sm s s1) (dup_alone ideq true after (dup_first_meta sm s s1) x) Hok2)
      as (s' & E & Hok' & Hi & Hp).
    { exact (dup_alone_no_tree after sm s s1 x Hok Hx E1). }
    { rewrite Hs2. apply (Permutation_NoDup (l := sibs s ++ x :: xs)); [|exact Hnd].
      etransitivity; [symmetry; apply Permutation_middle|]. change (x :: sibs s ++ xs) with ((x :: sibs s) ++ xs).
      now apply Permutation_app_tail. }
    exists s'. split; [exact E|]. split; [exact Hok'|]. split; [|split].
    + cbn [fold_left]. rewrite Hi, Hs2, Hs1. now rewrite isort_insert_result.
    + etransitivity; [|exact Hp]. rewrite Hs2. etransitivity; [symmetry; apply Permutation_middle|].
      change (x :: sibs s ++ xs) with ((x :: sibs s) ++ xs). now apply Permutation_app_tail.
    + now apply lyds_ok_sorted.
Qed.

(* ---------- destructive merge (lyds_pool_add / lyds_insert2 / lyds_additionally_reuse_rb_tree) ---------- *)
(* building the target's tree from recycled nodes, with the hand-over to newly allocated nodes when the pool runs dry,
   builds exactly the tree of the lazy creation - for every pool size *)
Lemma reuse_nodes_eq (rest : list A) : forall pool done (t : tree),
  reuse_nodes cmp ideq false pool rest done t =
  match create_nodes cmp ideq rest done t with
  | Some (d, t') => Some (d, t', pool - length rest)
  | None => None
  end.
Proof.
  induction rest as [|x rest IH]; intros pool done t.
  - cbn [reuse_nodes create_nodes length]. rewrite Nat.sub_0_r. reflexivity.
  - cbn [reuse_nodes length]. destruct pool as [|p].
    + destruct (create_nodes cmp ideq (x :: rest) done t) as [[d t']|]; reflexivity.
    + cbn [create_nodes]. destruct (rb_insert cmp t x) as [t'|]; [|reflexivity].
      rewrite IH. reflexivity.
Qed.

Lemma reuse_tree_eq pool (l : list A) :
  reuse_tree cmp ideq false pool l =
  match create_tree cmp ideq l with
  | Some (d, t') => Some (d, t', Nat.pred pool - (length l - 1))
  | None => None
  end.
Proof.
  unfold reuse_tree, create_tree. destruct l as [|ld rest]; [reflexivity|].
  rewrite reuse_nodes_eq. replace (length (ld :: rest) - 1) with (length rest) by (cbn [length]; lia). reflexivity.
Qed.

(* lyds_insert2() puts the node where lyds_insert() puts it and builds the same tree *)
Lemma lyds_insert2_insert pool (s : lst A) x :
  match lyds_insert2 cmp ideq false pool s x, lyds_insert cmp ideq s x false with
  | Some (s', _), Some s'' => s' = s''
  | None, None => True
  | _, _ => False
  end.
Proof.
  unfold lyds_insert2, lyds_insert. destruct (sibs s) as [|y ys]; [reflexivity|].
  destruct (rbt s) as [[|c l k r]|].
  - rewrite reuse_tree_eq. destruct (create_tree cmp ideq (y :: ys)) as [[d t']|]; [|exact I].
    destruct (rb_insert cmp t' x); [reflexivity|exact I].
  - destruct (rb_insert cmp (Node c l k r) x); [reflexivity|exact I].
  - rewrite reuse_tree_eq. destruct (create_tree cmp ideq (y :: ys)) as [[d t']|]; [|exact I].
    destruct (rb_insert cmp t' x); [reflexivity|exact I].
Qed.

(* Spec: the source instances that the merge inserts - those whose key is neither in the target nor among the
   source instances inserted before *)
Fixpoint merge_news (keys xs : list A) : list A :=
  match xs with
  | [] => []
  | x :: r => if has_key cmp x keys then merge_news keys r else x :: merge_news (x :: keys) r
  end.

Lemma has_key_perm x (l l' : list A) : Permutation l l' -> has_key cmp x l = has_key cmp x l'.
Proof.
  unfold has_key. induction 1 as [|y l l' _ IH|y z l|l l' l'' _ IH1 _ IH2]; cbn [existsb].
  - reflexivity.
  - now rewrite IH.
  - destruct (cmp y x), (cmp z x); reflexivity.
  - congruence.
Qed.

Lemma merge_news_perm (xs : list A) : forall k k', Permutation k k' -> merge_news k xs = merge_news k' xs.
Proof.
  induction xs as [|x xs IH]; intros k k' Hp; cbn [merge_news]; [reflexivity|].
  rewrite (has_key_perm x k k' Hp). destruct (has_key cmp x k').
  - now apply IH.
  - f_equal. apply IH. now apply perm_skip.
Qed.

Lemma merge_news_incl (xs : list A) : forall k y, In y (merge_news k xs) -> In y xs.
Proof.
  induction xs as [|x xs IH]; intros k y H; cbn [merge_news] in H; [destruct H|].
  destruct (has_key cmp x k).
  - right. eapply IH, H.
  - destruct H as [<-|H]; [left; reflexivity|right; eapply IH, H].
Qed.

(* lyd_merge of the instances xs of one (leaf-)list into the target, destructive (any number of recycled nodes) or not:
   never a NULL dereference, tree and siblings agree, nothing is lost and nothing doubled (the siblings are the old
   ones plus the new source instances), and they are the stable sorted merge of both runs: sorting the result (already
   sorted as soon as there is a tree) equals inserting the new instances one by one into the sorted target *)
Theorem lyd_merge_list_spec (xs : list A) : forall pool (s : lst A),
  lyds_ok s -> NoDup (sibs s ++ xs) ->
  exists s', lyd_merge_list cmp ideq false pool s xs = Some s' /\ lyds_ok s' /\
             isort cmp (sibs s') = fold_left SI (merge_news (sibs s) xs) (isort cmp (sibs s)) /\
             Permutation (sibs s ++ merge_news (sibs s) xs) (sibs s') /\
             (~ no_tree s' -> sorted cmp (sibs s')).
Proof.
  induction xs as [|x xs IH]; intros pool s Hok Hnd; cbn [lyd_merge_list merge_news].
  - exists s. split; [reflexivity|]. split; [exact Hok|]. split; [reflexivity|]. split; [now rewrite app_nil_r|].
    now apply lyds_ok_sorted.
  - assert (Hx : ~ In x (sibs s)).
    { apply NoDup_remove_2 in Hnd. intro Hin. apply Hnd. apply in_or_app. now left. }
    destruct (has_key cmp x (sibs s)).
    + apply IH; [exact Hok|]. eapply NoDup_remove_1, Hnd.
    + destruct (lyds_insert_spec s x false Hok Hx) as (s1 & E1 & Hok1 & Hs1).
      assert (Hp1 : Permutation (x :: sibs s) (sibs s1)) by (rewrite Hs1; apply insert_result_perm).
      assert (Hnd1 : NoDup (sibs s1 ++ xs)).
      { apply (Permutation_NoDup (l := sibs s ++ x :: xs)); [|exact Hnd].
        etransitivity; [symmetry; apply Permutation_middle|]. change (x :: sibs s ++ xs) with ((x :: sibs s) ++ xs).
        now apply Permutation_app_tail. }
      assert (Hstep : exists p', match pool with
                                 | O => match lyds_insert cmp ideq s x false with
                                        | Some s' => lyd_merge_list cmp ideq false O s' xs
                                        | None => None
                                        end
                                 | S _ => match lyds_insert2 cmp ideq false pool s x with
                                          | Some (s', p'0) => lyd_merge_list cmp ideq false p'0 s' xs
                                          | None => None
                                          end
                                 end = lyd_merge_list cmp ideq false p' s1 xs).
      { destruct pool as [|p].
        - exists 0. now rewrite E1.
        - pose proof (lyds_insert2_insert (S p) s x) as H2. rewrite E1 in H2.
          destruct (lyds_insert2 cmp ideq false (S p) s x) as [[s2 p2]|]; [|destruct H2]. subst s2. now exists p2. }
      destruct Hstep as (p' & ->).
      destruct (IH p' s1 Hok1 Hnd1) as (s' & E & Hok' & Hi & Hp & Hsrt).
      rewrite (merge_news_perm xs (sibs s1) (x :: sibs s) (Permutation_sym Hp1)) in Hi, Hp.
      exists s'. split; [exact E|]. split; [exact Hok'|]. split; [|split; [|exact Hsrt]].
      * cbn [fold_left]. rewrite Hi, Hs1. now rewrite isort_insert_result.
      * etransitivity; [|exact Hp]. etransitivity; [symmetry; apply Permutation_middle|].
        change (x :: sibs s ++ merge_news (x :: sibs s) xs) with ((x :: sibs s) ++ merge_news (x :: sibs s) xs).
        now apply Permutation_app_tail.
Qed.

(* ---------- lyd_unlink_siblings: lyds_split ---------- *)
Lemma remove_run_spec (xs : list A) : forall (t : tree) pre,
  rb_inv cmp t -> inorder t = pre ++ xs -> NoDup (pre ++ xs) ->
  exists t', remove_run cmp ideq t xs = Some t' /\ rb_inv cmp t' /\ inorder t' = pre.
Proof.
  induction xs as [|x xs IH]; intros t pre Hinv Hi Hnd; cbn [remove_run].
  - exists t. rewrite app_nil_r in Hi. auto.
  - destruct t as [|c l k r]; [cbn in Hi; destruct pre; discriminate|].
    assert (Hin : In x (inorder (Node c l k r))) by (rewrite Hi; apply in_or_app; right; left; reflexivity).
    destruct (L_find_complete _ x (proj1 Hinv) Hin) as (j & Ej). rewrite Ej.
    pose proof (L_find_sound _ x j Ej) as Hj. rewrite Hi in Hj.
    assert (j = length pre).
    { apply (NoDup_nth_unique (pre ++ x :: xs) j (length pre) x Hnd Hj). apply nth_error_mid. }
    subst j.
    assert (Hsz : length pre < size (Node c l k r)).
    { rewrite L_size_inorder, Hi, app_length. cbn [length]. lia. }
    destruct (L_rb_remove_inv _ (length pre) Hinv Hsz) as (t1 & -> & Hinv1 & Hi1).
    rewrite Hi, remove_nth_app in Hi1. apply (IH t1 pre Hinv1 Hi1). eapply NoDup_remove_1, Hnd.
Qed.

(* lyd_unlink_siblings at position i: the remaining list is exactly the first i instances, the split-off run exactly the
   others (nothing lost), both satisfy the invariant: the tree of the remaining list walks exactly its siblings *)
Theorem lyds_split_spec (s : lst A) i :
  lyds_ok s -> i < length (sibs s) ->
  exists s1 s2, lyds_split cmp ideq s i = Some (s1, s2) /\ lyds_ok s1 /\ lyds_ok s2 /\
                sibs s1 = firstn i (sibs s) /\ sibs s2 = skipn i (sibs s).
Proof.
  intros (Hnd & Ht) Hi. unfold lyds_split. destruct i as [|i].
  - eexists _, _. split; [reflexivity|]. split; [split; [constructor|exact I]|]. split; [split; assumption|]. auto.
  - pose proof (firstn_skipn (S i) (sibs s)) as Hfs.
    assert (Hnd1 : NoDup (firstn (S i) (sibs s))) by (apply (NoDup_app_l _ (skipn (S i) (sibs s))); now rewrite Hfs).
    assert (Hnd2 : NoDup (skipn (S i) (sibs s))).
    { apply (NoDup_app_l _ (firstn (S i) (sibs s))). apply (Permutation_NoDup (l := sibs s)); [|exact Hnd].
      rewrite <- Hfs at 1. apply Permutation_app_comm. }
    destruct (rbt s) as [[|c l k r]|].
    + eexists _, _. split; [reflexivity|]. repeat split; try assumption; exact I.
    + destruct Ht as (Hio & Hinv).
      destruct (remove_run_spec (skipn (S i) (sibs s)) (Node c l k r) (firstn (S i) (sibs s)) Hinv) as (t' & -> & Hinv' & Hi').
      { now rewrite Hfs. }
      { now rewrite Hfs. }
      eexists _, _. split; [reflexivity|]. split; [|split; [split; [exact Hnd2|exact I]|auto]].
      split; [exact Hnd1|]. cbn [rbt sibs]. destruct t' as [|c' l' k' r']; [exact I|]. split; assumption.
    + eexists _, _. split; [reflexivity|]. repeat split; try assumption; exact I.
Qed.

(* ---------- lyd_insert_child / lyd_insert_sibling of several nodes: lyds_merge ---------- *)
Lemma insert_all_spec (xs : list A) : forall s : lst A,
  lyds_ok s -> NoDup (sibs s ++ xs) ->
  exists s', insert_all cmp ideq s xs = Some s' /\ lyds_ok s' /\
             isort cmp (sibs s') = fold_left SI xs (isort cmp (sibs s)) /\
             Permutation (sibs s ++ xs) (sibs s') /\ (~ no_tree s' -> sorted cmp (sibs s')).
Proof.
  induction xs as [|x xs IH]; intros s Hok Hnd; cbn [insert_all fold_left].
  - exists s. split; [reflexivity|]. split; [exact Hok|]. split; [reflexivity|]. split; [now rewrite app_nil_r|].
    now apply lyds_ok_sorted.
  - assert (Hx : ~ In x (sibs s)).
    { apply NoDup_remove_2 in Hnd. intro Hin. apply Hnd. apply in_or_app. now left. }
    destruct (lyds_insert_spec s x false Hok Hx) as (s1 & -> & Hok1 & Hs1).
    assert (Hp1 : Permutation (x :: sibs s) (sibs s1)) by (rewrite Hs1; apply insert_result_perm).
    destruct (IH s1 Hok1) as (s' & E & Hok' & Hi & Hp & Hsrt).
    { apply (Permutation_NoDup (l := sibs s ++ x :: xs)); [|exact Hnd].
      etransitivity; [symmetry; apply Permutation_middle|]. change (x :: sibs s ++ xs) with ((x :: sibs s) ++ xs).
      now apply Permutation_app_tail. }
    exists s'. split; [exact E|]. split; [exact Hok'|]. split; [|split; [|exact Hsrt]].
    + rewrite Hi, Hs1. now rewrite isort_insert_result.
    + etransitivity; [|exact Hp]. etransitivity; [symmetry; apply Permutation_middle|].
      change (x :: sibs s ++ xs) with ((x :: sibs s) ++ xs). now apply Permutation_app_tail.
Qed.

Lemma rb_insert_all_spec (xs : list A) : forall t : tree,
  rb_inv cmp t -> exists t', rb_insert_all cmp t xs = Some t' /\ rb_inv cmp t' /\ inorder t' = fold_left SI xs (inorder t).
Proof.
  induction xs as [|x xs IH]; intros t Hinv; cbn [rb_insert_all fold_left]; [exists t; auto|].
  destruct (L_rb_insert_inv t x Hinv) as (t1 & -> & Hinv1 & Hi1). rewrite <- Hi1. now apply IH.
Qed.

Lemma postorder_perm (t : tree) : Permutation (postorder t) (inorder t).
Proof.
  induction t as [|c l IHl k r IHr]; cbn [postorder inorder]; [reflexivity|].
  apply Permutation_app; [exact IHl|]. etransitivity; [symmetry; apply Permutation_cons_append|]. now apply perm_skip.
Qed.

(* Spec: the sibling sequence after the merge, once sorted (it IS sorted in every case but the first, where the run is
   moved as it is into a target without instances): the stable sorted merge of both runs - target instances first among
   equal keys when the source instances are inserted (source order, or post-order of the source tree when both have
   trees), source instances first when the target instances are inserted into the source tree *)
Definition merge_result (s c : lst A) : list A :=
  match sibs s with
  | [] => isort cmp (sibs c)
  | _ :: _ =>
    match rbt c with
    | Some (Node sc sl sk sr) =>
      match rbt s with
      | Some (Node _ _ _ _) => fold_left SI (postorder (Node sc sl sk sr)) (isort cmp (sibs s))
      | _ => fold_left SI (sibs s) (sibs c)
      end
    | _ => fold_left SI (sibs c) (isort cmp (sibs s))
    end
  end.

(* lyds_merge of a run c into a target s, every case (lyds_merge_nodes1 with / without creating the target's tree first,
   lyds_merge_nodes2 front / among / back, lyds_merge_nodes3).  The only premise beyond the invariants: when the target
   has no tree but the source has one, the target instances are sorted (lyds_merge_nodes2 relies on it; unsorted ones
   come only from LYD_INSERT_NODE_LAST input that was declared ordered).  Then: no NULL dereference, tree = siblings,
   nothing lost or doubled, the result is the stable sorted merge. *)
Theorem lyds_merge_spec (s c : lst A) :
  lyds_ok s -> lyds_ok c -> NoDup (sibs s ++ sibs c) -> (no_tree s -> ~ no_tree c -> sorted cmp (sibs s)) ->
  exists s', lyds_merge cmp ideq s c = Some s' /\ lyds_ok s' /\
             Permutation (sibs s ++ sibs c) (sibs s') /\
             isort cmp (sibs s') = merge_result s c /\
             (~ no_tree s' -> sorted cmp (sibs s')).
Proof.
  intros Hok Hokc Hnd Hsrt. unfold lyds_merge, merge_result. destruct (sibs s) as [|y ys] eqn:Es.
  - exists c. split; [reflexivity|]. split; [exact Hokc|]. split; [reflexivity|]. split; [reflexivity|].
    now apply lyds_ok_sorted.
  - rewrite <- Es in *. clear y ys Es.
    assert (Hins : forall xs, Permutation xs (sibs c) ->
              exists s', insert_all cmp ideq s xs = Some s' /\ lyds_ok s' /\ Permutation (sibs s ++ sibs c) (sibs s') /\
                         isort cmp (sibs s') = fold_left SI xs (isort cmp (sibs s)) /\
                         (~ no_tree s' -> sorted cmp (sibs s'))).
    { intros xs Hpx. destruct (insert_all_spec xs s Hok) as (s' & E & Hok' & Hi & Hp & Hst).
      - apply (Permutation_NoDup (l := sibs s ++ sibs c)); [|exact Hnd]. apply Permutation_app_head. now symmetry.
      - exists s'. split; [exact E|]. split; [exact Hok'|]. split; [|split; [exact Hi|exact Hst]].
        etransitivity; [|exact Hp]. apply Permutation_app_head. now symmetry. }
    destruct (rbt c) as [[|sc sl sk sr]|] eqn:Ec.
    + apply Hins. reflexivity.
    + destruct Hokc as (Hndc & Htc). rewrite Ec in Htc. destruct Htc as (Hic & Hinvc).
      assert (Hcase2 : no_tree s ->
        exists s', (if sortedb cmp (sibs s)
                    then match rb_insert_all cmp (Node sc sl sk sr) (sibs s) with
                         | Some t => Some (mkLst (inorder t) (Some t))
                         | None => None
                         end
                    else None) = Some s' /\ lyds_ok s' /\ Permutation (sibs s ++ sibs c) (sibs s') /\
                   isort cmp (sibs s') = fold_left SI (sibs s) (sibs c) /\ (~ no_tree s' -> sorted cmp (sibs s'))).
      { intro Hn. assert (Hs : sorted cmp (sibs s)).
        { apply Hsrt; [exact Hn|]. unfold no_tree. rewrite Ec. auto. }
        assert (Hsb : sortedb cmp (sibs s) = true).
        { clear - Hs. induction (sibs s) as [|x l IH]; [reflexivity|]. cbn [sortedb]. destruct l as [|z l]; [reflexivity|].
          cbn [sorted] in Hs. destruct Hs as (Hx & Hs). inversion Hx as [|? ? Hxz _]; subst. unfold le in Hxz.
          destruct (cmp x z); try congruence; now apply IH. }
        rewrite Hsb. destruct (rb_insert_all_spec (sibs s) (Node sc sl sk sr) Hinvc) as (t & -> & Hinvt & Hit).
        rewrite Hic in Hit. eexists. split; [reflexivity|]. cbn [sibs rbt].
        assert (Hp : Permutation (sibs s ++ sibs c) (inorder t)) by (rewrite Hit; apply L_isort_gen_perm).
        split; [|split; [exact Hp|split]].
        - split; [exact (Permutation_NoDup Hp Hnd)|]. cbn [rbt sibs]. destruct t as [|? ? ? ?]; [exact I|]. split; [reflexivity|exact Hinvt].
        - rewrite <- Hit. apply isort_sorted_id. exact (proj1 Hinvt).
        - intros _. exact (proj1 Hinvt). }
      destruct (rbt s) as [[|dc dl dk dr]|] eqn:Ers.
      * apply Hcase2. unfold no_tree. rewrite Ers. exact I.
      * apply Hins. rewrite <- Hic. apply postorder_perm.
      * apply Hcase2. unfold no_tree. rewrite Ers. exact I.
    + apply Hins. reflexivity.
Qed.

End SortedP.

Arguments lyds_ok {A}.
Arguments insert_result {A}.
Arguments lyds_run {A}.
Arguments no_tree {A}.
Arguments merge_news {A}.
Arguments merge_result {A}.
