(* JsonDoc.v -- document level of the JSON data printer / parser on the Tree subset. MODEL ONLY (proofs: JsonDocP.v).

   1. json_print_sm: src/printer_json.c in LYD_PRINT_SHRINK mode with LYD_PRINT_WITHSIBLINGS transcribed WITH its
      state (level, level_printed, the set of open arrays, first_leaflist): json_print_data, json_print_node,
      json_print_member, json_print_value, json_print_leaf, json_print_container, json_print_inner,
      json_print_leaf_list, json_print_array_open/close/is_last_inst, json_print_attributes, json_print_metadata,
      json_print_meta_attr_leaflist. The with-defaults node selection (lyd_node_should_print) is the parameter [sel];
      the tagged modes, anydata, opaque nodes, union-typed values and types whose JSON form differs from the canonical
      value (identityref, instance-identifier) are not modelled.
   2. json_tree / json_doc: the RFC 7951 reading of a forest as a JSON value (members qualified where the module
      changes, contiguous (leaf-)list instances as arrays, metadata objects per RFC 7952) and its compact rendering.
      On canonical forests with every node selected the state machine prints exactly this (JsonDocP).
   3. A generic RFC 8259 value reader parametric in the string reader; instances: the standard one (StdText string
      reader) and the libyang side (the model of lyjson_string) followed by the schema-directed conversion of the value
      to a data forest. The latter is a reader for the documents the printer emits, NOT a transcription of parser_json.c;
      it is tied to the implementation by reading libyang's own output (tools/props/comps_doc.py). *)
From LY Require Import Base Utf8 JsonText Tree XmlDoc.
From LY Require StdText.
Local Open Scope N_scope.

(* RFC 7951 section 6: how a leaf / leaf-list value is written (side table produced by tools/docenc.py) *)
Inductive jkind := JStr | JNum | JBool | JEmpty.

Definition jkind_of (jk : list (sid * jkind)) (s : sid) : jkind :=
  match assocN jk s with Some k => k | None => JStr end.

Definition null_b : bytes := [110; 117; 108; 108].
Definition true_b : bytes := [116; 114; 117; 101].
Definition false_b : bytes := [102; 97; 108; 115; 101].

(* json_print_value(): strings through json_print_string, numbers and booleans as they are (null when empty), empty
   as [null] *)
Definition jvalue_bytes (k : jkind) (v : bytes) : bytes :=
  match k with
  | JStr => json_esc v
  | JNum | JBool => match v with [] => null_b | _ => v end
  | JEmpty => 91 :: null_b ++ [93]
  end.

(* ------------------------------------------------------------------------------------------- *)
(* 1. the printer as a state machine                                                             *)
(* ------------------------------------------------------------------------------------------- *)
Record jst := mk_jst {
  j_level : N;                      (* pctx->level *)
  j_lp : N;                         (* pctx->level_printed *)
  j_open : list sid;                (* pctx->open: schema nodes of the open arrays, innermost first *)
  j_first : option (list dnode)     (* pctx->first_leaflist, as the whole run of instances it belongs to *)
}.

Definition st_inc (st : jst) : jst := mk_jst (j_level st + 1) (j_lp st) (j_open st) (j_first st).
Definition st_dec (st : jst) : jst := mk_jst (j_level st - 1) (j_lp st) (j_open st) (j_first st).
Definition st_printed (st : jst) : jst := mk_jst (j_level st) (j_level st) (j_open st) (j_first st).   (* LEVEL_PRINTED *)
Definition st_open (st : jst) (s : sid) : jst := mk_jst (j_level st) (j_lp st) (s :: j_open st) (j_first st).
Definition st_close (st : jst) : jst := mk_jst (j_level st) (j_lp st) (tl (j_open st)) (j_first st).
Definition st_first (st : jst) (r : option (list dnode)) : jst := mk_jst (j_level st) (j_lp st) (j_open st) r.

(* PRINT_COMMA *)
Definition jcomma (st : jst) : bytes := if j_level st <=? j_lp st then [44] else [].

(* is_open_array(): the innermost open array is an array of instances of the node's schema node. Since e077458 the C
   function also asks that the array's first node and the node have the same parent, and skips the marker pushed around
   the data tree of an anydata node. In the modelled domain (no anydata content, no opaque nodes) that changes nothing:
   the open arrays are arrays of the node's siblings or of its ancestors, and an ancestor never is an instance of the
   node's own schema node (the sid of a node is larger than its parent's, JsonDoc.parents_ltb). *)
Definition is_open (st : jst) (s : sid) : bool :=
  match j_open st with o :: _ => o =? s | [] => false end.

Definition has_sid (s : sid) (n : dnode) : bool := d_sid n =? s.

Section PrinterSM.
  Variable sch : schema.
  Variable t : doctabs.
  Variable jk : list (sid * jkind).
  Variable sel : dnode -> bool.

  Definition mod_name (s : sid) : bytes := mi_name (mod_info t (node_mod t s)).

  (* json_print_member(pctx, node, is_attr): the module name when LEVEL == 1 or json_nscmp(node, pctx->parent) *)
  Definition jmember (st : jst) (par : option N) (s : sid) (is_attr : bool) : bytes :=
    jcomma st ++ 34 :: (if is_attr then [64] else []) ++
    (if (j_level st =? 1) || match par with None => true | Some pm => negb (pm =? node_mod t s) end
     then mod_name s ++ [58] else []) ++ node_name t s ++ [34; 58].

  (* json_print_metadata(pctx, node, NULL): annotation values are strings *)
  Fixpoint jmetas (st : jst) (m : list (bytes * bytes)) : bytes * jst :=
    match m with
    | [] => ([], st)
    | (k, v) :: m' =>
        let o := jcomma st ++ 34 :: k ++ [34; 58] ++ json_esc v in
        let '(o2, st2) := jmetas (st_printed st) m' in
        (o ++ o2, st2)
    end.

  (* json_print_attributes(pctx, node, inner) *)
  Definition jattrs (st : jst) (par : option N) (s : sid) (m : list (bytes * bytes)) (inner : bool) : bytes * jst :=
    match m with
    | [] => ([], st)
    | _ =>
        let o1 := if inner then jcomma st ++ [34; 64; 34; 58] else jmember st par s true in
        let '(o2, st2) := jmetas (st_inc st) m in
        (o1 ++ [123] ++ o2 ++ [125], st_printed (st_dec st2))
    end.

  (* json_print_meta_attr_leaflist(): one entry per PRINTED instance of the run (since f592167; before, also for the
     instances the node selection hides), null where there is no metadata *)
  Fixpoint jmeta_entries (st : jst) (run : list dnode) : bytes * jst :=
    match run with
    | [] => ([], st)
    | n :: r =>
        if negb (sel n) then jmeta_entries st r else
        let c := jcomma st in
        let '(o, st1) :=
          match d_meta n with
          | [] => (null_b, st)
          | m => let '(o2, st2) := jmetas (st_inc st) m in (123 :: o2 ++ [125], st_dec st2)
          end in
        let '(o3, st3) := jmeta_entries (st_printed st1) r in
        (c ++ o ++ o3, st3)
    end.
  Definition jmeta_arr (st : jst) (par : option N) (run : list dnode) : bytes * jst :=
    let s := match run with n :: _ => d_sid n | [] => 0 end in
    let o1 := jmember st par s true in
    let '(o2, st2) := jmeta_entries (st_inc st) run in
    (o1 ++ [91] ++ o2 ++ [93], st_printed (st_dec st2)).

  (* the maximal block of adjacent siblings with the schema of the current node: the instances before it (nearest
     first in [prev_rev]), the node, the instances after it *)
  Fixpoint take_while {A} (p : A -> bool) (l : list A) : list A :=
    match l with x :: r => if p x then x :: take_while p r else [] | [] => [] end.
  Definition run_of (prev_rev : list dnode) (n : dnode) (nexts : list dnode) : list dnode :=
    rev (take_while (has_sid (d_sid n)) prev_rev) ++ n :: take_while (has_sid (d_sid n)) nexts.

  (* json_print_node(pctx, node): [par] = module of pctx->parent, [prev_rev] / [nexts] = the siblings before (nearest
     first) and after the node *)
  Fixpoint json_node (par : option N) (prev_rev nexts : list dnode) (st : jst) (n : dnode) {struct n} : bytes * jst :=
    match n with
    | DN s v d m ch =>
        let next_same := match nexts with x :: _ => d_sid x =? s | [] => false end in
        (* json_print_inner *)
        let inner (st : jst) : bytes * jst :=
          let o0 := (if is_open st s && (j_level st <=? j_lp st) then [44] else []) ++ [123] in
          let '(o1, st1) := jattrs (st_inc st) par s m true in
          let '(o2, st2) :=
            (fix go (prev : list dnode) (l : list dnode) (st : jst) {struct l} : bytes * jst :=
               match l with
               | [] => ([], st)
               | c :: l' =>
                   let '(a, sta) := json_node (Some (node_mod t s)) prev l' st c in
                   let '(b, stb) := go (c :: prev) l' sta in
                   (a ++ b, stb)
               end) [] ch st1 in
          (o0 ++ o1 ++ o2 ++ [125], st_printed (st_dec st2)) in
        (* json_print_array_is_last_inst + json_print_array_close *)
        let close_if_last (st : jst) : bytes * jst :=
          if is_open st s && negb next_same then ([93], st_close (st_dec st)) else ([], st) in
        (* the pending metadata of a leaf-list is written when the next sibling is not an instance of it *)
        let flush (o : bytes) (st2 : jst) : bytes * jst :=
          match j_first st2 with
          | Some run =>
              let fs := match run with x :: _ => d_sid x | [] => 0 end in
              if match nexts with x :: _ => d_sid x =? fs | [] => false end then (o, st2)
              else let '(o', st3) := jmeta_arr st2 par run in (o ++ o', st_first st3 None)
          | None => (o, st2)
          end in
        if negb (sel n) then
          (* not printed (since f592167): a closed array marks its level printed, and the pending metadata is written here too *)
          if is_open st s && negb next_same then flush [93] (st_printed (st_close (st_dec st))) else flush [] st
        else
          let '(o, st1) :=
            match kind_of sch s with
            | KCont _ =>
                let o1 := jmember st par s false in
                let '(o2, st2) := inner st in (o1 ++ o2, st2)
            | KLeaf =>
                let o1 := jmember st par s false ++ jvalue_bytes (jkind_of jk s) v in
                let '(o2, st2) := jattrs (st_printed st) par s m false in (o1 ++ o2, st2)
            | KList =>
                let '(o1, sta) :=
                  if is_open st s then ([], st) else (jmember st par s false ++ [91], st_inc (st_open st s)) in
                let '(o2, stb) := inner sta in
                let '(o3, stc) := close_if_last stb in
                (o1 ++ o2 ++ o3, stc)
            | KLeafList =>
                let '(o1, sta) :=
                  if is_open st s then ([44], st) else (jmember st par s false ++ [91], st_inc (st_open st s)) in
                let o2 := jvalue_bytes (jkind_of jk s) v in
                let stb := match j_first sta, m with
                           | None, _ :: _ => st_first sta (Some (run_of prev_rev n nexts))
                           | _, _ => sta
                           end in
                let '(o3, stc) := close_if_last stb in
                (o1 ++ o2 ++ o3, stc)
            | KAny => (jmember st par s false ++ [123; 125], st_printed st)      (* not modelled *)
            end in
          flush o (st_printed st1)                           (* pctx->level_printed = pctx->level *)
    end.

  Fixpoint json_siblings (par : option N) (prev : list dnode) (l : list dnode) (st : jst) : bytes * jst :=
    match l with
    | [] => ([], st)
    | c :: l' =>
        let '(a, sta) := json_node par prev l' st c in
        let '(b, stb) := json_siblings par (c :: prev) l' sta in
        (a ++ b, stb)
    end.

  (* json_print_data() *)
  Definition json_print_sm (f : forest) : bytes :=
    match f with
    | [] => [123; 125]
    | _ => 123 :: fst (json_siblings None [] f (mk_jst 1 0 [] None)) ++ [125]
    end.
End PrinterSM.

(* ------------------------------------------------------------------------------------------- *)
(* 2. JSON values, rendering, the RFC 7951 reading of a forest                                   *)
(* ------------------------------------------------------------------------------------------- *)
Inductive jval :=
| JVstr (s : bytes)
| JVnum (tok : bytes)           (* the number token as written *)
| JVtrue | JVfalse | JVnull
| JVarr (l : list jval)
| JVobj (l : list (bytes * jval)).

(* compact rendering: no white space; member names are written as they are (identifiers, colon, at sign) *)
Fixpoint jrender (v : jval) {struct v} : bytes :=
  match v with
  | JVstr s => json_esc s
  | JVnum tok => tok
  | JVtrue => true_b
  | JVfalse => false_b
  | JVnull => null_b
  | JVarr l =>
      91 :: (fix go (l : list jval) (first : bool) : bytes :=
               match l with
               | [] => []
               | x :: l' => (if first then [] else [44]) ++ jrender x ++ go l' false
               end) l true ++ [93]
  | JVobj l =>
      123 :: (fix go (l : list (bytes * jval)) (first : bool) : bytes :=
                match l with
                | [] => []
                | (k, x) :: l' => (if first then [] else [44]) ++ 34 :: k ++ [34; 58] ++ jrender x ++ go l' false
                end) l true ++ [125]
  end.

Definition jval_of_term (k : jkind) (v : bytes) : jval :=
  match k with
  | JStr => JVstr v
  | JNum => match v with [] => JVnull | _ => JVnum v end
  | JBool => if beq_bytes v true_b then JVtrue else if beq_bytes v false_b then JVfalse
             else match v with [] => JVnull | _ => JVnum v end
  | JEmpty => JVarr [JVnull]
  end.

Definition jmeta_obj (m : list (bytes * bytes)) : jval := JVobj (map (fun kv => (fst kv, JVstr (snd kv))) m).

(* adjacent items with the same schema node *)
Fixpoint group_runs {A} (l : list (dnode * A)) : list (sid * list (dnode * A)) :=
  match l with
  | [] => []
  | x :: r =>
      match group_runs r with
      | (s, run) :: g => if s =? d_sid (fst x) then (s, x :: run) :: g else (d_sid (fst x), [x]) :: (s, run) :: g
      | [] => [(d_sid (fst x), [x])]
      end
  end.

Section Tree7951.
  Variable sch : schema.
  Variable t : doctabs.
  Variable jk : list (sid * jkind).

  (* RFC 7951 section 4: the module name where there is no parent or the parent is in another module *)
  Definition mname (pm : option N) (s : sid) : bytes :=
    (if match pm with None => true | Some m => negb (m =? node_mod t s) end
     then mi_name (mod_info t (node_mod t s)) ++ [58] else []) ++ node_name t s.

  Definition has_meta (x : dnode * jval) : bool := negb (isnil (d_meta (fst x))).
  Definition meta_or_null (x : dnode * jval) : jval :=
    match d_meta (fst x) with [] => JVnull | m => jmeta_obj m end.

  (* the members one run of siblings contributes (RFC 7951 sections 5.1 - 5.4, RFC 7952 section 5.2) *)
  Definition group_members (pm : option N) (g : sid * list (dnode * jval)) : list (bytes * jval) :=
    let '(s, run) := g in
    let nm := mname pm s in
    match kind_of sch s with
    | KLeaf =>
        flat_map (fun x : dnode * jval =>
                    (nm, snd x) :: (if has_meta x then [(64 :: nm, jmeta_obj (d_meta (fst x)))] else [])) run
    | KLeafList =>
        (nm, JVarr (map snd run)) ::
        (if existsb has_meta run then [(64 :: nm, JVarr (map meta_or_null run))] else [])
    | KList => [(nm, JVarr (map snd run))]
    | KCont _ | KAny => map (fun x : dnode * jval => (nm, snd x)) run
    end.

  Definition assemble (pm : option N) (l : list (dnode * jval)) : list (bytes * jval) :=
    flat_map (group_members pm) (group_runs l).

  (* the value a node contributes: a term its value, an inner node the object of its metadata (member @) and children *)
  Fixpoint jnode_val (n : dnode) {struct n} : jval :=
    match n with
    | DN s v d m ch =>
        match kind_of sch s with
        | KLeaf | KLeafList => jval_of_term (jkind_of jk s) v
        | KCont _ | KList =>
            JVobj ((match m with [] => [] | _ => [([64], jmeta_obj m)] end) ++
                   assemble (Some (node_mod t s)) (map (fun c => (c, jnode_val c)) ch))
        | KAny => JVobj []
        end
    end.

  Definition json_tree (f : forest) : jval := JVobj (assemble None (map (fun c => (c, jnode_val c)) f)).
  Definition json_doc (f : forest) : bytes := jrender (json_tree f).
End Tree7951.

(* the printer model used by the theorems and by T2: the state machine *)
Definition json_print (sch : schema) (t : doctabs) (jk : list (sid * jkind)) (sel : dnode -> bool) (f : forest) : bytes :=
  json_print_sm sch t jk sel f.
Definition json_print_all (sch : schema) (t : doctabs) (jk : list (sid * jkind)) (f : forest) : bytes :=
  json_print sch t jk sel_all f.

(* ------------------------------------------------------------------------------------------- *)
(* 3. generic RFC 8259 reader, parametric in the string reader                                    *)
(* ------------------------------------------------------------------------------------------- *)
(* RFC 8259 section 2: ws = *( %x20 / %x09 / %x0A / %x0D ) *)
Definition is_jws (b : N) : bool := (b =? 32) || (b =? 9) || (b =? 10) || (b =? 13).
Definition jws (s : bytes) : bytes := snd (span is_jws s).

(* section 6: number = [ minus ] int [ frac ] [ exp ] ; int = zero / ( digit1-9 *DIGIT ) ; frac = decimal-point 1*DIGIT ;
   exp = e [ minus / plus ] 1*DIGIT *)
Definition digits1 (s : bytes) : option bytes :=          (* 1*DIGIT, returns the rest *)
  match span is_digit s with
  | ([], _) => None
  | (_, r) => Some r
  end.
Definition jnumber_ok (tok : bytes) : bool :=
  let s1 := match tok with 45 :: r => r | _ => tok end in
  let after_int :=
    match s1 with
    | 48 :: r => Some r
    | c :: r => if is_digit c then Some (snd (span is_digit r)) else None
    | [] => None
    end in
  match after_int with
  | None => false
  | Some s2 =>
      let after_frac := match s2 with 46 :: r => digits1 r | _ => Some s2 end in
      match after_frac with
      | None => false
      | Some s3 =>
          match s3 with
          | [] => true
          | e :: r =>
              if (e =? 101) || (e =? 69) then
                let r' := match r with c :: r'' => if (c =? 45) || (c =? 43) then r'' else r | [] => r end in
                match digits1 r' with Some [] => true | _ => false end
              else false
          end
      end
  end.
Definition is_numchar (b : N) : bool :=
  is_digit b || (b =? 45) || (b =? 43) || (b =? 46) || (b =? 101) || (b =? 69).

Section GenericJson.
  (* the input starts at the opening quotation mark: (string value, input after the closing quotation mark) *)
  Variable rdstr : bytes -> option (bytes * bytes).

  (* section 3: value = false / null / true / object / array / number / string ; section 4: object = begin-object
     [ member *( value-separator member ) ] end-object ; member = string name-separator value ; section 5: array =
     begin-array [ value *( value-separator value ) ] end-array *)
  Fixpoint jv_value (fuel : nat) (s0 : bytes) : option (jval * bytes) :=
    match fuel with
    | O => None
    | S f =>
        let s := jws s0 in
        match s with
        | [] => None
        | c :: r =>
            if c =? 34 then match rdstr s with Some (v, r') => Some (JVstr v, r') | None => None end
            else if c =? 123 then
              match jws r with
              | [] => None
              | c2 :: r2 =>
                  if c2 =? 125 then Some (JVobj [], r2)
                  else match jv_members f (c2 :: r2) with Some (ms, r') => Some (JVobj ms, r') | None => None end
              end
            else if c =? 91 then
              match jws r with
              | [] => None
              | c2 :: r2 =>
                  if c2 =? 93 then Some (JVarr [], r2)
                  else match jv_value f (c2 :: r2) with
                       | Some (v, r3) =>
                           match jv_elems f r3 with Some (es, r4) => Some (JVarr (v :: es), r4) | None => None end
                       | None => None
                       end
              end
            else if starts_with true_b s then Some (JVtrue, skipn 4 s)
            else if starts_with false_b s then Some (JVfalse, skipn 5 s)
            else if starts_with null_b s then Some (JVnull, skipn 4 s)
            else let '(tok, r') := span is_numchar s in
                 if jnumber_ok tok then Some (JVnum tok, r') else None
        end
    end
  (* at a member; up to and including the end-object *)
  with jv_members (fuel : nat) (s0 : bytes) : option (list (bytes * jval) * bytes) :=
    match fuel with
    | O => None
    | S f =>
        match rdstr (jws s0) with
        | None => None
        | Some (k, r) =>
            match jws r with
            | [] => None
            | c :: r1 =>
                if c =? 58 then
                  match jv_value f r1 with
                  | None => None
                  | Some (v, r2) =>
                      match jws r2 with
                      | [] => None
                      | c2 :: r3 =>
                          if c2 =? 44 then
                            match jv_members f r3 with
                            | Some (ms, r4) => Some ((k, v) :: ms, r4)
                            | None => None
                            end
                          else if c2 =? 125 then Some ([(k, v)], r3)
                          else None
                      end
                  end
                else None
            end
        end
    end
  (* after a value of an array; up to and including the end-array *)
  with jv_elems (fuel : nat) (s0 : bytes) : option (list jval * bytes) :=
    match fuel with
    | O => None
    | S f =>
        match jws s0 with
        | [] => None
        | c :: r =>
            if c =? 44 then
              match jv_value f r with
              | Some (v, r2) =>
                  match jv_elems f r2 with
                  | Some (es, r4) => Some (v :: es, r4)
                  | None => None
                  end
              | None => None
              end
            else if c =? 93 then Some ([], r)
            else None
        end
    end.

  (* section 2: JSON-text = ws value ws *)
  Definition jv_text (s : bytes) : option jval :=
    match jv_value (S (length s)) s with
    | Some (v, r) => match jws r with [] => Some v | _ => None end
    | None => None
    end.
End GenericJson.

(* ---- instance 1: the standard reader. The string token is cut at its closing quotation mark (a reverse solidus
   escapes the next character) and read by StdText.std_json_string. *)
Fixpoint scan_jstring (fuel : nat) (s : bytes) (acc : bytes) : option (bytes * bytes) :=    (* after the opening quote *)
  match fuel with
  | O => None
  | S f =>
      match s with
      | [] => None
      | c :: r =>
          if c =? 34 then Some (rev acc, r)
          else if c =? 92 then
            match r with
            | e :: r' => scan_jstring f r' (e :: 92 :: acc)
            | [] => None
            end
          else scan_jstring f r (c :: acc)
      end
  end.
Definition std_rdstr (s : bytes) : option (bytes * bytes) :=
  match s with
  | c :: r =>
      if c =? 34 then
        match scan_jstring (S (length r)) r [] with
        | Some (body, rest) =>
            match StdText.std_json_string (34 :: body ++ [34]) with
            | Some v => Some (v, rest)
            | None => None
            end
        | None => None
        end
      else None
  | [] => None
  end.
Definition std_json_value : bytes -> option jval := jv_text std_rdstr.

(* ---- instance 2: the libyang side: strings through the model of lyjson_string() *)
Definition ly_rdstr (s : bytes) : option (bytes * bytes) :=
  match json_quoted s with Ok (v, r) => Some (v, r) | Err _ => None end.

(* value -> canonical value of a term of kind k *)
Definition term_of_jval (k : jkind) (v : jval) : option bytes :=
  match k, v with
  | JStr, JVstr s => Some s
  | JNum, JVnum tok => Some tok
  | JBool, JVtrue => Some true_b
  | JBool, JVfalse => Some false_b
  | JEmpty, JVarr [JVnull] => Some []
  | _, _ => None
  end.

Fixpoint metas_of_jobj (l : list (bytes * jval)) : option (list (bytes * bytes)) :=
  match l with
  | [] => Some []
  | (k, JVstr v) :: r => match metas_of_jobj r with Some ms => Some ((k, v) :: ms) | None => None end
  | _ => None
  end.
Definition metas_of_jval (v : jval) : option (list (bytes * bytes)) :=
  match v with
  | JVobj l => metas_of_jobj l
  | JVnull => Some []
  | _ => None
  end.

Fixpoint has_colon (s : bytes) : bool :=
  match s with [] => false | c :: r => (c =? 58) || has_colon r end.

Fixpoint mod_id_by_name (l : list (N * modinfo)) (nm : bytes) : option N :=
  match l with
  | [] => None
  | (i, mi) :: r => if beq_bytes (mi_name mi) nm then Some i else mod_id_by_name r nm
  end.

Section FromJson.
  Variable sch : schema.
  Variable t : doctabs.
  Variable jk : list (sid * jkind).

  (* member name -> schema node below parent p whose module is pm *)
  Definition resolve_member (p : option sid) (pm : option N) (k : bytes) : option sid :=
    if has_colon k then
      let '(mn, nm) := split_colon k in
      match mod_id_by_name (dt_mods t) mn with
      | Some mid => sid_by_name sch (dt_names t) p mid nm
      | None => None
      end
    else
      match pm with
      | Some mid => sid_by_name sch (dt_names t) p mid k
      | None => None
      end.

  (* leaf-list: values with the metadata entries of the following @member *)
  Fixpoint zip_leaflist (sd : sid) (vals : list jval) (ms : list jval) : option forest :=
    match vals with
    | [] => Some []
    | v :: vr =>
        match term_of_jval (jkind_of jk sd) v,
              (match ms with m :: _ => metas_of_jval m | [] => Some [] end),
              zip_leaflist sd vr (tl ms) with
        | Some tv, Some mm, Some r => Some (DN sd tv false mm [] :: r)
        | _, _, _ => None
        end
    end.

  (* an object -> (metadata of the node it stands for: member @ when it is the first one, children) *)
  Fixpoint conv_obj (p : option sid) (pm : option N) (v : jval) {struct v} : option (list (bytes * bytes) * forest) :=
    match v with
    | JVobj l0 =>
        let go :=
          (fix go (l : list (bytes * jval)) {struct l} : option forest :=
             match l with
             | [] => Some []
             | (k, x) :: r =>
                 match resolve_member p pm k with
                 | None => None
                 | Some sd =>
                     let md := Some (node_mod t sd) in
                     match kind_of sch sd with
                     | KLeaf =>
                         match term_of_jval (jkind_of jk sd) x with
                         | None => None
                         | Some tv =>
                             match r with
                             | (k2, x2) :: r' =>
                                 if beq_bytes k2 (64 :: k) then
                                   match metas_of_jval x2, go r' with
                                   | Some mm, Some f => Some (DN sd tv false mm [] :: f)
                                   | _, _ => None
                                   end
                                 else match go r with Some f => Some (DN sd tv false [] [] :: f) | None => None end
                             | [] => Some [DN sd tv false [] []]
                             end
                         end
                     | KCont _ =>
                         match conv_obj (Some sd) md x, go r with
                         | Some (mm, ch), Some f => Some (DN sd [] false mm ch :: f)
                         | _, _ => None
                         end
                     | KList =>
                         match x with
                         | JVarr objs =>
                             match (fix each (os : list jval) {struct os} : option forest :=
                                      match os with
                                      | [] => Some []
                                      | o :: os' =>
                                          match conv_obj (Some sd) md o, each os' with
                                          | Some (mm, ch), Some f => Some (DN sd [] false mm ch :: f)
                                          | _, _ => None
                                          end
                                      end) objs, go r with
                             | Some a, Some f => Some (a ++ f)
                             | _, _ => None
                             end
                         | _ => None
                         end
                     | KLeafList =>
                         match x with
                         | JVarr vals =>
                             match r with
                             | (k2, JVarr ms) :: r' =>
                                 if beq_bytes k2 (64 :: k) then
                                   match zip_leaflist sd vals ms, go r' with
                                   | Some a, Some f => Some (a ++ f)
                                   | _, _ => None
                                   end
                                 else match zip_leaflist sd vals [], go r with
                                      | Some a, Some f => Some (a ++ f)
                                      | _, _ => None
                                      end
                             | _ => match zip_leaflist sd vals [], go r with
                                    | Some a, Some f => Some (a ++ f)
                                    | _, _ => None
                                    end
                             end
                         | _ => None
                         end
                     | KAny => None
                     end
                 end
             end) in
        match l0 with
        | (k, x) :: r =>
            if beq_bytes k [64] then
              match metas_of_jval x, go r with
              | Some mm, Some f => Some (mm, f)
              | _, _ => None
              end
            else match go l0 with Some f => Some ([], f) | None => None end
        | [] => Some ([], [])
        end
    | _ => None
    end.

  Definition json_parse (s : bytes) : option forest :=
    match jv_text ly_rdstr s with
    | Some v => match conv_obj None None v with Some ([], f) => Some f | _ => None end
    | None => None
    end.
End FromJson.

(* ------------------------------------------------------------------------------------------- *)
(* boolean checkers of the data hypotheses of the theorems (examples, T2)                        *)
(* ------------------------------------------------------------------------------------------- *)
Definition jterm_okb (vb : bytes -> bool) (k : jkind) (v : bytes) : bool :=
  match k with
  | JStr => vb v
  | JNum => jnumber_ok v && forallb is_numchar v && negb (isnil v)
  | JBool => beq_bytes v true_b || beq_bytes v false_b
  | JEmpty => isnil v
  end.

Fixpoint jdocb (sch : schema) (t : doctabs) (jk : list (sid * jkind)) (vb : bytes -> bool) (n : dnode) {struct n} : bool :=
  match n with
  | DN s v d m ch =>
      negb (match kind_of sch s with KAny => true | _ => false end) &&
      (if is_term sch s then jterm_okb vb (jkind_of jk s) v else isnil v) &&
      forallb (meta_okb t vb) m && nodupb (map fst m) && forallb (jdocb sch t jk vb) ch
  end.

(* valid UTF-8 without NUL (the class of StdTextP.utf8_nonul) *)
Definition nonulb (v : bytes) : bool :=
  match std_decode_all (S (length v)) v [] with
  | Some cps => forallb (fun c => negb (c =? 0)) cps && forallb Utf8.is_scalar cps && beq_bytes (flat_map utf8_encode cps) v
  | None => false
  end.
(* what libyang's JSON lexer accepts *)
Definition jlexb (v : bytes) : bool := lexableb v && bytes_ok v.

(* the schema is a forest numbered in pre-order: the sid of a node is larger than the sid of its data parent *)
Definition parents_ltb (sch : schema) : bool :=
  forallb (fun e : sid * sinfo => match si_parent (snd e) with Some q => q <? fst e | None => true end) sch.
