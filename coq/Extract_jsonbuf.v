(* Extract_jsonbuf.v - extraction of the jsonbuf slice (JsonBuf) to OCaml; see Extract_xml.v. *)
From Coq Require Extraction ExtrOcamlBasic.
From Coq Require Import NArith ZArith.
From LY Require Import JsonBuf.
Extraction Language OCaml.
Extraction "model_jsonbuf.ml"
  N.add N.mul N.div N.modulo N.sub Z.add Z.mul Z.opp Z.of_N Z.abs_N Z.sub Z.ltb
  JsonBuf.json_string JsonBuf.json_string_onestep.
