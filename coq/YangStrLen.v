(* YangStrLen.v - slice yangstr: the length read_qstring() computes for ONE double-quoted string equals the
   number of bytes RFC 7950 6.1.3 keeps: per line, the indentation up to the column of the opening quote is
   removed (a tab counts 8 columns, the columns of a tab that reach over are kept as blanks), the blanks and
   tabs before a line break are removed, escapes are single kept characters that are never trimmed.
   The specification works on the string cut into lines, independent of the counters of the code. *)
From Coq Require Import NArith List Lia Bool.
From LY Require Import YangStr YangStrP.
Import ListNotations.
Local Open Scope N_scope.

(* ---------- specification ---------- *)

(* a kept item: None = one blank or tab (1 byte), Some u = another character or an escape result, u bytes *)
Definition item := option N.
Definition ev_item (e : ev) : item := match e with EChar u => Some u | EEsc => Some 1 | _ => None end.
Definition item_bytes (i : item) : N := match i with Some u => u | None => 1 end.
Definition bytes (l : list item) : N := fold_right (fun i a => item_bytes i + a) 0 l.

(* number of blanks / tabs at the end of a line (t = those already seen) *)
Definition trail_from (t : N) (l : list item) : N := fold_left (fun t i => match i with None => t + 1 | Some _ => 0 end) l t.

(* a line after the removal of its indentation; bi = column after the opening quote, col = columns eaten so far *)
Fixpoint lead (bi col : N) (line : list ev) : list item :=
  match line with
  | ESpace :: r => if col <? bi then lead bi (col + 1) r else map ev_item line
  | ETab :: r =>
      if col <? bi then
        if bi <? col + 8 then repeat None (N.to_nat (col + 8 - bi)) ++ map ev_item r else lead bi (col + 8) r
      else map ev_item line
  | _ => map ev_item line
  end.

(* kept bytes of a string given as its lines (the first line starts right after the opening quote) *)
Fixpoint rfc_len_lines (bi col : N) (lines : list (list ev)) : N :=
  match lines with
  | [] => 0
  | [l] => bytes (lead bi col l)
  | l :: rest => (bytes (lead bi col l) - trail_from 0 (lead bi col l)) + 1 + rfc_len_lines bi 0 rest
  end.

Fixpoint join (lines : list (list ev)) : list ev :=
  match lines with
  | [] => []
  | [l] => l
  | l :: rest => l ++ ELf :: join rest
  end.

(* events of a line *)
Definition is_body (e : ev) : Prop :=
  match e with EChar u => 1 <= u <= 4 | ESpace | ETab | EEsc => True | _ => False end.

(* ---------- proof ---------- *)

Fixpoint steps (s : st) (evs : list ev) : option st :=
  match evs with
  | [] => Some s
  | e :: r => match step true s e with (Cont s1, _, _) => steps s1 r | _ => None end
  end.

Definition res_of (x : res * list wr * list al) : res := fst (fst x).

Lemma run_steps : forall l s s' rest, steps s l = Some s' ->
  res_of (run true s (l ++ rest)) = res_of (run true s' rest).
Proof.
  induction l as [|e r IH]; intros s s' rest H; simpl in *.
  - now inversion H.
  - destruct (step true s e) as [[[s1|x] ws] tr]; [|discriminate].
    rewrite <- (IH s1 s' rest H). destruct (run true s1 (r ++ rest)) as [[x ws2] tr2]. reflexivity.
Qed.

Lemma bytes_app : forall a b, bytes (a ++ b) = bytes a + bytes b.
Proof. induction a; intros; simpl; [reflexivity|]. rewrite IHa. lia. Qed.
Lemma trail_app : forall a b t, trail_from t (a ++ b) = trail_from (trail_from t a) b.
Proof. intros. unfold trail_from. apply fold_left_app. Qed.
Lemma bytes_cons : forall i l, bytes (i :: l) = item_bytes i + bytes l.
Proof. reflexivity. Qed.
Lemma bytes_repeat : forall n, bytes (repeat None n) = N.of_nat n.
Proof.
  induction n; [reflexivity|]. rewrite Nat2N.inj_succ. change (repeat None (S n)) with (@None N :: repeat None n).
  rewrite bytes_cons, IHn. change (item_bytes None) with 1. lia.
Qed.
Lemma trail_repeat : forall n t, trail_from t (repeat None n) = t + N.of_nat n.
Proof.
  induction n; intros t.
  - unfold trail_from. simpl. lia.
  - rewrite Nat2N.inj_succ. unfold trail_from in *. simpl repeat. simpl fold_left. rewrite IHn. lia.
Qed.
Lemma trail_le : forall l t, trail_from t l <= t + bytes l.
Proof.
  induction l as [|i r IH]; intros t.
  - unfold trail_from, bytes. simpl. lia.
  - rewrite bytes_cons. unfold trail_from in *. simpl fold_left. destruct i as [u|]; unfold item_bytes.
    + specialize (IH 0). lia.
    + specialize (IH (t + 1)). lia.
Qed.

(* one event of a double-quoted part once the indentation of the line is eaten *)
Lemma step_kept : forall s e, is_body e -> Inv s -> q_dq s = true -> (ev_item e = None -> q_ci s = q_bi s) ->
  exists s1 ws tr, step true s e = (Cont s1, ws, tr) /\ Inv s1 /\ q_dq s1 = true /\ q_bi s1 = q_bi s /\
    q_ci s1 = q_bi s /\ q_wl s1 = q_wl s + item_bytes (ev_item e) /\
    q_tws s1 = match ev_item e with None => q_tws s + 1 | Some _ => 0 end.
Proof.
  intros s e B I D C. pose proof (step_ok s e) as SO.
  assert (WF : ev_wf e) by (destruct e; simpl in *; auto).
  specialize (SO WF I). destruct I as ((I1 & I2 & I3) & I4).
  destruct e; simpl in B; try tauto; simpl step in *; rewrite D in *.
  - destruct (store_ok (set_ci s (q_bi s)) u ltac:(lia) I2) as (a & bl & ws & tr & E & _).
    rewrite E in *. eexists _, _, _. split; [reflexivity|]. simpl in *. destruct SO as (_ & SO). sp; leaf.
  - specialize (C eq_refl). assert (L : (q_ci s <? q_bi s) = false) by (apply N.ltb_ge; lia). rewrite L in *.
    destruct (store_ws_ok s (conj I1 (conj I2 I3))) as (a & bl & ws & tr & E & _).
    rewrite E in *. unfold cont in *. eexists _, _, _. split; [reflexivity|]. simpl in *. destruct SO as (_ & SO). sp; leaf.
  - specialize (C eq_refl). assert (L : (q_ci s <? q_bi s) = false) by (apply N.ltb_ge; lia). rewrite L in *.
    destruct (store_ws_ok s (conj I1 (conj I2 I3))) as (a & bl & ws & tr & E & _).
    rewrite E in *. unfold cont in *. eexists _, _, _. split; [reflexivity|]. simpl in *. destruct SO as (_ & SO). sp; leaf.
  - destruct (store_ok (set_ci (set_tws (set_nb s) 0) (q_bi s)) 1 ltac:(lia) I2) as (a & bl & ws & tr & E & _).
    rewrite E in *. eexists _, _, _. split; [reflexivity|]. simpl in *. destruct SO as (_ & SO). sp; leaf.
Qed.

Lemma line_kept : forall line s, Forall is_body line -> Inv s -> q_dq s = true -> q_ci s = q_bi s ->
  exists s1, steps s line = Some s1 /\ Inv s1 /\ q_dq s1 = true /\ q_bi s1 = q_bi s /\
    q_wl s1 = q_wl s + bytes (map ev_item line) /\ q_tws s1 = trail_from (q_tws s) (map ev_item line).
Proof.
  induction line as [|e r IH]; intros s B I D C.
  - exists s. simpl. unfold trail_from. simpl. sp; leaf.
  - inversion B as [|? ? Be Br]; subst.
    destruct (step_kept s e Be I D (fun _ => C)) as (s1 & ws & tr & E & I1 & D1 & B1 & C1 & W1 & T1).
    destruct (IH s1 Br I1 D1 ltac:(congruence)) as (s2 & S2 & I2 & D2 & B2 & W2 & T2).
    exists s2. simpl. rewrite E. sp; leaf; try congruence.
Qed.

Lemma steps_cons : forall s e r,
  steps s (e :: r) = match step true s e with (Cont s1, _, _) => steps s1 r | _ => None end.
Proof. reflexivity. Qed.

Lemma lead_done : forall bi col line, bi <= col -> lead bi col line = map ev_item line.
Proof.
  intros bi col line H. destruct line as [|e r]; [reflexivity|].
  assert (L : (col <? bi) = false) by (apply N.ltb_ge; lia).
  destruct e; simpl; rewrite ?L; reflexivity.
Qed.

Lemma tab_loop_exact : forall fuel s, Inv0 s -> q_nb s = true -> q_ci s <= q_bi s + N.of_nat fuel ->
  match tab_loop fuel s with
  | (s1, _, _) => q_wl s1 = q_wl s + (q_ci s - q_bi s) /\ q_tws s1 = q_tws s + (q_ci s - q_bi s) /\
                  q_ci s1 = N.min (q_ci s) (q_bi s) /\ q_bi s1 = q_bi s /\ q_dq s1 = q_dq s
  end.
Proof.
  induction fuel as [|f IH]; intros s I Nb H.
  - simpl in *. sp; leaf.
  - simpl tab_loop. destruct (q_bi s <? q_ci s) eqn:E; nums.
    + destruct I as (I1 & I2 & I3).
      destruct (store_ws_ok s (conj I1 (conj I2 I3))) as (a & bl & ws & tr & E1 & F & A & N1). rewrite E1.
      specialize (IH (set_ci (set_tws (set_store s (q_wl s + 1) a bl) (q_tws s + 1)) (q_ci s - 1))).
      simpl in IH.
      destruct (tab_loop f _) as [[s2 ws2] tr2].
      destruct IH as (W2 & T2 & C2 & B2 & D2).
      * unfold Inv0. simpl. sp; leaf.
      * assumption.
      * rewrite Nat2N.inj_succ in H. lia.
      * sp; leaf.
    + sp; leaf.
Qed.

Opaque tab_loop.
(* a whole line of a double-quoted part, from the state at its start *)
Lemma line_lead : forall line s, Forall is_body line -> Inv s -> q_dq s = true ->
  exists s1, steps s line = Some s1 /\ Inv s1 /\ q_dq s1 = true /\ q_bi s1 = q_bi s /\
    q_wl s1 = q_wl s + bytes (lead (q_bi s) (q_ci s) line) /\
    q_tws s1 = trail_from (q_tws s) (lead (q_bi s) (q_ci s) line).
Proof.
  induction line as [|e r IH]; intros s B I D.
  - exists s. unfold trail_from. simpl. sp; leaf.
  - destruct (q_ci s <? q_bi s) eqn:EC; nums.
    + (* inside the indentation *)
      inversion B as [|? ? Be Br]; subst. destruct e; simpl in Be; try tauto.
      * (* another character *)
        assert (C : q_ci s = q_bi s -> True) by auto.
        destruct (step_kept s (EChar u) Be I D ltac:(discriminate)) as (s1 & ws & tr & E & I1 & D1 & B1 & C1 & W1 & T1).
        destruct (line_kept r s1 Br I1 D1 ltac:(congruence)) as (s2 & S2 & I2 & D2 & B2 & W2 & T2).
        exists s2. rewrite steps_cons, E. simpl lead. simpl map in *. sp; leaf; try congruence.
        -- rewrite W2, W1. rewrite bytes_cons. simpl. lia.
        -- rewrite T2, T1. reflexivity.
      * (* blank: eaten *)
        pose proof (step_ok s ESpace Logic.I I) as SO. simpl step in SO. rewrite D in SO.
        assert (L : (q_ci s <? q_bi s) = true) by (apply N.ltb_lt; lia). rewrite L in SO. destruct SO as (_ & I1).
        destruct (IH (set_ci s (q_ci s + 1)) Br I1 D) as (s2 & S2 & I2 & D2 & B2 & W2 & T2).
        exists s2. rewrite steps_cons. simpl step. rewrite D, L. simpl lead. rewrite L. simpl in *. sp; leaf.
      * (* tab *)
        destruct I as ((I1 & I2 & I3) & I4). pose proof (I3 EC) as Nb.
        assert (L : (q_ci s <? q_bi s) = true) by (apply N.ltb_lt; lia).
        pose proof (step_ok s ETab Logic.I (conj (conj I1 (conj I2 I3)) I4)) as SO.
        rewrite steps_cons. simpl step in *. rewrite D, L, Nb in *. unfold cont in *.
        assert (P0 : Inv0 (set_ci s (q_ci s + Y_TAB_SPACES))) by (unfold Inv0; simpl; sp; leaf).
        pose proof (tab_loop_exact 8 (set_ci s (q_ci s + Y_TAB_SPACES)) P0 Nb) as TE.
        destruct (tab_loop 8 (set_ci s (q_ci s + Y_TAB_SPACES))) as [[s1 ws] tr].
        simpl in SO. destruct SO as (_ & I').
        destruct TE as (W1 & T1 & C1 & B1 & D1); [simpl; unfold Y_TAB_SPACES; lia|].
        simpl in W1, T1, C1, B1, D1. unfold Y_TAB_SPACES in *.
        simpl lead. rewrite L. destruct (q_bi s <? q_ci s + 8) eqn:EO; nums.
        -- (* reaches over: leftover blanks are stored *)
           destruct (line_kept r s1 Br I' ltac:(congruence) ltac:(rewrite C1, B1; lia)) as (s2 & S2 & I2' & D2 & B2 & W2 & T2).
           exists s2. sp; leaf; try congruence.
           ++ rewrite W2, W1, bytes_app, bytes_repeat, N2Nat.id. lia.
           ++ rewrite T2, T1, trail_app, trail_repeat, N2Nat.id. reflexivity.
        -- destruct (IH s1 Br I' ltac:(congruence)) as (s2 & S2 & I2' & D2 & B2 & W2 & T2).
           exists s2. replace (q_ci s1) with (q_ci s + 8) in * by lia. rewrite B1 in *.
           sp; leaf; try congruence.
           rewrite T2, T1. f_equal. lia.
      * (* escape *)
        destruct (step_kept s EEsc Be I D ltac:(discriminate)) as (s1 & ws & tr & E & I1 & D1 & B1 & C1 & W1 & T1).
        destruct (line_kept r s1 Br I1 D1 ltac:(congruence)) as (s2 & S2 & I2 & D2 & B2 & W2 & T2).
        exists s2. rewrite steps_cons, E. simpl lead. simpl map in *. sp; leaf; try congruence.
        -- rewrite W2, W1. rewrite bytes_cons. simpl ev_item in *. unfold item_bytes in *. lia.
        -- rewrite T2, T1. reflexivity.
    + (* the indentation is eaten *)
      assert (C : q_ci s = q_bi s) by (destruct I as (_ & I4); lia).
      rewrite lead_done by lia. apply line_kept; auto.
Qed.

(* the line break of a double-quoted part with a block indentation *)
Lemma step_lf : forall s, Inv s -> q_dq s = true -> q_bi s <> 0 ->
  exists s1 ws tr, step true s ELf = (Cont s1, ws, tr) /\ Inv s1 /\ q_dq s1 = true /\ q_bi s1 = q_bi s /\
    q_ci s1 = 0 /\ q_wl s1 = q_wl s - q_tws s + 1 /\ q_tws s1 = 0.
Proof.
  intros s I D B. pose proof (step_ok s ELf Logic.I I) as SO. destruct I as ((I1 & I2 & I3) & I4).
  simpl step in *. rewrite D in *.
  assert (E0 : (q_bi s =? 0) = false) by (apply N.eqb_neq; auto). rewrite E0 in *.
  assert (EU : (q_wl s <? q_tws s) = false) by (apply N.ltb_ge; lia). rewrite EU in *.
  destruct (store_ok (set_ci (set_wl (set_nb s) (q_wl s - q_tws s)) 0) 1 ltac:(lia))
    as (a & bl & ws & tr & E & _); [simpl; intro H; specialize (I2 H); lia|].
  rewrite E in *. eexists _, _, _. split; [reflexivity|]. simpl in *. destruct SO as (_ & SO). sp; leaf.
Qed.

Lemma run_cons : forall s e rest,
  run true s (e :: rest) =
  match step true s e with
  | (Stop r, ws, tr) => (r, ws, tr)
  | (Cont s1, ws, tr) => match run true s1 rest with (r, ws2, tr2) => (r, ws ++ ws2, tr ++ tr2) end
  end.
Proof. reflexivity. Qed.

Lemma lines_run : forall lines s, lines <> [] -> Forall (Forall is_body) lines ->
  Inv s -> q_dq s = true -> q_bi s <> 0 -> q_tws s = 0 ->
  exists d, res_of (run true s (join lines ++ [EEnd])) = ROk d (q_wl s + rfc_len_lines (q_bi s) (q_ci s) lines).
Proof.
  induction lines as [|l rest IH]; intros s NE B I D Bi T; [congruence|].
  inversion B as [|? ? Bl Br]; subst.
  destruct (line_lead l s Bl I D) as (s1 & S1 & I1 & D1 & B1 & W1 & T1).
  destruct rest as [|l2 rest].
  - simpl join. rewrite (run_steps l s s1 [EEnd] S1). simpl. unfold finish.
    destruct (q_alloc s1); eexists; unfold res_of; simpl; rewrite W1; reflexivity.
  - change (join (l :: l2 :: rest)) with (l ++ ELf :: join (l2 :: rest)).
    rewrite <- app_assoc. rewrite (run_steps l s s1 _ S1). rewrite <- app_comm_cons.
    destruct (step_lf s1 I1 D1 ltac:(congruence)) as (s2 & ws & tr & E & I2 & D2 & B2 & C2 & W2 & T2).
    destruct (IH s2 ltac:(discriminate) Br I2 D2 ltac:(congruence) T2) as (d & R).
    exists d. rewrite run_cons, E.
    destruct (run true s2 (join (l2 :: rest) ++ [EEnd])) as [[x ws2] tr2]. unfold res_of in *. cbn [fst] in *.
    rewrite R. f_equal. rewrite W2, W1, T1, T, B2, B1, C2.
    pose proof (trail_le (lead (q_bi s) (q_ci s) l) 0).
    change (rfc_len_lines (q_bi s) (q_ci s) (l :: l2 :: rest)) with
      (bytes (lead (q_bi s) (q_ci s) l) - trail_from 0 (lead (q_bi s) (q_ci s) l) + 1 + rfc_len_lines (q_bi s) 0 (l2 :: rest)).
    lia.
Qed.

(* the length of one double-quoted string = the kept bytes of RFC 7950 6.1.3 *)
Theorem len_is_rfc : forall indent lines, lines <> [] -> Forall (Forall is_body) lines ->
  exists d, res_of (qstring true indent (join lines ++ [EEnd])) = ROk d (rfc_len_lines (indent + 1) (indent + 1) lines).
Proof.
  intros indent lines NE B. unfold qstring.
  destruct (lines_run lines (init true indent) NE B (init_inv true indent) eq_refl) as (d & R).
  - simpl. lia.
  - reflexivity.
  - exists d. rewrite R. reflexivity.
Qed.
