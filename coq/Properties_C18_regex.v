(* Properties_C18_regex.v - property C18 (YANG patterns are XSD regular expressions), slice regex:
   theorem statements only. Each is closed by [exact] of a lemma proved in XsdP.v / RewriteP.v (or by
   computation on a witness) and followed by Print Assumptions.

   What is proved: the XSD reference matcher is correct against the denotational semantics for all
   regular expressions and strings; the textual rewrite libyang applies before PCRE2 (as coded, after
   the fixes 0ef0929 and 97840a6) always ends with a text or one of the three errors of the code
   (no undefined behaviour, no fuel), leaves a pattern without blocks unchanged exactly when all its '^' / '$' are
   inside brackets or escaped, is the intended anchor escaping on every pattern made of
   ordinary bytes, escape pairs, bracket expressions and anchors, substitutes a block by the range of
   that block with or without brackets, and IS the intended rewrite (rewrite_spec) on every pattern
   without an escaped backslash whose block names are exact; it is provably NOT the intended text on
   the witnesses of the three defects that are left (prefix lookup of block names, the cut Specials
   range, the bracket counter after an escaped backslash); list evaluation with invert-match negates
   exactly the marked patterns. What is not proved here: that PCRE2 gives the rewritten text the XSD
   meaning (PCRE2 is external; that part is the Match correspondence of tools/props/comps_regex.py). *)
From LY Require Import Base Xsd XsdP XsdParse Rewrite RewriteP.
Local Open Scope N_scope.

(* The executable matcher (Brzozowski derivatives with quantifier counters) accepts exactly the
   strings of the denotational language, for every regular expression (branches, pieces, all
   quantifiers incl. {n,m}, character sets with negation and subtraction) and every string. *)
Theorem C18_match_correct : forall r s, matches r s = true <-> in_lang r s.
Proof. exact match_correct. Qed.
Print Assumptions C18_match_correct.

(* For EVERY pattern the rewrite ends with a text for pcre2_compile() or with one of the three
   LY_EVALID exits of the code (1 = ']' outside brackets, 2 = \p{Is without '}', 3 = unknown block
   name). Nothing else can happen: the model has no error class for undefined behaviour any more
   (the out-of-range table index of the block rewrite is gone with 0ef0929, see the header of
   Rewrite.v for the remaining index and size computations) and its fuel never runs out. *)
Theorem C18_rewrite_total :
  forall p, (exists t, rewrite p = Ok t) \/ rewrite p = Err 1 \/ rewrite p = Err 2 \/ rewrite p = Err 3.
Proof. exact rewrite_result. Qed.
Print Assumptions C18_rewrite_total.

(* in the numbering of the first transcription: never class 4 (undefined behaviour), never class 9 (fuel) *)
Theorem C18_rewrite_no_ub : forall p, rewrite p <> Err 4 /\ rewrite p <> Err 9.
Proof. exact rewrite_no_ub. Qed.
Print Assumptions C18_rewrite_no_ub.

(* the former witness of the out-of-bounds index (bracket counter below zero at the block) now is
   rewritten - wrongly, see C18_block_depth_refuted, but with defined behaviour *)
Example C18_rewrite_no_ub_ex :
  rewrite [92;92;91;93;92;112;123;73;115;71;114;101;101;107;125]
  = Ok [92;92;91;93;92;120;123;48;51;55;48;125;45;92;120;123;48;51;70;70;125].
Proof. vm_compute. reflexivity. Qed.

(* Which patterns reach pcre2_compile() UNCHANGED. For an arbitrary byte string p without an occurrence of \p{Is
   (any nesting of brackets and groups, escaped brackets, anything): IF every '^' / '$' of p stands inside a bracket
   expression or directly after an unescaped backslash (anchors_protected, with the bracket depth and escape state of
   the code's own loop), THEN the text handed to PCRE2 is p itself, or p is rejected because of a ']' outside
   brackets (error class 1); and ONLY IF: when the text handed over is p, every '^' / '$' is protected in that sense.
   This replaces the former C18_rewrite_identity_partial, which excluded every pattern containing the byte '^' or
   '$' anywhere (also inside brackets such as [^a$] and escaped as \^). The two shapes still outside an identity
   statement are outside it by necessity, the rewrite changes them: an unescaped '^' / '$' outside brackets (the
   "only if" half; what happens instead is C18_rewrite_caret_dollar) and an occurrence of \p{Is (C18_rewrite_block,
   C18_rewrite_eq_spec). *)
Theorem C18_rewrite_identity :
  forall p, find_sub needle p = None ->
    (anchors_protected 0 false p = true -> rewrite p = Ok p \/ rewrite p = Err 1) /\
    (rewrite p = Ok p -> anchors_protected 0 false p = true).
Proof. exact rewrite_identity_iff. Qed.
Print Assumptions C18_rewrite_identity.

(* the former statement is the special case without any '^' / '$' byte *)
Theorem C18_rewrite_identity_noanchor :
  forall p, (forall c, In c p -> is_anchor c = false) -> find_sub needle p = None ->
            rewrite p = Ok p \/ rewrite p = Err 1.
Proof.
  intros p Hp Hn. apply (proj1 (rewrite_identity_iff p Hn)). apply noanchor_protected. exact Hp.
Qed.
Print Assumptions C18_rewrite_identity_noanchor.

(* hypotheses satisfiable by non-trivial patterns: [a-c]+\.(x|y){2,3} and [^$a\]]\^[$^]\$x\[ are unchanged, a]b is
   rejected, x^ is not protected (and is changed) *)
Example C18_rewrite_identity_ex :
  rewrite [91;97;45;99;93;43;92;46;40;120;124;121;41;123;50;44;51;125]
  = Ok [91;97;45;99;93;43;92;46;40;120;124;121;41;123;50;44;51;125]
  /\ anchors_protected 0 false [91;94;36;97;92;93;93;92;94;91;36;94;93;92;36;120;92;91] = true
  /\ find_sub needle [91;94;36;97;92;93;93;92;94;91;36;94;93;92;36;120;92;91] = None
  /\ rewrite [91;94;36;97;92;93;93;92;94;91;36;94;93;92;36;120;92;91]
     = Ok [91;94;36;97;92;93;93;92;94;91;36;94;93;92;36;120;92;91]
  /\ rewrite [97;93;98] = Err 1
  /\ anchors_protected 0 false [120;94] = false /\ rewrite [120;94] = Ok [120;92;94].
Proof. vm_compute. repeat split. Qed.

(* A pattern built from ordinary bytes, backslash pairs of ANY byte (so also the escaped anchors \^
   and \$), bracket expressions (any bytes but brackets and backslash, or backslash pairs, inside; '^'
   and '$' allowed there) and UNESCAPED '^' / '$' outside brackets, with no occurrence of \p{Is : the
   text handed to PCRE2 is the pattern with exactly one backslash in front of each of those unescaped
   '^' / '$' (they become literals, the XSD meaning) and nothing else changed. *)
Theorem C18_rewrite_caret_dollar :
  forall ts, forallb tok_ok ts = true -> find_sub needle (flat_map render ts) = None ->
             rewrite (flat_map render ts) = Ok (flat_map render_esc ts).
Proof. exact rewrite_caret_dollar. Qed.
Print Assumptions C18_rewrite_caret_dollar.

(* ^a\^[^b$]\.$  ->  \^a\^[^b$]\.\$   (the escaped caret keeps its single backslash) *)
Example C18_rewrite_caret_dollar_ex :
  let ts := [TAnchor 94; TChar 97; TEsc 94; TClass [CChar 94; CChar 98; CChar 36]; TEsc 46; TAnchor 36] in
  forallb tok_ok ts = true /\ find_sub needle (flat_map render ts) = None /\
  flat_map render ts = [94;97;92;94;91;94;98;36;93;92;46;36] /\
  rewrite (flat_map render ts) = Ok [92;94;97;92;94;91;94;98;36;93;92;46;92;36].
Proof. vm_compute. repeat split. Qed.

(* regression of the fixed defect 97840a6: a\^b\$ is handed to PCRE2 as it is, and the XSD reference
   accepts the string a^b for a\^b (XSD 1.0 has the escape \^ but not \$) *)
Example C18_escaped_anchor_ex :
  rewrite [97;92;94;98;92;36] = Ok [97;92;94;98;92;36] /\
  rewrite [97;92;94;98] = Ok [97;92;94;98] /\
  xsd_match [97;92;94;98] [97;94;98] = Some true.
Proof. vm_compute. repeat split. Qed.

(* One block. Pattern pre ++ \p{Is ++ NAME ++ } ++ post where NAME is the name of a table entry e that
   the name lookup of the code resolves to e (C18_block_lookup: all names but six), pre and post
   contain no \p{Is, and pre does not end inside an escape pair (the first pass leaves pre with
   bracket depth b and escaped = 0). Then the text handed to PCRE2 is pre' ++ R ++ post', where pre' is
   what the first pass makes of pre, post' what it makes of post at depth b, and R is the replacement
   text of e: its first URANGE_LEN = 19 bytes when the bracket counter of the second function
   (brk_count) is 0 after pre', else the 17 bytes after its first byte. *)
Theorem C18_rewrite_block :
  forall pre post e pre' post' b,
    In e ublock2urange -> block_find (fst e ++ [125]) = Some e ->
    has_sub needle pre = false -> has_sub needle post = false ->
    esc_pass 0 false pre = Ok pre' -> esc_end 0 false pre = (b, false) ->
    esc_pass b false post = Ok post' ->
    rewrite (pre ++ needle ++ fst e ++ 125 :: post)
    = Ok (pre' ++ (if (brk_count 0 pre' 0%Z =? 0)%Z then firstn URANGE_LEN (snd e)
                   else firstn (URANGE_LEN - 2) (skipn 1 (snd e))) ++ post').
Proof. exact rewrite_block. Qed.
Print Assumptions C18_rewrite_block.

(* The same when pre moreover contains no two backslashes in a row (no escaped backslash): the
   counter of the second function then IS the bracket depth b of the first pass, so the range is
   written with its own brackets iff the block stands outside brackets (b = 0), without them iff it
   stands inside. For every entry but Specials the 19 bytes are the whole replacement text and the 17
   bytes are it without its brackets (C18_block_lookup, second part). *)
Theorem C18_rewrite_block_depth :
  forall pre post e pre' post' b,
    In e ublock2urange -> block_find (fst e ++ [125]) = Some e ->
    has_sub needle pre = false -> has_sub needle post = false -> has_sub bs2 pre = false ->
    esc_pass 0 false pre = Ok pre' -> esc_end 0 false pre = (b, false) ->
    esc_pass b false post = Ok post' ->
    rewrite (pre ++ needle ++ fst e ++ 125 :: post)
    = Ok (pre' ++ (if b =? 0 then firstn URANGE_LEN (snd e)
                   else firstn (URANGE_LEN - 2) (skipn 1 (snd e))) ++ post').
Proof. exact rewrite_block_depth. Qed.
Print Assumptions C18_rewrite_block_depth.

(* The name lookup of the code (first entry whose name is a prefix) finds the entry of NAME} itself
   for every table name but GreekExtended, BopomofoExtended, CJKCompatibilityIdeographs,
   ArabicPresentationForms-A, CJKCompatibilityForms, ArabicPresentationForms-B; the table has 84
   entries, 83 of them with a replacement text of exactly URANGE_LEN bytes that starts with '[' and
   ends with ']' (the exception is Specials). *)
Theorem C18_block_lookup :
  (forall e, In e ublock2urange -> block_find (fst e ++ [125]) = Some e \/ In (fst e) shadowed_names) /\
  length ublock2urange = 84%nat /\ length shadowed_names = 6%nat /\
  length (filter (fun e => (length (snd e) =? URANGE_LEN)%nat && starts_with [91] (snd e) &&
                           (last (snd e) 0 =? 93)) ublock2urange) = 83%nat.
Proof. split; [exact block_lookup|]. vm_compute. repeat split. Qed.
Print Assumptions C18_block_lookup.

(* regression of the fixed defect 0ef0929, and the hypotheses of C18_rewrite_block_depth are
   satisfiable: \p{IsGreek} -> [\x{0370}-\x{03FF}] ; [^a\p{IsGreek}] -> [^a\x{0370}-\x{03FF}] ; the XSD
   reference accepts GREEK SMALL LETTER ALPHA (CE B1) and rejects a for \p{IsGreek} *)
Example C18_rewrite_block_ex :
  let greek := ([71;114;101;101;107], [91;92;120;123;48;51;55;48;125;45;92;120;123;48;51;70;70;125;93]) in
  In greek ublock2urange /\ block_find (fst greek ++ [125]) = Some greek /\
  esc_pass 0 false [91;94;97] = Ok [91;94;97] /\ esc_end 0 false [91;94;97] = (1, false) /\
  esc_pass 1 false [93] = Ok [93] /\
  rewrite [92;112;123;73;115;71;114;101;101;107;125]
  = Ok [91;92;120;123;48;51;55;48;125;45;92;120;123;48;51;70;70;125;93] /\
  rewrite [91;94;97;92;112;123;73;115;71;114;101;101;107;125;93]
  = Ok [91;94;97;92;120;123;48;51;55;48;125;45;92;120;123;48;51;70;70;125;93] /\
  xsd_match [92;112;123;73;115;71;114;101;101;107;125] [206;177] = Some true /\
  xsd_match [92;112;123;73;115;71;114;101;101;107;125] [97] = Some false.
Proof. vm_compute. repeat split. right; right; right; right; right; right; right; left; reflexivity. Qed.

(* The code is the Spec. For every pattern p that contains no two backslashes in a row and in which
   every occurrence of \p{Is is followed by a table name that the lookup resolves to itself, whose
   replacement text is URANGE_LEN bytes long, and by '}' (blocks_exact), the text handed to PCRE2 is
   the intended one: rewrite_spec = one backslash in front of every unescaped anchor outside
   brackets, every block replaced by the whole range of the EXACT name, with the range's own brackets
   iff the bracket depth counted with proper escape tracking is 0. Any number of blocks, anchors,
   bracket expressions. Both hypotheses are needed: see the three _refuted theorems below. *)
Theorem C18_rewrite_eq_spec :
  forall p, has_sub bs2 p = false -> blocks_exact p = true -> rewrite p = rewrite_spec p.
Proof. exact rewrite_eq_spec. Qed.
Print Assumptions C18_rewrite_eq_spec.

(* ^\p{IsCyrillic}+[$\p{IsThai}]  ->  \^[\x{0400}-\x{04FF}]+[$\x{0E00}-\x{0E7F}] *)
Example C18_rewrite_eq_spec_ex :
  let p := [94;92;112;123;73;115;67;121;114;105;108;108;105;99;125;43;91;36;92;112;123;73;115;84;104;97;105;125;93] in
  has_sub bs2 p = false /\ blocks_exact p = true /\
  rewrite p = Ok [92;94;91;92;120;123;48;52;48;48;125;45;92;120;123;48;52;70;70;125;93;43;91;36;92;120;123;48;69;48;48;125;45;92;120;123;48;69;55;70;125;93].
Proof. vm_compute. repeat split. Qed.

(* The three block refutations below were re-checked against the fix history of src/schema_compile_node.c: no commit
   after 97840a6 touches lys_compile_type_pattern_check() or lys_compile_pattern_chblocks_xmlschema2perl() (72878af and
   b6c3725 concern range/length parts), so D3, D4 and D5 are still what the code does; the Rewrite correspondence of
   every check run compares the model with the code on these very patterns. *)

(* Refuted without exact names (defect D4, prefix lookup): \p{IsGreekExtended} (XSD: U+1F00..U+1FFF;
   the reference accepts U+1F00 = E1 BC 80) is replaced by the range of Greek, the first table entry
   whose name is a prefix; the intended text is [\x{1F00}-\x{1FFF}]. *)
Theorem C18_block_prefix_refuted :
  exists p, blocks_exact p = false /\ has_sub bs2 p = false /\
            xsd_match p [225;188;128] = Some true /\
            rewrite p = Ok [91;92;120;123;48;51;55;48;125;45;92;120;123;48;51;70;70;125;93] /\
            rewrite_spec p = Ok [91;92;120;123;49;70;48;48;125;45;92;120;123;49;70;70;70;125;93].
Proof. exists [92;112;123;73;115;71;114;101;101;107;69;120;116;101;110;100;101;100;125]. vm_compute. repeat split. Qed.
Print Assumptions C18_block_prefix_refuted.

(* Refuted for the block Specials (defect D5): the replacement text of the table is 28 bytes long and
   is cut after URANGE_LEN = 19 bytes: \p{IsSpecials} becomes [\x{FEFF}|\x{FFF0}- (no closing bracket;
   XSD: U+FFF0..U+FFFD and U+FEFF; the reference accepts U+FFFD = EF BF BD). *)
Theorem C18_block_specials_refuted :
  exists p, blocks_exact p = false /\ has_sub bs2 p = false /\
            xsd_match p [239;191;189] = Some true /\
            rewrite p = Ok [91;92;120;123;70;69;70;70;125;124;92;120;123;70;70;70;48;125;45] /\
            rewrite_spec p = Ok [91;92;120;123;70;69;70;70;125;124;92;120;123;70;70;70;48;125;45;92;120;123;70;70;70;68;125;93].
Proof. exists [92;112;123;73;115;83;112;101;99;105;97;108;115;125]. vm_compute. repeat split. Qed.
Print Assumptions C18_block_specials_refuted.

(* Refuted after an escaped backslash (defect D3): in \\[a]\p{IsGreek} (XSD: a backslash, an a, a
   Greek character; the reference accepts \aα) the bracket counter of the second function takes the
   '[' for escaped because the byte before it is a backslash, is -1 at the block, and the range is
   written WITHOUT its brackets although the block stands outside brackets: PCRE2 is given
   \\[a]\x{0370}-\x{03FF}, i.e. backslash, a, U+0370, '-', U+03FF. *)
Theorem C18_block_depth_refuted :
  exists p, blocks_exact p = true /\ has_sub bs2 p = true /\
            xsd_match p [92;97;206;177] = Some true /\
            rewrite p = Ok [92;92;91;97;93;92;120;123;48;51;55;48;125;45;92;120;123;48;51;70;70;125] /\
            rewrite_spec p = Ok [92;92;91;97;93;91;92;120;123;48;51;55;48;125;45;92;120;123;48;51;70;70;125;93].
Proof. exists [92;92;91;97;93;92;112;123;73;115;71;114;101;101;107;125]. vm_compute. repeat split. Qed.
Print Assumptions C18_block_depth_refuted.

(* Regression classes (seeded changes C18-1 and C18-4), as refutations of the VARIANT models that transcribe the code
   under those changes (RewriteP.esc_pass_prevout, chblocks_carry), next to what the code as it is does.
   C18-1: the need for a backslash in front of '^' / '$' is decided from the previously written byte instead of the
   escape state. Pattern a\\^b (XSD: a, a backslash, a caret, b; the reference accepts a\^b): the code hands
   a\\\^b to PCRE2 (escaped backslash, escaped caret), the variant a\\^b (escaped backslash, then an ANCHOR). *)
Theorem C18_prev_byte_variant_refuted :
  exists p, xsd_match p [97;92;94;98] = Some true /\
            rewrite p = Ok [97;92;92;92;94;98] /\
            esc_pass_prevout 0 false 0 p = Ok [97;92;92;94;98] /\
            esc_pass 0 false p = Ok [97;92;92;92;94;98].
Proof. exists [97;92;92;94;98]. vm_compute. repeat split. Qed.
Print Assumptions C18_prev_byte_variant_refuted.

(* C18-4: the bracket counter of the block rewrite is initialised once instead of before every rescan. Pattern
   [\p{IsBasicLatin}]+\p{IsGreek} (the reference accepts ab followed by GREEK SMALL LETTER ALPHA): the code writes the
   second range with its brackets, [\x{0000}-\x{007F}]+[\x{0370}-\x{03FF}]; the variant carries the depth 1 of the first
   block over and writes it without: [\x{0000}-\x{007F}]+\x{0370}-\x{03FF}. *)
Theorem C18_carried_depth_variant_refuted :
  exists p, xsd_match p [97;98;206;177] = Some true /\
            rewrite p = Ok [91;92;120;123;48;48;48;48;125;45;92;120;123;48;48;55;70;125;93;43;91;92;120;123;48;51;55;48;125;45;92;120;123;48;51;70;70;125;93] /\
            bind (esc_pass 0 false p) (fun q => chblocks_carry (S (length q)) 0%Z q)
            = Ok [91;92;120;123;48;48;48;48;125;45;92;120;123;48;48;55;70;125;93;43;92;120;123;48;51;55;48;125;45;92;120;123;48;51;70;70;125] /\
            has_sub bs2 p = false /\ blocks_exact p = true.
Proof.
  exists [91;92;112;123;73;115;66;97;115;105;99;76;97;116;105;110;125;93;43;92;112;123;73;115;71;114;101;101;107;125].
  vm_compute. repeat split.
Qed.
Print Assumptions C18_carried_depth_variant_refuted.

(* lyplg_type_validate_patterns(): when the matcher itself does not fail, the value is accepted iff
   every pattern of the list is satisfied, where a pattern without invert-match is satisfied by a
   match and a pattern with invert-match by a non-match (result = match XOR inverted), for any
   matcher; a matcher failure is passed on. *)
Theorem C18_invert_match :
  forall (code : Type) (code_match : code -> bytes -> res bool) ps s,
    (forall p, In p ps -> is_ok (code_match (pat_code code p) s) = true) ->
    validate_patterns code code_match ps s
    = Ok (forallb (fun p => match code_match (pat_code code p) s with
                            | Ok m => xorb m (pat_inverted code p)
                            | Err _ => false
                            end) ps).
Proof. exact validate_patterns_spec. Qed.
Print Assumptions C18_invert_match.

Theorem C18_invert_match_error :
  forall (code : Type) (code_match : code -> bytes -> res bool) ps s e,
    validate_patterns code code_match ps s = Err e ->
    exists p, In p ps /\ code_match (pat_code code p) s = Err e.
Proof. exact validate_patterns_err. Qed.
Print Assumptions C18_invert_match_error.

(* Pattern SETS over typedef chains. lys_compile_type_patterns() gives a type the patterns of its base type
   followed by its own, each new one inverted iff ITS statement has modifier invert-match; so for a chain
   typedef t1 {type string {level 1}} ... leaf {type t(n-1) {level n}} (any level may be empty, a parsed
   pattern is (inverted, code)) the value is accepted iff for EVERY pattern of EVERY level the single-pattern
   answer XOR that pattern's own flag holds - independent of how the patterns are spread over the levels. *)
Theorem C18_invert_match_chain :
  forall (code : Type) (code_match : code -> bytes -> res bool) (levels : list (list (bool * code))) s,
    (forall q, In q (concat levels) -> is_ok (code_match (snd q) s) = true) ->
    validate_patterns code code_match (chain_patterns code [] levels) s
    = Ok (forallb (fun q => match code_match (snd q) s with
                            | Ok m => xorb m (fst q)
                            | Err _ => false
                            end) (concat levels)).
Proof. exact validate_chain. Qed.
Print Assumptions C18_invert_match_chain.

(* typedef word {pattern [a-z]+} ; leaf {type word {pattern ab.* inverted}} with the XSD reference as the
   matcher: xyz accepted, abc rejected, XYZ rejected *)
Example C18_invert_match_chain_ex :
  let cm := fun p s => match xsd_match p s with Some b => Ok b | None => Err 1 end in
  let lv := [ [(false, [91;97;45;122;93;43])]; [(true, [97;98;46;42])] ] in
  validate_patterns bytes cm (chain_patterns bytes [] lv) [120;121;122] = Ok true /\
  validate_patterns bytes cm (chain_patterns bytes [] lv) [97;98;99] = Ok false /\
  validate_patterns bytes cm (chain_patterns bytes [] lv) [88;89;90] = Ok false.
Proof. vm_compute. repeat split. Qed.

(* String types over a typedef chain whose levels also restate LENGTH. A level is (its length statement if any,
   its pattern statements); chain_type transcribes the string case of lys_compile_type_(): length and patterns
   are inherited independently. Then (1) the patterns checked at the data node are the patterns of ALL levels in
   order, each with its own flag, whichever levels have a length statement, a pattern statement, both or nothing,
   and the length checked is the statement of the last level that has one; (2) a value of n characters is
   accepted iff n is in that length and every pattern of every level answers match XOR its own flag. *)
Theorem C18_typeset_chain :
  forall (code : Type) (levels : list (option (length_restr) * list (bool * code))),
    st_patterns code (chain_type code (string_builtin code) levels)
    = map (fun q => {| pat_code := snd q; pat_inverted := fst q |}) (concat (map snd levels)) /\
    st_length code (chain_type code (string_builtin code) levels) = last_length code None levels.
Proof. intros code levels. exact (chain_type_flat code levels (string_builtin code)). Qed.
Print Assumptions C18_typeset_chain.

Theorem C18_typeset_validate :
  forall (code : Type) (code_match : code -> bytes -> res bool) levels n s,
    (forall q, In q (concat (map snd levels)) -> is_ok (code_match (snd q) s) = true) ->
    validate_string code code_match (chain_type code (string_builtin code) levels) n s
    = Ok ((match last_length code None levels with Some r => in_length r n | None => true end) &&
          forallb (fun q => match code_match (snd q) s with
                            | Ok m => xorb m (fst q)
                            | Err _ => false
                            end) (concat (map snd levels))).
Proof. exact validate_string_chain. Qed.
Print Assumptions C18_typeset_validate.

(* typedef word {pattern [a-z]+} ; leaf {type word {length 1..4}} with the XSD reference as the matcher: abc is
   accepted, ABC and abcde are rejected *)
Example C18_typeset_ex :
  let cm := fun p s => match xsd_match p s with Some b => Ok b | None => Err 1 end in
  let t := chain_type bytes (string_builtin bytes) [ (None, [(false, [91;97;45;122;93;43])]); (Some [(1, 4)], []) ] in
  validate_string bytes cm t 3 [97;98;99] = Ok true /\
  validate_string bytes cm t 3 [65;66;67] = Ok false /\
  validate_string bytes cm t 5 [97;98;99;100;101] = Ok false.
Proof. vm_compute. repeat split. Qed.

(* with the XSD reference as the matcher: patterns a (plain) and b|a (inverted) reject a, patterns
   a (plain) and b (inverted) accept a *)
Example C18_invert_match_ex :
  let cm := fun p s => match xsd_match p s with Some b => Ok b | None => Err 1 end in
  validate_patterns bytes cm [ {| pat_code := [97]; pat_inverted := false |};
                               {| pat_code := [98;124;97]; pat_inverted := true |} ] [97] = Ok false /\
  validate_patterns bytes cm [ {| pat_code := [97]; pat_inverted := false |};
                               {| pat_code := [98]; pat_inverted := true |} ] [97] = Ok true.
Proof. vm_compute. split; reflexivity. Qed.
