(* Properties_C18_regex.v - property C18 (YANG patterns are XSD regular expressions), slice regex:
   theorem statements only. Each is closed by [exact] of a lemma proved in XsdP.v / RewriteP.v (or by
   computation on a witness) and followed by Print Assumptions.

   What is proved: the XSD reference matcher is correct against the denotational semantics for all
   regular expressions and strings; the textual rewrite libyang applies before PCRE2 (as coded) is
   the identity / the intended anchor escaping on the stated classes of patterns and provably NOT
   the intended text on the witnesses below; list evaluation with invert-match negates exactly the
   marked patterns. What is not proved here: that PCRE2 gives the rewritten text the XSD meaning
   (PCRE2 is external; that part is the Match correspondence of tools/props/comps_regex.py). *)
From LY Require Import Base Xsd XsdP XsdParse Rewrite RewriteP.
Local Open Scope N_scope.

(* The executable matcher (Brzozowski derivatives with quantifier counters) accepts exactly the
   strings of the denotational language, for every regular expression (branches, pieces, all
   quantifiers incl. {n,m}, character sets with negation and subtraction) and every string. *)
Theorem C18_match_correct : forall r s, matches r s = true <-> in_lang r s.
Proof. exact match_correct. Qed.
Print Assumptions C18_match_correct.

(* A pattern that contains no '^', no '$' and no occurrence of \p{Is reaches pcre2_compile()
   unchanged, or is rejected because of a ']' outside brackets (error class 1); nothing else can
   happen. Partial: says nothing about patterns with anchors or blocks (next theorems). *)
Theorem C18_rewrite_identity_partial :
  forall p, (forall c, In c p -> is_anchor c = false) -> find_sub needle p = None ->
            rewrite p = Ok p \/ rewrite p = Err 1.
Proof. exact rewrite_identity. Qed.
Print Assumptions C18_rewrite_identity_partial.

(* hypotheses satisfiable by a non-trivial pattern: [a-c]+\.(x|y){2,3} is unchanged, a]b is rejected *)
Example C18_rewrite_identity_ex :
  rewrite [91;97;45;99;93;43;92;46;40;120;124;121;41;123;50;44;51;125]
  = Ok [91;97;45;99;93;43;92;46;40;120;124;121;41;123;50;44;51;125]
  /\ rewrite [97;93;98] = Err 1.
Proof. vm_compute. split; reflexivity. Qed.

(* A pattern built from ordinary bytes, backslash pairs (of a byte other than '^' '$'), bracket
   expressions (any bytes but brackets and backslash, or backslash pairs, inside; '^' and '$' allowed
   there) and UNESCAPED '^' / '$' outside brackets, with no occurrence of \p{Is : the text handed to
   PCRE2 is the pattern with exactly one backslash in front of each of those '^' / '$' (they become
   literals, the XSD meaning) and nothing else changed. *)
Theorem C18_rewrite_caret_dollar :
  forall ts, forallb tok_ok ts = true -> find_sub needle (flat_map render ts) = None ->
             rewrite (flat_map render ts) = Ok (flat_map render_esc ts).
Proof. exact rewrite_caret_dollar. Qed.
Print Assumptions C18_rewrite_caret_dollar.

(* ^a[^b$]\.$  ->  \^a[^b$]\.\$ *)
Example C18_rewrite_caret_dollar_ex :
  let ts := [TAnchor 94; TChar 97; TClass [CChar 94; CChar 98; CChar 36]; TEsc 46; TAnchor 36] in
  forallb tok_ok ts = true /\ find_sub needle (flat_map render ts) = None /\
  flat_map render ts = [94;97;91;94;98;36;93;92;46;36] /\
  rewrite (flat_map render ts) = Ok [92;94;97;91;94;98;36;93;92;46;92;36].
Proof. vm_compute. repeat split. Qed.

(* Refuted for ESCAPED anchors: for the pattern a\^b (XSD: the three characters a ^ b, and the XSD
   reference accepts the string a^b) the text handed to PCRE2 is a\\^b - an escaped backslash
   followed by an anchor - where the intended rewrite (esc_pass_spec: honour [escaped]) leaves
   a\^b alone. Same for a\$b. *)
Theorem C18_escaped_caret_refuted :
  exists p, xsd_match p [97;94;98] = Some true /\
            rewrite p = Ok [97;92;92;94;98] /\ rewrite_spec p = Ok [97;92;94;98] /\
            rewrite [97;92;36;98] = Ok [97;92;92;36;98].
Proof. exists [97;92;94;98]. vm_compute. repeat split. Qed.
Print Assumptions C18_escaped_caret_refuted.

(* Refuted for blocks: \p{IsGreek} (XSD: U+0370..U+03FF; the reference accepts GREEK SMALL LETTER
   ALPHA = CE B1 and rejects a) is replaced by the range of BasicLatin, [\x{0000}-\x{007F}], and
   inside one pair of brackets by the range of Latin-1Supplement; the intended rewrite writes
   [\x{0370}-\x{03FF}]. *)
Theorem C18_block_index_refuted :
  exists p, xsd_match p [206;177] = Some true /\ xsd_match p [97] = Some false /\
            rewrite p = Ok [91;92;120;123;48;48;48;48;125;45;92;120;123;48;48;55;70;125;93] /\
            rewrite_spec p = Ok [91;92;120;123;48;51;55;48;125;45;92;120;123;48;51;70;70;125;93] /\
            rewrite ([91] ++ p ++ [93]) = Ok [91;92;120;123;48;48;56;48;125;45;92;120;123;48;48;70;70;125;93].
Proof. exists [92;112;123;73;115;71;114;101;101;107;125]. vm_compute. repeat split. Qed.
Print Assumptions C18_block_index_refuted.

(* Refuted memory safety of the block rewrite: for the pattern \\[]\p{IsGreek} the bracket counter
   of lys_compile_pattern_chblocks_xmlschema2perl() is below zero when it is used as the index into
   ublock2urange[] (error class 4 of the model = undefined behaviour in C; confirmed by UBSan). *)
Theorem C18_block_index_oob_refuted :
  exists p, rewrite p = Err 4.
Proof. exists [92;92;91;93;92;112;123;73;115;71;114;101;101;107;125]. vm_compute. reflexivity. Qed.
Print Assumptions C18_block_index_oob_refuted.

(* lyplg_type_validate_patterns(): when the matcher itself does not fail, the value is accepted iff
   every pattern of the list is satisfied, where a pattern without invert-match is satisfied by a
   match and a pattern with invert-match by a non-match (result = match XOR inverted), for any
   matcher; a matcher failure is passed on. *)
Theorem C18_invert_match :
  forall (code : Type) (code_match : code -> bytes -> res bool) ps s,
    (forall p, In p ps -> is_ok (code_match (pat_code code p) s) = true) ->
    validate_patterns code code_match ps s
    = Ok (forallb (fun p => match code_match (pat_code code p) s with
                            | Ok m => xorb m (pat_inverted code p)
                            | Err _ => false
                            end) ps).
Proof. exact validate_patterns_spec. Qed.
Print Assumptions C18_invert_match.

Theorem C18_invert_match_error :
  forall (code : Type) (code_match : code -> bytes -> res bool) ps s e,
    validate_patterns code code_match ps s = Err e ->
    exists p, In p ps /\ code_match (pat_code code p) s = Err e.
Proof. exact validate_patterns_err. Qed.
Print Assumptions C18_invert_match_error.

(* with the XSD reference as the matcher: patterns a (plain) and b|a (inverted) reject a, patterns
   a (plain) and b (inverted) accept a *)
Example C18_invert_match_ex :
  let cm := fun p s => match xsd_match p s with Some b => Ok b | None => Err 1 end in
  validate_patterns bytes cm [ {| pat_code := [97]; pat_inverted := false |};
                               {| pat_code := [98;124;97]; pat_inverted := true |} ] [97] = Ok false /\
  validate_patterns bytes cm [ {| pat_code := [97]; pat_inverted := false |};
                               {| pat_code := [98]; pat_inverted := true |} ] [97] = Ok true.
Proof. vm_compute. split; reflexivity. Qed.
