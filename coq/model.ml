
(** val negb : bool -> bool **)

let negb = function
| true -> false
| false -> true

type nat =
| O
| S of nat

(** val fst : ('a1 * 'a2) -> 'a1 **)

let fst = function
| (x, _) -> x

(** val snd : ('a1 * 'a2) -> 'a2 **)

let snd = function
| (_, y) -> y

(** val length : 'a1 list -> nat **)

let rec length = function
| [] -> O
| _ :: l' -> S (length l')

(** val app : 'a1 list -> 'a1 list -> 'a1 list **)

let rec app l m =
  match l with
  | [] -> m
  | a :: l1 -> a :: (app l1 m)

type comparison =
| Eq
| Lt
| Gt

module Nat =
 struct
  (** val leb : nat -> nat -> bool **)

  let rec leb n0 m =
    match n0 with
    | O -> true
    | S n' -> (match m with
               | O -> false
               | S m' -> leb n' m')

  (** val ltb : nat -> nat -> bool **)

  let ltb n0 m =
    leb (S n0) m
 end

(** val nth : nat -> 'a1 list -> 'a1 -> 'a1 **)

let rec nth n0 l default =
  match n0 with
  | O -> (match l with
          | [] -> default
          | x :: _ -> x)
  | S m -> (match l with
            | [] -> default
            | _ :: t -> nth m t default)

(** val rev : 'a1 list -> 'a1 list **)

let rec rev = function
| [] -> []
| x :: l' -> app (rev l') (x :: [])

(** val flat_map : ('a1 -> 'a2 list) -> 'a1 list -> 'a2 list **)

let rec flat_map f = function
| [] -> []
| x :: t -> app (f x) (flat_map f t)

(** val forallb : ('a1 -> bool) -> 'a1 list -> bool **)

let rec forallb f = function
| [] -> true
| a :: l0 -> (&&) (f a) (forallb f l0)

(** val firstn : nat -> 'a1 list -> 'a1 list **)

let rec firstn n0 l =
  match n0 with
  | O -> []
  | S n1 -> (match l with
             | [] -> []
             | a :: l0 -> a :: (firstn n1 l0))

(** val skipn : nat -> 'a1 list -> 'a1 list **)

let rec skipn n0 l =
  match n0 with
  | O -> l
  | S n1 -> (match l with
             | [] -> []
             | _ :: l0 -> skipn n1 l0)

type positive =
| XI of positive
| XO of positive
| XH

type n =
| N0
| Npos of positive

type z =
| Z0
| Zpos of positive
| Zneg of positive

module Pos =
 struct
  type mask =
  | IsNul
  | IsPos of positive
  | IsNeg
 end

module Coq_Pos =
 struct
  (** val succ : positive -> positive **)

  let rec succ = function
  | XI p -> XO (succ p)
  | XO p -> XI p
  | XH -> XO XH

  (** val add : positive -> positive -> positive **)

  let rec add x y =
    match x with
    | XI p ->
      (match y with
       | XI q -> XO (add_carry p q)
       | XO q -> XI (add p q)
       | XH -> XO (succ p))
    | XO p ->
      (match y with
       | XI q -> XI (add p q)
       | XO q -> XO (add p q)
       | XH -> XI p)
    | XH -> (match y with
             | XI q -> XO (succ q)
             | XO q -> XI q
             | XH -> XO XH)

  (** val add_carry : positive -> positive -> positive **)

  and add_carry x y =
    match x with
    | XI p ->
      (match y with
       | XI q -> XI (add_carry p q)
       | XO q -> XO (add_carry p q)
       | XH -> XI (succ p))
    | XO p ->
      (match y with
       | XI q -> XO (add_carry p q)
       | XO q -> XI (add p q)
       | XH -> XO (succ p))
    | XH ->
      (match y with
       | XI q -> XI (succ q)
       | XO q -> XO (succ q)
       | XH -> XI XH)

  (** val pred_double : positive -> positive **)

  let rec pred_double = function
  | XI p -> XI (XO p)
  | XO p -> XI (pred_double p)
  | XH -> XH

  type mask = Pos.mask =
  | IsNul
  | IsPos of positive
  | IsNeg

  (** val succ_double_mask : mask -> mask **)

  let succ_double_mask = function
  | IsNul -> IsPos XH
  | IsPos p -> IsPos (XI p)
  | IsNeg -> IsNeg

  (** val double_mask : mask -> mask **)

  let double_mask = function
  | IsPos p -> IsPos (XO p)
  | x0 -> x0

  (** val double_pred_mask : positive -> mask **)

  let double_pred_mask = function
  | XI p -> IsPos (XO (XO p))
  | XO p -> IsPos (XO (pred_double p))
  | XH -> IsNul

  (** val sub_mask : positive -> positive -> mask **)

  let rec sub_mask x y =
    match x with
    | XI p ->
      (match y with
       | XI q -> double_mask (sub_mask p q)
       | XO q -> succ_double_mask (sub_mask p q)
       | XH -> IsPos (XO p))
    | XO p ->
      (match y with
       | XI q -> succ_double_mask (sub_mask_carry p q)
       | XO q -> double_mask (sub_mask p q)
       | XH -> IsPos (pred_double p))
    | XH -> (match y with
             | XH -> IsNul
             | _ -> IsNeg)

  (** val sub_mask_carry : positive -> positive -> mask **)

  and sub_mask_carry x y =
    match x with
    | XI p ->
      (match y with
       | XI q -> succ_double_mask (sub_mask_carry p q)
       | XO q -> double_mask (sub_mask p q)
       | XH -> IsPos (pred_double p))
    | XO p ->
      (match y with
       | XI q -> double_mask (sub_mask_carry p q)
       | XO q -> succ_double_mask (sub_mask_carry p q)
       | XH -> double_pred_mask p)
    | XH -> IsNeg

  (** val mul : positive -> positive -> positive **)

  let rec mul x y =
    match x with
    | XI p -> add y (XO (mul p y))
    | XO p -> XO (mul p y)
    | XH -> y

  (** val iter : ('a1 -> 'a1) -> 'a1 -> positive -> 'a1 **)

  let rec iter f x = function
  | XI n' -> f (iter f (iter f x n') n')
  | XO n' -> iter f (iter f x n') n'
  | XH -> f x

  (** val compare_cont : comparison -> positive -> positive -> comparison **)

  let rec compare_cont r x y =
    match x with
    | XI p ->
      (match y with
       | XI q -> compare_cont r p q
       | XO q -> compare_cont Gt p q
       | XH -> Gt)
    | XO p ->
      (match y with
       | XI q -> compare_cont Lt p q
       | XO q -> compare_cont r p q
       | XH -> Gt)
    | XH -> (match y with
             | XH -> r
             | _ -> Lt)

  (** val compare : positive -> positive -> comparison **)

  let compare =
    compare_cont Eq

  (** val eqb : positive -> positive -> bool **)

  let rec eqb p q =
    match p with
    | XI p0 -> (match q with
                | XI q0 -> eqb p0 q0
                | _ -> false)
    | XO p0 -> (match q with
                | XO q0 -> eqb p0 q0
                | _ -> false)
    | XH -> (match q with
             | XH -> true
             | _ -> false)

  (** val coq_Nsucc_double : n -> n **)

  let coq_Nsucc_double = function
  | N0 -> Npos XH
  | Npos p -> Npos (XI p)

  (** val coq_Ndouble : n -> n **)

  let coq_Ndouble = function
  | N0 -> N0
  | Npos p -> Npos (XO p)

  (** val coq_lor : positive -> positive -> positive **)

  let rec coq_lor p q =
    match p with
    | XI p0 ->
      (match q with
       | XI q0 -> XI (coq_lor p0 q0)
       | XO q0 -> XI (coq_lor p0 q0)
       | XH -> p)
    | XO p0 ->
      (match q with
       | XI q0 -> XI (coq_lor p0 q0)
       | XO q0 -> XO (coq_lor p0 q0)
       | XH -> XI p0)
    | XH -> (match q with
             | XO q0 -> XI q0
             | _ -> q)

  (** val coq_land : positive -> positive -> n **)

  let rec coq_land p q =
    match p with
    | XI p0 ->
      (match q with
       | XI q0 -> coq_Nsucc_double (coq_land p0 q0)
       | XO q0 -> coq_Ndouble (coq_land p0 q0)
       | XH -> Npos XH)
    | XO p0 ->
      (match q with
       | XI q0 -> coq_Ndouble (coq_land p0 q0)
       | XO q0 -> coq_Ndouble (coq_land p0 q0)
       | XH -> N0)
    | XH -> (match q with
             | XO _ -> N0
             | _ -> Npos XH)

  (** val shiftl : positive -> n -> positive **)

  let shiftl p = function
  | N0 -> p
  | Npos n1 -> iter (fun x -> XO x) p n1
 end

module N =
 struct
  (** val succ_double : n -> n **)

  let succ_double = function
  | N0 -> Npos XH
  | Npos p -> Npos (XI p)

  (** val double : n -> n **)

  let double = function
  | N0 -> N0
  | Npos p -> Npos (XO p)

  (** val add : n -> n -> n **)

  let add n0 m =
    match n0 with
    | N0 -> m
    | Npos p -> (match m with
                 | N0 -> n0
                 | Npos q -> Npos (Coq_Pos.add p q))

  (** val sub : n -> n -> n **)

  let sub n0 m =
    match n0 with
    | N0 -> N0
    | Npos n' ->
      (match m with
       | N0 -> n0
       | Npos m' ->
         (match Coq_Pos.sub_mask n' m' with
          | Coq_Pos.IsPos p -> Npos p
          | _ -> N0))

  (** val mul : n -> n -> n **)

  let mul n0 m =
    match n0 with
    | N0 -> N0
    | Npos p -> (match m with
                 | N0 -> N0
                 | Npos q -> Npos (Coq_Pos.mul p q))

  (** val compare : n -> n -> comparison **)

  let compare n0 m =
    match n0 with
    | N0 -> (match m with
             | N0 -> Eq
             | Npos _ -> Lt)
    | Npos n' -> (match m with
                  | N0 -> Gt
                  | Npos m' -> Coq_Pos.compare n' m')

  (** val eqb : n -> n -> bool **)

  let eqb n0 m =
    match n0 with
    | N0 -> (match m with
             | N0 -> true
             | Npos _ -> false)
    | Npos p -> (match m with
                 | N0 -> false
                 | Npos q -> Coq_Pos.eqb p q)

  (** val leb : n -> n -> bool **)

  let leb x y =
    match compare x y with
    | Gt -> false
    | _ -> true

  (** val ltb : n -> n -> bool **)

  let ltb x y =
    match compare x y with
    | Lt -> true
    | _ -> false

  (** val div2 : n -> n **)

  let div2 = function
  | N0 -> N0
  | Npos p0 -> (match p0 with
                | XI p -> Npos p
                | XO p -> Npos p
                | XH -> N0)

  (** val pos_div_eucl : positive -> n -> n * n **)

  let rec pos_div_eucl a b =
    match a with
    | XI a' ->
      let (q, r) = pos_div_eucl a' b in
      let r' = succ_double r in
      if leb b r' then ((succ_double q), (sub r' b)) else ((double q), r')
    | XO a' ->
      let (q, r) = pos_div_eucl a' b in
      let r' = double r in
      if leb b r' then ((succ_double q), (sub r' b)) else ((double q), r')
    | XH ->
      (match b with
       | N0 -> (N0, (Npos XH))
       | Npos p -> (match p with
                    | XH -> ((Npos XH), N0)
                    | _ -> (N0, (Npos XH))))

  (** val div_eucl : n -> n -> n * n **)

  let div_eucl a b =
    match a with
    | N0 -> (N0, N0)
    | Npos na -> (match b with
                  | N0 -> (N0, a)
                  | Npos _ -> pos_div_eucl na b)

  (** val div : n -> n -> n **)

  let div a b =
    fst (div_eucl a b)

  (** val modulo : n -> n -> n **)

  let modulo a b =
    snd (div_eucl a b)

  (** val coq_lor : n -> n -> n **)

  let coq_lor n0 m =
    match n0 with
    | N0 -> m
    | Npos p -> (match m with
                 | N0 -> n0
                 | Npos q -> Npos (Coq_Pos.coq_lor p q))

  (** val coq_land : n -> n -> n **)

  let coq_land n0 m =
    match n0 with
    | N0 -> N0
    | Npos p -> (match m with
                 | N0 -> N0
                 | Npos q -> Coq_Pos.coq_land p q)

  (** val shiftl : n -> n -> n **)

  let shiftl a n0 =
    match a with
    | N0 -> N0
    | Npos a0 -> Npos (Coq_Pos.shiftl a0 n0)

  (** val shiftr : n -> n -> n **)

  let shiftr a = function
  | N0 -> a
  | Npos p -> Coq_Pos.iter div2 a p
 end

module Z =
 struct
  (** val double : z -> z **)

  let double = function
  | Z0 -> Z0
  | Zpos p -> Zpos (XO p)
  | Zneg p -> Zneg (XO p)

  (** val succ_double : z -> z **)

  let succ_double = function
  | Z0 -> Zpos XH
  | Zpos p -> Zpos (XI p)
  | Zneg p -> Zneg (Coq_Pos.pred_double p)

  (** val pred_double : z -> z **)

  let pred_double = function
  | Z0 -> Zneg XH
  | Zpos p -> Zpos (Coq_Pos.pred_double p)
  | Zneg p -> Zneg (XI p)

  (** val pos_sub : positive -> positive -> z **)

  let rec pos_sub x y =
    match x with
    | XI p ->
      (match y with
       | XI q -> double (pos_sub p q)
       | XO q -> succ_double (pos_sub p q)
       | XH -> Zpos (XO p))
    | XO p ->
      (match y with
       | XI q -> pred_double (pos_sub p q)
       | XO q -> double (pos_sub p q)
       | XH -> Zpos (Coq_Pos.pred_double p))
    | XH ->
      (match y with
       | XI q -> Zneg (XO q)
       | XO q -> Zneg (Coq_Pos.pred_double q)
       | XH -> Z0)

  (** val add : z -> z -> z **)

  let add x y =
    match x with
    | Z0 -> y
    | Zpos x' ->
      (match y with
       | Z0 -> x
       | Zpos y' -> Zpos (Coq_Pos.add x' y')
       | Zneg y' -> pos_sub x' y')
    | Zneg x' ->
      (match y with
       | Z0 -> x
       | Zpos y' -> pos_sub y' x'
       | Zneg y' -> Zneg (Coq_Pos.add x' y'))

  (** val opp : z -> z **)

  let opp = function
  | Z0 -> Z0
  | Zpos x0 -> Zneg x0
  | Zneg x0 -> Zpos x0

  (** val sub : z -> z -> z **)

  let sub m n0 =
    add m (opp n0)

  (** val mul : z -> z -> z **)

  let mul x y =
    match x with
    | Z0 -> Z0
    | Zpos x' ->
      (match y with
       | Z0 -> Z0
       | Zpos y' -> Zpos (Coq_Pos.mul x' y')
       | Zneg y' -> Zneg (Coq_Pos.mul x' y'))
    | Zneg x' ->
      (match y with
       | Z0 -> Z0
       | Zpos y' -> Zneg (Coq_Pos.mul x' y')
       | Zneg y' -> Zpos (Coq_Pos.mul x' y'))

  (** val abs_N : z -> n **)

  let abs_N = function
  | Z0 -> N0
  | Zpos p -> Npos p
  | Zneg p -> Npos p

  (** val of_N : n -> z **)

  let of_N = function
  | N0 -> Z0
  | Npos p -> Zpos p
 end

type bytes = n list

type 'a res =
| Ok of 'a
| Err of n

(** val starts_with : bytes -> bytes -> bool **)

let rec starts_with p s =
  match p with
  | [] -> true
  | x :: p' ->
    (match s with
     | [] -> false
     | y :: s' -> (&&) (N.eqb x y) (starts_with p' s'))

(** val is_digit : n -> bool **)

let is_digit b =
  (&&) (N.leb (Npos (XO (XO (XO (XO (XI XH)))))) b)
    (N.leb b (Npos (XI (XO (XO (XI (XI XH)))))))

(** val is_xdigit : n -> bool **)

let is_xdigit b =
  (||)
    ((||) (is_digit b)
      ((&&) (N.leb (Npos (XI (XO (XO (XO (XO (XO XH))))))) b)
        (N.leb b (Npos (XO (XI (XI (XO (XO (XO XH))))))))))
    ((&&) (N.leb (Npos (XI (XO (XO (XO (XO (XI XH))))))) b)
      (N.leb b (Npos (XO (XI (XI (XO (XO (XI XH)))))))))

(** val is_xmlws : n -> bool **)

let is_xmlws b =
  (||)
    ((||)
      ((||) (N.eqb b (Npos (XO (XO (XO (XO (XO XH)))))))
        (N.eqb b (Npos (XI (XO (XO XH))))))
      (N.eqb b (Npos (XO (XI (XO XH)))))) (N.eqb b (Npos (XI (XO (XI XH)))))

(** val rd0 : bytes -> nat -> n **)

let rd0 s i =
  nth i s N0

(** val is_cont : n -> bool **)

let is_cont b =
  N.eqb (N.coq_land b (Npos (XO (XO (XO (XO (XO (XO (XI XH))))))))) (Npos (XO
    (XO (XO (XO (XO (XO (XO XH))))))))

(** val getutf8 : bytes -> (n * nat) option **)

let getutf8 s =
  let c = rd0 s O in
  if N.eqb (N.coq_land c (Npos (XO (XO (XO (XO (XO (XO (XO XH))))))))) N0
  then if (&&)
            ((&&)
              ((&&) (N.ltb c (Npos (XO (XO (XO (XO (XO XH)))))))
                (negb (N.eqb c (Npos (XI (XO (XO XH)))))))
              (negb (N.eqb c (Npos (XO (XI (XO XH)))))))
            (negb (N.eqb c (Npos (XI (XO (XI XH))))))
       then None
       else Some (c, (S O))
  else if N.eqb (N.coq_land c (Npos (XO (XO (XO (XO (XO (XI (XI XH)))))))))
            (Npos (XO (XO (XO (XO (XO (XO (XI XH))))))))
       then let a1 = rd0 s (S O) in
            if negb (is_cont a1)
            then None
            else let v =
                   N.coq_lor
                     (N.shiftl (N.coq_land c (Npos (XI (XI (XI (XI XH))))))
                       (Npos (XO (XI XH))))
                     (N.coq_land a1 (Npos (XI (XI (XI (XI (XI XH)))))))
                 in
                 if N.ltb v (Npos (XO (XO (XO (XO (XO (XO (XO XH))))))))
                 then None
                 else Some (v, (S (S O)))
       else if N.eqb
                 (N.coq_land c (Npos (XO (XO (XO (XO (XI (XI (XI XH)))))))))
                 (Npos (XO (XO (XO (XO (XO (XI (XI XH))))))))
            then let a1 = rd0 s (S O) in
                 if negb (is_cont a1)
                 then None
                 else let a2 = rd0 s (S (S O)) in
                      if negb (is_cont a2)
                      then None
                      else let v =
                             N.coq_lor
                               (N.shiftl
                                 (N.coq_lor
                                   (N.shiftl
                                     (N.coq_land c (Npos (XI (XI (XI XH)))))
                                     (Npos (XO (XI XH))))
                                   (N.coq_land a1 (Npos (XI (XI (XI (XI (XI
                                     XH)))))))) (Npos (XO (XI XH))))
                               (N.coq_land a2 (Npos (XI (XI (XI (XI (XI
                                 XH)))))))
                           in
                           if (||)
                                ((||)
                                  (N.ltb v (Npos (XO (XO (XO (XO (XO (XO (XO
                                    (XO (XO (XO (XO XH)))))))))))))
                                  ((&&)
                                    (N.ltb (Npos (XI (XI (XI (XI (XI (XI (XI
                                      (XI (XI (XI (XI (XO (XI (XO (XI
                                      XH)))))))))))))))) v)
                                    (N.ltb v (Npos (XO (XO (XO (XO (XO (XO
                                      (XO (XO (XO (XO (XO (XO (XO (XI (XI
                                      XH)))))))))))))))))))
                                (N.ltb (Npos (XI (XO (XI (XI (XI (XI (XI (XI
                                  (XI (XI (XI (XI (XI (XI (XI
                                  XH)))))))))))))))) v)
                           then None
                           else Some (v, (S (S (S O))))
            else if N.eqb
                      (N.coq_land c (Npos (XO (XO (XO (XI (XI (XI (XI
                        XH))))))))) (Npos (XO (XO (XO (XO (XI (XI (XI
                      XH))))))))
                 then let a1 = rd0 s (S O) in
                      if negb (is_cont a1)
                      then None
                      else let a2 = rd0 s (S (S O)) in
                           if negb (is_cont a2)
                           then None
                           else let a3 = rd0 s (S (S (S O))) in
                                if negb (is_cont a3)
                                then None
                                else let v =
                                       N.coq_lor
                                         (N.shiftl
                                           (N.coq_lor
                                             (N.shiftl
                                               (N.coq_lor
                                                 (N.shiftl
                                                   (N.coq_land c (Npos (XI
                                                     (XI XH)))) (Npos (XO (XI
                                                   XH))))
                                                 (N.coq_land a1 (Npos (XI (XI
                                                   (XI (XI (XI XH))))))))
                                               (Npos (XO (XI XH))))
                                             (N.coq_land a2 (Npos (XI (XI (XI
                                               (XI (XI XH)))))))) (Npos (XO
                                           (XI XH))))
                                         (N.coq_land a3 (Npos (XI (XI (XI (XI
                                           (XI XH)))))))
                                     in
                                     if (||)
                                          (N.ltb v (Npos (XO (XO (XO (XO (XO
                                            (XO (XO (XO (XO (XO (XO (XO
                                            XH))))))))))))))
                                          (N.ltb (Npos (XI (XI (XI (XI (XI
                                            (XI (XI (XI (XI (XI (XI (XI (XI
                                            (XI (XI (XI (XO (XO (XO (XO
                                            XH))))))))))))))))))))) v)
                                     then None
                                     else Some (v, (S (S (S (S O)))))
                 else None

(** val pututf8 : n -> bytes option **)

let pututf8 v =
  if N.ltb v (Npos (XO (XO (XO (XO (XO (XO (XO XH))))))))
  then if (&&)
            ((&&)
              ((&&) (N.ltb v (Npos (XO (XO (XO (XO (XO XH)))))))
                (negb (N.eqb v (Npos (XI (XO (XO XH)))))))
              (negb (N.eqb v (Npos (XO (XI (XO XH)))))))
            (negb (N.eqb v (Npos (XI (XO (XI XH))))))
       then None
       else Some (v :: [])
  else if N.ltb v (Npos (XO (XO (XO (XO (XO (XO (XO (XO (XO (XO (XO
            XH))))))))))))
       then Some
              ((N.coq_lor (Npos (XO (XO (XO (XO (XO (XO (XI XH))))))))
                 (N.shiftr v (Npos (XO (XI XH))))) :: ((N.coq_lor (Npos (XO
                                                         (XO (XO (XO (XO (XO
                                                         (XO XH))))))))
                                                         (N.coq_land v (Npos
                                                           (XI (XI (XI (XI
                                                           (XI XH)))))))) :: []))
       else if N.ltb v (Npos (XO (XI (XI (XI (XI (XI (XI (XI (XI (XI (XI (XI
                 (XI (XI (XI XH))))))))))))))))
            then if (||)
                      (N.eqb
                        (N.coq_land v (Npos (XO (XO (XO (XO (XO (XO (XO (XO
                          (XO (XO (XO (XI (XI (XI (XI XH)))))))))))))))))
                        (Npos (XO (XO (XO (XO (XO (XO (XO (XO (XO (XO (XO (XI
                        (XI (XO (XI XH)))))))))))))))))
                      ((&&)
                        (N.leb (Npos (XO (XO (XO (XO (XI (XO (XI (XI (XI (XO
                          (XI (XI (XI (XI (XI XH)))))))))))))))) v)
                        (N.leb v (Npos (XI (XI (XI (XI (XO (XI (XI (XI (XI
                          (XO (XI (XI (XI (XI (XI XH))))))))))))))))))
                 then None
                 else Some
                        ((N.coq_lor (Npos (XO (XO (XO (XO (XO (XI (XI
                           XH)))))))) (N.shiftr v (Npos (XO (XO (XI XH)))))) :: (
                        (N.coq_lor (Npos (XO (XO (XO (XO (XO (XO (XO
                          XH))))))))
                          (N.coq_land (N.shiftr v (Npos (XO (XI XH)))) (Npos
                            (XI (XI (XI (XI (XI XH)))))))) :: ((N.coq_lor
                                                                 (Npos (XO
                                                                 (XO (XO (XO
                                                                 (XO (XO (XO
                                                                 XH))))))))
                                                                 (N.coq_land
                                                                   v (Npos
                                                                   (XI (XI
                                                                   (XI (XI
                                                                   (XI
                                                                   XH)))))))) :: [])))
            else if N.ltb v (Npos (XO (XI (XI (XI (XI (XI (XI (XI (XI (XI (XI
                      (XI (XI (XI (XI (XI (XO (XO (XO (XO
                      XH)))))))))))))))))))))
                 then if N.eqb
                           (N.coq_land v (Npos (XO (XI (XI (XI (XI (XI (XI
                             (XI (XI (XI (XI XH))))))))))))) (Npos (XO (XI
                           (XI (XI (XI (XI (XI (XI (XI (XI (XI XH))))))))))))
                      then None
                      else Some
                             ((N.coq_lor (Npos (XO (XO (XO (XO (XI (XI (XI
                                XH))))))))
                                (N.shiftr v (Npos (XO (XI (XO (XO XH))))))) :: (
                             (N.coq_lor (Npos (XO (XO (XO (XO (XO (XO (XO
                               XH))))))))
                               (N.coq_land
                                 (N.shiftr v (Npos (XO (XO (XI XH))))) (Npos
                                 (XI (XI (XI (XI (XI XH)))))))) :: ((N.coq_lor
                                                                    (Npos (XO
                                                                    (XO (XO
                                                                    (XO (XO
                                                                    (XO (XO
                                                                    XH))))))))
                                                                    (N.coq_land
                                                                    (N.shiftr
                                                                    v (Npos
                                                                    (XO (XI
                                                                    XH))))
                                                                    (Npos (XI
                                                                    (XI (XI
                                                                    (XI (XI
                                                                    XH)))))))) :: (
                             (N.coq_lor (Npos (XO (XO (XO (XO (XO (XO (XO
                               XH))))))))
                               (N.coq_land v (Npos (XI (XI (XI (XI (XI
                                 XH)))))))) :: []))))
                 else None

(** val lex_lt : bytes -> bytes -> bool **)

let rec lex_lt a b =
  match a with
  | [] -> false
  | x :: a' ->
    (match b with
     | [] -> false
     | y :: b' ->
       if N.ltb y x then false else if N.ltb x y then true else lex_lt a' b')

(** val lex_gt : bytes -> bytes -> bool **)

let rec lex_gt a b =
  match a with
  | [] -> false
  | x :: a' ->
    (match b with
     | [] -> false
     | y :: b' ->
       if N.ltb y x then true else if N.ltb x y then false else lex_gt a' b')

(** val and_eq : bytes -> bytes -> bytes -> bool **)

let rec and_eq a m v =
  match a with
  | [] -> true
  | x :: a' ->
    (match m with
     | [] -> true
     | mm :: m' ->
       (match v with
        | [] -> true
        | vv :: v' -> (&&) (N.eqb (N.coq_land x mm) vv) (and_eq a' m' v')))

(** val checkutf8 : bytes -> nat option **)

let checkutf8 s =
  let n0 = length s in
  let c = rd0 s O in
  if N.eqb (N.coq_land c (Npos (XO (XO (XO (XO (XO (XO (XO XH))))))))) N0
  then if (&&)
            ((&&)
              ((&&) (N.ltb c (Npos (XO (XO (XO (XO (XO XH)))))))
                (negb (N.eqb c (Npos (XI (XO (XO XH)))))))
              (negb (N.eqb c (Npos (XO (XI (XO XH)))))))
            (negb (N.eqb c (Npos (XI (XO (XI XH))))))
       then None
       else Some (S O)
  else if (&&)
            (N.eqb
              (N.coq_land c (Npos (XO (XO (XO (XO (XO (XI (XI XH)))))))))
              (Npos (XO (XO (XO (XO (XO (XO (XI XH))))))))) (Nat.ltb (S O) n0)
       then let i = firstn (S (S O)) s in
            if (||)
                 ((||)
                   (lex_lt i ((Npos (XO (XI (XO (XO (XO (XO (XI
                     XH)))))))) :: ((Npos (XO (XO (XO (XO (XO (XO (XO
                     XH)))))))) :: [])))
                   (lex_gt i ((Npos (XI (XI (XI (XI (XI (XO (XI
                     XH)))))))) :: ((Npos (XI (XI (XI (XI (XI (XI (XO
                     XH)))))))) :: []))))
                 (negb
                   (and_eq i ((Npos (XO (XO (XO (XO (XO (XI (XI
                     XH)))))))) :: ((Npos (XO (XO (XO (XO (XO (XO (XI
                     XH)))))))) :: [])) ((Npos (XO (XO (XO (XO (XO (XO (XI
                     XH)))))))) :: ((Npos (XO (XO (XO (XO (XO (XO (XO
                     XH)))))))) :: []))))
            then None
            else Some (S (S O))
       else if (&&)
                 (N.eqb
                   (N.coq_land c (Npos (XO (XO (XO (XO (XI (XI (XI XH)))))))))
                   (Npos (XO (XO (XO (XO (XO (XI (XI XH)))))))))
                 (Nat.ltb (S (S O)) n0)
            then let i = firstn (S (S (S O))) s in
                 if (&&)
                      (negb
                        (lex_lt i ((Npos (XI (XO (XI (XI (XO (XI (XI
                          XH)))))))) :: ((Npos (XO (XO (XO (XO (XO (XI (XO
                          XH)))))))) :: ((Npos (XO (XO (XO (XO (XO (XO (XO
                          XH)))))))) :: [])))))
                      (negb
                        (lex_gt i ((Npos (XI (XO (XI (XI (XO (XI (XI
                          XH)))))))) :: ((Npos (XI (XI (XI (XI (XI (XI (XO
                          XH)))))))) :: ((Npos (XI (XI (XI (XI (XI (XI (XO
                          XH)))))))) :: [])))))
                 then None
                 else if (||)
                           ((||)
                             (lex_lt i ((Npos (XO (XO (XO (XO (XO (XI (XI
                               XH)))))))) :: ((Npos (XO (XO (XO (XO (XO (XI
                               (XO XH)))))))) :: ((Npos (XO (XO (XO (XO (XO
                               (XO (XO XH)))))))) :: []))))
                             (lex_gt i ((Npos (XI (XI (XI (XI (XO (XI (XI
                               XH)))))))) :: ((Npos (XI (XI (XI (XI (XI (XI
                               (XO XH)))))))) :: ((Npos (XI (XI (XI (XI (XI
                               (XI (XO XH)))))))) :: [])))))
                           (negb
                             (and_eq i ((Npos (XO (XO (XO (XO (XI (XI (XI
                               XH)))))))) :: ((Npos (XO (XO (XO (XO (XO (XO
                               (XI XH)))))))) :: ((Npos (XO (XO (XO (XO (XO
                               (XO (XI XH)))))))) :: []))) ((Npos (XO (XO (XO
                               (XO (XO (XI (XI XH)))))))) :: ((Npos (XO (XO
                               (XO (XO (XO (XO (XO XH)))))))) :: ((Npos (XO
                               (XO (XO (XO (XO (XO (XO XH)))))))) :: [])))))
                      then None
                      else Some (S (S (S O)))
            else if (&&)
                      (N.eqb
                        (N.coq_land c (Npos (XO (XO (XO (XI (XI (XI (XI
                          XH))))))))) (Npos (XO (XO (XO (XO (XI (XI (XI
                        XH))))))))) (Nat.ltb (S (S (S O))) n0)
                 then let i = firstn (S (S (S (S O)))) s in
                      if (||)
                           ((||)
                             (lex_lt i ((Npos (XO (XO (XO (XO (XI (XI (XI
                               XH)))))))) :: ((Npos (XO (XO (XO (XO (XI (XO
                               (XO XH)))))))) :: ((Npos (XO (XO (XO (XO (XO
                               (XO (XO XH)))))))) :: ((Npos (XO (XO (XO (XO
                               (XO (XO (XO XH)))))))) :: [])))))
                             (lex_gt i ((Npos (XO (XO (XI (XO (XI (XI (XI
                               XH)))))))) :: ((Npos (XI (XI (XI (XI (XO (XO
                               (XO XH)))))))) :: ((Npos (XI (XI (XI (XI (XI
                               (XI (XO XH)))))))) :: ((Npos (XI (XI (XI (XI
                               (XI (XI (XO XH)))))))) :: []))))))
                           (negb
                             (and_eq i ((Npos (XO (XO (XO (XI (XI (XI (XI
                               XH)))))))) :: ((Npos (XO (XO (XO (XO (XO (XO
                               (XI XH)))))))) :: ((Npos (XO (XO (XO (XO (XO
                               (XO (XI XH)))))))) :: ((Npos (XO (XO (XO (XO
                               (XO (XO (XI XH)))))))) :: [])))) ((Npos (XO
                               (XO (XO (XO (XI (XI (XI XH)))))))) :: ((Npos
                               (XO (XO (XO (XO (XO (XO (XO
                               XH)))))))) :: ((Npos (XO (XO (XO (XO (XO (XO
                               (XO XH)))))))) :: ((Npos (XO (XO (XO (XO (XO
                               (XO (XO XH)))))))) :: []))))))
                      then None
                      else Some (S (S (S (S O))))
                 else None

(** val all_getutf8_f : nat -> bytes -> bool **)

let rec all_getutf8_f fuel s =
  match fuel with
  | O -> false
  | S f ->
    (match s with
     | [] -> true
     | _ :: _ ->
       (match getutf8 s with
        | Some p -> let (_, u) = p in all_getutf8_f f (skipn u s)
        | None -> false))

(** val all_getutf8 : bytes -> bool **)

let all_getutf8 s =
  all_getutf8_f (S (length s)) s

(** val all_checkutf8_f : nat -> bytes -> bool **)

let rec all_checkutf8_f fuel s =
  match fuel with
  | O -> false
  | S f ->
    (match s with
     | [] -> true
     | _ :: _ ->
       (match checkutf8 s with
        | Some u -> all_checkutf8_f f (skipn u s)
        | None -> false))

(** val all_checkutf8 : bytes -> bool **)

let all_checkutf8 s =
  all_checkutf8_f (S (length s)) s

(** val xml_esc_table : ((n * bool) * n list) list **)

let xml_esc_table =
  (((Npos (XO (XI (XI (XO (XO XH)))))), false), ((Npos (XO (XI (XI (XO (XO
    XH)))))) :: ((Npos (XI (XO (XO (XO (XO (XI XH))))))) :: ((Npos (XI (XO
    (XI (XI (XO (XI XH))))))) :: ((Npos (XO (XO (XO (XO (XI (XI
    XH))))))) :: ((Npos (XI (XI (XO (XI (XI XH)))))) :: [])))))) :: ((((Npos
    (XO (XO (XI (XI (XI XH)))))), false), ((Npos (XO (XI (XI (XO (XO
    XH)))))) :: ((Npos (XO (XO (XI (XI (XO (XI XH))))))) :: ((Npos (XO (XO
    (XI (XO (XI (XI XH))))))) :: ((Npos (XI (XI (XO (XI (XI
    XH)))))) :: []))))) :: ((((Npos (XO (XI (XI (XI (XI XH)))))), false),
    ((Npos (XO (XI (XI (XO (XO XH)))))) :: ((Npos (XI (XI (XI (XO (XO (XI
    XH))))))) :: ((Npos (XO (XO (XI (XO (XI (XI XH))))))) :: ((Npos (XI (XI
    (XO (XI (XI XH)))))) :: []))))) :: ((((Npos (XO (XI (XO (XO (XO XH)))))),
    true), ((Npos (XO (XI (XI (XO (XO XH)))))) :: ((Npos (XI (XO (XO (XO (XI
    (XI XH))))))) :: ((Npos (XI (XO (XI (XO (XI (XI XH))))))) :: ((Npos (XI
    (XI (XI (XI (XO (XI XH))))))) :: ((Npos (XO (XO (XI (XO (XI (XI
    XH))))))) :: ((Npos (XI (XI (XO (XI (XI XH)))))) :: []))))))) :: [])))

(** val esc_lookup : ((n * bool) * bytes) list -> bool -> n -> bytes **)

let rec esc_lookup t attr b =
  match t with
  | [] -> b :: []
  | p :: t' ->
    let (p0, r) = p in
    let (c, only_attr) = p0 in
    if N.eqb c b
    then if (&&) only_attr (negb attr) then b :: [] else r
    else esc_lookup t' attr b

(** val xml_esc_byte : bool -> n -> bytes **)

let xml_esc_byte attr b =
  esc_lookup xml_esc_table attr b

(** val xml_esc : bool -> bytes -> bytes **)

let xml_esc attr s =
  flat_map (xml_esc_byte attr) s

(** val e_EOF : n **)

let e_EOF =
  Npos XH

(** val e_ENTITY : n **)

let e_ENTITY =
  Npos (XO XH)

(** val e_CHARREF : n **)

let e_CHARREF =
  Npos (XI XH)

(** val e_EXPSEMI : n **)

let e_EXPSEMI =
  Npos (XO (XO XH))

(** val e_CHARVAL : n **)

let e_CHARVAL =
  Npos (XI (XO XH))

(** val e_CDATA : n **)

let e_CDATA =
  Npos (XO (XI XH))

(** val e_INCHAR : n **)

let e_INCHAR =
  Npos (XI (XI XH))

(** val e_FUEL : n **)

let e_FUEL =
  Npos (XI (XI (XO (XO (XO (XI XH))))))

(** val u32 : n **)

let u32 =
  Npos (XO (XO (XO (XO (XO (XO (XO (XO (XO (XO (XO (XO (XO (XO (XO (XO (XO
    (XO (XO (XO (XO (XO (XO (XO (XO (XO (XO (XO (XO (XO (XO (XO
    XH))))))))))))))))))))))))))))))))

(** val scan_dec : bytes -> n -> n * bytes **)

let rec scan_dec s n0 =
  match s with
  | [] -> (n0, s)
  | d :: s' ->
    if is_digit d
    then scan_dec s'
           (N.modulo
             (N.add (N.mul (Npos (XO (XI (XO XH)))) n0)
               (N.sub d (Npos (XO (XO (XO (XO (XI XH)))))))) u32)
    else (n0, s)

(** val hexval : n -> n **)

let hexval d =
  if is_digit d
  then N.sub d (Npos (XO (XO (XO (XO (XI XH))))))
  else if N.ltb (Npos (XO (XI (XI (XO (XO (XO XH))))))) d
       then N.add (Npos (XO (XI (XO XH))))
              (N.sub d (Npos (XI (XO (XO (XO (XO (XI XH))))))))
       else N.add (Npos (XO (XI (XO XH))))
              (N.sub d (Npos (XI (XO (XO (XO (XO (XO XH))))))))

(** val scan_hex : bytes -> n -> n * bytes **)

let rec scan_hex s n0 =
  match s with
  | [] -> (n0, s)
  | d :: s' ->
    if is_xdigit d
    then scan_hex s'
           (N.modulo
             (N.add (N.mul (Npos (XO (XO (XO (XO XH))))) n0) (hexval d)) u32)
    else (n0, s)

(** val find_cdata_end : bytes -> bytes -> (bytes * bytes) option **)

let rec find_cdata_end s acc =
  match s with
  | [] -> None
  | c :: s' ->
    if starts_with ((Npos (XI (XO (XI (XI (XI (XO XH))))))) :: ((Npos (XI (XO
         (XI (XI (XI (XO XH))))))) :: ((Npos (XO (XI (XI (XI (XI
         XH)))))) :: []))) s
    then Some ((rev acc), (skipn (S (S O)) s'))
    else find_cdata_end s' (c :: acc)

(** val cdata_hdr : bytes **)

let cdata_hdr =
  (Npos (XO (XO (XI (XI (XI XH)))))) :: ((Npos (XI (XO (XO (XO (XO
    XH)))))) :: ((Npos (XI (XI (XO (XI (XI (XO XH))))))) :: ((Npos (XI (XI
    (XO (XO (XO (XO XH))))))) :: ((Npos (XO (XO (XI (XO (XO (XO
    XH))))))) :: ((Npos (XI (XO (XO (XO (XO (XO XH))))))) :: ((Npos (XO (XO
    (XI (XO (XI (XO XH))))))) :: ((Npos (XI (XO (XO (XO (XO (XO
    XH))))))) :: ((Npos (XI (XI (XO (XI (XI (XO XH))))))) :: []))))))))

(** val xml_value_f :
    nat -> n -> bytes -> bytes -> bool -> ((bytes * bytes) * bool) res **)

let rec xml_value_f fuel endc s acc ws =
  match fuel with
  | O -> Err e_FUEL
  | S f ->
    (match s with
     | [] -> Err e_EOF
     | c :: s' ->
       if N.eqb c (Npos (XO (XI (XI (XO (XO XH))))))
       then (match s' with
             | [] ->
               if starts_with ((Npos (XO (XO (XI (XI (XO (XI
                    XH))))))) :: ((Npos (XO (XO (XI (XO (XI (XI
                    XH))))))) :: ((Npos (XI (XI (XO (XI (XI XH)))))) :: [])))
                    s'
               then xml_value_f f endc (skipn (S (S (S O))) s')
                      (app acc ((Npos (XO (XO (XI (XI (XI XH)))))) :: []))
                      false
               else if starts_with ((Npos (XI (XI (XI (XO (XO (XI
                         XH))))))) :: ((Npos (XO (XO (XI (XO (XI (XI
                         XH))))))) :: ((Npos (XI (XI (XO (XI (XI
                         XH)))))) :: []))) s'
                    then xml_value_f f endc (skipn (S (S (S O))) s')
                           (app acc ((Npos (XO (XI (XI (XI (XI
                             XH)))))) :: [])) false
                    else if starts_with ((Npos (XI (XO (XO (XO (XO (XI
                              XH))))))) :: ((Npos (XI (XO (XI (XI (XO (XI
                              XH))))))) :: ((Npos (XO (XO (XO (XO (XI (XI
                              XH))))))) :: ((Npos (XI (XI (XO (XI (XI
                              XH)))))) :: [])))) s'
                         then xml_value_f f endc (skipn (S (S (S (S O)))) s')
                                (app acc ((Npos (XO (XI (XI (XO (XO
                                  XH)))))) :: [])) false
                         else if starts_with ((Npos (XI (XO (XO (XO (XO (XI
                                   XH))))))) :: ((Npos (XO (XO (XO (XO (XI
                                   (XI XH))))))) :: ((Npos (XI (XI (XI (XI
                                   (XO (XI XH))))))) :: ((Npos (XI (XI (XO
                                   (XO (XI (XI XH))))))) :: ((Npos (XI (XI
                                   (XO (XI (XI XH)))))) :: []))))) s'
                              then xml_value_f f endc
                                     (skipn (S (S (S (S (S O))))) s')
                                     (app acc ((Npos (XI (XI (XI (XO (XO
                                       XH)))))) :: [])) false
                              else if starts_with ((Npos (XI (XO (XO (XO (XI
                                        (XI XH))))))) :: ((Npos (XI (XO (XI
                                        (XO (XI (XI XH))))))) :: ((Npos (XI
                                        (XI (XI (XI (XO (XI
                                        XH))))))) :: ((Npos (XO (XO (XI (XO
                                        (XI (XI XH))))))) :: ((Npos (XI (XI
                                        (XO (XI (XI XH)))))) :: []))))) s'
                                   then xml_value_f f endc
                                          (skipn (S (S (S (S (S O))))) s')
                                          (app acc ((Npos (XO (XI (XO (XO (XO
                                            XH)))))) :: [])) false
                                   else Err e_ENTITY
             | n0 :: s2 ->
               (match n0 with
                | N0 ->
                  if starts_with ((Npos (XO (XO (XI (XI (XO (XI
                       XH))))))) :: ((Npos (XO (XO (XI (XO (XI (XI
                       XH))))))) :: ((Npos (XI (XI (XO (XI (XI
                       XH)))))) :: []))) s'
                  then xml_value_f f endc (skipn (S (S (S O))) s')
                         (app acc ((Npos (XO (XO (XI (XI (XI XH)))))) :: []))
                         false
                  else if starts_with ((Npos (XI (XI (XI (XO (XO (XI
                            XH))))))) :: ((Npos (XO (XO (XI (XO (XI (XI
                            XH))))))) :: ((Npos (XI (XI (XO (XI (XI
                            XH)))))) :: []))) s'
                       then xml_value_f f endc (skipn (S (S (S O))) s')
                              (app acc ((Npos (XO (XI (XI (XI (XI
                                XH)))))) :: [])) false
                       else if starts_with ((Npos (XI (XO (XO (XO (XO (XI
                                 XH))))))) :: ((Npos (XI (XO (XI (XI (XO (XI
                                 XH))))))) :: ((Npos (XO (XO (XO (XO (XI (XI
                                 XH))))))) :: ((Npos (XI (XI (XO (XI (XI
                                 XH)))))) :: [])))) s'
                            then xml_value_f f endc
                                   (skipn (S (S (S (S O)))) s')
                                   (app acc ((Npos (XO (XI (XI (XO (XO
                                     XH)))))) :: [])) false
                            else if starts_with ((Npos (XI (XO (XO (XO (XO
                                      (XI XH))))))) :: ((Npos (XO (XO (XO (XO
                                      (XI (XI XH))))))) :: ((Npos (XI (XI (XI
                                      (XI (XO (XI XH))))))) :: ((Npos (XI (XI
                                      (XO (XO (XI (XI XH))))))) :: ((Npos (XI
                                      (XI (XO (XI (XI XH)))))) :: []))))) s'
                                 then xml_value_f f endc
                                        (skipn (S (S (S (S (S O))))) s')
                                        (app acc ((Npos (XI (XI (XI (XO (XO
                                          XH)))))) :: [])) false
                                 else if starts_with ((Npos (XI (XO (XO (XO
                                           (XI (XI XH))))))) :: ((Npos (XI
                                           (XO (XI (XO (XI (XI
                                           XH))))))) :: ((Npos (XI (XI (XI
                                           (XI (XO (XI XH))))))) :: ((Npos
                                           (XO (XO (XI (XO (XI (XI
                                           XH))))))) :: ((Npos (XI (XI (XO
                                           (XI (XI XH)))))) :: []))))) s'
                                      then xml_value_f f endc
                                             (skipn (S (S (S (S (S O))))) s')
                                             (app acc ((Npos (XO (XI (XO (XO
                                               (XO XH)))))) :: [])) false
                                      else Err e_ENTITY
                | Npos p ->
                  (match p with
                   | XI p0 ->
                     (match p0 with
                      | XI p1 ->
                        (match p1 with
                         | XO p2 ->
                           (match p2 with
                            | XO p3 ->
                              (match p3 with
                               | XO p4 ->
                                 (match p4 with
                                  | XH ->
                                    let d = rd0 s2 O in
                                    if is_digit d
                                    then let (n1, r) = scan_dec s2 N0 in
                                         (match r with
                                          | [] -> Err e_EXPSEMI
                                          | n2 :: r' ->
                                            (match n2 with
                                             | N0 -> Err e_EXPSEMI
                                             | Npos p5 ->
                                               (match p5 with
                                                | XI p6 ->
                                                  (match p6 with
                                                   | XI p7 ->
                                                     (match p7 with
                                                      | XO p8 ->
                                                        (match p8 with
                                                         | XI p9 ->
                                                           (match p9 with
                                                            | XI p10 ->
                                                              (match p10 with
                                                               | XH ->
                                                                 (match 
                                                                  pututf8 n1 with
                                                                  | Some bs ->
                                                                    xml_value_f
                                                                    f endc r'
                                                                    (app acc
                                                                    bs) false
                                                                  | None ->
                                                                    Err
                                                                    e_CHARVAL)
                                                               | _ ->
                                                                 Err e_EXPSEMI)
                                                            | _ ->
                                                              Err e_EXPSEMI)
                                                         | _ -> Err e_EXPSEMI)
                                                      | _ -> Err e_EXPSEMI)
                                                   | _ -> Err e_EXPSEMI)
                                                | _ -> Err e_EXPSEMI)))
                                    else if (&&)
                                              (N.eqb d (Npos (XO (XO (XO (XI
                                                (XI (XI XH))))))))
                                              (is_xdigit (rd0 s2 (S O)))
                                         then let (n1, r) =
                                                scan_hex (skipn (S O) s2) N0
                                              in
                                              (match r with
                                               | [] -> Err e_EXPSEMI
                                               | n2 :: r' ->
                                                 (match n2 with
                                                  | N0 -> Err e_EXPSEMI
                                                  | Npos p5 ->
                                                    (match p5 with
                                                     | XI p6 ->
                                                       (match p6 with
                                                        | XI p7 ->
                                                          (match p7 with
                                                           | XO p8 ->
                                                             (match p8 with
                                                              | XI p9 ->
                                                                (match p9 with
                                                                 | XI p10 ->
                                                                   (match p10 with
                                                                    | XH ->
                                                                    (match 
                                                                    pututf8 n1 with
                                                                    | Some bs ->
                                                                    xml_value_f
                                                                    f endc r'
                                                                    (app acc
                                                                    bs) false
                                                                    | None ->
                                                                    Err
                                                                    e_CHARVAL)
                                                                    | _ ->
                                                                    Err
                                                                    e_EXPSEMI)
                                                                 | _ ->
                                                                   Err
                                                                    e_EXPSEMI)
                                                              | _ ->
                                                                Err e_EXPSEMI)
                                                           | _ ->
                                                             Err e_EXPSEMI)
                                                        | _ -> Err e_EXPSEMI)
                                                     | _ -> Err e_EXPSEMI)))
                                         else Err e_CHARREF
                                  | _ ->
                                    if starts_with ((Npos (XO (XO (XI (XI (XO
                                         (XI XH))))))) :: ((Npos (XO (XO (XI
                                         (XO (XI (XI XH))))))) :: ((Npos (XI
                                         (XI (XO (XI (XI XH)))))) :: []))) s'
                                    then xml_value_f f endc
                                           (skipn (S (S (S O))) s')
                                           (app acc ((Npos (XO (XO (XI (XI
                                             (XI XH)))))) :: [])) false
                                    else if starts_with ((Npos (XI (XI (XI
                                              (XO (XO (XI XH))))))) :: ((Npos
                                              (XO (XO (XI (XO (XI (XI
                                              XH))))))) :: ((Npos (XI (XI (XO
                                              (XI (XI XH)))))) :: []))) s'
                                         then xml_value_f f endc
                                                (skipn (S (S (S O))) s')
                                                (app acc ((Npos (XO (XI (XI
                                                  (XI (XI XH)))))) :: []))
                                                false
                                         else if starts_with ((Npos (XI (XO
                                                   (XO (XO (XO (XI
                                                   XH))))))) :: ((Npos (XI
                                                   (XO (XI (XI (XO (XI
                                                   XH))))))) :: ((Npos (XO
                                                   (XO (XO (XO (XI (XI
                                                   XH))))))) :: ((Npos (XI
                                                   (XI (XO (XI (XI
                                                   XH)))))) :: [])))) s'
                                              then xml_value_f f endc
                                                     (skipn (S (S (S (S O))))
                                                       s')
                                                     (app acc ((Npos (XO (XI
                                                       (XI (XO (XO
                                                       XH)))))) :: [])) false
                                              else if starts_with ((Npos (XI
                                                        (XO (XO (XO (XO (XI
                                                        XH))))))) :: ((Npos
                                                        (XO (XO (XO (XO (XI
                                                        (XI
                                                        XH))))))) :: ((Npos
                                                        (XI (XI (XI (XI (XO
                                                        (XI
                                                        XH))))))) :: ((Npos
                                                        (XI (XI (XO (XO (XI
                                                        (XI
                                                        XH))))))) :: ((Npos
                                                        (XI (XI (XO (XI (XI
                                                        XH)))))) :: []))))) s'
                                                   then xml_value_f f endc
                                                          (skipn (S (S (S (S
                                                            (S O))))) s')
                                                          (app acc ((Npos (XI
                                                            (XI (XI (XO (XO
                                                            XH)))))) :: []))
                                                          false
                                                   else if starts_with ((Npos
                                                             (XI (XO (XO (XO
                                                             (XI (XI
                                                             XH))))))) :: ((Npos
                                                             (XI (XO (XI (XO
                                                             (XI (XI
                                                             XH))))))) :: ((Npos
                                                             (XI (XI (XI (XI
                                                             (XO (XI
                                                             XH))))))) :: ((Npos
                                                             (XO (XO (XI (XO
                                                             (XI (XI
                                                             XH))))))) :: ((Npos
                                                             (XI (XI (XO (XI
                                                             (XI
                                                             XH)))))) :: [])))))
                                                             s'
                                                        then xml_value_f f
                                                               endc
                                                               (skipn (S (S
                                                                 (S (S (S
                                                                 O))))) s')
                                                               (app acc
                                                                 ((Npos (XO
                                                                 (XI (XO (XO
                                                                 (XO
                                                                 XH)))))) :: []))
                                                               false
                                                        else Err e_ENTITY)
                               | _ ->
                                 if starts_with ((Npos (XO (XO (XI (XI (XO
                                      (XI XH))))))) :: ((Npos (XO (XO (XI (XO
                                      (XI (XI XH))))))) :: ((Npos (XI (XI (XO
                                      (XI (XI XH)))))) :: []))) s'
                                 then xml_value_f f endc
                                        (skipn (S (S (S O))) s')
                                        (app acc ((Npos (XO (XO (XI (XI (XI
                                          XH)))))) :: [])) false
                                 else if starts_with ((Npos (XI (XI (XI (XO
                                           (XO (XI XH))))))) :: ((Npos (XO
                                           (XO (XI (XO (XI (XI
                                           XH))))))) :: ((Npos (XI (XI (XO
                                           (XI (XI XH)))))) :: []))) s'
                                      then xml_value_f f endc
                                             (skipn (S (S (S O))) s')
                                             (app acc ((Npos (XO (XI (XI (XI
                                               (XI XH)))))) :: [])) false
                                      else if starts_with ((Npos (XI (XO (XO
                                                (XO (XO (XI
                                                XH))))))) :: ((Npos (XI (XO
                                                (XI (XI (XO (XI
                                                XH))))))) :: ((Npos (XO (XO
                                                (XO (XO (XI (XI
                                                XH))))))) :: ((Npos (XI (XI
                                                (XO (XI (XI
                                                XH)))))) :: [])))) s'
                                           then xml_value_f f endc
                                                  (skipn (S (S (S (S O)))) s')
                                                  (app acc ((Npos (XO (XI (XI
                                                    (XO (XO XH)))))) :: []))
                                                  false
                                           else if starts_with ((Npos (XI (XO
                                                     (XO (XO (XO (XI
                                                     XH))))))) :: ((Npos (XO
                                                     (XO (XO (XO (XI (XI
                                                     XH))))))) :: ((Npos (XI
                                                     (XI (XI (XI (XO (XI
                                                     XH))))))) :: ((Npos (XI
                                                     (XI (XO (XO (XI (XI
                                                     XH))))))) :: ((Npos (XI
                                                     (XI (XO (XI (XI
                                                     XH)))))) :: []))))) s'
                                                then xml_value_f f endc
                                                       (skipn (S (S (S (S (S
                                                         O))))) s')
                                                       (app acc ((Npos (XI
                                                         (XI (XI (XO (XO
                                                         XH)))))) :: []))
                                                       false
                                                else if starts_with ((Npos
                                                          (XI (XO (XO (XO (XI
                                                          (XI
                                                          XH))))))) :: ((Npos
                                                          (XI (XO (XI (XO (XI
                                                          (XI
                                                          XH))))))) :: ((Npos
                                                          (XI (XI (XI (XI (XO
                                                          (XI
                                                          XH))))))) :: ((Npos
                                                          (XO (XO (XI (XO (XI
                                                          (XI
                                                          XH))))))) :: ((Npos
                                                          (XI (XI (XO (XI (XI
                                                          XH)))))) :: [])))))
                                                          s'
                                                     then xml_value_f f endc
                                                            (skipn (S (S (S
                                                              (S (S O))))) s')
                                                            (app acc ((Npos
                                                              (XO (XI (XO (XO
                                                              (XO
                                                              XH)))))) :: []))
                                                            false
                                                     else Err e_ENTITY)
                            | _ ->
                              if starts_with ((Npos (XO (XO (XI (XI (XO (XI
                                   XH))))))) :: ((Npos (XO (XO (XI (XO (XI
                                   (XI XH))))))) :: ((Npos (XI (XI (XO (XI
                                   (XI XH)))))) :: []))) s'
                              then xml_value_f f endc
                                     (skipn (S (S (S O))) s')
                                     (app acc ((Npos (XO (XO (XI (XI (XI
                                       XH)))))) :: [])) false
                              else if starts_with ((Npos (XI (XI (XI (XO (XO
                                        (XI XH))))))) :: ((Npos (XO (XO (XI
                                        (XO (XI (XI XH))))))) :: ((Npos (XI
                                        (XI (XO (XI (XI XH)))))) :: []))) s'
                                   then xml_value_f f endc
                                          (skipn (S (S (S O))) s')
                                          (app acc ((Npos (XO (XI (XI (XI (XI
                                            XH)))))) :: [])) false
                                   else if starts_with ((Npos (XI (XO (XO (XO
                                             (XO (XI XH))))))) :: ((Npos (XI
                                             (XO (XI (XI (XO (XI
                                             XH))))))) :: ((Npos (XO (XO (XO
                                             (XO (XI (XI XH))))))) :: ((Npos
                                             (XI (XI (XO (XI (XI
                                             XH)))))) :: [])))) s'
                                        then xml_value_f f endc
                                               (skipn (S (S (S (S O)))) s')
                                               (app acc ((Npos (XO (XI (XI
                                                 (XO (XO XH)))))) :: []))
                                               false
                                        else if starts_with ((Npos (XI (XO
                                                  (XO (XO (XO (XI
                                                  XH))))))) :: ((Npos (XO (XO
                                                  (XO (XO (XI (XI
                                                  XH))))))) :: ((Npos (XI (XI
                                                  (XI (XI (XO (XI
                                                  XH))))))) :: ((Npos (XI (XI
                                                  (XO (XO (XI (XI
                                                  XH))))))) :: ((Npos (XI (XI
                                                  (XO (XI (XI
                                                  XH)))))) :: []))))) s'
                                             then xml_value_f f endc
                                                    (skipn (S (S (S (S (S
                                                      O))))) s')
                                                    (app acc ((Npos (XI (XI
                                                      (XI (XO (XO
                                                      XH)))))) :: [])) false
                                             else if starts_with ((Npos (XI
                                                       (XO (XO (XO (XI (XI
                                                       XH))))))) :: ((Npos
                                                       (XI (XO (XI (XO (XI
                                                       (XI
                                                       XH))))))) :: ((Npos
                                                       (XI (XI (XI (XI (XO
                                                       (XI
                                                       XH))))))) :: ((Npos
                                                       (XO (XO (XI (XO (XI
                                                       (XI
                                                       XH))))))) :: ((Npos
                                                       (XI (XI (XO (XI (XI
                                                       XH)))))) :: []))))) s'
                                                  then xml_value_f f endc
                                                         (skipn (S (S (S (S
                                                           (S O))))) s')
                                                         (app acc ((Npos (XO
                                                           (XI (XO (XO (XO
                                                           XH)))))) :: []))
                                                         false
                                                  else Err e_ENTITY)
                         | _ ->
                           if starts_with ((Npos (XO (XO (XI (XI (XO (XI
                                XH))))))) :: ((Npos (XO (XO (XI (XO (XI (XI
                                XH))))))) :: ((Npos (XI (XI (XO (XI (XI
                                XH)))))) :: []))) s'
                           then xml_value_f f endc (skipn (S (S (S O))) s')
                                  (app acc ((Npos (XO (XO (XI (XI (XI
                                    XH)))))) :: [])) false
                           else if starts_with ((Npos (XI (XI (XI (XO (XO (XI
                                     XH))))))) :: ((Npos (XO (XO (XI (XO (XI
                                     (XI XH))))))) :: ((Npos (XI (XI (XO (XI
                                     (XI XH)))))) :: []))) s'
                                then xml_value_f f endc
                                       (skipn (S (S (S O))) s')
                                       (app acc ((Npos (XO (XI (XI (XI (XI
                                         XH)))))) :: [])) false
                                else if starts_with ((Npos (XI (XO (XO (XO
                                          (XO (XI XH))))))) :: ((Npos (XI (XO
                                          (XI (XI (XO (XI XH))))))) :: ((Npos
                                          (XO (XO (XO (XO (XI (XI
                                          XH))))))) :: ((Npos (XI (XI (XO (XI
                                          (XI XH)))))) :: [])))) s'
                                     then xml_value_f f endc
                                            (skipn (S (S (S (S O)))) s')
                                            (app acc ((Npos (XO (XI (XI (XO
                                              (XO XH)))))) :: [])) false
                                     else if starts_with ((Npos (XI (XO (XO
                                               (XO (XO (XI
                                               XH))))))) :: ((Npos (XO (XO
                                               (XO (XO (XI (XI
                                               XH))))))) :: ((Npos (XI (XI
                                               (XI (XI (XO (XI
                                               XH))))))) :: ((Npos (XI (XI
                                               (XO (XO (XI (XI
                                               XH))))))) :: ((Npos (XI (XI
                                               (XO (XI (XI
                                               XH)))))) :: []))))) s'
                                          then xml_value_f f endc
                                                 (skipn (S (S (S (S (S O)))))
                                                   s')
                                                 (app acc ((Npos (XI (XI (XI
                                                   (XO (XO XH)))))) :: []))
                                                 false
                                          else if starts_with ((Npos (XI (XO
                                                    (XO (XO (XI (XI
                                                    XH))))))) :: ((Npos (XI
                                                    (XO (XI (XO (XI (XI
                                                    XH))))))) :: ((Npos (XI
                                                    (XI (XI (XI (XO (XI
                                                    XH))))))) :: ((Npos (XO
                                                    (XO (XI (XO (XI (XI
                                                    XH))))))) :: ((Npos (XI
                                                    (XI (XO (XI (XI
                                                    XH)))))) :: []))))) s'
                                               then xml_value_f f endc
                                                      (skipn (S (S (S (S (S
                                                        O))))) s')
                                                      (app acc ((Npos (XO (XI
                                                        (XO (XO (XO
                                                        XH)))))) :: [])) false
                                               else Err e_ENTITY)
                      | _ ->
                        if starts_with ((Npos (XO (XO (XI (XI (XO (XI
                             XH))))))) :: ((Npos (XO (XO (XI (XO (XI (XI
                             XH))))))) :: ((Npos (XI (XI (XO (XI (XI
                             XH)))))) :: []))) s'
                        then xml_value_f f endc (skipn (S (S (S O))) s')
                               (app acc ((Npos (XO (XO (XI (XI (XI
                                 XH)))))) :: [])) false
                        else if starts_with ((Npos (XI (XI (XI (XO (XO (XI
                                  XH))))))) :: ((Npos (XO (XO (XI (XO (XI (XI
                                  XH))))))) :: ((Npos (XI (XI (XO (XI (XI
                                  XH)))))) :: []))) s'
                             then xml_value_f f endc (skipn (S (S (S O))) s')
                                    (app acc ((Npos (XO (XI (XI (XI (XI
                                      XH)))))) :: [])) false
                             else if starts_with ((Npos (XI (XO (XO (XO (XO
                                       (XI XH))))))) :: ((Npos (XI (XO (XI
                                       (XI (XO (XI XH))))))) :: ((Npos (XO
                                       (XO (XO (XO (XI (XI
                                       XH))))))) :: ((Npos (XI (XI (XO (XI
                                       (XI XH)))))) :: [])))) s'
                                  then xml_value_f f endc
                                         (skipn (S (S (S (S O)))) s')
                                         (app acc ((Npos (XO (XI (XI (XO (XO
                                           XH)))))) :: [])) false
                                  else if starts_with ((Npos (XI (XO (XO (XO
                                            (XO (XI XH))))))) :: ((Npos (XO
                                            (XO (XO (XO (XI (XI
                                            XH))))))) :: ((Npos (XI (XI (XI
                                            (XI (XO (XI XH))))))) :: ((Npos
                                            (XI (XI (XO (XO (XI (XI
                                            XH))))))) :: ((Npos (XI (XI (XO
                                            (XI (XI XH)))))) :: []))))) s'
                                       then xml_value_f f endc
                                              (skipn (S (S (S (S (S O))))) s')
                                              (app acc ((Npos (XI (XI (XI (XO
                                                (XO XH)))))) :: [])) false
                                       else if starts_with ((Npos (XI (XO (XO
                                                 (XO (XI (XI
                                                 XH))))))) :: ((Npos (XI (XO
                                                 (XI (XO (XI (XI
                                                 XH))))))) :: ((Npos (XI (XI
                                                 (XI (XI (XO (XI
                                                 XH))))))) :: ((Npos (XO (XO
                                                 (XI (XO (XI (XI
                                                 XH))))))) :: ((Npos (XI (XI
                                                 (XO (XI (XI
                                                 XH)))))) :: []))))) s'
                                            then xml_value_f f endc
                                                   (skipn (S (S (S (S (S
                                                     O))))) s')
                                                   (app acc ((Npos (XO (XI
                                                     (XO (XO (XO
                                                     XH)))))) :: [])) false
                                            else Err e_ENTITY)
                   | _ ->
                     if starts_with ((Npos (XO (XO (XI (XI (XO (XI
                          XH))))))) :: ((Npos (XO (XO (XI (XO (XI (XI
                          XH))))))) :: ((Npos (XI (XI (XO (XI (XI
                          XH)))))) :: []))) s'
                     then xml_value_f f endc (skipn (S (S (S O))) s')
                            (app acc ((Npos (XO (XO (XI (XI (XI
                              XH)))))) :: [])) false
                     else if starts_with ((Npos (XI (XI (XI (XO (XO (XI
                               XH))))))) :: ((Npos (XO (XO (XI (XO (XI (XI
                               XH))))))) :: ((Npos (XI (XI (XO (XI (XI
                               XH)))))) :: []))) s'
                          then xml_value_f f endc (skipn (S (S (S O))) s')
                                 (app acc ((Npos (XO (XI (XI (XI (XI
                                   XH)))))) :: [])) false
                          else if starts_with ((Npos (XI (XO (XO (XO (XO (XI
                                    XH))))))) :: ((Npos (XI (XO (XI (XI (XO
                                    (XI XH))))))) :: ((Npos (XO (XO (XO (XO
                                    (XI (XI XH))))))) :: ((Npos (XI (XI (XO
                                    (XI (XI XH)))))) :: [])))) s'
                               then xml_value_f f endc
                                      (skipn (S (S (S (S O)))) s')
                                      (app acc ((Npos (XO (XI (XI (XO (XO
                                        XH)))))) :: [])) false
                               else if starts_with ((Npos (XI (XO (XO (XO (XO
                                         (XI XH))))))) :: ((Npos (XO (XO (XO
                                         (XO (XI (XI XH))))))) :: ((Npos (XI
                                         (XI (XI (XI (XO (XI
                                         XH))))))) :: ((Npos (XI (XI (XO (XO
                                         (XI (XI XH))))))) :: ((Npos (XI (XI
                                         (XO (XI (XI XH)))))) :: []))))) s'
                                    then xml_value_f f endc
                                           (skipn (S (S (S (S (S O))))) s')
                                           (app acc ((Npos (XI (XI (XI (XO
                                             (XO XH)))))) :: [])) false
                                    else if starts_with ((Npos (XI (XO (XO
                                              (XO (XI (XI XH))))))) :: ((Npos
                                              (XI (XO (XI (XO (XI (XI
                                              XH))))))) :: ((Npos (XI (XI (XI
                                              (XI (XO (XI XH))))))) :: ((Npos
                                              (XO (XO (XI (XO (XI (XI
                                              XH))))))) :: ((Npos (XI (XI (XO
                                              (XI (XI XH)))))) :: []))))) s'
                                         then xml_value_f f endc
                                                (skipn (S (S (S (S (S O)))))
                                                  s')
                                                (app acc ((Npos (XO (XI (XO
                                                  (XO (XO XH)))))) :: []))
                                                false
                                         else Err e_ENTITY)))
       else if starts_with cdata_hdr s
            then (match find_cdata_end
                          (skipn (S (S (S (S (S (S (S (S (S O))))))))) s) [] with
                  | Some p ->
                    let (body, r) = p in
                    xml_value_f f endc r (app acc body)
                      ((&&) ws (forallb is_xmlws body))
                  | None -> Err e_CDATA)
            else if N.eqb c endc
                 then Ok ((acc, s), ws)
                 else (match getutf8 s with
                       | Some p ->
                         let (_, u) = p in
                         xml_value_f f endc (skipn u s)
                           (app acc (firstn u s)) ((&&) ws (is_xmlws c))
                       | None -> Err e_INCHAR))

(** val xml_value : n -> bytes -> ((bytes * bytes) * bool) res **)

let xml_value endc s =
  xml_value_f (S (length s)) endc s [] true
