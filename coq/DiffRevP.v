(* DiffRevP.v -- lemmas about DiffRev.v: reversing a diff that means [fa becomes fb] (DiffTreeP.LevelSp / Sp) gives a diff that
   means [fb becomes fa]; with DiffTreeP.apply_level_sp: apply (reverse (diff A B)) B = A. *)
From Coq Require Import Permutation Sorted.
From LY Require Import Base Tree TreeP DiffTree DiffTreeP DiffRev.
From Coq Require Import ZifyBool ZifyNat ZifyN.
Local Open Scope N_scope.

Section WithSchema.
Variable sch : schema.

(* ------------------------------------------------------------------------------------------- *)
(* duplicated subtrees carry no operation below their root                                       *)
(* ------------------------------------------------------------------------------------------- *)
Lemma rm_op_lift ex n : rm_op ex (lift n) = (lift n, false).
Proof.
  induction n as [s v d m ch IH] using dnode_ind'. rewrite lift_unfold. cbn [rm_op].
  assert (H : forall l, Forall (fun c => rm_op ex (lift c) = (lift c, false)) l ->
            (fix go (l : list dd) : list dd * bool :=
               match l with
               | [] => ([], false)
               | c :: r => let '(c', ab) := rm_op ex c in
                           if ab then (c' :: r, true) else let '(r', ab') := go r in (c' :: r', ab')
               end) (map lift l) = (map lift l, false)).
  { induction l as [|c l IHl]; intro Hf; [reflexivity|]. cbn [map]. inversion Hf as [|? ? Hc Hl]; subst.
    rewrite Hc, (IHl Hl). reflexivity. }
  rewrite (H ch IH). reflexivity.
Qed.

Lemma map_rm_op_lift ex l : map (fun c => fst (rm_op ex c)) (map lift l) = map lift l.
Proof. rewrite map_map. apply map_ext. intro c. rewrite rm_op_lift. reflexivity. Qed.

Lemma redup_lift n : redup (lift n) = lift n.
Proof.
  induction n as [s v d m ch IH] using dnode_ind'. rewrite lift_unfold. cbn [redup].
  assert (E : map redup (map lift ch) = map lift ch).
  { rewrite map_map. apply map_ext_in. intros c Hc. rewrite Forall_forall in IH. apply IH, Hc. }
  rewrite E. f_equal. destruct d; [|reflexivity]. cbn [andb]. destruct (forallb dd_dflt (map lift ch)); reflexivity.
Qed.

Lemma redup_set_op d o : redup (dd_set_op d o) = dd_set_op (redup d) o.
Proof. destruct d; reflexivity. Qed.

Lemma dd_sid_redup d : dd_sid (redup d) = dd_sid d.
Proof. destruct d; reflexivity. Qed.

Lemma dd_nokeys_map_redup l : dd_nokeys sch (map redup l) = map redup (dd_nokeys sch l).
Proof.
  induction l as [|x l IH]; [reflexivity|]. cbn [map dd_nokeys]. rewrite dd_sid_redup.
  destruct (is_key sch (dd_sid x)); [exact IH|reflexivity].
Qed.

Lemma dd_leadkeys_map_redup l : dd_leadkeys sch (map redup l) = map redup (dd_leadkeys sch l).
Proof.
  induction l as [|x l IH]; [reflexivity|]. cbn [map dd_leadkeys]. rewrite dd_sid_redup.
  destruct (is_key sch (dd_sid x)); [cbn [map]; f_equal; exact IH|reflexivity].
Qed.

Lemma dd_lead_nokeys l : l = dd_leadkeys sch l ++ dd_nokeys sch l.
Proof.
  induction l as [|x l IH]; [reflexivity|]. cbn [dd_leadkeys dd_nokeys].
  destruct (is_key sch (dd_sid x)); [cbn [app]; f_equal; exact IH|reflexivity].
Qed.

Lemma dd_leadkeys_in l x : In x (dd_leadkeys sch l) -> In x l /\ is_key sch (dd_sid x) = true.
Proof.
  induction l as [|y l IH]; [intros []|]. cbn [dd_leadkeys]. destruct (is_key sch (dd_sid y)) eqn:E; [|intros []].
  intros [->|H]; [split; [left; reflexivity|exact E]|]. destruct (IH H). split; [right|]; assumption.
Qed.

Lemma redup_childless d : dd_ch d = [] -> redup d = d.
Proof. destruct d as [s v f o od ov ch]. cbn [dd_ch]. intros ->. cbn [redup map forallb]. rewrite andb_true_r. reflexivity. Qed.

(* ------------------------------------------------------------------------------------------- *)
(* rebuilding an inner none node around changed items                                            *)
(* ------------------------------------------------------------------------------------------- *)
Lemma sp_inner_build inh s v f op od ov K items a i chb :
  eff_op inh op = Some OpNone -> is_term sch s = false ->
  (forall k, In k K -> is_key sch (dd_sid k) = true) -> (forall k, In k K -> dd_ch k = []) ->
  (forall c, In c items -> is_key sch (dd_sid c) = false) -> items <> [] ->
  (forall fl' o' od' ov' r', dd_id sch (DD s v fl' o' od' ov' (K ++ r')) = Some i) ->
  inst_id sch a = Some i -> d_sid a = s ->
  LevelSp sch (Sp sch (child_inh inh op)) items (d_ch a) chb ->
  SibOk sch (d_ch a) -> AllSome sch (d_ch a) -> SibOk sch chb -> AllSome sch chb ->
  d_dflt a = is_np_cont sch (d_sid a) && forallb d_dflt (d_ch a) ->
  inst_id sch (set_ch a chb) = Some i ->
  (multi sch (d_sid a) = true -> node_key sch a = node_key sch (set_ch a chb)) ->
  Sp sch inh (DD s v f op od ov (K ++ items)) (Some a)
     (Some (set_dflt (set_ch a chb) (is_np_cont sch (d_sid a) && forallb d_dflt chb))).
Proof.
  intros He Ht HK HKc Hit Hne Hid Ha Hs Hlev Sa Hsa Sb Hsb Hfl Hidb Hkey.
  assert (En : dd_nokeys sch (K ++ items) = items) by (apply dd_nokeys_app_keys; assumption).
  assert (El : dd_leadkeys sch (K ++ items) = K) by (apply dd_leadkeys_app_keys; assumption).
  apply (Sp_none_inner sch inh _ a i chb); cbn [dd_op dd_sid dd_ch dd_val].
  - exact He.
  - exact Ht.
  - apply Hid.
  - exact Ha.
  - exact Hs.
  - rewrite En. exact Hne.
  - rewrite En. exact Hlev.
  - exact Sa.
  - exact Hsa.
  - exact Sb.
  - exact Hsb.
  - exact Hfl.
  - exact Hidb.
  - exact Hkey.
  - rewrite En. exact Hit.
  - rewrite El. exact Hid.
  - rewrite El. exact HKc.
Qed.

(* ------------------------------------------------------------------------------------------- *)
(* lyd_dup_siblings of a diff keeps its meaning                                                   *)
(* ------------------------------------------------------------------------------------------- *)
Lemma flat_map_map_comp {A B C} (f : B -> list C) (g : A -> B) l : flat_map f (map g l) = flat_map (fun x => f (g x)) l.
Proof. induction l as [|a l IH]; [reflexivity|]. cbn [map flat_map]. rewrite IH. reflexivity. Qed.

Lemma levelsp_map (P Q : dd -> option dnode -> option dnode -> Prop) (g : dd -> dd) ds fa fb :
  (forall d, dd_id sch (g d) = dd_id sch d) ->
  (forall d oa ob, In d ds -> P d oa ob -> Q (g d) oa ob) ->
  LevelSp sch P ds fa fb -> LevelSp sch Q (map g ds) fa fb.
Proof.
  intros Hid HPQ [its [unch [Eds [Hsp [Hnd [Hpa Hpb]]]]]]. subst ds.
  exists (map (fun it => mkitem (g (it_d it)) (it_a it) (it_b it)) its), unch.
  split; [rewrite !map_map; reflexivity|].
  split.
  { apply Forall_forall. intros it' Hit'. apply in_map_iff in Hit'. destruct Hit' as [it [<- Hit]]. cbn [it_d it_a it_b].
    rewrite Forall_forall in Hsp. apply HPQ; [apply in_map; exact Hit|apply Hsp, Hit]. }
  split.
  { unfold itIds in *. rewrite map_map. cbn [it_d]. erewrite map_ext; [exact Hnd|]. intro it. apply Hid. }
  split.
  - rewrite Hpa. apply Permutation_app_tail. unfold itA. rewrite flat_map_map_comp. reflexivity.
  - rewrite Hpb. apply Permutation_app_tail. unfold itB. rewrite flat_map_map_comp. reflexivity.
Qed.

(* the identity of a node does not depend on default flags, nor on anything but schema node and value of its children *)
Lemma child_val_rel l l' k :
  Forall2 (fun x y => d_sid x = d_sid y /\ d_val x = d_val y) l l' -> child_val l k = child_val l' k.
Proof.
  induction 1 as [|x y l l' [Hs Hv] HF IH]; [reflexivity|].
  unfold child_val, find_sid in *. cbn [find]. rewrite <- Hs. destruct (d_sid x =? k); [exact Hv|exact IH].
Qed.

Lemma inst_id_rel s v f m ch f' m' ch' :
  Forall2 (fun x y => d_sid x = d_sid y /\ d_val x = d_val y) ch ch' ->
  inst_id sch (DN s v f m ch) = inst_id sch (DN s v f' m' ch').
Proof.
  intro H. unfold inst_id. cbn [d_sid d_val]. destruct (dup_inst sch s); [reflexivity|].
  destruct (kind_of sch s); try reflexivity. f_equal. f_equal. unfold key_vals. cbn [d_ch d_sid].
  apply map_ext. intro k. apply child_val_rel. exact H.
Qed.

Lemma dd_val_redup d : dd_val (redup d) = dd_val d.
Proof. destruct d; reflexivity. Qed.

Lemma dd_id_redup d : dd_id sch (redup d) = dd_id sch d.
Proof.
  destruct d as [s v f o od ov ch]. unfold dd_id. cbn [redup dd_node]. apply inst_id_rel.
  induction ch as [|c ch IH]; [constructor|]. cbn [map]. constructor; [|exact IH].
  destruct c as [s' v' f' o' od' ov' ch']. cbn. split; reflexivity.
Qed.

Theorem redup_sp d : forall inh oa ob, Sp sch inh d oa ob -> Sp sch inh (redup d) oa ob.
Proof.
  induction d as [s v fl op od ov ch IH] using dd_ind'. intros inh oa ob H.
  inversion H as [inh0 d0 a i He Ha Hdd Hwf | inh0 d0 b i He Hb Hdd Hwf | inh0 d0 a i He Hk Hd Ha Hs Hne Hov Hod Hch0
                 | inh0 d0 a i He Hk Hd Ha Hod Hch0 Hnany Hreal
                 | inh0 d0 a i chb He Hk Hd Ha Hs Hnk Hlev Sa Hsa Sb Hsb Hfl Hidb Hkey Hnkey Hidk Hkch]; subst.
  - rewrite Hdd, redup_set_op, redup_lift, <- Hdd. exact H.
  - rewrite Hdd, redup_set_op, redup_lift, <- Hdd. exact H.
  - rewrite (redup_childless _ Hch0). exact H.
  - rewrite (redup_childless _ Hch0). exact H.
  - cbn [dd_op dd_sid dd_ch dd_val] in *. cbn [redup].
    assert (Ech : map redup ch = dd_leadkeys sch ch ++ map redup (dd_nokeys sch ch)).
    { rewrite (dd_lead_nokeys ch) at 1. rewrite map_app. f_equal.
      rewrite <- (map_id (dd_leadkeys sch ch)) at 2. apply map_ext_in. intros k Hkin. apply redup_childless, Hkch, Hkin. }
    rewrite Ech.
    apply (sp_inner_build inh s v _ op od ov (dd_leadkeys sch ch) (map redup (dd_nokeys sch ch)) a i chb); try assumption.
    + intros k Hkin. apply (dd_leadkeys_in _ _ Hkin).
    + intros c Hc. apply in_map_iff in Hc. destruct Hc as [c0 [<- Hc0]]. rewrite dd_sid_redup. apply Hnkey, Hc0.
    + destruct (dd_nokeys sch ch); [congruence|discriminate].
    + apply (levelsp_map (Sp sch (child_inh inh op)) (Sp sch (child_inh inh op)) redup); [apply dd_id_redup| |exact Hlev].
      intros d oa ob Hd' Hsp. rewrite Forall_forall in IH. apply IH; [apply (dd_nokeys_in sch _ _ Hd')|exact Hsp].
Qed.

(* ------------------------------------------------------------------------------------------- *)
(* reversing one node                                                                            *)
(* ------------------------------------------------------------------------------------------- *)
Lemma rev_node_eq inh s v f op od ov ch :
  rev_node sch inh (DD s v f op od ov ch) =
    if is_key sch s then Ok (DD s v f op od ov ch, false)
    else
      match eff_op inh op with
      | None => Err e_int
      | Some OpCreate => Ok (DD s v f (Some OpDelete) od ov (map (fun c => fst (rm_op OpCreate c)) ch), false)
      | Some OpDelete => Ok (DD s v f (Some OpCreate) od ov (map (fun c => fst (rm_op OpDelete c)) ch), false)
      | Some OpReplace =>
          match kind_of sch s with
          | KLeaf =>
              match ov with
              | None => Err e_inval
              | Some o1 =>
                  if beq_bytes o1 v then Err (if f then e_exist else e_not)
                  else match rev_default (DD s o1 f op od (Some v) ch) with
                       | Err e => Err e
                       | Ok d' => Ok (d', f)
                       end
              end
          | KAny | KList | KLeafList => Err e_unsupported
          | KCont _ => Err e_int
          end
      | Some OpNone =>
          match kind_of sch s with
          | KLeaf | KLeafList =>
              match rev_default (DD s v f op od ov ch) with
              | Err e => Err e
              | Ok d' => Ok (d', false)
              end
          | _ =>
              match rev_children (rev_node sch (child_inh inh op)) ch f false with
              | Err e => Err e
              | Ok (ch', f', up) => Ok (DD s v f' op od ov ch', up)
              end
          end
      end.
Proof. reflexivity. Qed.

Lemma rev_default_eq d x : dd_odflt d = Some x -> rev_default d = Ok (dd_set_odflt (dd_set_dflt d x) (Some (dd_dflt d))).
Proof.
  destruct d as [s v f o od ov ch]. cbn [dd_odflt]. intros ->. unfold rev_default. cbn [dd_odflt dd_dflt].
  destruct (Bool.eqb x f) eqn:E; [|reflexivity]. apply Bool.eqb_prop in E. subst. reflexivity.
Qed.

Lemma inst_id_flag s v f m ch f' : inst_id sch (DN s v f m ch) = inst_id sch (DN s v f' m ch).
Proof. reflexivity. Qed.

Lemma rev_children_keys step : forall K r fl up,
  (forall k, In k K -> step k = Ok (k, false)) ->
  rev_children step (K ++ r) fl up =
    match rev_children step r fl up with
    | Err e => Err e
    | Ok (r', fl', up') => Ok (K ++ r', fl', up')
    end.
Proof.
  induction K as [|k K IH]; intros r fl up HK; cbn [app].
  - destruct (rev_children step r fl up) as [[[r' fl'] up']|]; reflexivity.
  - cbn [rev_children]. rewrite (HK k (or_introl eq_refl)). cbn [andb]. rewrite orb_false_r.
    rewrite IH; [|intros x Hx; apply HK; right; exact Hx].
    destruct (rev_children step r fl up) as [[[r' fl'] up']|]; reflexivity.
Qed.

Lemma rev_node_key inh k : is_key sch (dd_sid k) = true -> rev_node sch inh k = Ok (k, false).
Proof. destruct k as [s v f o od ov ch]. cbn [dd_sid]. intro H. rewrite rev_node_eq, H. reflexivity. Qed.

Definition RevOk (inh : option dop) (it : item) : Prop :=
  exists d' w, rev_node sch inh (it_d it) = Ok (d', w) /\ Sp sch inh d' (it_b it) (it_a it) /\
               dd_id sch d' = dd_id sch (it_d it) /\ dd_sid d' = dd_sid (it_d it).

Lemma rev_children_items inh : forall its fl up,
  Forall (RevOk inh) its ->
  exists its' fl' up',
    rev_children (rev_node sch inh) (map it_d its) fl up = Ok (map it_d its', fl', up') /\
    Forall (fun it => Sp sch inh (it_d it) (it_a it) (it_b it)) its' /\
    map it_a its' = map it_b its /\ map it_b its' = map it_a its /\ itIds sch its' = itIds sch its /\
    map (fun it => dd_sid (it_d it)) its' = map (fun it => dd_sid (it_d it)) its.
Proof.
  induction its as [|it its IH]; intros fl up Hf.
  - exists [], fl, up. cbn. repeat split. constructor.
  - pose proof (Forall_inv Hf) as [d' [w [E [Hsp [Hid Hsid]]]]]. pose proof (Forall_inv_tail Hf) as Hf'.
    cbn [map rev_children]. rewrite E.
    destruct (IH (if w then false else fl) (up || (w && fl)) Hf') as [its' [fl' [up' [E' [F [Ea [Eb [Eid Es]]]]]]]].
    rewrite E'. exists (mkitem d' (it_b it) (it_a it) :: its'), fl', up'. cbn [map it_d it_a it_b].
    split; [reflexivity|]. split; [constructor; [exact Hsp|exact F]|].
    split; [f_equal; exact Ea|]. split; [f_equal; exact Eb|].
    split; [unfold itIds in *; cbn [map it_d]; f_equal; [exact Hid|exact Eid]|].
    f_equal; [exact Hsid|exact Es].
Qed.

Lemma inst_id_leaf_indep s v f m ch v' f' m' ch' :
  kind_of sch s = KLeaf -> inst_id sch (DN s v f m ch) = inst_id sch (DN s v' f' m' ch').
Proof. intro Hk. unfold inst_id. cbn [d_sid]. rewrite Hk. reflexivity. Qed.

Lemma set_roundtrip_replace a vb fb : set_dflt (set_val (set_dflt (set_val a vb) fb) (d_val a)) (d_dflt a) = a.
Proof. destruct a; reflexivity. Qed.

Lemma set_roundtrip_dflt a fb : set_dflt (set_dflt a fb) (d_dflt a) = a.
Proof. destruct a; reflexivity. Qed.

Lemma d_val_set_dflt n f : d_val (set_dflt n f) = d_val n.
Proof. destruct n; reflexivity. Qed.
Lemma d_val_set_val n v : d_val (set_val n v) = v.
Proof. destruct n; reflexivity. Qed.
Lemma d_ch_set_dflt n f : d_ch (set_dflt n f) = d_ch n.
Proof. destruct n; reflexivity. Qed.
Lemma d_ch_set_ch n c : d_ch (set_ch n c) = c.
Proof. destruct n; reflexivity. Qed.

Theorem rev_sp d : forall inh oa ob, Sp sch inh d oa ob -> is_key sch (dd_sid d) = false -> RevOk inh (mkitem d oa ob).
Proof.
  induction d as [s v fl op od ov ch IH] using dd_ind'. intros inh oa ob H Hnk0. unfold RevOk. cbn [it_d it_a it_b].
  cbn [dd_sid] in Hnk0. rewrite rev_node_eq, Hnk0.
  inversion H as [inh0 d0 a i He Ha Hdd Hwf | inh0 d0 b i He Hb Hdd Hwf | inh0 d0 a i He Hk Hd Ha Hs Hne Hov Hod Hch0
                 | inh0 d0 a i He Hk Hd Ha Hod Hch0 Hnany Hreal
                 | inh0 d0 a i chb He Hk Hd Ha Hs Hnk Hlev Sa Hsa Sb Hsb Hfl Hidb Hkey Hnkey Hidk Hkch]; subst;
    cbn [dd_op dd_sid dd_ch dd_val dd_dflt dd_oval dd_odflt] in *.
  - (* delete -> create *)
    rewrite He. destruct a as [sa va da ma cha]. rewrite lift_unfold in Hdd. cbn [dd_set_op] in Hdd. inversion Hdd; subst.
    rewrite map_rm_op_lift. eexists _, _. split; [reflexivity|].
    split.
    { apply (Sp_create sch inh _ (DN sa va da ma cha) i); [reflexivity|exact Ha| |exact Hwf].
      rewrite lift_unfold. reflexivity. }
    split; [|reflexivity]. unfold dd_id. reflexivity.
  - rewrite He. destruct b as [sb vb db mb chb]. rewrite lift_unfold in Hdd. cbn [dd_set_op] in Hdd. inversion Hdd; subst.
    rewrite map_rm_op_lift. eexists _, _. split; [reflexivity|].
    split.
    { apply (Sp_delete sch inh _ (DN sb vb db mb chb) i); [reflexivity|exact Hb| |exact Hwf].
      rewrite lift_unfold. reflexivity. }
    split; [|reflexivity]. unfold dd_id. reflexivity.
  - (* replace *)
    subst ov od. rewrite He, Hk. rewrite (beq_bytes_false_sym _ _ Hne).
    rewrite (rev_default_eq _ (d_dflt a)); [|reflexivity]. cbn [dd_set_dflt dd_set_odflt dd_dflt].
    eexists _, _. split; [reflexivity|].
    assert (Hidd : dd_id sch (DD s (d_val a) (d_dflt a) op (Some fl) (Some v) ch) = Some i).
    { rewrite <- Hd. unfold dd_id. cbn [dd_node]. apply inst_id_leaf_indep. exact Hk. }
    assert (Hib : inst_id sch (set_dflt (set_val a v) fl) = Some i).
    { rewrite inst_id_set_dflt, inst_id_set_val_leaf; [exact Ha|rewrite Hs; exact Hk]. }
    split.
    { pose proof (Sp_replace sch inh (DD s (d_val a) (d_dflt a) op (Some fl) (Some v) ch) (set_dflt (set_val a v) fl) i) as G.
      cbn [dd_op dd_sid dd_val dd_dflt dd_oval dd_odflt dd_ch] in G. rewrite set_roundtrip_replace in G. apply G; clear G.
      - exact He.
      - exact Hk.
      - exact Hidd.
      - exact Hib.
      - rewrite d_sid_set_dflt, d_sid_set_val. exact Hs.
      - rewrite d_val_set_dflt, d_val_set_val. apply (beq_bytes_false_sym _ _ Hne).
      - rewrite d_val_set_dflt, d_val_set_val. reflexivity.
      - rewrite d_dflt_set_dflt. reflexivity.
      - exact Hch0. }
    split; [rewrite Hidd, Hd; reflexivity|reflexivity].
  - (* none on a leaf / leaf-list *)
    subst od ch. rewrite He.
    assert (Erd : rev_default (DD s v fl op (Some (d_dflt a)) ov []) =
                  Ok (DD s v (d_dflt a) op (Some fl) ov [])).
    { rewrite (rev_default_eq _ (d_dflt a)); reflexivity. }
    assert (Hres : exists d' w, (match kind_of sch s with
                                 | KLeaf | KLeafList =>
                                     match rev_default (DD s v fl op (Some (d_dflt a)) ov []) with
                                     | Err e => Err e
                                     | Ok d' => Ok (d', false)
                                     end
                                 | _ => match rev_children (rev_node sch (child_inh inh op)) [] fl false with
                                        | Err e => Err e
                                        | Ok (ch', f', up) => Ok (DD s v f' op (Some (d_dflt a)) ov ch', up)
                                        end
                                 end) = Ok (d', w) /\ d' = DD s v (d_dflt a) op (Some fl) ov []).
    { rewrite is_term_kind_of in Hk. destruct (kind_of sch s); cbn in Hk; try discriminate; try congruence;
        rewrite Erd; eexists _, _; split; reflexivity. }
    destruct Hres as [d' [w [E ->]]]. exists (DD s v (d_dflt a) op (Some fl) ov []), w. split; [exact E|].
    assert (Hidd : dd_id sch (DD s v (d_dflt a) op (Some fl) ov []) = Some i).
    { rewrite <- Hd. reflexivity. }
    split.
    { pose proof (Sp_none_term sch inh (DD s v (d_dflt a) op (Some fl) ov []) (set_dflt a fl) i) as G.
      cbn [dd_op dd_sid dd_val dd_dflt dd_oval dd_odflt dd_ch] in G. rewrite set_roundtrip_dflt in G. apply G; clear G.
      - exact He.
      - exact Hk.
      - exact Hidd.
      - rewrite inst_id_set_dflt. exact Ha.
      - rewrite d_dflt_set_dflt. reflexivity.
      - reflexivity.
      - exact Hnany.
      - rewrite d_dflt_set_dflt. intro E0. apply Hreal. symmetry. exact E0. }
    split; [rewrite Hidd, Hd; reflexivity|reflexivity].
  - (* none on an inner node *)
    rewrite He.
    destruct Hlev as [its [unch [Eds [Hsp [Hnd [Hpa Hpb]]]]]].
    set (inh' := child_inh inh op) in *. set (K := dd_leadkeys sch ch).
    assert (Hch : ch = K ++ map it_d its) by (rewrite <- Eds; apply dd_lead_nokeys).
    assert (Hrev : Forall (RevOk inh') its).
    { apply Forall_forall. intros it Hit. rewrite Forall_forall in Hsp, IH.
      assert (Hin : In (it_d it) (dd_nokeys sch ch)) by (rewrite Eds; apply in_map; exact Hit).
      pose proof (IH (it_d it) (dd_nokeys_in sch _ _ Hin) inh' _ _ (Hsp it Hit) (Hnkey _ Hin)) as R. destruct it; exact R. }
    destruct (rev_children_items inh' its fl false Hrev) as [its' [fl' [up' [Erc [F [Ea [Eb [Eid Es]]]]]]]].
    assert (Erc' : rev_children (rev_node sch inh') ch fl false = Ok (K ++ map it_d its', fl', up')).
    { rewrite Hch at 1. rewrite rev_children_keys; [rewrite Erc; reflexivity|].
      intros k Hkin. apply rev_node_key. apply (dd_leadkeys_in _ _ Hkin). }
    assert (Hmatch : (match kind_of sch s with
                      | KLeaf | KLeafList =>
                          match rev_default (DD s v fl op od ov ch) with Err e => Err e | Ok d' => Ok (d', false) end
                      | _ => match rev_children (rev_node sch inh') ch fl false with
                             | Err e => Err e
                             | Ok (ch', f', up) => Ok (DD s v f' op od ov ch', up)
                             end
                      end) = Ok (DD s v fl' op od ov (K ++ map it_d its'), up')).
    { rewrite is_term_kind_of in Hk. destruct (kind_of sch s); cbn in Hk; try discriminate; rewrite Erc'; reflexivity. }
    rewrite Hmatch. eexists _, _. split; [reflexivity|].
    assert (Hlen : map it_d its' <> []).
    { intro E. apply map_eq_nil in E. subst its'. cbn [map] in Ea. symmetry in Ea. apply map_eq_nil in Ea. subst its.
      cbn [map] in Eds. congruence. }
    assert (EA : itA its' = itB its).
    { unfold itA, itB. rewrite (flat_map_opt_map it_a), (flat_map_opt_map it_b), Ea. reflexivity. }
    assert (EB : itB its' = itA its).
    { unfold itA, itB. rewrite (flat_map_opt_map it_a), (flat_map_opt_map it_b), Eb. reflexivity. }
    set (flb := is_np_cont sch (d_sid a) && forallb d_dflt chb).
    split.
    { pose proof (sp_inner_build inh (dd_sid (DD s v fl op od ov ch)) v fl' op od ov K (map it_d its')
                                 (set_dflt (set_ch a chb) flb) i (d_ch a)) as G.
      cbn [dd_sid] in G. rewrite d_sid_set_dflt, d_sid_set_ch, d_ch_set_dflt, d_ch_set_ch, d_dflt_set_dflt in G.
      assert (Eres : set_dflt (set_ch (set_dflt (set_ch a chb) flb) (d_ch a)) (is_np_cont sch (d_sid a) && forallb d_dflt (d_ch a)) = a).
      { destruct a as [sa va da ma cha]. cbn [set_ch set_dflt d_sid d_ch d_dflt] in *. rewrite <- Hfl. reflexivity. }
      rewrite Eres in G. apply G; clear G.
      - exact He.
      - exact Hk.
      - intros k Hkin. apply (dd_leadkeys_in _ _ Hkin).
      - exact Hkch.
      - intros c Hc. apply in_map_iff in Hc. destruct Hc as [it' [<- Hit']].
        assert (Hs' : In (dd_sid (it_d it')) (map (fun it => dd_sid (it_d it)) its)).
        { rewrite <- Es. apply in_map_iff. exists it'. split; [reflexivity|exact Hit']. }
        apply in_map_iff in Hs'. destruct Hs' as [it [E Hit]]. rewrite <- E. apply Hnkey. rewrite Eds. apply in_map. exact Hit.
      - exact Hlen.
      - exact Hidk.
      - rewrite inst_id_set_dflt. exact Hidb.
      - exact Hs.
      - exists its', unch. split; [reflexivity|]. split; [exact F|]. split; [rewrite Eid; exact Hnd|].
        split; [rewrite EA; exact Hpb|rewrite EB; exact Hpa].
      - exact Sb.
      - exact Hsb.
      - exact Sa.
      - exact Hsa.
      - reflexivity.
      - destruct a as [sa va da ma cha]. cbn [set_ch set_dflt d_ch]. exact Ha.
      - intro M. rewrite node_key_set_dflt.
        assert (E2 : node_key sch (set_ch (set_dflt (set_ch a chb) flb) (d_ch a)) = node_key sch a).
        { destruct a as [sa va da ma cha]. reflexivity. }
        rewrite E2. symmetry. apply Hkey. exact M. }
    split; [|reflexivity]. rewrite Hd. apply Hidk.
Qed.

(* ------------------------------------------------------------------------------------------- *)
(* lyd_diff_reverse_all                                                                          *)
(* ------------------------------------------------------------------------------------------- *)
Lemma rev_roots_items : forall its,
  Forall (RevOk None) its ->
  exists its',
    rev_roots sch (map it_d its) = Ok (map it_d its') /\
    Forall (fun it => Sp sch None (it_d it) (it_a it) (it_b it)) its' /\
    map it_a its' = map it_b its /\ map it_b its' = map it_a its /\ itIds sch its' = itIds sch its /\
    map (fun it => dd_sid (it_d it)) its' = map (fun it => dd_sid (it_d it)) its.
Proof.
  induction its as [|it its IH]; intro Hf.
  - exists []. cbn. repeat split. constructor.
  - pose proof (Forall_inv Hf) as [d' [w [E [Hsp [Hid Hsid]]]]]. pose proof (Forall_inv_tail Hf) as Hf'.
    destruct (IH Hf') as [its' [E' [F [Ea [Eb [Eid Es]]]]]].
    cbn [map rev_roots]. rewrite E, E'. exists (mkitem d' (it_b it) (it_a it) :: its'). cbn [map it_d it_a it_b].
    split; [reflexivity|]. split; [constructor; [exact Hsp|exact F]|].
    split; [f_equal; exact Ea|]. split; [f_equal; exact Eb|].
    split; [unfold itIds in *; cbn [map it_d]; f_equal; [exact Hid|exact Eid]|].
    f_equal; [exact Hsid|exact Es].
Qed.

(* reversing a diff that means [fa becomes fb] gives one that means [fb becomes fa] *)
Theorem reverse_sp ds fa fb :
  LevelSp sch (Sp sch None) ds fa fb -> (forall d, In d ds -> is_key sch (dd_sid d) = false) ->
  exists rs, reverse sch ds = Ok rs /\ LevelSp sch (Sp sch None) rs fb fa /\
             (forall d, In d rs -> is_key sch (dd_sid d) = false).
Proof.
  intros Hl Hnk.
  assert (Hl' : LevelSp sch (Sp sch None) (map redup ds) fa fb).
  { apply (levelsp_map (Sp sch None) (Sp sch None) redup); [apply dd_id_redup| |exact Hl].
    intros d oa ob _ Hsp. apply redup_sp. exact Hsp. }
  destruct Hl' as [its [unch [Eds [Hsp [Hnd [Hpa Hpb]]]]]].
  assert (Hrev : Forall (RevOk None) its).
  { apply Forall_forall. intros it Hit. rewrite Forall_forall in Hsp.
    assert (Hin : In (it_d it) (map redup ds)) by (rewrite Eds; apply in_map; exact Hit).
    apply in_map_iff in Hin. destruct Hin as [d0 [E0 Hd0]].
    assert (Hk : is_key sch (dd_sid (it_d it)) = false) by (rewrite <- E0, dd_sid_redup; apply Hnk, Hd0).
    pose proof (rev_sp (it_d it) None _ _ (Hsp it Hit) Hk) as R. destruct it; exact R. }
  destruct (rev_roots_items its Hrev) as [its' [E [F [Ea [Eb [Eid Es]]]]]].
  exists (map it_d its'). unfold reverse. rewrite Eds. split; [exact E|].
  assert (EA : itA its' = itB its).
  { unfold itA, itB. rewrite (flat_map_opt_map it_a), (flat_map_opt_map it_b), Ea. reflexivity. }
  assert (EB : itB its' = itA its).
  { unfold itA, itB. rewrite (flat_map_opt_map it_a), (flat_map_opt_map it_b), Eb. reflexivity. }
  split.
  - exists its', unch. split; [reflexivity|]. split; [exact F|]. split; [rewrite Eid; exact Hnd|].
    split; [rewrite EA; exact Hpb|rewrite EB; exact Hpa].
  - intros d Hd. apply in_map_iff in Hd. destruct Hd as [it' [<- Hit']].
    assert (Hs' : In (dd_sid (it_d it')) (map (fun it => dd_sid (it_d it)) its)).
    { rewrite <- Es. apply in_map_iff. exists it'. split; [reflexivity|exact Hit']. }
    apply in_map_iff in Hs'. destruct Hs' as [it [E1 Hit]]. rewrite <- E1.
    assert (Hin : In (it_d it) (map redup ds)) by (rewrite Eds; apply in_map; exact Hit).
    apply in_map_iff in Hin. destruct Hin as [d0 [E0 Hd0]]. rewrite <- E0, dd_sid_redup. apply Hnk, Hd0.
Qed.

(* C13: reversing diff(A,B) gives a diff that, applied to B, yields A exactly *)
Theorem reverse_apply fa fb : wfb sch fa = true -> wfb sch fb = true ->
  exists ds rs, diff sch true fa fb = Ok ds /\ reverse sch ds = Ok rs /\ apply sch rs fb = Ok fa.
Proof.
  intros Ha Hb. destruct (diff_sp sch fa fb Ha Hb) as [ds [Ed Hsp]].
  destruct (reverse_sp ds fa fb Hsp (diff_nokey sch fa fb ds Ha Hb Ed)) as [rs [Er [Hsp' _]]].
  exists ds, rs. split; [exact Ed|]. split; [exact Er|].
  pose proof (wfb_sibs sch _ Ha) as Wa. pose proof (wfb_sibs sch _ Hb) as Wb.
  apply apply_level_sp; [exact Hsp'|apply (ws_sibs _ _ Wb)|apply wf_allsome, (ws_nodes _ _ Wb)|apply (ws_sibs _ _ Wa)].
Qed.

(* reversing twice gives a diff with the meaning of the original one: applied to A it yields B again *)
Theorem reverse_twice_apply fa fb : wfb sch fa = true -> wfb sch fb = true ->
  exists ds rs rs2, diff sch true fa fb = Ok ds /\ reverse sch ds = Ok rs /\ reverse sch rs = Ok rs2 /\
                    apply sch rs2 fa = Ok fb.
Proof.
  intros Ha Hb. destruct (diff_sp sch fa fb Ha Hb) as [ds [Ed Hsp]].
  destruct (reverse_sp ds fa fb Hsp (diff_nokey sch fa fb ds Ha Hb Ed)) as [rs [Er [Hsp' Hnk']]].
  destruct (reverse_sp rs fb fa Hsp' Hnk') as [rs2 [Er2 [Hsp2 _]]].
  exists ds, rs, rs2. split; [exact Ed|]. split; [exact Er|]. split; [exact Er2|].
  pose proof (wfb_sibs sch _ Ha) as Wa. pose proof (wfb_sibs sch _ Hb) as Wb.
  apply apply_level_sp; [exact Hsp2|apply (ws_sibs _ _ Wa)|apply wf_allsome, (ws_nodes _ _ Wa)|apply (ws_sibs _ _ Wb)].
Qed.
End WithSchema.
