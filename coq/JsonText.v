(* JsonText.v — model of json_print_string() (src/printer_json.c, printer side) and of
   lyjson_string() (src/json.c, parser side), transcribed branch by branch. Model only. *)
From LY Require Import Base Utf8.
From LY.Gen Require Consts.
Local Open Scope N_scope.

(* ---------- printer: json_print_string(out, text) ----------
   The switch of the C function is scraped from the source on every run (Gen/Consts.v
   json_esc_table, tie T1). The default branch: iscntrl(byte) in the C locale, that is a byte
   below 0x20 or the byte 0x7f, is printed with the format \u%.4X (four upper-case hex digits);
   every other byte (all bytes >= 0x80 included) is written unchanged. The loop stops at the
   first NUL byte (for (i = 0; text[i]; i++)); the text is put between two double quotes. *)
Fixpoint jesc_lookup (t : list (N * bytes)) (b : N) : option bytes :=
  match t with
  | [] => None
  | (c, r) :: t' => if c =? b then Some r else jesc_lookup t' b
  end.

Definition is_cntrl (b : N) : bool := (b <? 32) || (b =? 127).
(* one digit of %X *)
Definition hexdig_up (d : N) : N := if d <? 10 then 48 + d else 55 + d.

Definition json_esc_byte (b : N) : bytes :=
  match jesc_lookup Consts.json_esc_table b with
  | Some r => r
  | None =>
      if is_cntrl b then
        [92; 117; hexdig_up ((b / 4096) mod 16); hexdig_up ((b / 256) mod 16);
         hexdig_up ((b / 16) mod 16); hexdig_up (b mod 16)]
      else [b]
  end.

Fixpoint json_esc_body (s : bytes) : bytes :=
  match s with
  | [] => []
  | b :: s' => if b =? 0 then [] else json_esc_byte b ++ json_esc_body s'
  end.

Definition json_esc (s : bytes) : bytes := 34 :: json_esc_body s ++ [34].

(* ---------- parser: lyjson_string(jsonctx) ----------
   The input starts after the opening double quote. The C code keeps (in, offset, buf, len); the
   bytes in[0..offset) are raw characters not yet copied. The model keeps the already decoded
   value in [acc] (= buf[0..len) ++ in[0..offset)), which is what the function returns in both the
   dynamic and the non-dynamic case. *)
Definition E_EOF : N := 1.        (* NUL before the closing quote *)
Definition E_ESC : N := 2.        (* invalid character escape sequence *)
Definition E_BMP : N := 3.        (* NUL inside the four characters after \u *)
Definition E_CHARVAL : N := 4.    (* ly_pututf8 rejected the value of the escape *)
Definition E_INCHAR : N := 5.     (* ly_getutf8 rejected a raw character *)
Definition E_STRCHAR : N := 6.    (* !is_jsonstrchar(value) *)
Definition E_NOQUOTE : N := 7.    (* json_quoted only: no opening quote *)
Definition E_FUEL : N := 99.      (* model artefact; excluded by the theorems *)

Definition U32 : N := 4294967296.

(* json.h: is_jsonstrchar(c) *)
Definition is_jsonstrchar (v : N) : bool :=
  (v =? 32) || (v =? 33) || ((35 <=? v) && (v <=? 91)) || ((93 <=? v) && (v <=? 1114111)).

(* the one-character escapes of the inner switch: value handed to ly_pututf8 *)
Definition json_unesc (e : N) : option N :=
  if e =? 34 then Some 34            (* quotation mark *)
  else if e =? 92 then Some 92       (* reverse solidus *)
  else if e =? 47 then Some 47       (* solidus *)
  else if e =? 98 then Some 8        (* b *)
  else if e =? 102 then Some 12      (* f *)
  else if e =? 110 then Some 10      (* n *)
  else if e =? 114 then Some 13      (* r *)
  else if e =? 116 then Some 9       (* t *)
  else None.

(* One of the four characters after \u, as coded (json.c, the for loop of case 'u'):
     if isdigit(c) u = c - '0'; else if (c > 'F') u = 10 + (c - 'a'); else u = 10 + (c - 'A');
   There is no check that c is a hex digit. c is a (signed) char, so a byte >= 0x80 is negative
   and takes the last branch; u is a size_t and value a uint32_t, so the result is taken modulo
   2^32. The function returns u modulo 2^32. *)
Definition u4_digit (b : N) : N :=
  if is_digit b then b - 48
  else if (b <? 128) && (70 <? b) then (U32 + b - 87) mod U32
  else if b <? 128 then (U32 + b - 55) mod U32
  else (U32 + b - 311) mod U32.

(* value = 16 * value + u for four characters; None when a NUL byte is met *)
Fixpoint scan_u4 (n : nat) (s : bytes) (v : N) : option (N * bytes) :=
  match n with
  | O => Some (v, s)
  | S n' =>
      match s with
      | [] => None
      | b :: s' => if b =? 0 then None else scan_u4 n' s' ((16 * v + u4_digit b) mod U32)
      end
  end.

Fixpoint json_string_f (fuel : nat) (s : bytes) (acc : bytes) : res (bytes * bytes) :=
  match fuel with
  | O => Err E_FUEL
  | S f =>
    match s with
    | [] => Err E_EOF                                   (* while (in[offset]) *)
    | c :: s' =>
      if c =? 0 then Err E_EOF
      else if c =? 92 then                              (* case '\\' *)
        match s' with
        | [] => Err E_ESC                               (* in[offset] is the NUL: default branch *)
        | e :: s2 =>
          if e =? 117 then                              (* case 'u' *)
            match scan_u4 4 s2 0 with
            | None => Err E_BMP
            | Some (v, r) =>
                match pututf8 v with
                | Some bs => json_string_f f r (acc ++ bs)
                | None => Err E_CHARVAL
                end
            end
          else
            match json_unesc e with
            | None => Err E_ESC
            | Some v =>
                (* ly_pututf8 is called for these too: \b and \f are therefore rejected *)
                match pututf8 v with
                | Some bs => json_string_f f s2 (acc ++ bs)
                | None => Err E_CHARVAL
                end
            end
        end
      else if c =? 34 then Ok (acc, s')                 (* case double quote: end of string *)
      else                                              (* default *)
        match getutf8 s with
        | None => Err E_INCHAR
        | Some (v, u) =>
            if is_jsonstrchar v then json_string_f f (skipn u s) (acc ++ firstn u s)
            else Err E_STRCHAR
        end
    end
  end.

(* value and the input left after the closing quote *)
Definition json_string (s : bytes) : res (bytes * bytes) := json_string_f (S (length s)) s [].

(* lyjson_next_value() / lyjson_next_object_name(): case double quote: ly_in_skip(in, 1); lyjson_string() *)
Definition json_quoted (s : bytes) : res (bytes * bytes) :=
  match s with
  | c :: s' => if c =? 34 then json_string s' else Err E_NOQUOTE
  | [] => Err E_NOQUOTE
  end.
