(* OwnP.v - proofs about the ownership model Own.v: reference balance of store / dup / free / temporaries, exactness of
   free_single / free_siblings on chains, and the regression examples of the defect classes. *)
From LY Require Import Base HashFn HashTable Dict DictP Own.
From LY.Gen Require Import Consts.
From Coq Require Import ZifyBool ZifyNat ZifyN.
Local Open Scope N_scope.

(* number of occurrences of a string in a list of references *)
Fixpoint cnt (x : bytes) (l : list bytes) : N :=
  match l with
  | [] => 0
  | s :: l' => (if beq_bytes x s then 1 else 0) + cnt x l'
  end.

(* lia does not get past the projection of a pair holding a function: name such terms first *)
Ltac flia :=
  repeat match goal with
         | H : context [fst ?p ?x] |- _ => let a := fresh "a" in let Ea := fresh "Ea" in remember (fst p x) as a eqn:Ea in *; clear Ea
         | |- context [fst ?p ?x] => let a := fresh "a" in let Ea := fresh "Ea" in remember (fst p x) as a eqn:Ea in *; clear Ea
         end; lia.

Lemma add_cancel3 a c d k : a + c = d + (k + c) -> a = d + k.
Proof. lia. Qed.

Lemma cnt_app x l1 l2 : cnt x (l1 ++ l2) = cnt x l1 + cnt x l2.
Proof. induction l1 as [|s l1 IH]; cbn [cnt app]; [reflexivity|]. rewrite IH. lia. Qed.

Lemma dset_same d s v : dset d s v s = v.
Proof. unfold dset. now rewrite beq_bytes_refl. Qed.

Lemma dset_other d s v x : x <> s -> dset d s v x = d x.
Proof. intro H. unfold dset. apply beq_bytes_neq in H. now rewrite H. Qed.

(* the dictionary of the model is the finite map of DictP.v: acquire / release are its insert and remove steps *)
Lemma acquire_is_dict_insert d s : acquire d s = snd (sstep d (DIns s)).
Proof. reflexivity. Qed.

Lemma release_is_dict_remove d e s : d s <> 0 -> release (d, e) s = (snd (sstep d (DRem s)), e).
Proof.
  intro H. unfold release. cbn [sstep]. apply N.eqb_neq in H. rewrite H. reflexivity.
Qed.

Lemma acquire_at d s x : acquire d s x = d x + (if beq_bytes x s then 1 else 0).
Proof.
  unfold acquire, dset. destruct (beq_bytes x s) eqn:E; [|lia]. apply beq_bytes_eq in E. subst. lia.
Qed.

Lemma acq_all_cnt : forall l d x, acq_all d l x = d x + cnt x l.
Proof.
  unfold acq_all. induction l as [|s l IH]; intros d x; cbn [fold_left cnt]; [lia|].
  rewrite IH, acquire_at. lia.
Qed.

(* releasing references that are all held: no error, exactly these references go *)
Lemma rel_all_ok : forall l d e, (forall x, cnt x l <= d x) ->
  snd (rel_all (d, e) l) = e /\ forall x, fst (rel_all (d, e) l) x + cnt x l = d x.
Proof.
  unfold rel_all. induction l as [|s l IH]; intros d e H; cbn [fold_left cnt].
  - split; [reflexivity|]. intro x. cbn. lia.
  - pose proof (H s) as Hs. cbn [cnt] in Hs. rewrite beq_bytes_refl in Hs.
    assert (Er : release (d, e) s = (dset d s (d s - 1), e)).
    { unfold release. destruct (d s =? 0) eqn:E0; [apply N.eqb_eq in E0; lia|reflexivity]. }
    rewrite Er.
    destruct (IH (dset d s (d s - 1)) e) as [He Hd].
    { intro x. specialize (H x). cbn [cnt] in H. unfold dset. destruct (beq_bytes x s) eqn:E; rewrite ?E in H; [|lia].
      apply beq_bytes_eq in E. subst. lia. }
    split; [exact He|]. intro x. specialize (Hd x).
    destruct (beq_bytes x s) eqn:E.
    + apply beq_bytes_eq in E. subst. rewrite dset_same in Hd.
      assert (Harith : forall a b c : N, a + c = b - 1 -> 1 + c <= b -> a + (1 + c) = b) by (intros; lia).
      apply Harith; [exact Hd|exact Hs].
    + apply beq_bytes_neq in E. rewrite dset_other in Hd by exact E.
      assert (Harith : forall a b c : N, a + c = b -> a + (0 + c) = b) by (intros; lia).
      apply Harith; exact Hd.
Qed.

Definition live (hs : list (option value)) : list bytes :=
  flat_map (fun o => match o with Some v => refs v | None => [] end) hs.

Lemma live_app hs1 hs2 : live (hs1 ++ hs2) = live hs1 ++ live hs2.
Proof. unfold live. apply flat_map_app. Qed.

Lemma live_set_none : forall hs h v x, nth_error hs h = Some (Some v) ->
  cnt x (live hs) = cnt x (live (set_none hs h)) + cnt x (refs v).
Proof.
  induction hs as [|o hs IH]; intros [|h] v x H; cbn in H; try discriminate.
  - inversion H; subst. cbn [set_none live flat_map]. rewrite cnt_app. cbn. fold (live hs). lia.
  - cbn [set_none live flat_map]. fold (live hs) (live (set_none hs h)). rewrite !cnt_app, (IH h v x H). lia.
Qed.

Lemma live_set_handle : forall hs h v o x, nth_error hs h = Some (Some v) ->
  cnt x (live hs) + cnt x (match o with Some w => refs w | None => [] end) =
  cnt x (live (set_handle hs h o)) + cnt x (refs v).
Proof.
  induction hs as [|a hs IH]; intros [|h] v o x H; cbn in H; try discriminate.
  - inversion H; subst. cbn [set_handle live flat_map]. fold (live hs). rewrite !cnt_app. lia.
  - cbn [set_handle live flat_map]. fold (live hs) (live (set_handle hs h o)). rewrite !cnt_app.
    pose proof (IH h v o x H). lia.
Qed.

(* invariant: no "not found" error so far, and the dictionary holds its initial references plus exactly one reference per
   string owned by a value that is still alive *)
Definition OInv (d0 : dict) (s : ost) : Prop :=
  o_err s = 0 /\ forall x, o_dict s x = d0 x + cnt x (live (o_h s)).

(* the switch of values of an update: the new value is already stored (d1), the old one is released *)
Lemma replace_inv d0 s h v v' d1 : o_err s = 0 -> nth_error (o_h s) h = Some (Some v) ->
  (forall x, d1 x = d0 x + cnt x (live (o_h s)) + cnt x (refs v')) ->
  OInv d0 (replace_value s h v v' d1) /\
  (forall x, o_dict (replace_value s h v v' d1) x + cnt x (refs v) = d1 x) /\
  o_h (replace_value s h v v' d1) = set_handle (o_h s) h (Some v').
Proof.
  intros He E H1. unfold replace_value. cbv zeta.
  destruct (rel_all_ok (refs v) d1 (o_err s)) as [G1 G2].
  { intro x. rewrite H1. pose proof (live_set_handle _ _ _ (Some v') x E). lia. }
  unfold OInv. cbn [o_err o_dict o_h]. split; [split|split; [exact G2|reflexivity]].
  - transitivity (o_err s); [exact G1|exact He].
  - intro x. specialize (G2 x). rewrite H1 in G2. pose proof (live_set_handle _ _ _ (Some v') x E) as Hl.
    apply (proj1 (N.add_cancel_r _ _ (cnt x (refs v)))).
    transitivity (d0 x + cnt x (live (o_h s)) + cnt x (refs v')); [exact G2|]. cbn [live] in Hl. lia.
Qed.

Lemma ostep_inv d0 s o : OInv d0 s -> OInv d0 (ostep s o).
Proof.
  intros [He Hd]. destruct o as [v|h|h|v|h v'|h t v']; cbn [ostep].
  - split; [exact He|]. intro x. cbn [o_dict o_h]. rewrite acq_all_cnt, live_app, cnt_app, Hd. cbn [live flat_map].
    rewrite app_nil_r. lia.
  - destruct (nth_error (o_h s) h) as [[v|]|] eqn:E; try (split; assumption).
    split; [exact He|]. intro x. cbn [o_dict o_h]. rewrite acq_all_cnt, live_app, cnt_app, Hd. cbn [live flat_map].
    rewrite app_nil_r. lia.
  - destruct (nth_error (o_h s) h) as [[v|]|] eqn:E; try (split; assumption).
    destruct (rel_all_ok (refs v) (o_dict s) (o_err s)) as [H1 H2].
    { intro x. rewrite Hd, (live_set_none _ _ _ x E). lia. }
    cbv zeta. unfold OInv. cbn [o_err o_dict o_h]. split; [transitivity (o_err s); [exact H1|exact He]|]. intro x. specialize (H2 x).
    rewrite Hd, (live_set_none _ _ _ x E) in H2. exact (add_cancel3 _ _ _ _ H2).
  - destruct (rel_all_ok (refs v) (acq_all (o_dict s) (refs v)) (o_err s)) as [H1 H2].
    { intro x. rewrite acq_all_cnt. lia. }
    cbv zeta. unfold OInv. cbn [o_err o_dict o_h]. split; [transitivity (o_err s); [exact H1|exact He]|]. intro x. specialize (H2 x). rewrite acq_all_cnt, Hd in H2. exact (proj1 (N.add_cancel_r _ _ _) H2).
  - destruct (nth_error (o_h s) h) as [[v|]|] eqn:E; try (split; assumption).
    destruct (refs_eqb (refs v) (refs v')).
    + destruct (rel_all_ok (refs v') (acq_all (o_dict s) (refs v')) (o_err s)) as [H1 H2].
      { intro x. rewrite acq_all_cnt. lia. }
      cbv zeta. unfold OInv. cbn [o_err o_dict o_h]. split; [transitivity (o_err s); [exact H1|exact He]|]. intro x.
      specialize (H2 x). rewrite acq_all_cnt, Hd in H2. exact (proj1 (N.add_cancel_r _ _ _) H2).
    + apply (replace_inv d0 s h v v' _ He E). intro x. now rewrite acq_all_cnt, Hd.
  - destruct (nth_error (o_h s) h) as [[v|]|] eqn:E; try (split; assumption).
    destruct (rel_all_ok (refs t) (acq_all (o_dict s) (refs t)) (o_err s)) as [H1 H2].
    { intro x. rewrite acq_all_cnt. lia. }
    cbv zeta.
    apply (replace_inv d0 (mkost (fst (rel_all (acq_all (o_dict s) (refs t), o_err s) (refs t)))
                                 (snd (rel_all (acq_all (o_dict s) (refs t), o_err s) (refs t))) (o_mis s) (o_h s)) h v v').
    + cbn [o_err]. transitivity (o_err s); [exact H1|exact He].
    + exact E.
    + intro x. cbn [o_h]. rewrite acq_all_cnt. specialize (H2 x). rewrite acq_all_cnt, Hd in H2.
      apply (proj1 (N.add_cancel_r _ _ _)) in H2.
      exact (f_equal (fun z => z + cnt x (refs v')) H2).
Qed.

Lemma orun_inv_placeholder : True. Proof. exact I. Qed.

Lemma orun_inv d0 : forall ops s, OInv d0 s -> OInv d0 (orun s ops).
Proof.
  unfold orun. induction ops as [|o ops IH]; intros s H; cbn [fold_left]; [exact H|]. apply IH. now apply ostep_inv.
Qed.

Definition all_freed (hs : list (option value)) : Prop := Forall (fun o => o = None) hs.

Lemma all_freed_live hs : all_freed hs -> live hs = [].
Proof. induction 1 as [|o hs Ho _ IH]; [reflexivity|]. subst o. cbn [live flat_map]. exact IH. Qed.

(* (1) balance *)
Theorem own_balance d0 ops :
  let s := orun (mkost d0 0 0 []) ops in
  o_err s = 0 /\ (forall x, o_dict s x = d0 x + cnt x (live (o_h s))) /\
  (all_freed (o_h s) -> forall x, o_dict s x = d0 x).
Proof.
  intro s. assert (H : OInv d0 s).
  { apply orun_inv. split; [reflexivity|]. intro x. cbn. lia. }
  destruct H as [He Hd]. split; [exact He|]. split; [exact Hd|]. intros Hf x.
  rewrite Hd, (all_freed_live _ Hf). cbn. lia.
Qed.

(* (3) a duplicate takes one reference per owned string *)
Theorem own_dup_takes_refs s h v : nth_error (o_h s) h = Some (Some v) ->
  forall x, o_dict (ostep s (ODup h)) x = o_dict s x + cnt x (refs v).
Proof. intros E x. cbn [ostep]. rewrite E. cbn [o_dict]. apply acq_all_cnt. Qed.

(* (4) a value that was stored and then failed its validation leaves nothing behind *)
Theorem own_temp_neutral d0 s v : OInv d0 s ->
  o_err (ostep s (OTemp v)) = 0 /\ forall x, o_dict (ostep s (OTemp v)) x = o_dict s x.
Proof.
  intros [He Hd]. cbn [ostep]. cbv zeta. cbn [o_err o_dict].
  destruct (rel_all_ok (refs v) (acq_all (o_dict s) (refs v)) (o_err s)) as [H1 H2].
  { intro x. rewrite acq_all_cnt. lia. }
  split; [transitivity (o_err s); [exact H1|exact He]|]. intro x. specialize (H2 x). rewrite acq_all_cnt in H2.
  exact (proj1 (N.add_cancel_r _ _ _) H2).
Qed.

(* ---- (2) chains ---- *)
Lemma chain_take_spec : forall k ch v rest, chain_take k ch = Some (v, rest) ->
  nth_error ch k = Some v /\ rest = firstn k ch ++ skipn (S k) ch.
Proof.
  induction k as [|k IH]; intros [|w t] v rest H; cbn in H; try discriminate.
  - inversion H; subst. auto.
  - destruct (chain_take k t) as [[x t']|] eqn:E; [|discriminate]. inversion H; subst.
    destruct (IH _ _ _ E) as [H1 H2]. cbn [nth_error firstn skipn app]. split; [exact H1|]. now rewrite H2.
Qed.

Lemma chain_take_some : forall k ch v, nth_error ch k = Some v -> exists rest, chain_take k ch = Some (v, rest).
Proof.
  induction k as [|k IH]; intros [|w t] v H; cbn in H; try discriminate.
  - inversion H; subst. cbn. eauto.
  - destruct (IH _ _ H) as (rest & E). cbn. rewrite E. eauto.
Qed.

Theorem own_free_single_exact d e ch k v : nth_error ch k = Some v -> (forall x, cnt x (refs v) <= d x) ->
  exists d', free_single (d, e) ch k = Some (d', e, firstn k ch ++ skipn (S k) ch) /\
    (forall x, d' x + cnt x (refs v) = d x) /\
    length (firstn k ch ++ skipn (S k) ch) = (length ch - 1)%nat.
Proof.
  intros Hn Hc. destruct (chain_take_some _ _ _ Hn) as (rest & E). destruct (chain_take_spec _ _ _ _ E) as [_ ->].
  unfold free_single. rewrite E. destruct (rel_all_ok (refs v) d e Hc) as [H1 H2].
  revert H1 H2. destruct (rel_all (d, e) (refs v)) as [d1 e1]. cbn [fst snd]. intros -> H2.
  exists d1. split; [reflexivity|split; [exact H2|]].
  - assert (Hk : (k < length ch)%nat) by (apply nth_error_Some; congruence).
    rewrite app_length, firstn_length, skipn_length. lia.
Qed.

Lemma chain_cut_spec : forall k ch, chain_cut k ch = (firstn k ch, skipn k ch).
Proof.
  induction k as [|k IH]; intros [|v t]; cbn; auto. now rewrite IH.
Qed.

Lemma rel_values_flat : forall vs de, fold_left (fun a v => rel_all a (refs v)) vs de = rel_all de (flat_map refs vs).
Proof.
  induction vs as [|v vs IH]; intro de; cbn [fold_left flat_map]; [reflexivity|].
  rewrite IH. unfold rel_all. now rewrite fold_left_app.
Qed.

Theorem own_free_siblings_exact d e ch k : (forall x, cnt x (flat_map refs (skipn k ch)) <= d x) ->
  exists d', free_siblings (d, e) ch k = (d', e, firstn k ch) /\
    forall x, d' x + cnt x (flat_map refs (skipn k ch)) = d x.
Proof.
  intro Hc. unfold free_siblings. rewrite chain_cut_spec, rel_values_flat.
  destruct (rel_all_ok _ d e Hc) as [H1 H2]. revert H1 H2.
  destruct (rel_all (d, e) (flat_map refs (skipn k ch))) as [d1 e1]. cbn [fst snd]. intros -> H2.
  exists d1. split; [reflexivity|exact H2].
Qed.

(* ---- regression examples: the seeded defects of this class, as variants of the operations ---- *)
Definition ex_zone : value := Val [[49; 48; 46; 48; 46; 48; 46; 49]] [Val [[101; 116; 104; 48]] []].   (* address text, nested: zone "eth0" *)
Definition ex_d0 : dict := fun _ => 0.

(* C17-5 class: a duplicate that shares the zone string without taking a reference; freeing both values releases the
   string twice: "Value ... was not found in the dictionary" *)
Example own_dup_shared_refuted :
  o_err (ostep (ostep (ostep_dup_shared (ostep (mkost ex_d0 0 0 []) (OStore ex_zone)) 0) (OFree 0)) (OFree 1)) = 2 /\
  o_err (ostep (ostep (ostep (ostep (mkost ex_d0 0 0 []) (OStore ex_zone)) (ODup 0)) (OFree 0)) (OFree 1)) = 0.
Proof. split; vm_compute; reflexivity. Qed.

(* C17-3 / C17-6 / C17-8 class: the temporary of a failed validation (or of an update with an equal value) is forgotten: the
   dictionary keeps a reference although no value is alive *)
Example own_temp_leaked_refuted :
  let s := ostep_temp_leaked (mkost ex_d0 0 0 []) ex_zone in
  o_h s = [] /\ o_dict s [101; 116; 104; 48] = 1 /\ o_dict (ostep (mkost ex_d0 0 0 []) (OTemp ex_zone)) [101; 116; 104; 48] = 0.
Proof. cbv zeta. split; [reflexivity|]. split; vm_compute; reflexivity. Qed.

(* C17-4 class: freeing the first of three attributes drops the other two from the chain without freeing them *)
Example own_free_single_drop_tail_refuted :
  let a := Val [[97]] [] in let b := Val [[98]] [] in let c := Val [[99]] [] in
  let d := acq_all ex_d0 (flat_map refs [a; b; c]) in
  (exists d', free_single_drop_tail (d, 0) [a; b; c] 0 = Some (d', 0, []) /\ d' [98] = 1) /\
  (exists d', free_single (d, 0) [a; b; c] 0 = Some (d', 0, [b; c])).
Proof. cbv zeta. split; eexists; [split|]; vm_compute; reflexivity. Qed.

(* ---- the projection of API scripts: the model predicts delta 0 and no error for every script ---- *)
Definition all_some (hs : list (option value)) : Prop := Forall (fun o => o <> None) hs.

Lemma orun_app s o1 o2 : orun s (o1 ++ o2) = orun (orun s o1) o2.
Proof. unfold orun. apply fold_left_app. Qed.

Lemma orun_cons s o ops : orun s (o :: ops) = orun (ostep s o) ops.
Proof. reflexivity. Qed.

Lemma all_some_nth hs p : all_some hs -> (p < length hs)%nat -> exists v, nth_error hs p = Some (Some v).
Proof.
  intros Ha Hp. destruct (nth_error hs p) as [o|] eqn:E; [|apply nth_error_None in E; lia].
  unfold all_some in Ha. rewrite Forall_forall in Ha. specialize (Ha o (nth_error_In _ _ E)).
  destruct o as [v|]; [eauto|congruence].
Qed.

Lemma set_handle_length {A} : forall (l : list (option A)) n x, length (set_handle l n x) = length l.
Proof. induction l as [|y l IH]; intros [|n] x; cbn; auto. Qed.

Lemma all_some_set_handle : forall hs n (w : value), all_some hs -> all_some (set_handle hs n (Some w)).
Proof.
  unfold all_some. induction hs as [|o hs IH]; intros [|n] w H; cbn; auto; inversion H; subst; constructor; auto. discriminate.
Qed.

Lemma script_run : forall ks i s, all_some (o_h s) ->
  all_some (o_h (orun s (script_ops ks i (length (o_h s))))) /\
  o_mis (orun s (script_ops ks i (length (o_h s)))) = o_mis s.
Proof.
  induction ks as [|k ks IH]; intros i s Ha; cbn [script_ops]; [auto|].
  assert (Hstore : forall v, all_some (o_h (ostep s (OStore v))) /\ o_mis (ostep s (OStore v)) = o_mis s /\
                             length (o_h (ostep s (OStore v))) = S (length (o_h s))).
  { intro v. cbn [ostep o_h o_mis]. split; [|split; [reflexivity|rewrite app_length; cbn; lia]].
    apply Forall_app. split; [exact Ha|]. constructor; [discriminate|constructor]. }
  destruct (k =? 0).
  { destruct (Hstore (cmd_value i)) as (H1 & H2 & H3). rewrite orun_cons.
    rewrite <- H3. destruct (IH (i + 1) _ H1) as [G1 G2]. split; [exact G1|]. now rewrite G2. }
  destruct (k =? 1).
  { rewrite orun_cons.
    change (length (o_h s)) with (length (o_h (ostep s (OTemp (cmd_value i))))).
    destruct (IH (i + 1) (ostep s (OTemp (cmd_value i))) Ha) as [G1 G2]. split; [exact G1|]. rewrite G2. reflexivity. }
  destruct (length (o_h s)) as [|p] eqn:El.
  { destruct (Hstore (cmd_value i)) as (H1 & H2 & H3). rewrite orun_cons.
    try rewrite El in H3. rewrite <- H3. destruct (IH (i + 1) _ H1) as [G1 G2]. split; [exact G1|]. now rewrite G2. }
  destruct (all_some_nth (o_h s) p Ha ltac:(lia)) as (v & Ev).
  destruct (k =? 2).
  { assert (Hd : all_some (o_h (ostep s (ODup p))) /\ o_mis (ostep s (ODup p)) = o_mis s /\
                 length (o_h (ostep s (ODup p))) = S (S p)).
    { cbn [ostep]. rewrite Ev. cbn [o_h o_mis]. split; [|split; [reflexivity|rewrite app_length, El; cbn; lia]].
      apply Forall_app. split; [exact Ha|]. constructor; [discriminate|constructor]. }
    destruct Hd as (H1 & H2 & H3). rewrite orun_cons.
    rewrite <- H3. destruct (IH (i + 1) _ H1) as [G1 G2]. split; [exact G1|]. now rewrite G2. }
  assert (Hsh : forall o, (exists w, o = OUpdate p w) \/ (exists t w, o = OResolve p t w) ->
            all_some (o_h (ostep s o)) /\ o_mis (ostep s o) = o_mis s /\ length (o_h (ostep s o)) = S p).
  { intros o [(w & ->)|(t & w & ->)]; cbn [ostep]; rewrite Ev.
    - destruct (refs_eqb (refs v) (refs w)); cbv zeta; unfold replace_value; cbv zeta; cbn [o_h o_mis].
      + auto.
      + split; [apply all_some_set_handle; exact Ha|]. split; [reflexivity|]. now rewrite set_handle_length.
    - cbv zeta. unfold replace_value. cbv zeta. cbn [o_h o_mis].
      split; [apply all_some_set_handle; exact Ha|]. split; [reflexivity|]. now rewrite set_handle_length. }
  destruct (k =? 3).
  { destruct (Hsh (OUpdate p (cmd_value i)) ltac:(left; eauto)) as (H1 & H2 & H3). rewrite orun_cons.
    rewrite <- H3. destruct (IH (i + 1) _ H1) as [G1 G2]. split; [exact G1|]. now rewrite G2. }
  destruct (Hsh (OResolve p (Val [[i]] []) (cmd_value i)) ltac:(right; eauto)) as (H1 & H2 & H3). rewrite orun_cons.
  rewrite <- H3. destruct (IH (i + 1) _ H1) as [G1 G2]. split; [exact G1|]. now rewrite G2.
Qed.

Lemma skipn_1_skipn {A} : forall n (l : list A), skipn 1 (skipn n l) = skipn (S n) l.
Proof. induction n as [|n IH]; intros [|x l]; cbn; auto. apply IH. Qed.

Lemma set_none_spec : forall (hs : list (option value)) p, (p < length hs)%nat ->
  set_none hs p = firstn p hs ++ None :: skipn (S p) hs.
Proof.
  induction hs as [|o hs IH]; intros [|p] H; cbn in *; try lia; [reflexivity|]. f_equal. apply IH. lia.
Qed.

Lemma free_all_run : forall n s0, all_some (o_h s0) -> (n <= length (o_h s0))%nat ->
  o_h (orun s0 (free_all_ops n)) = repeat None n ++ skipn n (o_h s0) /\
  o_mis (orun s0 (free_all_ops n)) = o_mis s0.
Proof.
  induction n as [|n IH]; intros s0 Ha Hn; cbn [free_all_ops].
  - cbn. auto.
  - rewrite orun_app. destruct (IH s0 Ha ltac:(lia)) as [Hh Hm]. set (s1 := orun s0 (free_all_ops n)) in *.
    destruct (all_some_nth (o_h s0) n Ha ltac:(lia)) as (v & Ev).
    assert (E1 : nth_error (o_h s1) n = Some (Some v)).
    { rewrite Hh, nth_error_app2 by (rewrite repeat_length; lia). rewrite repeat_length, Nat.sub_diag.
      rewrite <- Ev. clear. revert n. induction (o_h s0) as [|o l IHl]; intros [|n]; cbn; auto. apply IHl. }
    cbn [orun fold_left ostep]. rewrite E1. cbv zeta. cbn [o_h o_mis]. split; [|exact Hm].
    rewrite set_none_spec.
    2:{ apply nth_error_Some. congruence. }
    rewrite Hh. rewrite firstn_app, repeat_length, Nat.sub_diag, firstn_O, app_nil_r, firstn_all2 by (rewrite repeat_length; lia).
    replace (skipn (S n) (repeat None n ++ skipn n (o_h s0))) with (skipn (S n) (o_h s0)).
    + replace (repeat (@None value) (S n)) with (repeat (@None value) n ++ [None]) by (rewrite <- repeat_cons; reflexivity).
      rewrite <- app_assoc. reflexivity.
    + rewrite skipn_app, repeat_length. rewrite (skipn_all2 (repeat None n)) by (rewrite repeat_length; lia).
      replace (S n - n)%nat with 1%nat by lia. cbn [app]. now rewrite skipn_1_skipn.
Qed.

Lemma sum_counts_zero d n : (forall x, d x = 0) -> sum_counts d n = 0.
Proof. intro H. induction n as [|n IH]; cbn [sum_counts]; [reflexivity|]. rewrite IH, !H. reflexivity. Qed.

(* the model's prediction for every projected script: nothing is left in the dictionary, nothing was released twice, no
   handle was misused *)
Theorem own_script_delta_zero kinds : own_script_delta kinds = (0, 0).
Proof.
  unfold own_script_delta. set (s0 := mkost (fun _ : bytes => 0) 0 0 []).
  set (s1 := orun s0 (script_ops kinds 0 0)).
  destruct (script_run kinds 0 s0 ltac:(constructor)) as [Ha Hm]. cbn [o_h s0 length] in Ha, Hm. fold s1 in Ha, Hm.
  destruct (free_all_run (length (o_h s1)) s1 Ha (Nat.le_refl _)) as [Hh Hm2].
  set (s2 := orun s1 (free_all_ops (length (o_h s1)))) in *.
  assert (Hs2 : s2 = orun s0 (script_ops kinds 0 0 ++ free_all_ops (length (o_h s1)))) by (now rewrite orun_app).
  pose proof (own_balance (fun _ => 0) (script_ops kinds 0 0 ++ free_all_ops (length (o_h s1)))) as Hb.
  cbv zeta in Hb. fold s0 in Hb. rewrite <- Hs2 in Hb. destruct Hb as (He & _ & Hf).
  assert (Hall : all_freed (o_h s2)).
  { rewrite Hh, skipn_all, app_nil_r. apply Forall_forall. intros o Ho. now apply repeat_spec in Ho. }
  rewrite (sum_counts_zero _ _ (Hf Hall)), He, Hm2, Hm. reflexivity.
Qed.

(* ---- update-style operations and the re-resolution of union values ---- *)
(* an update with an equal value changes nothing (its temporary is freed); with another value the handle holds the new value,
   the old value's references are released and the new one's are taken *)
Theorem own_update_exact d0 s h v v' : OInv d0 s -> nth_error (o_h s) h = Some (Some v) ->
  OInv d0 (ostep s (OUpdate h v')) /\
  (refs_eqb (refs v) (refs v') = true ->
     o_h (ostep s (OUpdate h v')) = o_h s /\ forall x, o_dict (ostep s (OUpdate h v')) x = o_dict s x) /\
  (refs_eqb (refs v) (refs v') = false ->
     o_h (ostep s (OUpdate h v')) = set_handle (o_h s) h (Some v') /\
     forall x, o_dict (ostep s (OUpdate h v')) x + cnt x (refs v) = o_dict s x + cnt x (refs v')).
Proof.
  intros HI E. split; [now apply ostep_inv|]. destruct HI as [He Hd]. cbn [ostep]. rewrite E.
  destruct (refs_eqb (refs v) (refs v')) eqn:Eq; (split; [intros Hq|intros Hq]); try discriminate.
  - cbv zeta. cbn [o_h o_dict]. split; [reflexivity|]. intro x.
    destruct (rel_all_ok (refs v') (acq_all (o_dict s) (refs v')) (o_err s)) as [_ H2].
    { intro y. rewrite acq_all_cnt. lia. }
    specialize (H2 x). rewrite acq_all_cnt in H2. exact (proj1 (N.add_cancel_r _ _ _) H2).
  - destruct (replace_inv d0 s h v v' (acq_all (o_dict s) (refs v')) He E) as (_ & G2 & G3).
    { intro x. now rewrite acq_all_cnt, Hd. }
    split; [exact G3|]. intro x. rewrite (G2 x). apply acq_all_cnt.
Qed.

(* re-resolution: the temporary of the recorded member leaves nothing behind, the value is switched as by an update *)
Theorem own_resolve_exact d0 s h v t v' : OInv d0 s -> nth_error (o_h s) h = Some (Some v) ->
  OInv d0 (ostep s (OResolve h t v')) /\
  o_h (ostep s (OResolve h t v')) = set_handle (o_h s) h (Some v') /\
  forall x, o_dict (ostep s (OResolve h t v')) x + cnt x (refs v) = o_dict s x + cnt x (refs v').
Proof.
  intros HI E. split; [now apply ostep_inv|]. destruct HI as [He Hd]. cbn [ostep]. rewrite E. cbv zeta.
  destruct (rel_all_ok (refs t) (acq_all (o_dict s) (refs t)) (o_err s)) as [H1 H2].
  { intro x. rewrite acq_all_cnt. lia. }
  assert (Hf : forall x, fst (rel_all (acq_all (o_dict s) (refs t), o_err s) (refs t)) x = o_dict s x).
  { intro x. specialize (H2 x). rewrite acq_all_cnt in H2. exact (proj1 (N.add_cancel_r _ _ _) H2). }
  destruct (replace_inv d0 (mkost (fst (rel_all (acq_all (o_dict s) (refs t), o_err s) (refs t)))
                                  (snd (rel_all (acq_all (o_dict s) (refs t), o_err s) (refs t))) (o_mis s) (o_h s)) h v v'
              (acq_all (fst (rel_all (acq_all (o_dict s) (refs t), o_err s) (refs t))) (refs v'))) as (_ & G2 & G3).
  - cbn [o_err]. transitivity (o_err s); [exact H1|exact He].
  - exact E.
  - intro x. cbn [o_h]. rewrite acq_all_cnt. exact (f_equal (fun z => z + cnt x (refs v')) (eq_trans (Hf x) (Hd x))).
  - split; [exact G3|]. intro x. rewrite (G2 x), acq_all_cnt. exact (f_equal (fun z => z + cnt x (refs v')) (Hf x)).
Qed.

(* C17-6 class: an update with an EQUAL value that forgets its temporary: after the value is freed the dictionary still holds
   the temporary's references; the correct operation leaves nothing *)
Example own_update_same_leaked_refuted :
  let s1 := ostep (mkost ex_d0 0 0 []) (OStore ex_zone) in
  o_dict (ostep (ostep_update_same_leaked s1 0 ex_zone) (OFree 0)) [101; 116; 104; 48] = 1 /\
  o_dict (ostep (ostep s1 (OUpdate 0 ex_zone)) (OFree 0)) [101; 116; 104; 48] = 0.
Proof. cbv zeta. split; vm_compute; reflexivity. Qed.

(* C17-8 class: the temporary of the recorded union member is freed only when its text was not printed into a new buffer *)
Example own_resolve_leaked_refuted :
  let s1 := ostep (mkost ex_d0 0 0 []) (OStore (Val [[117]] [])) in
  let t := Val [[97; 58; 105; 100; 49]] [] in
  o_dict (ostep (ostep_resolve_leaked s1 0 t (Val [[115]] []) true) (OFree 0)) [97; 58; 105; 100; 49] = 1 /\
  o_dict (ostep (ostep_resolve_leaked s1 0 t (Val [[115]] []) false) (OFree 0)) [97; 58; 105; 100; 49] = 0 /\
  o_dict (ostep (ostep s1 (OResolve 0 t (Val [[115]] []))) (OFree 0)) [97; 58; 105; 100; 49] = 0.
Proof. cbv zeta. repeat split; vm_compute; reflexivity. Qed.
