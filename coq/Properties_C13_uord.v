(* Properties_C13_uord.v — property C13 (reversing diff(A,B) gives a diff that, applied to B, yields A;
   for user-ordered lists reversal restores both content and order) for ONE user-ordered leaf-list, on
   the list-level model DiffUserOrd of lyd_diff_reverse_all + lyd_diff_apply_all.
   Theorem statements only.

   Full-strength statement (reverse_apply_userord):
     forall l1 l2, NoDup l1 -> NoDup l2 -> reverse_apply (userord_diff l1 l2) l2 = Ok l1.
   It is FALSE of libyang (the model is faithful: impl/t_uord.c prints the same results), see the
   _refuted theorems; the fragment that does hold is _partial. *)
From LY Require Import Base DiffUserOrd DiffUserOrdP.
Local Open Scope N_scope.

(* The full statement fails: there are duplicate-free l1, l2 for which reversing the diff and applying
   it to l2 does not give l1. Witness A = 1 2 3 4, B = 4 3 2 1: the result is 4 3 1 2
   (lyd_diff_reverse_all swaps orig-value and value per node but keeps the order of the moves). *)
Theorem C13_reverse_apply_userord_refuted :
  exists l1 l2, NoDup l1 /\ NoDup l2 /\ reverse_apply (userord_diff l1 l2) l2 <> Ok l1.
Proof. exact reverse_apply_userord_refuted. Qed.
Print Assumptions C13_reverse_apply_userord_refuted.

Theorem C13_reverse_wrong_order_witness :
  reverse_apply (userord_diff [1; 2; 3; 4] [4; 3; 2; 1]) [4; 3; 2; 1] = Ok [4; 3; 1; 2].
Proof. exact reverse_wrong_order. Qed.
Print Assumptions C13_reverse_wrong_order_witness.

(* It can also fail with an error. Witness A = 1 2 3, B = 3: the reversed delete is a create that has
   yang:orig-value but no yang:value, lyd_diff_apply_r() returns LY_EINVAL. *)
Theorem C13_reverse_apply_userord_refuted_error :
  exists l1 l2, NoDup l1 /\ NoDup l2 /\ is_ok (reverse_apply (userord_diff l1 l2) l2) = false.
Proof. exact reverse_apply_userord_refuted_error. Qed.
Print Assumptions C13_reverse_apply_userord_refuted_error.

(* This is the rule, not an accident: EVERY diff of a user-ordered leaf-list that contains a delete
   fails to apply after reversal (no hypothesis on l1, l2). *)
Theorem C13_reverse_apply_userord_delete_fails :
  forall l1 l2, (count_op OpDelete (userord_diff l1 l2) > 0)%nat ->
  exists e, reverse_apply (userord_diff l1 l2) l2 = Err e.
Proof. exact reverse_apply_userord_delete_fails. Qed.
Print Assumptions C13_reverse_apply_userord_delete_fails.

(* What holds: if the diff contains no delete and at most one move (any number of creates), reversing
   it and applying it to l2 succeeds and restores l1, content and order.
   Missing for the full statement: diffs with a delete (always fail, above) and diffs with two or more
   moves (wrong order for some, above). *)
Theorem C13_reverse_apply_userord_partial :
  forall l1 l2, NoDup l1 -> NoDup l2 ->
  count_op OpDelete (userord_diff l1 l2) = O ->
  (count_op OpReplace (userord_diff l1 l2) <= 1)%nat ->
  reverse_apply (userord_diff l1 l2) l2 = Ok l1.
Proof. exact reverse_apply_userord_partial. Qed.
Print Assumptions C13_reverse_apply_userord_partial.

(* Inside that fragment the pointer returned in *data is the first sibling of the restored list too
   (since /repo commit a54f28a; before it, lyd_diff_insert set *first_node to the anchor when the moved
   node was *first_node, and this file held the refutation C13_reverse_first_sibling_refuted with the
   witness below, which is kept as a regression). *)
Theorem C13_reverse_apply_userord_partial_pointer :
  forall l1 l2, NoDup l1 -> NoDup l2 ->
  count_op OpDelete (userord_diff l1 l2) = O ->
  (count_op OpReplace (userord_diff l1 l2) <= 1)%nat ->
  reverse_apply_full (userord_diff l1 l2) l2 = Ok (l1, hd_error l1).
Proof. exact reverse_apply_full_userord_partial. Qed.
Print Assumptions C13_reverse_apply_userord_partial_pointer.

(* Former witness A = 1 2 3, B = 3 1 2 (one move): the list is 1 2 3 again and *data points at 1
   (it pointed at 2 before a54f28a). *)
Example C13_reverse_first_sibling_regression :
  reverse_apply_full (userord_diff [1; 2; 3] [3; 1; 2]) [3; 1; 2] = Ok ([1; 2; 3], Some 1).
Proof. exact reverse_pointer_regression. Qed.

(* the hypotheses of the partial theorem are satisfiable by a non-trivial pair: two creates around one move *)
Example C13_userord_partial_example :
  NoDup [1; 2; 3; 4] /\ NoDup [5; 1; 4; 6; 2; 3] /\
  userord_diff [1; 2; 3; 4] [5; 1; 4; 6; 2; 3] =
    [ mkdop OpCreate 5 (Some None) None; mkdop OpReplace 4 (Some (Some 1)) (Some (Some 3));
      mkdop OpCreate 6 (Some (Some 4)) None ] /\
  count_op OpDelete (userord_diff [1; 2; 3; 4] [5; 1; 4; 6; 2; 3]) = O /\
  count_op OpReplace (userord_diff [1; 2; 3; 4] [5; 1; 4; 6; 2; 3]) = 1%nat /\
  reverse_apply (userord_diff [1; 2; 3; 4] [5; 1; 4; 6; 2; 3]) [5; 1; 4; 6; 2; 3] = Ok [1; 2; 3; 4].
Proof.
  split; [repeat (constructor; [cbn [In]; intuition discriminate|]); constructor|].
  split; [repeat (constructor; [cbn [In]; intuition discriminate|]); constructor|].
  repeat split; vm_compute; reflexivity.
Qed.
