(* Properties_C05_iff.v — property C05 (arbitrary input never crashes, reads or writes out of bounds),
   lys_compile_iffeature() part: theorem statements only. Model: IfFeature.v (every access of the three
   heap blocks and of the input string answers IOob outside the extent); proofs: IfFeatureP.v.

   History: an earlier version of the code (and of the model) left its arrays on `not (not a)`, `)a(`,
   `a )(` and `()not not b` (SIGSEGV); this file then held a ..._refuted theorem with these witnesses and a
   ..._partial theorem under three side conditions on the string. The defects were fixed in /repo commits
   299b7de (last_not reset at parentheses), 6f66310 (negative parenthesis depth rejected at once) and
   685c1af (main pass splits words at `)` too). The model transcribes the fixed code and the property now
   holds at full strength, without any side condition. *)
From LY Require Import Base IfFeature IfFeatureP.
Local Open Scope N_scope.

(* iffeature_no_oob at full strength: for EVERY byte string (taken as a C string: it ends at its first
   NUL; grammatical or not), both module versions and every feature lookup function, the compiler never
   leaves the expression array, the features array, the operator stack or the string (IOob also covers
   the two assert()ed conditions of iff_stack_pop and a pop from an empty stack), terminates within the
   model's fuel, and never requests an absurd allocation. The only hypothesis is that the string fits a
   C object (length < 2^62), so that the 64-bit counters cannot wrap on their own. *)
Theorem C05_iffeature_no_oob :
  forall lookup v11 s, len_ok (cstr s) ->
    compile_c lookup v11 s <> IOob /\ compile_c lookup v11 s <> IErr E_FUEL /\ compile_c lookup v11 s <> IErr E_MEM.
Proof. exact compile_c_no_oob. Qed.
Print Assumptions C05_iffeature_no_oob.

(* regression: the four former crash witnesses `not (not a)`  `)a(`  `a )(`  `()not not b`. The first is
   grammatical and now compiles to NOT NOT F; the two with a negative parenthesis depth are rejected with
   LY_EVALID; the last one is (leniently) accepted as `b`: both passes now see the words not, not, b *)
Example C05_former_witnesses :
  compile_c lookup_abc true w_not_paren = IOk ([48], [Some [97]], 1) /\
  compile_c lookup_abc true w_neg_depth = IErr E_PAREN /\
  compile_c lookup_abc true w_neg_depth2 = IErr E_PAREN /\
  compile_c lookup_abc true w_rp_word = IOk ([3], [Some [98]], 1).
Proof. vm_compute. repeat split. Qed.

(* the statement is not vacuous: accepted and rejected strings, grammatical and ungrammatical ones.
   `not (a and not b) or ((c))` compiles, `(a and) not x (` is rejected (parentheses),
   `not (not not a)` compiles to NOT F, the ungrammatical `not () not b` passes the pre-pass, the main
   pass then writes fewer records than allocated and the final check answers LY_EINT (E_PROC) *)
Example C05_hypotheses_satisfiable :
  let s1 := [110;111;116;32;40;97;32;97;110;100;32;110;111;116;32;98;41;32;111;114;32;40;40;99;41;41] in
  let s2 := [40;97;32;97;110;100;41;32;110;111;116;32;120;32;40] in
  let s3 := [110;111;116;32;40;110;111;116;32;110;111;116;32;97;41] in
  let s4 := [110;111;116;32;40;41;32;110;111;116;32;98] in
  len_ok (cstr s1) /\
  compile_c lookup_abc true s1 = IOk ([210; 60], [Some [97]; Some [98]; Some [99]], 3) /\
  compile_c lookup_abc true s2 = IErr E_PAREN /\
  compile_c lookup_abc true s3 = IOk ([12], [Some [97]], 1) /\
  compile_c lookup_abc true s4 = IErr E_PROC.
Proof. split; [unfold len_ok; cbn; lia|]. vm_compute. repeat split. Qed.
