(* Properties_C05_iff.v — property C05 (arbitrary input never crashes, reads or writes out of bounds),
   lys_compile_iffeature() part: theorem statements only. Model: IfFeature.v (every access of the three
   heap blocks and of the input string answers IOob outside the extent); proofs: IfFeatureP.v. *)
From LY Require Import Base IfFeature IfFeatureP.
Local Open Scope N_scope.

(* iffeature_no_oob at full strength: for EVERY byte string (taken as a C string), every module version
   and every feature lookup, the compiler stays inside its arrays. FALSE for the code as it is. *)
Definition iffeature_no_oob_statement : Prop :=
  forall lookup v11 s, len_ok (cstr s) -> compile_c lookup v11 s <> IOob.

(* witnesses (all crash the real code): `not (not a)`  `)a(`  `a )(`  `()not not b` *)
Theorem C05_iffeature_no_oob_refuted :
  compile_c lookup_abc true w_not_paren = IOob /\ compile_c lookup_abc true w_neg_depth = IOob /\
  compile_c lookup_abc true w_neg_depth2 = IOob /\ compile_c lookup_abc true w_rp_word = IOob.
Proof. vm_compute. repeat split. Qed.
Print Assumptions C05_iffeature_no_oob_refuted.

Theorem C05_iffeature_no_oob_statement_false : ~ iffeature_no_oob_statement.
Proof.
  intro H. apply (H lookup_abc true w_not_paren).
  - unfold len_ok. cbn. lia.
  - apply C05_iffeature_no_oob_refuted.
Qed.
Print Assumptions C05_iffeature_no_oob_statement_false.

(* iffeature_no_oob under three side conditions on the string, each an executable check:
     depth_nonneg         reading left to right the parenthesis depth never drops below zero,
     not_cancel_adjacent  the pre-pass cancels a `not` only against the directly preceding `not`
                          (never across a parenthesis),
     rp_sep               no `)` is directly followed by a word character.
   For every such string — grammatical or not — every lookup function and both module versions the
   compiler never leaves the expression array, the features array, the operator stack or the string,
   terminates within the model's fuel, and never requests an absurd allocation. *)
Theorem C05_iffeature_no_oob_partial :
  forall lookup v11 s, len_ok (cstr s) ->
    depth_nonneg (cstr s) 0 = true -> not_cancel_adjacent (cstr s) = true -> rp_sep (cstr s) = true ->
    compile_c lookup v11 s <> IOob /\ compile_c lookup v11 s <> IErr E_FUEL /\ compile_c lookup v11 s <> IErr E_MEM.
Proof. exact compile_c_no_oob_partial. Qed.
Print Assumptions C05_iffeature_no_oob_partial.

(* none of the three conditions can be dropped: for each there is a crashing input that violates only it *)
Theorem C05_iffeature_conditions_independent :
  (depth_nonneg w_not_paren 0, not_cancel_adjacent w_not_paren, rp_sep w_not_paren) = (true, false, true) /\
  (depth_nonneg w_neg_depth2 0, not_cancel_adjacent w_neg_depth2, rp_sep w_neg_depth2) = (false, true, true) /\
  (depth_nonneg w_rp_word 0, not_cancel_adjacent w_rp_word, rp_sep w_rp_word) = (true, true, false).
Proof. vm_compute. repeat split. Qed.
Print Assumptions C05_iffeature_conditions_independent.

(* the conditions are sufficient, not necessary: `not (not not a)` violates the second one and compiles *)
Example C05_conditions_not_necessary :
  let s := [110;111;116;32;40;110;111;116;32;110;111;116;32;97;41] in
  not_cancel_adjacent s = false /\ compile_c lookup_abc true s = IOk ([12], [Some [97]], 1).
Proof. vm_compute. split; reflexivity. Qed.

(* the hypotheses are satisfiable by non-trivial strings, accepted and rejected ones:
   `not (a and not b) or ((c))` compiles, `(a and) not x (` is rejected *)
Example C05_hypotheses_satisfiable :
  let s1 := [110;111;116;32;40;97;32;97;110;100;32;110;111;116;32;98;41;32;111;114;32;40;40;99;41;41] in
  let s2 := [40;97;32;97;110;100;41;32;110;111;116;32;120;32;40] in
  (depth_nonneg (cstr s1) 0, not_cancel_adjacent (cstr s1), rp_sep (cstr s1)) = (true, true, true) /\
  (depth_nonneg (cstr s2) 0, not_cancel_adjacent (cstr s2), rp_sep (cstr s2)) = (true, true, true) /\
  compile_c lookup_abc true s1 = IOk ([210; 60], [Some [97]; Some [98]; Some [99]], 3) /\
  compile_c lookup_abc true s2 = IErr E_PAREN.
Proof. vm_compute. repeat split. Qed.
