(* Extract_iff.v — extraction of the iff slice (IfFeature) to OCaml; see Extract_xml.v. *)
From Coq Require Extraction ExtrOcamlBasic.
From LY Require Import Base IfFeature.
Extraction Language OCaml.
Extraction "model_iff.ml"
  N.add N.mul N.div N.modulo N.sub Z.add Z.mul Z.opp Z.of_N Z.abs_N Z.sub Z.ltb
  IfFeature.compile_c IfFeature.iff_value IfFeature.lookup_abc IfFeature.env_abc.
