(* Implicit.v -- model of the implicit-node part of data validation on the Tree.v values. MODEL ONLY (proofs: ImplicitP.v).

   Transcribed (src/validation.c, src/tree_data_new.c, src/tree_data_common.c of libyang):
     lyd_validate_all / lyd_validate          -> validate_all      (LYD_VALIDATE_PRESENT, one module, with the diff)
     lyd_validate_subtree (DFS, pre-order)    -> level true        (per sibling list: lyd_validate_new, THEN lyd_new_implicit,
                                                                    THEN the same for the children of every inner sibling,
                                                                    old and just created ones, in sibling order)
     lyd_validate_new                         -> vnew              (lyd_validate_choice_r first, then the node loop)
     lyd_validate_choice_r / lyd_validate_cases -> choice_r / validate_cases
     lyd_validate_autodel_leaflist_dflt / _cont_leaf_dflt / _case_dflt / _node_del -> autodel_* / del_changes
     lyd_validate_duplicates                  -> dup check of vnew_loop (Tree.same_inst)
     lyd_new_implicit                         -> implicit          (choices first, then containers / leaves / leaf-lists)
     lyd_new_implicit_all / _module / _tree   -> implicit_all      (level false: no lyd_validate_new, no final pass)
     lyd_validate_final_r                     -> final_forest      (mandatory / min- / max-elements, lyd_np_cont_dflt_set)
     lyd_val_diff_add                         -> the list of [change]s in the order of the calls

   ORDER as coded: for one sibling list (top level, or the children of an inner node reached by the DFS)
       1. lyd_validate_choice_r: every choice of the level, nested ones after their parent: two cases with old data or two
          with new data are an error; old + new: every node of the old case is deleted (recorded, NP containers too);
       2. node loop over new-or-default siblings: for the first new node of a schema node that can have a default
          (leaf / leaf-list with default, NP container): delete the default instances if an explicit one exists (leaf /
          container: else ONE old default instance); duplicate check of a new node; LYD_NEW cleared; a default node
          whose closest enclosing non-default case (walking up over default cases, 357db45) holds no explicit node
          is deleted;
       3. lyd_new_implicit on the same list;
       4. descend into every inner sibling (steps 1-4 on its children);
     after the whole tree: lyd_validate_final_r (checks, then lyd_np_cont_dflt_set bottom-up).

   LYD_NEW is not a field of Tree.dnode: it is carried as a RESERVED metadata entry with the empty name (real metadata
   names are module:name). when / must / unique / leafref are not modelled (the generated schemas have none).
   lyd_free_tree() of an auto-deleted node calls lyd_np_cont_dflt_set on the parents: that sets the default flag of
   NP containers left with default children only; the same flags are set by the bottom-up pass of lyd_validate_final_r
   and nothing reads them in between (the sibling lists of all ancestors are finished before the DFS descends), so the
   model sets them in final_forest only. Results after a validation ERROR are not modelled (the answer is the error).
   Instances of one schema node are taken from the whole sibling list (C: the contiguous run found by
   lyd_find_sibling_val; the same on canonical siblings). *)
From LY Require Import Base Tree.
Local Open Scope N_scope.

Definition E_VALID : N := 1.     (* LY_EVALID *)
Definition E_FUEL : N := 99.     (* out of fuel (never on canonical data, see ImplicitP) *)

(* ------------------------------------------------------------------------------------------- *)
(* LYD_NEW as a reserved metadata entry                                                          *)
(* ------------------------------------------------------------------------------------------- *)
Definition is_newkv (kv : bytes * bytes) : bool := match fst kv with [] => true | _ => false end.
Definition d_new (n : dnode) : bool := existsb is_newkv (d_meta n).
Definition clr_new (n : dnode) : dnode :=
  match n with DN s v d m ch => DN s v d (filter (fun kv => negb (is_newkv kv)) m) ch end.

(* ------------------------------------------------------------------------------------------- *)
(* schema: children of a parent, levels of the choice / case structure                           *)
(* ------------------------------------------------------------------------------------------- *)
Definition cc := (N * N)%type.                     (* (choice id, case id) *)
Definition cc_eqb (a b : cc) : bool := (fst a =? fst b) && (snd a =? snd b).
Definition cc_of (c : chc) : cc := (ch_id c, ch_case c).

Definition chainf (sch : schema) (s : sid) : list chc := si_choice (sget sch s).

(* the chain element that follows the level pre (a chain prefix) *)
Fixpoint next_chc (pre : list cc) (l : list chc) : option chc :=
  match pre, l with
  | [], x :: _ => Some x
  | p :: pre', q :: l' => if cc_eqb p (cc_of q) then next_chc pre' l' else None
  | _, _ => None
  end.

(* the chain is exactly pre: the node is a direct member of the level *)
Fixpoint chain_is (pre : list cc) (l : list chc) : bool :=
  match pre, l with
  | [], [] => true
  | p :: pre', q :: l' => cc_eqb p (cc_of q) && chain_is pre' l'
  | _, _ => false
  end.

(* the chain starts with pre *)
Fixpoint chain_pre (pre : list cc) (l : list chc) : bool :=
  match pre, l with
  | [], _ => true
  | p :: pre', q :: l' => cc_eqb p (cc_of q) && chain_pre pre' l'
  | _, _ => false
  end.

(* case of choice c (at level pre) a schema node lives in *)
Definition s_case (sch : schema) (pre : list cc) (c : N) (s : sid) : option N :=
  match next_chc pre (chainf sch s) with
  | Some x => if ch_id x =? c then Some (ch_case x) else None
  | None => None
  end.
Definition n_case (sch : schema) (pre : list cc) (c : N) (n : dnode) : option N := s_case sch pre c (d_sid n).
Definition in_choice (sch : schema) (pre : list cc) (c : N) (n : dnode) : bool :=
  match n_case sch pre c n with Some _ => true | None => false end.
Definition in_case (sch : schema) (pre : list cc) (c k : N) (n : dnode) : bool :=
  match n_case sch pre c n with Some k' => k' =? k | None => false end.

Definition schildren (sch : schema) (p : option sid) : list sid :=
  map fst (filter (fun e : sid * sinfo => opt_sid_eqb (si_parent (snd e)) p) sch).

Definition add_new (acc : list N) (x : N) : list N := if existsb (N.eqb x) acc then acc else acc ++ [x].
Definition nodupN (l : list N) : list N := fold_left add_new l [].

Definition filter_map {A B} (f : A -> option B) (l : list A) : list B :=
  flat_map (fun a => match f a with Some b => [b] | None => [] end) l.

(* lyd_val_getnext_get(): the choices and the other nodes of a level, in schema order *)
Definition choices_at (sch : schema) (p : option sid) (pre : list cc) : list N :=
  nodupN (filter_map (fun s => option_map ch_id (next_chc pre (chainf sch s))) (schildren sch p)).
Definition cases_of (sch : schema) (p : option sid) (pre : list cc) (c : N) : list N :=
  nodupN (filter_map (s_case sch pre c) (schildren sch p)).
Definition snodes_at (sch : schema) (p : option sid) (pre : list cc) : list sid :=
  filter (fun s => chain_is pre (chainf sch s)) (schildren sch p).

(* the chain element of choice c at level pre (flags: default case, mandatory choice) with property q *)
Definition choice_elem (sch : schema) (p : option sid) (pre : list cc) (c : N) (q : chc -> bool) : option chc :=
  match filter_map (fun s => match next_chc pre (chainf sch s) with
                             | Some x => if (ch_id x =? c) && q x then Some x else None
                             | None => None end) (schildren sch p) with
  | x :: _ => Some x
  | [] => None
  end.
Definition dflt_case (sch : schema) (p : option sid) (pre : list cc) (c : N) : option N :=
  option_map ch_case (choice_elem sch p pre c ch_dflt).
Definition choice_mand (sch : schema) (p : option sid) (pre : list cc) (c : N) : bool :=
  match choice_elem sch p pre c ch_mand with Some _ => true | None => false end.

Definition has_sid (f : forest) (s : sid) : bool := existsb (fun n => d_sid n =? s) f.

(* lyd_val_has_default() *)
Definition has_default (sch : schema) (s : sid) : bool :=
  match kind_of sch s with
  | KLeaf | KLeafList => match si_dflts (sget sch s) with [] => false | _ => true end
  | KCont false => true
  | _ => false
  end.

Definition is_inner (sch : schema) (s : sid) : bool :=
  match kind_of sch s with KCont _ | KList => true | _ => false end.

(* ------------------------------------------------------------------------------------------- *)
(* the validation diff                                                                           *)
(* ------------------------------------------------------------------------------------------- *)
Definition pstep := (sid * list bytes)%type.          (* an ancestor: schema node + key values *)
Definition step_of (sch : schema) (n : dnode) : pstep := (d_sid n, key_vals sch n).

Record change := mk_change {
  c_silent : bool;              (* a deletion libyang makes but does NOT put into the diff (never a create) *)
  c_create : bool;              (* LYD_DIFF_OP_CREATE / LYD_DIFF_OP_DELETE *)
  c_path : list pstep;          (* the ancestors, outermost first *)
  c_node : dnode                (* the node (delete: with its subtree) *)
}.
Definition mk_del (path : list pstep) (n : dnode) : change := mk_change false false path n.
Definition mk_create (path : list pstep) (n : dnode) : change := mk_change false true path n.

(* lyd_validate_autodel_node_del(np_cont_diff = 0): a deleted NP container is not recorded (the silent entry), its
   children are *)
Definition del_changes (sch : schema) (path : list pstep) (n : dnode) : list change :=
  if is_np_cont sch (d_sid n)
  then mk_change true false path (set_ch n []) :: map (mk_del (path ++ [step_of sch n])) (d_ch n)
  else [mk_del path n].

Fixpoint fold_res {A S} (f : S -> A -> res S) (l : list A) (s : S) : res S :=
  match l with
  | [] => Ok s
  | x :: r => bind (f s x) (fold_res f r)
  end.

(* ------------------------------------------------------------------------------------------- *)
(* lyd_validate_cases / lyd_validate_choice_r                                                    *)
(* ------------------------------------------------------------------------------------------- *)
Inductive found := FNone | FOld | FNew.

Definition case_found (sch : schema) (pre : list cc) (c k : N) (f : forest) : found :=
  let ns := filter (in_case sch pre c k) f in
  if existsb d_new ns then FNew else match ns with [] => FNone | _ => FOld end.

Fixpoint cases_scan (sch : schema) (pre : list cc) (c : N) (f : forest) (ks : list N) (old new : option N)
  : res (option N * option N) :=
  match ks with
  | [] => Ok (old, new)
  | k :: ks' =>
      match case_found sch pre c k f with
      | FOld => match old with Some _ => Err E_VALID | None => cases_scan sch pre c f ks' (Some k) new end
      | FNew => match new with Some _ => Err E_VALID | None => cases_scan sch pre c f ks' old (Some k) end
      | FNone => cases_scan sch pre c f ks' old new
      end
  end.

Definition validate_cases (sch : schema) (path : list pstep) (p : option sid) (pre : list cc) (c : N) (f : forest)
  : res (forest * list change) :=
  bind (cases_scan sch pre c f (cases_of sch p pre c) None None) (fun on =>
    match on with
    | (Some ko, Some _) =>
        Ok (filter (fun n => negb (in_case sch pre c ko n)) f,
            map (mk_del path) (filter (in_case sch pre c ko) f))
    | _ => Ok (f, [])
    end).

Fixpoint choice_r (fuel : nat) (sch : schema) (path : list pstep) (p : option sid) (pre : list cc) (st : forest * list change)
  : res (forest * list change) :=
  match fuel with
  | O => Err E_FUEL
  | S fuel' =>
      fold_res (fun (st : forest * list change) c =>
                  bind (validate_cases sch path p pre c (fst st)) (fun r =>
                    fold_res (fun st' k => choice_r fuel' sch path p (pre ++ [(c, k)]) st')
                             (cases_of sch p pre c) (fst r, snd st ++ snd r)))
               (choices_at sch p pre) st
  end.

(* ------------------------------------------------------------------------------------------- *)
(* the node loop of lyd_validate_new                                                             *)
(* ------------------------------------------------------------------------------------------- *)
Definition opt_is (o : option sid) (s : sid) : bool := match o with Some x => x =? s | None => false end.

(* siblings: before, the current node, after *)
Definition is_dflt_of (s : sid) (n : dnode) : bool := (d_sid n =? s) && d_dflt n.
Definition is_expl_of (s : sid) (n : dnode) : bool := (d_sid n =? s) && negb (d_dflt n).
Definition is_olddflt_of (s : sid) (n : dnode) : bool := (d_sid n =? s) && d_dflt n && negb (d_new n).

(* remove the first element with property q *)
Fixpoint remove_first {A} (q : A -> bool) (l : list A) : list A :=
  match l with
  | [] => []
  | x :: r => if q x then r else x :: remove_first q r
  end.

(* lyd_validate_autodel_leaflist_dflt / lyd_validate_autodel_cont_leaf_dflt for the new node cur:
   (before', cur deleted?, after', deleted nodes in sibling order) *)
Definition autodel_dflt (sch : schema) (bef : list dnode) (cur : dnode) (aft : forest)
  : list dnode * bool * forest * list dnode :=
  let s := d_sid cur in
  let all := bef ++ cur :: aft in
  if existsb (is_expl_of s) all then
    (* an explicit instance exists: every default instance goes *)
    (filter (fun n => negb (is_dflt_of s n)) bef, is_dflt_of s cur,
     filter (fun n => negb (is_dflt_of s n)) aft, filter (is_dflt_of s) all)
  else
    match kind_of sch s with
    | KLeafList => (bef, false, aft, [])
    | _ =>
        (* only default instances: a single old one goes (cur is new) *)
        match find (is_olddflt_of s) bef with
        | Some x => (remove_first (is_olddflt_of s) bef, false, aft, [x])
        | None =>
            match find (is_olddflt_of s) aft with
            | Some x => (bef, false, remove_first (is_olddflt_of s) aft, [x])
            | None => (bef, false, aft, [])
            end
        end
    end.

(* lyd_validate_autodel_case_dflt (as of 357db45): walk up from the case the default node cur is a direct member of, over
   cases that are the default case of their choice; if the top is reached the node is data of default cases only and is
   kept; otherwise the first case that is NOT a default case must hold an explicit node (anywhere below it), else cur is
   left over from a case that no longer exists.
   stale_prefix works on the REVERSED chain (innermost case first) and returns the reversed chain prefix that ends with
   that non-default case. *)
Fixpoint stale_prefix (r : list chc) : option (list chc) :=
  match r with
  | [] => None
  | x :: r' => if ch_dflt x then stale_prefix r' else Some (x :: r')
  end.

Definition case_leftover (sch : schema) (all : forest) (cur : dnode) : bool :=
  match stale_prefix (rev (chainf sch (d_sid cur))) with
  | None => false
  | Some rp => negb (existsb (fun n => chain_pre (map cc_of (rev rp)) (chainf sch (d_sid n)) && negb (d_dflt n)) all)
  end.

Fixpoint vnew_loop (fuel : nat) (sch : schema) (path : list pstep) (bef : list dnode) (aft : forest)
         (last : option sid) (acc : list change) : res (forest * list change) :=
  match fuel with
  | O => Err E_FUEL
  | S fuel' =>
      match aft with
      | [] => Ok (bef, acc)
      | cur :: rest =>
          if negb (d_new cur || d_dflt cur) then vnew_loop fuel' sch path (bef ++ [cur]) rest last acc
          else
            let s := d_sid cur in
            let try := has_default sch s && negb (opt_is last s) && d_new cur in
            let last' := if try then Some s else last in
            let '(bef1, gone, rest1, dels) := if try then autodel_dflt sch bef cur rest else (bef, false, rest, []) in
            let acc1 := acc ++ flat_map (del_changes sch path) dels in
            if gone then vnew_loop fuel' sch path bef1 rest1 last' acc1
            else
              if d_new cur && negb (dup_inst sch s) && existsb (same_inst sch cur) (bef1 ++ rest1)
              then Err E_VALID
              else
                let cur' := clr_new cur in
                if d_dflt cur' && case_leftover sch (bef1 ++ cur' :: rest1) cur'
                then vnew_loop fuel' sch path bef1 rest1 last' (acc1 ++ del_changes sch path cur')
                else vnew_loop fuel' sch path (bef1 ++ [cur']) rest1 last' acc1
      end
  end.

Definition cfuel (sch : schema) : nat := S (length sch).

Definition vnew (sch : schema) (path : list pstep) (p : option sid) (f : forest) : res (forest * list change) :=
  bind (choice_r (cfuel sch) sch path p [] (f, [])) (fun st =>
    vnew_loop (S (length (fst st))) sch path [] (fst st) None (snd st)).

(* ------------------------------------------------------------------------------------------- *)
(* lyd_new_implicit                                                                              *)
(* ------------------------------------------------------------------------------------------- *)
Definition mk_dflt (s : sid) (v : bytes) : dnode := DN s v true [] [].

Definition add_dflt (sch : schema) (path : list pstep) (s : sid) (st : forest * list change) (v : bytes)
  : forest * list change :=
  (insert_node sch (fst st) (mk_dflt s v), snd st ++ [mk_create path (mk_dflt s v)]).

(* nostate = LYD_IMPLICIT_NO_STATE: config false schema nodes are skipped (a config false choice holds only such nodes) *)
Definition impl_snode (sch : schema) (nostate : bool) (path : list pstep) (st : forest * list change) (s : sid)
  : forest * list change :=
  if nostate && negb (si_config (sget sch s)) then st
  else if has_sid (fst st) s then st
  else
    match kind_of sch s with
    | KCont false => add_dflt sch path s st []
    | KLeaf => match si_dflts (sget sch s) with v :: _ => add_dflt sch path s st v | [] => st end
    | KLeafList => fold_left (add_dflt sch path s) (si_dflts (sget sch s)) st
    | _ => st
    end.

Fixpoint implicit (fuel : nat) (sch : schema) (nostate : bool) (path : list pstep) (p : option sid) (pre : list cc)
         (st : forest * list change) : res (forest * list change) :=
  match fuel with
  | O => Err E_FUEL
  | S fuel' =>
      bind (fold_res (fun (st : forest * list change) c =>
                        match find (in_choice sch pre c) (fst st) with
                        | None =>
                            (* no data of the choice: the default case, if any *)
                            match dflt_case sch p pre c with
                            | Some k => implicit fuel' sch nostate path p (pre ++ [(c, k)]) st
                            | None => Ok st
                            end
                        | Some n =>
                            (* defaults of the existing case (the case of THIS choice the node lives in, f4b2f68) *)
                            match n_case sch pre c n with
                            | Some k => implicit fuel' sch nostate path p (pre ++ [(c, k)]) st
                            | None => Ok st
                            end
                        end) (choices_at sch p pre) st)
           (fun st1 => Ok (fold_left (impl_snode sch nostate path) (snodes_at sch p pre) st1))
  end.

(* ------------------------------------------------------------------------------------------- *)
(* the DFS: lyd_validate_subtree (val = true) / lyd_new_implicit_tree (val = false)              *)
(* ------------------------------------------------------------------------------------------- *)
(* the children of every inner sibling, in sibling order (rec = the DFS one level down) *)
Fixpoint descend (rec : list pstep -> option sid -> forest -> res (forest * list change)) (sch : schema)
         (path : list pstep) (l : forest) (acc : list change) : res (forest * list change) :=
  match l with
  | [] => Ok ([], acc)
  | n :: r =>
      bind (if is_inner sch (d_sid n)
            then bind (rec (path ++ [step_of sch n]) (Some (d_sid n)) (d_ch n)) (fun c => Ok (set_ch n (fst c), snd c))
            else Ok (n, [])) (fun n' =>
      bind (descend rec sch path r (acc ++ snd n')) (fun r' => Ok (fst n' :: fst r', snd r')))
  end.

Fixpoint level (fuel : nat) (val nostate : bool) (sch : schema) (path : list pstep) (p : option sid) (f : forest)
  : res (forest * list change) :=
  match fuel with
  | O => Err E_FUEL
  | S fuel' =>
      bind (if val then vnew sch path p f else Ok (f, [])) (fun st1 =>
      bind (implicit (cfuel sch) sch nostate path p [] st1) (fun st2 =>
      descend (level fuel' val nostate sch) sch path (fst st2) (snd st2)))
  end.

Definition dfuel (sch : schema) : nat := S (length sch).

(* ------------------------------------------------------------------------------------------- *)
(* lyd_validate_final_r                                                                          *)
(* ------------------------------------------------------------------------------------------- *)
Definition count_sid (f : forest) (s : sid) : N := N.of_nat (length (filter (fun n => d_sid n =? s) f)).

(* lyd_validate_minmax / lyd_validate_mandatory of one schema node *)
Definition check_snode (sch : schema) (f : forest) (s : sid) : bool :=
  let i := sget sch s in
  match si_kind i with
  | KList | KLeafList =>
      (si_min i <=? count_sid f s) && match si_max i with Some m => count_sid f s <=? m | None => true end
  | _ => negb (si_mand i) || has_sid f s
  end.

(* lyd_validate_siblings_schema_r *)
Fixpoint check_level (fuel : nat) (sch : schema) (p : option sid) (pre : list cc) (f : forest) : res unit :=
  match fuel with
  | O => Err E_FUEL
  | S fuel' =>
      bind (fold_res (fun (_ : unit) c =>
                        if choice_mand sch p pre c && negb (existsb (in_choice sch pre c) f) then Err E_VALID
                        else match find (fun k => existsb (in_case sch pre c k) f) (cases_of sch p pre c) with
                             | Some k => check_level fuel' sch p (pre ++ [(c, k)]) f
                             | None => Ok tt
                             end) (choices_at sch p pre) tt)
           (fun _ => if forallb (check_snode sch f) (snodes_at sch p pre) then Ok tt else Err E_VALID)
  end.

(* lyd_np_cont_dflt_set on one node (the walk up is the bottom-up order of final_node) *)
Definition np_set (sch : schema) (n : dnode) : dnode :=
  if is_np_cont sch (d_sid n) && negb (d_dflt n) && forallb d_dflt (d_ch n) then set_dflt n true else n.

Fixpoint final_node (sch : schema) (n : dnode) {struct n} : res dnode :=
  match n with
  | DN s v d m ch =>
      bind (check_level (cfuel sch) sch (Some s) [] ch) (fun _ =>
      bind ((fix go (l : list dnode) : res (list dnode) :=
               match l with
               | [] => Ok []
               | x :: l' => bind (final_node sch x) (fun x' => bind (go l') (fun r => Ok (x' :: r)))
               end) ch) (fun ch' => Ok (np_set sch (DN s v d m ch'))))
  end.

Fixpoint map_res {A B} (f : A -> res B) (l : list A) : res (list B) :=
  match l with
  | [] => Ok []
  | x :: l' => bind (f x) (fun x' => bind (map_res f l') (fun r => Ok (x' :: r)))
  end.

Definition final_forest (sch : schema) (f : forest) : res forest :=
  bind (check_level (cfuel sch) sch None [] f) (fun _ => map_res (final_node sch) f).

(* ------------------------------------------------------------------------------------------- *)
(* entry points                                                                                  *)
(* ------------------------------------------------------------------------------------------- *)
(* lyd_validate_all(&tree, ctx, LYD_VALIDATE_PRESENT, &diff): only modules with data are validated *)
Definition validate_all (sch : schema) (f : forest) : res (forest * list change) :=
  match f with
  | [] => Ok ([], [])
  | _ =>
      bind (level (dfuel sch) true false sch [] None f) (fun st =>
      bind (final_forest sch (fst st)) (fun g => Ok (g, snd st)))
  end.

(* lyd_new_implicit_all(&tree, ctx, nostate ? LYD_IMPLICIT_NO_STATE : 0, &diff) *)
Definition implicit_all (sch : schema) (nostate : bool) (f : forest) : res (forest * list change) :=
  level (dfuel sch) false nostate sch [] None f.

(* ------------------------------------------------------------------------------------------- *)
(* net effect of a change list (what lyd_diff_merge_all of the single changes leaves), per NODE - a deleted subtree is
   the deletion of each of its nodes:
     delete then create of the same node: nothing is left for an inner node or an equal term with the same default
       flag; an equal term with another default flag leaves a flag change (operation none + orig-default); a leaf with
       another value leaves a replace;
     create then delete of the same node: nothing is left.
   Used to compare with the diff tree libyang returns. *)
(* ------------------------------------------------------------------------------------------- *)
Inductive fop := FDel | FCre | FFlag | FRepl.

Record fchange := mk_fchange {
  fc_op : fop;
  fc_path : list pstep;         (* ancestors and the node itself *)
  fc_val : bytes;
  fc_dflt : bool;
  fc_multi : bool;              (* leaf-list: the value is part of the identity *)
  fc_term : bool
}.

Fixpoint flat_node (sch : schema) (op : fop) (path : list pstep) (n : dnode) {struct n} : list fchange :=
  match n with
  | DN s v d m ch =>
      let me := path ++ [step_of sch n] in
      mk_fchange op me v d (match kind_of sch s with KLeafList => true | _ => false end) (is_term sch s) ::
      (fix go (l : list dnode) : list fchange :=
         match l with [] => [] | x :: l' => flat_node sch op me x ++ go l' end) ch
  end.

Definition flat_change (sch : schema) (c : change) : list fchange :=
  if c_silent c then [] else flat_node sch (if c_create c then FCre else FDel) (c_path c) (c_node c).

Fixpoint pstep_eqb (a b : list pstep) : bool :=
  match a, b with
  | [], [] => true
  | (s, k) :: a', (t, l) :: b' => (s =? t) && beq_bytes_list k l && pstep_eqb a' b'
  | _, _ => false
  end.

Definition same_target (a b : fchange) : bool :=
  pstep_eqb (fc_path a) (fc_path b) && (negb (fc_multi a) || beq_bytes (fc_val a) (fc_val b)).

(* add x to the net list acc: merge it with the first entry for the same node *)
Fixpoint net_add (acc : list fchange) (x : fchange) : list fchange :=
  match acc with
  | [] => [x]
  | y :: r =>
      if same_target y x then
        match fc_op y, fc_op x with
        | FDel, FCre =>
            if beq_bytes (fc_val y) (fc_val x) then
              (if Bool.eqb (fc_dflt y) (fc_dflt x) || negb (fc_term x) then r
               else mk_fchange FFlag (fc_path x) (fc_val x) (fc_dflt x) (fc_multi x) (fc_term x) :: r)
            else mk_fchange FRepl (fc_path x) (fc_val x) (fc_dflt x) (fc_multi x) (fc_term x) :: r
        | FCre, FDel => r
        | _, _ => y :: net_add r x
        end
      else y :: net_add r x
  end.

Definition net (sch : schema) (d : list change) : list fchange :=
  fold_left net_add (flat_map (flat_change sch) d) [].

(* ------------------------------------------------------------------------------------------- *)
(* SPEC (independent of the functions above): the normal form RFC 7950 requires                 *)
(*   7.6.1 / 7.7.2  a default leaf / the default leaf-list values are in use iff no instance exists and the ancestors *)
(*                  exist (for a node in a case: 7.9.3)                                                                *)
(*   7.5.1          a non-presence container exists whenever its parent does (libyang: default-flagged iff it holds no *)
(*                  explicit node)                                                                                     *)
(*   7.9.3          the nodes of a case are in use iff a node of the case exists, or it is the default case and no node *)
(*                  of any case of the choice exists - level by level for nested choices                               *)
(* explicit = not default-flagged. *)
(* ------------------------------------------------------------------------------------------- *)
Definition expl (n : dnode) : bool := negb (d_dflt n).

(* every case on the chain l (below the level pre) is in use among the siblings g *)
Fixpoint active_from (sch : schema) (g : forest) (pre : list cc) (l : list chc) : bool :=
  match l with
  | [] => true
  | x :: l' =>
      (existsb (fun n => expl n && in_case sch pre (ch_id x) (ch_case x) n) g ||
       (ch_dflt x && negb (existsb (fun n => expl n && in_choice sch pre (ch_id x) n) g))) &&
      active_from sch g (pre ++ [cc_of x]) l'
  end.
Definition active (sch : schema) (g : forest) (s : sid) : bool := active_from sch g [] (chainf sch s).

Definition count_val (v : bytes) (l : list bytes) : nat := length (filter (beq_bytes v) l).
Definition same_vals (a b : list bytes) : bool :=
  forallb (fun v => Nat.eqb (count_val v a) (count_val v b)) (a ++ b).

Definition is_nil {A} (l : list A) : bool := match l with [] => true | _ => false end.

(* the default-flagged instances of schema node s among the siblings g are exactly the ones required *)
Definition norm_snode (sch : schema) (g : forest) (s : sid) : bool :=
  let D := filter (is_dflt_of s) g in
  let want := is_nil (filter (is_expl_of s) g) && active sch g s in
  match kind_of sch s with
  | KLeaf =>
      match si_dflts (sget sch s) with
      | v :: _ => if want then match D with [x] => beq_bytes (d_val x) v && is_nil (d_ch x) | _ => false end else is_nil D
      | [] => is_nil D
      end
  | KLeafList =>
      match si_dflts (sget sch s) with
      | [] => is_nil D
      | vs => if want then same_vals (map d_val D) vs && forallb (fun x => is_nil (d_ch x)) D else is_nil D
      end
  | KCont false => if want then match D with [_] => true | _ => false end else is_nil D
  | _ => is_nil D
  end.

(* two sibling schema nodes in different cases of one choice *)
Fixpoint chain_conflict (a b : list chc) : bool :=
  match a, b with
  | x :: a', y :: b' =>
      if ch_id x =? ch_id y then (if ch_case x =? ch_case y then chain_conflict a' b' else true) else false
  | _, _ => false
  end.
Definition cases_okb (sch : schema) (g : forest) : bool :=
  forallb (fun a => forallb (fun b => negb (chain_conflict (chainf sch (d_sid a)) (chainf sch (d_sid b)))) g) g.

Definition norm_level (sch : schema) (p : option sid) (g : forest) : bool :=
  forallb (fun n => negb (d_new n)) g &&
  forallb (fun n => existsb (N.eqb (d_sid n)) (schildren sch p)) g &&      (* instances of schema children of p *)
  cases_okb sch g && forallb (norm_snode sch g) (schildren sch p).

Fixpoint normal_node (sch : schema) (n : dnode) {struct n} : bool :=
  match n with
  | DN s v d m ch =>
      (if is_np_cont sch s then Bool.eqb d (forallb d_dflt ch) else true) &&
      (if is_inner sch s then norm_level sch (Some s) ch else true) &&
      (fix all (l : list dnode) : bool := match l with [] => true | x :: l' => normal_node sch x && all l' end) ch
  end.

Definition normalb (sch : schema) (g : forest) : bool := norm_level sch None g && forallb (normal_node sch) g.

(* the explicit content: default-flagged nodes dropped, LYD_NEW cleared *)
Fixpoint strip_node (n : dnode) {struct n} : dnode :=
  match n with
  | DN s v d m ch =>
      DN s v d (filter (fun kv => negb (is_newkv kv)) m)
         ((fix go (l : list dnode) : list dnode :=
             match l with [] => [] | x :: l' => if d_dflt x then go l' else strip_node x :: go l' end) ch)
  end.
Fixpoint strip (f : forest) : forest :=
  match f with [] => [] | x :: r => if d_dflt x then strip r else strip_node x :: strip r end.

(* ------------------------------------------------------------------------------------------- *)
(* SPEC: replaying a change list (what lyd_diff_apply_all does with creates / deletes)            *)
(* ------------------------------------------------------------------------------------------- *)
Definition step_is (sch : schema) (st : pstep) (n : dnode) : bool :=
  (d_sid n =? fst st) && beq_bytes_list (key_vals sch n) (snd st).

Fixpoint at_path (sch : schema) (path : list pstep) (F : forest -> forest) (f : forest) : forest :=
  match path with
  | [] => F f
  | st :: path' => map (fun n => if step_is sch st n then set_ch n (at_path sch path' F (d_ch n)) else n) f
  end.

(* the instance a recorded node stands for *)
Definition same_node (sch : schema) (a b : dnode) : bool :=
  (d_sid a =? d_sid b) && beq_bytes (d_val a) (d_val b) && Bool.eqb (d_dflt a) (d_dflt b) &&
  beq_bytes_list (key_vals sch a) (key_vals sch b).

Definition apply_change (sch : schema) (f : forest) (c : change) : forest :=
  if c_silent c then f
  else if c_create c then at_path sch (c_path c) (fun g => insert_node sch g (c_node c)) f
  else at_path sch (c_path c) (remove_first (same_node sch (c_node c))) f.

Definition apply_changes (sch : schema) (d : list change) (f : forest) : forest := fold_left (apply_change sch) d f.

(* the same with the deletions libyang does not report applied too (what the diff would have to contain) *)
Definition unsilent (c : change) : change := mk_change false (c_create c) (c_path c) (c_node c).
Definition apply_changes_all (sch : schema) (d : list change) (f : forest) : forest :=
  apply_changes sch (map unsilent d) f.

(* lyd_diff_apply keeps the NP container flags right (lyd_insert / lyd_unlink) and the comparison ignores LYD_NEW:
   clear LYD_NEW, recompute the default flag of NP containers bottom-up *)
Fixpoint np_norm_node (sch : schema) (n : dnode) {struct n} : dnode :=
  match n with
  | DN s v d m ch =>
      let ch' := (fix go (l : list dnode) : list dnode :=
                    match l with [] => [] | x :: l' => np_norm_node sch x :: go l' end) ch in
      DN s v (if is_np_cont sch s then forallb d_dflt ch' else d) (filter (fun kv => negb (is_newkv kv)) m) ch'
  end.
Definition np_norm (sch : schema) (f : forest) : forest := map (np_norm_node sch) f.

(* SPEC: the default flag is sound: a default-flagged node is a leaf / leaf-list instance holding one of the default
   values of its schema node, or a non-presence container *)
Definition sound_top (sch : schema) (n : dnode) : bool :=
  negb (d_dflt n) ||
  match kind_of sch (d_sid n) with
  | KLeaf | KLeafList => existsb (beq_bytes (d_val n)) (si_dflts (sget sch (d_sid n)))
  | KCont false => true
  | _ => false
  end.
Fixpoint sound_node (sch : schema) (n : dnode) {struct n} : bool :=
  match n with
  | DN s v d m ch =>
      sound_top sch (DN s v d m ch) &&
      (fix all (l : list dnode) : bool := match l with [] => true | x :: l' => sound_node sch x && all l' end) ch
  end.
Definition flag_soundb (sch : schema) (f : forest) : bool := forallb (sound_node sch) f.

(* schema sanity of the choice encoding (tools/treeenc.py guarantees it): one (choice, case) pair carries the same
   flags wherever it occurs, and a choice has at most one default case *)
Definition all_chcs (sch : schema) : list chc := flat_map (fun e : sid * sinfo => si_choice (snd e)) sch.
Definition chc_okb (sch : schema) : bool :=
  forallb (fun x => forallb (fun y =>
    negb (ch_id x =? ch_id y) ||
    ((negb (ch_case x =? ch_case y) || (Bool.eqb (ch_dflt x) (ch_dflt y) && Bool.eqb (ch_mand x) (ch_mand y))) &&
     (negb (ch_dflt x && ch_dflt y) || (ch_case x =? ch_case y)))) (all_chcs sch)) (all_chcs sch).

(* SPEC / hypothesis: the default instances D of schema node s are exactly the required ones *)
Definition complete (sch : schema) (s : sid) (D : list dnode) : bool :=
  match kind_of sch s with
  | KLeaf => match si_dflts (sget sch s) with
             | v :: _ => match D with [x] => beq_bytes (d_val x) v && is_nil (d_ch x) | _ => false end
             | [] => false
             end
  | KLeafList => match si_dflts (sget sch s) with
                 | [] => false
                 | vs => same_vals (map d_val D) vs && forallb (fun x => is_nil (d_ch x)) D
                 end
  | KCont false => match D with [_] => true | _ => false end
  | _ => false
  end.


(* edited data: a tree in normal form after edits through the API that mark what they touch as new (lyd_new_path,
   lyd_change_term, lyd_insert_*, lyd_diff_apply, freeing nodes): per sibling list
     - a new node is explicit;
     - the default-flagged instances of a schema node are none or the complete set (one default leaf with the default
       value, ALL default leaf-list values, one non-presence container) - this is what excludes the deviation
       dflt-leaflist-partial - and no OLD explicit instance stands beside them (a new one may: validation removes the
       defaults then);
     - every node is an instance of a schema child of the parent; terminal nodes have no children;
     - a non-presence container is default-flagged iff all its children are (lyd_np_cont_dflt_del / _set).
   Siblings need not be canonical: after lyd_diff_apply a default and a new explicit instance of a leaf coexist. *)
Definition edited_lvl (sch : schema) (p : option sid) (f : forest) : bool :=
  forallb (fun n => negb (d_new n && d_dflt n)) f &&
  forallb (fun n => existsb (N.eqb (d_sid n)) (schildren sch p)) f &&
  forallb (fun s => let D := filter (is_dflt_of s) f in
                    is_nil D || (complete sch s D && is_nil (filter (fun n => is_expl_of s n && negb (d_new n)) f)))
          (schildren sch p).


Fixpoint edited_node (sch : schema) (n : dnode) {struct n} : bool :=
  match n with
  | DN s v d m ch =>
      (if is_np_cont sch s then Bool.eqb d (forallb d_dflt ch) else true) &&
      (if is_inner sch s then edited_lvl sch (Some s) ch else is_nil ch) &&
      (fix all (l : list dnode) : bool := match l with [] => true | x :: l' => edited_node sch x && all l' end) ch
  end.
Definition editedb (sch : schema) (f : forest) : bool := edited_lvl sch None f && forallb (edited_node sch) f.


(* freshly parsed data (LYD_PARSE_ONLY of a document without empty non-presence containers and without default
   attributes): every node is new and explicit, a non-presence container has children *)
Fixpoint fresh_node (sch : schema) (n : dnode) {struct n} : bool :=
  match n with
  | DN s v d m ch =>
      d_new (DN s v d m ch) && negb d && (if is_np_cont sch s then negb (is_nil ch) else true) &&
      (fix all (l : list dnode) : bool := match l with [] => true | x :: l' => fresh_node sch x && all l' end) ch
  end.
Definition freshb (sch : schema) (f : forest) : bool := forallb (fresh_node sch) f.


(* schema sanity used by the canonical-order theorem: schema ids are unique; key leaves have no default and are not
   inside a choice (YANG: a key cannot be in a case, a default on a key is ignored) *)
Fixpoint nodupb (l : list N) : bool :=
  match l with [] => true | x :: r => negb (existsb (N.eqb x) r) && nodupb r end.
Definition sids_uniqb (sch : schema) : bool := nodupb (map fst sch).
Definition keys_plainb (sch : schema) : bool :=
  forallb (fun e : sid * sinfo => forallb (fun k => negb (has_default sch k) && is_nil (chainf sch k)) (si_keys (snd e))) sch.

(* input well-formedness the edit API maintains (lyd_np_cont_dflt_del / _set on insert, unlink, change): an NP container
   is default-flagged iff all its children are *)
Fixpoint np_flags_node (sch : schema) (n : dnode) {struct n} : bool :=
  match n with
  | DN s v d m ch =>
      (if is_np_cont sch s then Bool.eqb d (forallb d_dflt ch) else true) &&
      (fix all (l : list dnode) : bool := match l with [] => true | x :: l' => np_flags_node sch x && all l' end) ch
  end.
Definition np_flagsb (sch : schema) (f : forest) : bool := forallb (np_flags_node sch) f.

(* every node a change list addresses has an instance identity (no key-less list / state leaf-list on a path: their
   instances are addressed by position, libyang asserts on them - finding vdiff-dupinst) *)
Definition change_idb (sch : schema) (c : change) : bool :=
  forallb (fun st : pstep => negb (dup_inst sch (fst st))) (c_path c) && negb (dup_inst sch (d_sid (c_node c))).
Definition changes_idb (sch : schema) (d : list change) : bool := forallb (change_idb sch) d.
