(* IfFeatureP.v — proofs about the if-feature model (IfFeature.v).
   A. heap blocks and the 2-bit records          B. evaluation of prefix code (iffeature_eval_prefix_correct)
   C. reading the string                         D. pre-pass = fold over items = fold over tokens
   E. main pass = token machine (simulation)     F. counting invariant of the token machine
   G/H. lys_compile_iffeature never leaves its arrays, for every string (compile_no_oob)
   I/J. RFC 7950 grammar: shunting yard correctness (compile_grammar)
   The model transcribes the code after the fixes of /repo commits 299b7de, 6f66310, 685c1af; the three
   side conditions (and the refutation witnesses) of the earlier version of this file are gone. *)
From LY Require Import Base IfFeature.
From LY.Gen Require Consts.
From Coq Require Import ZifyBool ZifyNat ZifyN.
Local Open Scope N_scope.
Ltac Zify.zify_post_hook ::= Z.to_euclidean_division_equations.

(* ================= A. blocks, 2-bit records ================= *)
Lemma ibind_ok {A B} (r : ires A) (f : A -> ires B) b :
  ibind r f = IOk b -> exists a, r = IOk a /\ f a = IOk b.
Proof. destruct r; cbn; intro H; try discriminate. eauto. Qed.

Lemma upd_length {A} (a : list A) i v : length (upd a i v) = length a.
Proof. revert i; induction a as [|x a IH]; intros [|i]; cbn; auto. Qed.

Lemma nth_upd_same {A} (a : list A) i v d : (i < length a)%nat -> nth i (upd a i v) d = v.
Proof. revert i; induction a as [|x a IH]; intros [|i] H; cbn in *; try lia; auto. apply IH; lia. Qed.

Lemma nth_upd_other {A} (a : list A) i k v d : i <> k -> nth k (upd a i v) d = nth k a d.
Proof.
  revert i k; induction a as [|x a IH]; intros [|i] [|k] H; cbn; auto; try lia.
Qed.

Lemma rd_ok {A} (a : list A) (i : N) d :
  (N.to_nat i < length a)%nat -> rd a i = IOk (nth (N.to_nat i) a d).
Proof.
  intro H. unfold rd. replace (i <? N.of_nat (length a)) with true by lia.
  destruct (nth_error a (N.to_nat i)) eqn:E.
  - erewrite nth_error_nth by eassumption. reflexivity.
  - apply nth_error_None in E. lia.
Qed.

Lemma rd_oob {A} (a : list A) (i : N) : (length a <= N.to_nat i)%nat -> rd a i = IOob.
Proof. intro H. unfold rd. replace (i <? N.of_nat (length a)) with false by lia. reflexivity. Qed.

Lemma wr_ok {A} (a : list A) (i : N) v :
  (N.to_nat i < length a)%nat -> wr a i v = IOk (upd a (N.to_nat i) v).
Proof. intro H. unfold wr. replace (i <? N.of_nat (length a)) with true by lia. reflexivity. Qed.

(* the four records of a byte *)
Definition chunk (b : N) : list N := [b mod 4; (b / 4) mod 4; (b / 16) mod 4; (b / 64) mod 4].
Definition unpack (expr : list N) : list N := flat_map chunk expr.

Lemma unpack_length expr : length (unpack expr) = (4 * length expr)%nat.
Proof. induction expr as [|b e IH]; cbn; [reflexivity|]. unfold unpack in IH. rewrite IH. lia. Qed.

Lemma nth_unpack expr k :
  nth k (unpack expr) 0 = nth (k mod 4) (chunk (nth (k / 4) expr 0)) 0.
Proof.
  revert k; induction expr as [|b e IH]; intro k.
  - replace (nth (k / 4) [] 0) with 0 by (destruct (k / 4)%nat; reflexivity).
    assert (Hm : (k mod 4 < 4)%nat) by (apply Nat.mod_upper_bound; lia).
    destruct (k mod 4)%nat as [|[|[|[|?]]]]; try lia; destruct k; reflexivity.
  - destruct (Nat.lt_ge_cases k 4) as [Hk|Hk].
    + rewrite (Nat.div_small k 4), (Nat.mod_small k 4) by lia. cbn [nth].
      unfold unpack. cbn [flat_map]. rewrite app_nth1 by (cbn; lia). reflexivity.
    + unfold unpack. cbn [flat_map]. rewrite app_nth2 by (cbn; lia). cbn [chunk length].
      fold (unpack e). rewrite IH.
      replace k with ((k - 4) + 1 * 4)%nat at 3 4 by lia.
      rewrite Nat.div_add, Nat.mod_add by lia.
      replace ((k - 4) / 4 + 1)%nat with (S ((k - 4) / 4)) by lia. reflexivity.
Qed.

Definition getop_byte_ok (b : N) : bool :=
  N_all_below 4 (fun j => N.shiftr (N.land b (N.shiftl 3 (2 * j))) (2 * j) =? nth (N.to_nat j) (chunk b) 0).
Lemma getop_byte_all : N_all_below 256 getop_byte_ok = true.
Proof. vm_cast_no_check (eq_refl true). Qed.

Lemma getop_byte b j : b < 256 -> j < 4 ->
  N.shiftr (N.land b (N.shiftl 3 (2 * j))) (2 * j) = nth (N.to_nat j) (chunk b) 0.
Proof.
  intros Hb Hj. pose proof (N_all_below_spec _ _ getop_byte_all b Hb) as H.
  unfold getop_byte_ok in H. apply (N_all_below_spec _ _ H j) in Hj. apply N.eqb_eq in Hj. exact Hj.
Qed.

Definition bytes_lt256 (l : list N) : Prop := Forall (fun b => b < 256) l.

Lemma nth_lt256 l k : bytes_lt256 l -> nth k l 0 < 256.
Proof.
  intro H. destruct (Nat.lt_ge_cases k (length l)) as [Hk|Hk].
  - eapply Forall_forall in H; [exact H|]. apply nth_In. exact Hk.
  - rewrite nth_overflow by lia. lia.
Qed.

Lemma to_nat_div4 pos : N.to_nat (pos / 4) = (N.to_nat pos / 4)%nat.
Proof. rewrite N2Nat.inj_div. reflexivity. Qed.
Lemma to_nat_mod4 pos : N.to_nat (pos mod 4) = (N.to_nat pos mod 4)%nat.
Proof. rewrite N2Nat.inj_mod. reflexivity. Qed.

Lemma getop_unpack expr pos :
  bytes_lt256 expr -> (N.to_nat pos < 4 * length expr)%nat ->
  iff_getop expr pos = IOk (nth (N.to_nat pos) (unpack expr) 0).
Proof.
  intros Hb Hp. unfold iff_getop.
  assert (Hd : (N.to_nat (pos / 4) < length expr)%nat).
  { rewrite to_nat_div4. apply Nat.div_lt_upper_bound; lia. }
  rewrite (rd_ok _ _ 0 Hd). cbn [ibind].
  rewrite getop_byte; [|apply nth_lt256; exact Hb| apply N.mod_lt; lia].
  rewrite nth_unpack, to_nat_mod4, to_nat_div4. reflexivity.
Qed.

Lemma getop_oob expr pos : (4 * length expr <= N.to_nat pos)%nat -> iff_getop expr pos = IOob.
Proof.
  intro H. unfold iff_getop. rewrite rd_oob; [reflexivity|].
  rewrite to_nat_div4. apply Nat.div_le_lower_bound; lia.
Qed.

(* setop on the unpacked view *)
Definition setop_byte_ok (b : N) : bool :=
  N_all_below 4 (fun j => N_all_below 4 (fun op =>
    let sh := 2 * j in
    let r := (N.lor (N.land b (255 - (N.shiftl 3 sh) mod 256)) (N.shiftl op sh)) mod 256 in
    beq_bytes (chunk r) (upd (chunk b) (N.to_nat j) op))).
Lemma setop_byte_all : N_all_below 256 setop_byte_ok = true.
Proof. vm_cast_no_check (eq_refl true). Qed.

Lemma setop_byte b j op : b < 256 -> j < 4 -> op < 4 ->
  chunk ((N.lor (N.land b (255 - (N.shiftl 3 (2 * j)) mod 256)) (N.shiftl op (2 * j))) mod 256)
  = upd (chunk b) (N.to_nat j) op.
Proof.
  intros Hb Hj Hop. pose proof (N_all_below_spec _ _ setop_byte_all b Hb) as H.
  unfold setop_byte_ok in H. pose proof (N_all_below_spec _ _ H j Hj) as H2. cbv beta in H2.
  pose proof (N_all_below_spec _ _ H2 op Hop) as H3. cbv beta zeta in H3.
  apply beq_bytes_eq in H3. exact H3.
Qed.

Lemma unpack_upd expr k b :
  (k < length expr)%nat ->
  forall j, (j < 4)%nat -> forall op,
  chunk b = upd (chunk (nth k expr 0)) j op ->
  unpack (upd expr k b) = upd (unpack expr) (4 * k + j) op.
Proof.
  revert k; induction expr as [|x e IH]; intros k Hk j Hj op Hc; [cbn in Hk; lia|].
  destruct k as [|k].
  - cbn [upd nth] in *. unfold unpack. cbn [flat_map]. rewrite Hc.
    replace (4 * 0 + j)%nat with j by lia.
    unfold chunk at 2 4. cbn [app].
    destruct j as [|[|[|[|j]]]]; try lia; reflexivity.
  - cbn [upd nth] in *. unfold unpack. cbn [flat_map]. fold (unpack (upd e k b)). fold (unpack e).
    rewrite (IH k ltac:(cbn in Hk; lia) j Hj op Hc).
    replace (4 * S k + j)%nat with (4 + (4 * k + j))%nat by lia.
    unfold chunk. cbn [app plus upd]. reflexivity.
Qed.

Lemma setop_unpack expr op pos :
  bytes_lt256 expr -> op < 4 -> (N.to_nat pos < 4 * length expr)%nat ->
  exists expr', iff_setop expr op pos = IOk expr' /\ bytes_lt256 expr' /\ length expr' = length expr /\
                unpack expr' = upd (unpack expr) (N.to_nat pos) op.
Proof.
  intros Hb Hop Hp. unfold iff_setop.
  assert (Hd : (N.to_nat (pos / 4) < length expr)%nat).
  { rewrite to_nat_div4. apply Nat.div_lt_upper_bound; lia. }
  rewrite (rd_ok _ _ 0 Hd). cbn [ibind]. rewrite (wr_ok _ _ _ Hd).
  eexists; split; [reflexivity|]. split; [|split].
  - clear Hp. unfold bytes_lt256 in *.
    set (v := _ mod 256). assert (Hv : v < 256) by (apply N.mod_lt; lia). clearbody v.
    revert Hd. generalize (N.to_nat (pos / 4)) as k. induction Hb as [|x e Hx He IH]; intros k Hk; [constructor|].
    destruct k; cbn; constructor; auto. apply IH. cbn in Hk; lia.
  - apply upd_length.
  - erewrite (unpack_upd expr (N.to_nat (pos / 4)) _ Hd (N.to_nat (pos mod 4))).
    + f_equal. rewrite to_nat_div4, to_nat_mod4. pose proof (Nat.div_mod_eq (N.to_nat pos) 4). lia.
    + pose proof (N.mod_lt pos 4). lia.
    + apply setop_byte; [apply nth_lt256; exact Hb|apply N.mod_lt; lia|exact Hop].
Qed.

Lemma setop_oob expr op pos : (4 * length expr <= N.to_nat pos)%nat -> iff_setop expr op pos = IOob.
Proof.
  intro H. unfold iff_setop. rewrite rd_oob; [reflexivity|].
  rewrite to_nat_div4. apply Nat.div_le_lower_bound; lia.
Qed.

(* ================= B. evaluation of prefix code ================= *)
Definition at_pos {A} (l : list A) (k : nat) (seg : list A) : Prop :=
  exists a b, l = a ++ seg ++ b /\ length a = k.

Lemma at_pos_cons {A} (l : list A) k x seg :
  at_pos l k (x :: seg) -> nth_error l k = Some x /\ (k < length l)%nat /\ at_pos l (S k) seg.
Proof.
  intros (a & b & -> & <-). split; [|split].
  - rewrite nth_error_app2 by lia. rewrite Nat.sub_diag. reflexivity.
  - rewrite app_length. cbn. lia.
  - exists (a ++ [x]), b. split; [rewrite <- app_assoc; reflexivity|]. rewrite app_length. cbn. lia.
Qed.

Lemma at_pos_app {A} (l : list A) k s1 s2 :
  at_pos l k (s1 ++ s2) -> at_pos l k s1 /\ at_pos l (k + length s1) s2.
Proof.
  intros (a & b & -> & <-). split.
  - exists a, (s2 ++ b). rewrite <- app_assoc. auto.
  - exists (a ++ s1), b. rewrite <- !app_assoc. rewrite app_length. auto.
Qed.

Lemma nth_error_nth' {A} (l : list A) k x d : nth_error l k = Some x -> nth k l d = x.
Proof. apply nth_error_nth. Qed.

Fixpoint size (e : iexp) : nat :=
  match e with F _ => 1 | Not a => S (size a) | And a b | Or a b => S (size a + size b) end.
Lemma pre_length e : length (pre e) = size e.
Proof. induction e; cbn; rewrite ?app_length; lia. Qed.
Lemma feats_length_le e : (length (feats e) <= size e)%nat.
Proof. induction e; cbn; rewrite ?app_length; lia. Qed.

Lemma inc64_small x : x + 1 < U64 -> inc64 x = x + 1.
Proof. intro H. unfold inc64. apply N.mod_small. exact H. Qed.

Lemma iff_value_codes e : forall fuel expr feat env ie ix,
  bytes_lt256 expr -> (size e <= fuel)%nat ->
  at_pos (unpack expr) (N.to_nat ie) (pre e) ->
  at_pos feat (N.to_nat ix) (map Some (feats e)) ->
  ie + N.of_nat (size e) < U64 -> ix + N.of_nat (size e) < U64 ->
  iff_value_ fuel expr feat env ie ix
  = IOk (denote env e, ie + N.of_nat (length (pre e)), ix + N.of_nat (length (feats e))).
Proof.
  induction e as [x|a IHa|a IHa b IHb|a IHa b IHb]; intros fuel expr feat env ie ix Hb Hf Hc Hx Hie Hix;
    (destruct fuel as [|fuel]; [cbn in Hf; lia|]); cbn [iff_value_ pre feats denote size length map] in *.
  - apply at_pos_cons in Hc. destruct Hc as (Hn & Hlt & _).
    rewrite unpack_length in Hlt. rewrite (getop_unpack _ _ Hb Hlt). cbn [ibind].
    rewrite (nth_error_nth' _ _ _ _ Hn).
    replace (Consts.LYS_IFF_F =? Consts.LYS_IFF_F) with true by reflexivity.
    apply at_pos_cons in Hx. destruct Hx as (Hfx & Hfl & _).
    rewrite (rd_ok _ _ None Hfl). cbn [ibind]. rewrite (nth_error_nth' _ _ _ _ Hfx).
    rewrite !inc64_small by lia. reflexivity.
  - apply at_pos_cons in Hc. destruct Hc as (Hn & Hlt & Hc).
    rewrite unpack_length in Hlt. rewrite (getop_unpack _ _ Hb Hlt). cbn [ibind].
    rewrite (nth_error_nth' _ _ _ _ Hn).
    replace (Consts.LYS_IFF_NOT =? Consts.LYS_IFF_F) with false by reflexivity.
    replace (Consts.LYS_IFF_NOT =? Consts.LYS_IFF_NOT) with true by reflexivity.
    rewrite inc64_small by lia.
    rewrite (IHa fuel expr feat env (ie + 1) ix Hb); try lia.
    + cbn [ibind]. f_equal. f_equal. f_equal. lia.
    + replace (N.to_nat (ie + 1)) with (S (N.to_nat ie)) by lia. exact Hc.
    + exact Hx.
  - apply at_pos_cons in Hc. destruct Hc as (Hn & Hlt & Hc).
    apply at_pos_app in Hc. destruct Hc as (Hca & Hcb).
    rewrite map_app in Hx. apply at_pos_app in Hx. destruct Hx as (Hxa & Hxb).
    rewrite unpack_length in Hlt. rewrite (getop_unpack _ _ Hb Hlt). cbn [ibind].
    rewrite (nth_error_nth' _ _ _ _ Hn).
    replace (Consts.LYS_IFF_AND =? Consts.LYS_IFF_F) with false by reflexivity.
    replace (Consts.LYS_IFF_AND =? Consts.LYS_IFF_NOT) with false by reflexivity.
    replace (Consts.LYS_IFF_AND =? Consts.LYS_IFF_AND) with true by reflexivity.
    cbn [orb]. rewrite inc64_small by lia.
    pose proof (feats_length_le a) as Hfa. pose proof (feats_length_le b) as Hfb.
    rewrite (IHa fuel expr feat env (ie + 1) ix Hb); try lia.
    + cbn [ibind]. rewrite (IHb fuel expr feat env _ _ Hb); try lia.
      * cbn [ibind]. rewrite !app_length. f_equal. f_equal; [f_equal|]; lia.
      * rewrite pre_length in *. replace (N.to_nat (ie + 1 + N.of_nat (size a))) with (S (N.to_nat ie) + size a)%nat by lia.
        exact Hcb.
      * rewrite map_length in Hxb.
        replace (N.to_nat (ix + N.of_nat (length (feats a)))) with (N.to_nat ix + length (feats a))%nat by lia. exact Hxb.
      * rewrite pre_length. lia.
    + replace (N.to_nat (ie + 1)) with (S (N.to_nat ie)) by lia. exact Hca.
    + exact Hxa.
  - apply at_pos_cons in Hc. destruct Hc as (Hn & Hlt & Hc).
    apply at_pos_app in Hc. destruct Hc as (Hca & Hcb).
    rewrite map_app in Hx. apply at_pos_app in Hx. destruct Hx as (Hxa & Hxb).
    rewrite unpack_length in Hlt. rewrite (getop_unpack _ _ Hb Hlt). cbn [ibind].
    rewrite (nth_error_nth' _ _ _ _ Hn).
    replace (Consts.LYS_IFF_OR =? Consts.LYS_IFF_F) with false by reflexivity.
    replace (Consts.LYS_IFF_OR =? Consts.LYS_IFF_NOT) with false by reflexivity.
    replace (Consts.LYS_IFF_OR =? Consts.LYS_IFF_AND) with false by reflexivity.
    replace (Consts.LYS_IFF_OR =? Consts.LYS_IFF_OR) with true by reflexivity.
    cbn [orb]. rewrite inc64_small by lia.
    pose proof (feats_length_le a) as Hfa. pose proof (feats_length_le b) as Hfb.
    rewrite (IHa fuel expr feat env (ie + 1) ix Hb); try lia.
    + cbn [ibind]. rewrite (IHb fuel expr feat env _ _ Hb); try lia.
      * cbn [ibind]. rewrite !app_length. f_equal. f_equal; [f_equal|]; lia.
      * rewrite pre_length in *. replace (N.to_nat (ie + 1 + N.of_nat (size a))) with (S (N.to_nat ie) + size a)%nat by lia.
        exact Hcb.
      * rewrite map_length in Hxb.
        replace (N.to_nat (ix + N.of_nat (length (feats a)))) with (N.to_nat ix + length (feats a))%nat by lia. exact Hxb.
      * rewrite pre_length. lia.
    + replace (N.to_nat (ie + 1)) with (S (N.to_nat ie)) by lia. exact Hca.
    + exact Hxa.
Qed.

(* pack is inverse to unpack up to zero padding *)
Definition codes_ok (l : list N) : Prop := Forall (fun c => c < 4) l.

Lemma chunk4 a b c d : a < 4 -> b < 4 -> c < 4 -> d < 4 -> chunk (a + 4 * b + 16 * c + 64 * d) = [a; b; c; d].
Proof.
  intros. unfold chunk.
  repeat match goal with |- _ :: _ = _ :: _ => f_equal end; lia.
Qed.

Lemma unpack_pack l : codes_ok l -> exists pad, unpack (pack l) = l ++ pad.
Proof.
  intro H. remember (length l) as n eqn:Hn. revert l H Hn.
  induction n as [n IH] using lt_wf_ind. intros l H Hn.
  destruct l as [|a [|b [|c [|d r]]]].
  - exists []. reflexivity.
  - inversion H; subst. exists [0; 0; 0]. cbn. unfold chunk.
    repeat match goal with |- _ :: _ = _ :: _ => f_equal end; lia.
  - inversion H as [|? ? Ha H1]; subst. inversion H1 as [|? ? Hb' H2]; subst.
    exists [0; 0]. cbn [pack unpack flat_map app].
    replace (a + 4 * b) with (a + 4 * b + 16 * 0 + 64 * 0) by lia. rewrite chunk4 by lia. reflexivity.
  - inversion H as [|? ? Ha H1]; subst. inversion H1 as [|? ? Hb' H2]; subst. inversion H2 as [|? ? Hc' H3]; subst.
    exists [0]. cbn [pack unpack flat_map app].
    replace (a + 4 * b + 16 * c) with (a + 4 * b + 16 * c + 64 * 0) by lia. rewrite chunk4 by lia. reflexivity.
  - inversion H as [|? ? Ha H1]; subst. inversion H1 as [|? ? Hb' H2]; subst. inversion H2 as [|? ? Hc' H3]; subst.
    inversion H3 as [|? ? Hd' H4]; subst.
    destruct (IH (length r) ltac:(cbn; lia) r H4 eq_refl) as [pad Hp].
    exists pad. cbn [pack]. unfold unpack in *. cbn [flat_map]. rewrite Hp, chunk4 by lia. reflexivity.
Qed.

Lemma pack_lt256 l : codes_ok l -> bytes_lt256 (pack l).
Proof.
  intro H. remember (length l) as n eqn:Hn. revert l H Hn.
  induction n as [n IH] using lt_wf_ind. intros l H Hn.
  destruct l as [|a [|b [|c [|d r]]]]; cbn [pack].
  - constructor.
  - inversion H; subst. constructor; [lia|constructor].
  - inversion H as [|? ? Ha H1]; subst. inversion H1 as [|? ? Hb' H2]; subst. constructor; [lia|constructor].
  - inversion H as [|? ? Ha H1]; subst. inversion H1 as [|? ? Hb' H2]; subst. inversion H2 as [|? ? Hc' H3]; subst.
    constructor; [lia|constructor].
  - inversion H as [|? ? Ha H1]; subst. inversion H1 as [|? ? Hb' H2]; subst. inversion H2 as [|? ? Hc' H3]; subst.
    inversion H3 as [|? ? Hd' H4]; subst. constructor; [lia|]. apply (IH (length r)); cbn; auto; lia.
Qed.

Lemma pre_codes_ok e : codes_ok (pre e).
Proof.
  unfold codes_ok. induction e; cbn [pre]; repeat (constructor; [vm_compute; reflexivity|]);
    try apply Forall_app; auto.
Qed.

Lemma pack_length_le l : (length (pack l) <= length l)%nat.
Proof.
  remember (length l) as n eqn:Hn. revert l Hn.
  induction n as [n IH] using lt_wf_ind. intros l Hn.
  destruct l as [|a [|b [|c [|d r]]]]; cbn [pack length] in *; try lia.
  specialize (IH (length r) ltac:(lia) r eq_refl). lia.
Qed.

(* iffeature_eval_prefix_correct *)
Theorem eval_prefix_correct e env cnt :
  N.of_nat (size e) < U64 ->
  iff_value (pack (pre e), map Some (feats e), cnt) env = IOk (denote env e).
Proof.
  intro Hs. unfold iff_value.
  destruct (unpack_pack (pre e) (pre_codes_ok e)) as [pad Hp].
  assert (Hlen : (size e <= 4 * length (pack (pre e)))%nat).
  { rewrite <- unpack_length, Hp, app_length, pre_length. lia. }
  rewrite (iff_value_codes e _ _ _ env 0 0 (pack_lt256 _ (pre_codes_ok e))); try lia.
  - reflexivity.
  - exists [], pad. cbn [app length N.to_nat]. auto.
  - exists [], []. cbn [app length N.to_nat]. rewrite app_nil_r. auto.
Qed.

(* ================= C. reading the string ================= *)
Lemma rdc_hd P R : rdc (P ++ R) (Z.of_nat (length P)) = IOk (hd 0 R).
Proof.
  unfold rdc. rewrite app_length.
  replace ((0 <=? Z.of_nat (length P))%Z && (Z.of_nat (length P) <=? Z.of_nat (length P + length R))%Z) with true by lia.
  rewrite Nat2Z.id. rewrite app_nth2 by lia. rewrite Nat.sub_diag. destruct R; reflexivity.
Qed.

Lemma rdc_hd' s P R i : s = P ++ R -> i = Z.of_nat (length P) -> rdc s i = IOk (hd 0 R).
Proof. intros -> ->. apply rdc_hd. Qed.

Definition wordch (c : N) : bool := is_wordch c && negb (c =? 0).
Definition spch (c : N) : bool := is_cspace c.

Lemma cspace_nonzero c : is_cspace c = true -> c <> 0.
Proof. unfold is_cspace. lia. Qed.
Lemma wordch_facts c : wordch c = true -> c <> 0 /\ c <> 40 /\ c <> 41 /\ is_cspace c = false.
Proof. unfold wordch, is_wordch. destruct (is_cspace c); lia. Qed.

(* the rest of the string after a word: empty, or starting with a parenthesis / white-space *)
Definition delim_start (R : bytes) : Prop := match R with [] => True | d :: _ => wordch d = false /\ d <> 0 end.

Lemma starts_with_word kw : forallb wordch kw = true -> forall w R, delim_start R ->
  starts_with kw (w ++ R) = starts_with kw w.
Proof.
  induction kw as [|k kw IH]; intros Hk w R HR; [reflexivity|].
  cbn [forallb] in Hk. apply andb_true_iff in Hk. destruct Hk as [Hk Hkw].
  destruct w as [|c w]; cbn [app starts_with].
  - destruct R as [|d R]; [reflexivity|]. cbn [starts_with]. destruct HR as [Hd _].
    destruct (N.eqb_spec k d) as [->|]; [congruence|reflexivity].
  - rewrite (IH Hkw w R HR). reflexivity.
Qed.

Lemma kw_at_spec kw : Forall (fun k => k <> 0) kw -> forall P R,
  kw_at (P ++ R) (Z.of_nat (length P)) kw = IOk (starts_with kw R).
Proof.
  induction kw as [|k kw IH]; intros Hk P R; [reflexivity|].
  inversion Hk as [|? ? Hk0 Hkw]; subst.
  cbn [kw_at]. rewrite rdc_hd. cbn [ibind].
  destruct R as [|c R]; cbn [hd starts_with].
  - destruct (N.eqb_spec 0 k); [congruence|reflexivity].
  - rewrite (N.eqb_sym c k). destruct (k =? c) eqn:E; [|reflexivity]. cbn [andb].
    replace (P ++ c :: R) with ((P ++ [c]) ++ R) by (rewrite <- app_assoc; reflexivity).
    replace (Z.of_nat (length P) + 1)%Z with (Z.of_nat (length (P ++ [c]))) by (rewrite app_length; cbn; lia).
    apply IH. exact Hkw.
Qed.

Lemma kw_not_nz : Forall (fun k => k <> 0) KW_NOT. Proof. repeat constructor; discriminate. Qed.
Lemma kw_and_nz : Forall (fun k => k <> 0) KW_AND. Proof. repeat constructor; discriminate. Qed.
Lemma kw_or_nz : Forall (fun k => k <> 0) KW_OR. Proof. repeat constructor; discriminate. Qed.

Definition kw_len (R : bytes) : option Z :=
  if starts_with KW_NOT R then Some 3%Z else if starts_with KW_AND R then Some 3%Z
  else if starts_with KW_OR R then Some 2%Z else None.

Lemma match_op_spec P R : match_op (P ++ R) (Z.of_nat (length P)) = IOk (kw_len R).
Proof.
  unfold match_op, kw_len.
  rewrite (kw_at_spec _ kw_not_nz). cbn [ibind]. destruct (starts_with KW_NOT R); [reflexivity|].
  rewrite (kw_at_spec _ kw_and_nz). cbn [ibind]. destruct (starts_with KW_AND R); [reflexivity|].
  rewrite (kw_at_spec _ kw_or_nz). cbn [ibind]. destruct (starts_with KW_OR R); reflexivity.
Qed.

Lemma app_cons_assoc {A} (P : list A) c R : P ++ c :: R = (P ++ [c]) ++ R.
Proof. rewrite <- app_assoc. reflexivity. Qed.
Lemma len_snoc {A} (P : list A) c : Z.of_nat (length (P ++ [c])) = (Z.of_nat (length P) + 1)%Z.
Proof. rewrite app_length. cbn. lia. Qed.

(* skip_spaces stops at the first byte that is NUL or not white-space *)
Lemma skip_spaces_spec sp : forallb spch sp = true -> forall P R fuel,
  match R with [] => True | d :: _ => is_cspace d = false end ->
  (length sp < fuel)%nat ->
  skip_spaces fuel (P ++ sp ++ R) (Z.of_nat (length P)) = IOk (Z.of_nat (length P + length sp)).
Proof.
  induction sp as [|c sp IH]; intros Hsp P R fuel HR Hf; (destruct fuel as [|fuel]; [cbn in Hf; lia|]).
  - cbn [app skip_spaces]. rewrite rdc_hd. cbn [ibind].
    destruct R as [|d R]; cbn [hd].
    + cbn. f_equal. lia.
    + rewrite HR. rewrite andb_false_r. f_equal. cbn. lia.
  - cbn [forallb] in Hsp. apply andb_true_iff in Hsp. destruct Hsp as [Hc Hsp]. unfold spch in Hc.
    cbn [app skip_spaces]. rewrite rdc_hd. cbn [ibind hd]. rewrite Hc.
    pose proof (cspace_nonzero _ Hc). replace (c =? 0) with false by lia. cbn [negb andb].
    rewrite app_cons_assoc, <- (len_snoc P c). rewrite IH; auto; [|cbn in Hf; lia].
    f_equal. rewrite app_length. cbn. lia.
Qed.

(* skip_word: stops at a white-space (returns its index) or steps back from NUL / parenthesis *)
Lemma skip_word_spec w : forallb wordch w = true -> forall P R fuel,
  delim_start R -> (length w < fuel)%nat ->
  skip_word fuel (P ++ w ++ R) (Z.of_nat (length P))
  = IOk (Z.of_nat (length P + length w) - (match R with d :: _ => if is_cspace d then 0 else 1 | [] => 1 end))%Z.
Proof.
  induction w as [|c w IH]; intros Hw P R fuel HR Hf; (destruct fuel as [|fuel]; [cbn in Hf; lia|]).
  - cbn [app skip_word]. rewrite rdc_hd. cbn [ibind].
    destruct R as [|d R]; cbn [hd].
    + cbn. f_equal. lia.
    + destruct HR as [Hd Hd0]. destruct (is_cspace d) eqn:Es.
      * f_equal. cbn. lia.
      * unfold wordch, is_wordch in Hd. rewrite Es in Hd.
        replace ((d =? 0) || (d =? 41) || (d =? 40)) with true by lia. f_equal. cbn. lia.
  - cbn [forallb] in Hw. apply andb_true_iff in Hw. destruct Hw as [Hc Hw].
    destruct (wordch_facts _ Hc) as (H0 & H40 & H41 & Hs).
    cbn [app skip_word]. rewrite rdc_hd. cbn [ibind hd]. rewrite Hs.
    replace ((c =? 0) || (c =? 41) || (c =? 40)) with false by lia.
    rewrite app_cons_assoc, <- (len_snoc P c). rewrite IH; auto; [|cbn in Hf; lia].
    f_equal. rewrite app_length. cbn [length]. lia.
Qed.

(* ================= D. pre-pass on items ================= *)
Definition item_ok (it : item) : Prop :=
  match it with
  | ISP c => is_cspace c = true
  | IW w => w <> [] /\ forallb wordch w = true
  | _ => True
  end.
Fixpoint normal (its : list item) : Prop :=
  match its with
  | [] => True
  | it :: r => item_ok it /\ (match it, r with IW _, IW _ :: _ => False | _, _ => True end) /\ normal r
  end.

Lemma flatten_delim its : normal its ->
  match its with IW _ :: _ => True | _ => delim_start (flatten its) end.
Proof.
  destruct its as [|[| |c|w] r]; cbn; auto; intros (H & _); try (split; [reflexivity|discriminate]).
  cbn in H. pose proof (cspace_nonzero _ H). unfold wordch, is_wordch. rewrite H. split; [|assumption].
  rewrite !andb_false_r. reflexivity.
Qed.

Record pa := { a_j : Z; a_ln : bool; a_cv : bool; a_f : N; a_e : N; a_fexp : N }.
Definition mk_pre (i : Z) (a : pa) : pre_st :=
  {| p_i := i; p_j := a_j a; p_last_not := a_ln a; p_cv := a_cv a;
     p_fsize := a_f a; p_esize := a_e a; p_fexp := a_fexp a |}.

Definition is_isp (it : item) : bool := match it with ISP _ => true | _ => false end.
Definition all_sp (r : list item) : bool := forallb is_isp r.
Definition is_kw (w : bytes) : bool := beq_bytes w KW_NOT || beq_bytes w KW_AND || beq_bytes w KW_OR.

Definition a_feature (a : pa) : pa :=
  {| a_j := a_j a; a_ln := false; a_cv := a_cv a; a_f := inc64 (a_f a); a_e := a_e a; a_fexp := a_fexp a |}.

(* the effect of one word (before expr_size++) *)
Definition pre_word_abs (w : bytes) (r : list item) (a : pa) : ires pa :=
  if is_kw w then
    if all_sp r then IErr E_END
    else if next_is_sp r then
      if beq_bytes w KW_NOT then
        if a_ln a then
          IOk {| a_j := a_j a; a_ln := false; a_cv := a_cv a; a_f := a_f a; a_e := sub64 (a_e a) 2; a_fexp := a_fexp a |}
        else
          IOk {| a_j := a_j a; a_ln := true; a_cv := a_cv a; a_f := a_f a; a_e := a_e a; a_fexp := a_fexp a |}
      else if negb (a_fexp a =? a_f a) then IErr E_MISSING
      else IOk {| a_j := a_j a; a_ln := false; a_cv := a_cv a; a_f := a_f a; a_e := a_e a; a_fexp := inc64 (a_fexp a) |}
    else IOk (a_feature a)
  else IOk (a_feature a).

Definition a_bump (a : pa) : pa :=
  {| a_j := a_j a; a_ln := a_ln a; a_cv := a_cv a; a_f := a_f a; a_e := inc64 (a_e a); a_fexp := a_fexp a |}.

Fixpoint pre_items (its : list item) (a : pa) : ires pa :=
  match its with
  | [] => IOk a
  | ILP :: r => pre_items r {| a_j := a_j a + 1; a_ln := false; a_cv := true; a_f := a_f a; a_e := a_e a; a_fexp := a_fexp a |}
  | IRP :: r =>
      if (a_j a - 1 <? 0)%Z then IErr E_PAREN else
      pre_items r {| a_j := a_j a - 1; a_ln := false; a_cv := a_cv a; a_f := a_f a; a_e := a_e a; a_fexp := a_fexp a |}
  | ISP _ :: r => pre_items r {| a_j := a_j a; a_ln := a_ln a; a_cv := true; a_f := a_f a; a_e := a_e a; a_fexp := a_fexp a |}
  | IW w :: r =>
      let* a1 := pre_word_abs w r a in
      match r with
      | ISP _ :: r' => pre_items r' (a_bump a1)
      | _ => pre_items r (a_bump a1)
      end
  end.

(* a word: keyword prefix or not *)
Lemma kw_len_word w R : delim_start R -> kw_len (w ++ R) = kw_len w.
Proof.
  intro HR. unfold kw_len. rewrite !starts_with_word by (auto; reflexivity). reflexivity.
Qed.

Lemma starts_with_len p s : starts_with p s = true -> (length p <= length s)%nat.
Proof. intro H. apply starts_with_spec in H. destruct H as [r ->]. rewrite app_length. lia. Qed.

Lemma kw_len_cases w :
  match kw_len w with
  | Some n => exists kw rest, w = kw ++ rest /\ Z.of_nat (length kw) = n /\
               (kw = KW_NOT \/ kw = KW_AND \/ kw = KW_OR) /\ (is_kw w = true <-> rest = [])
  | None => is_kw w = false
  end.
Proof.
  unfold kw_len.
  destruct (starts_with KW_NOT w) eqn:E1.
  { apply starts_with_spec in E1. destruct E1 as [rest ->]. exists KW_NOT, rest. repeat split; auto.
    - destruct rest; [reflexivity|]. cbn. discriminate.
    - intros ->. reflexivity. }
  destruct (starts_with KW_AND w) eqn:E2.
  { apply starts_with_spec in E2. destruct E2 as [rest ->]. exists KW_AND, rest. repeat split; auto.
    - destruct rest; [reflexivity|]. cbn. discriminate.
    - intros ->. reflexivity. }
  destruct (starts_with KW_OR w) eqn:E3.
  { apply starts_with_spec in E3. destruct E3 as [rest ->]. exists KW_OR, rest. repeat split; auto.
    - destruct rest; [reflexivity|]. cbn. discriminate.
    - intros ->. reflexivity. }
  unfold is_kw.
  destruct (beq_bytes w KW_NOT) eqn:B1; [apply beq_bytes_eq in B1; subst; discriminate|].
  destruct (beq_bytes w KW_AND) eqn:B2; [apply beq_bytes_eq in B2; subst; discriminate|].
  destruct (beq_bytes w KW_OR) eqn:B3; [apply beq_bytes_eq in B3; subst; discriminate|].
  reflexivity.
Qed.

Lemma normal_tail it r : normal (it :: r) -> normal r.
Proof. cbn. tauto. Qed.

(* split the bytes after a word into the run of white-space and the rest *)
Lemma span_spaces r : normal r ->
  exists sp R2, flatten r = sp ++ R2 /\ forallb spch sp = true /\
    (all_sp r = true -> R2 = []) /\ (all_sp r = false -> R2 <> []) /\
    match R2 with [] => True | d :: _ => is_cspace d = false /\ d <> 0 end /\
    (next_is_sp r = true -> exists c sp', sp = c :: sp' /\ is_cspace c = true) /\
    (next_is_sp r = false -> sp = []).
Proof.
  induction r as [|it r IH]; intro Hn.
  - exists [], []. cbn. repeat split; auto; discriminate.
  - destruct it as [| |c|w].
    + exists [], (flatten (ILP :: r)). cbn. repeat split; auto; discriminate.
    + exists [], (flatten (IRP :: r)). cbn. repeat split; auto; discriminate.
    + destruct (IH (normal_tail _ _ Hn)) as (sp & R2 & Hfl & Hsp & Ha1 & Ha2 & HR2 & _ & _).
      destruct Hn as (Hc & _ & _). cbn in Hc.
      exists (c :: sp), R2. cbn [flatten flat_map item_bytes app all_sp forallb is_isp andb next_is_sp].
      unfold flatten in Hfl. rewrite Hfl. unfold spch at 1. rewrite Hc. repeat split; auto.
      * intros _. eauto.
      * discriminate.
    + destruct Hn as ((Hne & Hw) & _ & _).
      exists [], (flatten (IW w :: r)). cbn [flatten flat_map item_bytes app all_sp forallb is_isp andb next_is_sp].
      destruct w as [|d w]; [congruence|]. cbn [forallb] in Hw. apply andb_true_iff in Hw. destruct Hw as [Hd _].
      destruct (wordch_facts _ Hd) as (H0 & _ & _ & Hs).
      cbn [app]. repeat split; auto; try discriminate.
Qed.

Definition kw_off (w : bytes) : Z := match kw_len w with Some n => n | None => 0%Z end.

Lemma hd_app_ne {A} (d : A) (x y : list A) : x <> [] -> hd d (x ++ y) = hd d x.
Proof. destruct x; [congruence|reflexivity]. Qed.

Lemma pre_word_spec P w r a fu :
  normal (IW w :: r) -> (length (P ++ w ++ flatten r) < fu)%nat ->
  pre_word fu (P ++ w ++ flatten r) (hd 0 w) (mk_pre (Z.of_nat (length P)) a)
  = let* a1 := pre_word_abs w r a in IOk (mk_pre (Z.of_nat (length P) + kw_off w) a1).
Proof.
  intros Hn Hfu. pose proof Hn as ((Hne & Hw) & Hnw & Hr).
  assert (Hdel : delim_start (flatten r)).
  { pose proof (flatten_delim r Hr) as Hd. destruct r as [|[| | |] ?]; auto. contradiction. }
  unfold pre_word. cbn [p_i mk_pre]. rewrite match_op_spec. cbn [ibind].
  rewrite (kw_len_word _ _ Hdel). unfold kw_off, pre_word_abs.
  pose proof (kw_len_cases w) as Hk. destruct (kw_len w) as [n|].
  2:{ rewrite Hk. cbn [ibind]. unfold mk_pre, a_feature. cbn. rewrite Z.add_0_r. reflexivity. }
  destruct Hk as (kw & rest & -> & Hlen & Hkw & Hiskw).
  assert (Hkwlen : (length kw <= 3)%nat) by (destruct Hkw as [->|[->| ->]]; cbn; lia).
  destruct rest as [|d rest].
  - (* the word is exactly a keyword *)
    rewrite (proj2 Hiskw eq_refl). rewrite app_nil_r in *.
    destruct (span_spaces r Hr) as (sp & R2 & Hfl & Hsp & Ha1 & Ha2 & HR2 & Hn1 & Hn2).
    replace (P ++ kw ++ flatten r) with ((P ++ kw) ++ sp ++ R2) by (rewrite Hfl, <- app_assoc; reflexivity).
    replace (Z.of_nat (length P) + n)%Z with (Z.of_nat (length (P ++ kw))) by (rewrite app_length; lia).
    rewrite skip_spaces_spec; auto.
    2:{ destruct R2; [exact I|tauto]. }
    2:{ rewrite Hfl, !app_length in Hfu. lia. }
    cbn [ibind].
    replace ((P ++ kw) ++ sp ++ R2) with (((P ++ kw) ++ sp) ++ R2) by (rewrite <- !app_assoc; reflexivity).
    rewrite (rdc_hd' _ ((P ++ kw) ++ sp) R2) by (rewrite ?app_length; auto; lia). cbn [ibind].
    destruct (all_sp r) eqn:Eall.
    + rewrite (Ha1 eq_refl). reflexivity.
    + specialize (Ha2 eq_refl). destruct R2 as [|d2 R2]; [congruence|]. cbn [hd].
      destruct HR2 as [Hd2s Hd20]. replace (d2 =? 0) with false by lia.
      replace (((P ++ kw) ++ sp) ++ d2 :: R2) with ((P ++ kw) ++ sp ++ d2 :: R2) by (rewrite <- !app_assoc; reflexivity).
      rewrite rdc_hd. cbn [ibind].
      destruct (next_is_sp r) eqn:Ensp.
      * destruct (Hn1 eq_refl) as (c & sp' & -> & Hc). cbn [app hd]. rewrite Hc. cbn [negb].
        destruct Hkw as [->|[->| ->]]; cbn [hd KW_NOT KW_AND KW_OR beq_bytes N.eqb Pos.eqb andb orb negb];
          unfold mk_pre; cbn [p_last_not p_fexp p_fsize p_j p_cv p_esize a_ln a_fexp a_f a_j a_cv a_e].
        -- destruct (a_ln a); reflexivity.
        -- destruct (a_fexp a =? a_f a); reflexivity.
        -- destruct (a_fexp a =? a_f a); reflexivity.
      * rewrite (Hn2 eq_refl). cbn [app hd]. rewrite Hd2s. cbn [negb]. reflexivity.
  - (* keyword prefix of a longer word: a feature name *)
    assert (Hnk : is_kw (kw ++ d :: rest) = false).
    { destruct (is_kw (kw ++ d :: rest)); [|reflexivity]. destruct Hiskw as [Hx _]. discriminate (Hx eq_refl). }
    rewrite Hnk. cbn [ibind].
    rewrite forallb_app in Hw. apply andb_true_iff in Hw. destruct Hw as [_ Hw].
    cbn [forallb] in Hw. apply andb_true_iff in Hw. destruct Hw as [Hd Hrest].
    destruct (wordch_facts _ Hd) as (H0 & _ & _ & Hs).
    replace (P ++ (kw ++ d :: rest) ++ flatten r) with ((P ++ kw) ++ [] ++ (d :: rest ++ flatten r))
      by (cbn [app]; rewrite <- !app_assoc; reflexivity).
    replace (Z.of_nat (length P) + n)%Z with (Z.of_nat (length (P ++ kw))) by (rewrite app_length; lia).
    rewrite skip_spaces_spec; auto; [|cbn; lia]. cbn [ibind app length]. rewrite Nat.add_0_r.
    rewrite rdc_hd. cbn [ibind hd]. replace (d =? 0) with false by lia. rewrite Hs. cbn [negb].
    reflexivity.
Qed.

Lemma next_is_sp_hd r : normal r ->
  match flatten r with d :: _ => is_cspace d = next_is_sp r | [] => next_is_sp r = false end.
Proof.
  destruct r as [|[| |c|w] r]; cbn; auto.
  - intros (H & _). exact H.
  - intros ((Hne & Hw) & _). destruct w as [|d w]; [congruence|]. cbn in *.
    apply andb_true_iff in Hw. destruct Hw as [Hd _]. apply wordch_facts in Hd. tauto.
Qed.

Lemma skip_word_after P w r fu :
  normal (IW w :: r) -> (length (P ++ w ++ flatten r) < fu)%nat ->
  skip_word fu (P ++ w ++ flatten r) (Z.of_nat (length P) + kw_off w)
  = IOk (Z.of_nat (length P + length w) + (if next_is_sp r then 0 else -1))%Z.
Proof.
  intros Hn Hfu. pose proof Hn as ((Hne & Hw) & Hnw & Hr).
  assert (Hdel : delim_start (flatten r)).
  { pose proof (flatten_delim r Hr) as Hd. destruct r as [|[| | |] ?]; auto. contradiction. }
  assert (Hsplit : exists kw rest, w = kw ++ rest /\ Z.of_nat (length kw) = kw_off w).
  { unfold kw_off. pose proof (kw_len_cases w) as Hk. destruct (kw_len w).
    - destruct Hk as (kw & rest & -> & Hl & _). eauto.
    - exists [], w. auto. }
  destruct Hsplit as (kw & rest & -> & Hoff). rewrite <- Hoff.
  rewrite forallb_app in Hw. apply andb_true_iff in Hw. destruct Hw as [_ Hrest].
  replace (P ++ (kw ++ rest) ++ flatten r) with ((P ++ kw) ++ rest ++ flatten r) by (rewrite <- !app_assoc; reflexivity).
  replace (Z.of_nat (length P) + Z.of_nat (length kw))%Z with (Z.of_nat (length (P ++ kw))) by (rewrite app_length; lia).
  rewrite skip_word_spec; auto.
  2:{ rewrite !app_length in Hfu. lia. }
  f_equal. pose proof (next_is_sp_hd r Hr) as Hh. rewrite !app_length.
  destruct (flatten r) as [|d R]; [rewrite Hh; lia|]. rewrite Hh. destruct (next_is_sp r); lia.
Qed.

Lemma pre_loop_eq fuel fu s s' st st' : s = s' -> st = st' -> pre_loop fuel fu s st = pre_loop fuel fu s' st'.
Proof. intros -> ->. reflexivity. Qed.

Lemma pre_loop_items : forall n its, length its = n -> forall P a fuel fu,
  normal its -> (length its < fuel)%nat -> (length (P ++ flatten its) < fu)%nat ->
  pre_loop fuel fu (P ++ flatten its) (mk_pre (Z.of_nat (length P)) a)
  = let* a' := pre_items its a in IOk (mk_pre (Z.of_nat (length (P ++ flatten its))) a').
Proof.
  induction n as [n IH] using lt_wf_ind. intros its Hlen P a fuel fu Hn Hfuel Hfu.
  destruct fuel as [|fuel]; [lia|].
  destruct its as [|it r].
  - cbn [flatten flat_map pre_items ibind pre_loop p_i mk_pre]. rewrite app_nil_r.
    rewrite (rdc_hd' _ P []) by (rewrite ?app_nil_r; auto). reflexivity.
  - assert (IHr : forall P' a', P ++ flatten (it :: r) = P' ++ flatten r ->
              pre_loop fuel fu (P' ++ flatten r) (mk_pre (Z.of_nat (length P')) a')
              = let* a'' := pre_items r a' in IOk (mk_pre (Z.of_nat (length (P' ++ flatten r))) a'')).
    { intros P' a' Heq. apply (IH (length r)); auto.
      - cbn in Hlen. lia.
      - eapply normal_tail; eauto.
      - cbn in Hfuel. lia.
      - rewrite <- Heq. exact Hfu. }
    destruct it as [| |c|w].
    + cbn [pre_loop p_i mk_pre]. cbn [flatten flat_map item_bytes app].
      rewrite rdc_hd. cbn [ibind hd N.eqb Pos.eqb].
      fold (flatten r).
      specialize (IHr (P ++ [40]) {| a_j := a_j a + 1; a_ln := false; a_cv := true; a_f := a_f a; a_e := a_e a; a_fexp := a_fexp a |}).
      rewrite <- !app_cons_assoc in IHr. rewrite len_snoc in IHr. cbn [pre_items]. rewrite <- IHr by reflexivity. reflexivity.
    + cbn [pre_loop p_i mk_pre]. cbn [flatten flat_map item_bytes app].
      rewrite rdc_hd. cbn [ibind hd N.eqb Pos.eqb].
      fold (flatten r). cbn [p_j mk_pre pre_items].
      destruct (a_j a - 1 <? 0)%Z; [reflexivity|].
      specialize (IHr (P ++ [41]) {| a_j := a_j a - 1; a_ln := false; a_cv := a_cv a; a_f := a_f a; a_e := a_e a; a_fexp := a_fexp a |}).
      rewrite <- !app_cons_assoc in IHr. rewrite len_snoc in IHr. rewrite <- IHr by reflexivity. reflexivity.
    + destruct Hn as (Hc & _ & Hr). cbn in Hc. pose proof (cspace_nonzero _ Hc) as Hc0.
      assert (c <> 40 /\ c <> 41) as [Hc40 Hc41] by (unfold is_cspace in Hc; lia).
      cbn [pre_loop p_i mk_pre]. cbn [flatten flat_map item_bytes app].
      rewrite rdc_hd. cbn [ibind hd].
      replace (c =? 0) with false by lia. replace (c =? 40) with false by lia. replace (c =? 41) with false by lia.
      rewrite Hc. fold (flatten r).
      specialize (IHr (P ++ [c]) {| a_j := a_j a; a_ln := a_ln a; a_cv := true; a_f := a_f a; a_e := a_e a; a_fexp := a_fexp a |}).
      rewrite <- !app_cons_assoc in IHr. rewrite len_snoc in IHr. cbn [pre_items]. rewrite <- IHr by reflexivity. reflexivity.
    + pose proof Hn as ((Hne & Hw) & Hnw & Hr).
      destruct w as [|d w']; [congruence|]. set (w := d :: w') in *.
      assert (Hd : wordch d = true) by (cbn in Hw; apply andb_true_iff in Hw; tauto).
      destruct (wordch_facts _ Hd) as (H0 & H40 & H41 & Hs).
      cbn [flatten flat_map item_bytes]. fold (flatten r).
      cbn [pre_loop p_i mk_pre].
      rewrite (rdc_hd' _ P (w ++ flatten r)) by auto.
      cbn [ibind]. replace (hd 0 (w ++ flatten r)) with d by reflexivity.
      replace (d =? 0) with false by lia. replace (d =? 40) with false by lia. replace (d =? 41) with false by lia.
      rewrite Hs.
      change d with (hd 0 w) at 1.
      pose proof (pre_word_spec P w r a fu Hn) as Hpw. cbn [flatten flat_map item_bytes] in Hfu.
      fold (flatten r) in Hfu. rewrite (Hpw Hfu). clear Hpw.
      cbn [pre_items]. destruct (pre_word_abs w r a) as [a1| |]; cbn [ibind]; try reflexivity.
      cbn [p_i mk_pre]. rewrite (skip_word_after P w r fu Hn Hfu). cbn [ibind].
      cbn [p_j p_last_not p_cv p_fsize p_esize p_fexp].
      destruct (next_is_sp r) eqn:Ensp.
      * destruct r as [|[| |c|w2] r']; try discriminate Ensp. clear IHr.
        assert (IHr' : pre_loop fuel fu ((P ++ w ++ [c]) ++ flatten r') (mk_pre (Z.of_nat (length (P ++ w ++ [c]))) (a_bump a1))
              = let* a'' := pre_items r' (a_bump a1) in IOk (mk_pre (Z.of_nat (length ((P ++ w ++ [c]) ++ flatten r'))) a'')).
        { apply (IH (length r')); auto.
          - cbn in Hlen. lia.
          - eapply normal_tail, normal_tail; eauto.
          - cbn in Hfuel. lia.
          - cbn [flatten flat_map item_bytes] in Hfu. fold (flatten r') in Hfu.
            rewrite <- !app_assoc. cbn [app]. exact Hfu. }
        cbn [flatten flat_map item_bytes]. fold (flatten r').
        rewrite (pre_loop_eq _ _ _ ((P ++ w ++ [c]) ++ flatten r') _
                   (mk_pre (Z.of_nat (length (P ++ w ++ [c]))) (a_bump a1))).
        -- rewrite IHr'. rewrite <- !app_assoc. reflexivity.
        -- rewrite <- !app_assoc. reflexivity.
        -- unfold mk_pre, a_bump. cbn [p_j p_last_not p_cv p_fsize p_esize p_fexp a_j a_ln a_cv a_f a_e a_fexp]. f_equal. rewrite !app_length. cbn [length]. lia.
      * replace (match r with ISP _ :: r' => pre_items r' (a_bump a1) | _ => pre_items r (a_bump a1) end)
          with (pre_items r (a_bump a1)) by (destruct r as [|[| | |] ?]; try discriminate Ensp; reflexivity).
        rewrite (pre_loop_eq _ _ _ ((P ++ w) ++ flatten r) _ (mk_pre (Z.of_nat (length (P ++ w))) (a_bump a1))).
        -- rewrite IHr by (rewrite <- app_assoc; reflexivity). rewrite <- app_assoc. reflexivity.
        -- rewrite <- app_assoc. reflexivity.
        -- unfold mk_pre, a_bump. cbn [p_j p_last_not p_cv p_fsize p_esize p_fexp a_j a_ln a_cv a_f a_e a_fexp]. f_equal. rewrite !app_length. cbn [length]. lia.
Qed.

(* ================= items of an arbitrary NUL-free string ================= *)
Lemma items_flatten s : flatten (items s) = s.
Proof.
  induction s as [|c s IH]; [reflexivity|]. cbn [items].
  destruct (c =? 40) eqn:E40; [apply N.eqb_eq in E40; subst; cbn; f_equal; exact IH|].
  destruct (c =? 41) eqn:E41; [apply N.eqb_eq in E41; subst; cbn; f_equal; exact IH|].
  destruct (is_cspace c) eqn:Es; [cbn; f_equal; exact IH|].
  destruct (items s) as [|[| |d|w] r]; cbn in *; f_equal; exact IH.
Qed.

Lemma items_normal s : Forall (fun c => c <> 0) s -> normal (items s).
Proof.
  induction 1 as [|c s Hc Hs IH]; [exact I|]. cbn [items].
  destruct (c =? 40) eqn:E40; [cbn; auto|].
  destruct (c =? 41) eqn:E41; [cbn; auto|].
  destruct (is_cspace c) eqn:Es; [cbn; auto|].
  assert (Hw : wordch c = true) by (unfold wordch, is_wordch; rewrite Es; lia).
  destruct (items s) as [|[| |d|w] r]; cbn in *; rewrite ?Hw; cbn; repeat split; auto; try discriminate; try tauto.
Qed.

Lemma items_length s : (length (items s) <= length s)%nat.
Proof.
  induction s as [|c s IH]; [cbn; lia|]. cbn [items].
  destruct (c =? 40); [cbn; lia|]. destruct (c =? 41); [cbn; lia|]. destruct (is_cspace c); [cbn; lia|].
  destruct (items s) as [|[| |d|w] r]; cbn in *; lia.
Qed.

Lemma cstr_nonzero s : Forall (fun c => c <> 0) (cstr s).
Proof.
  induction s as [|c s IH]; cbn; [constructor|]. destruct (N.eqb_spec c 0); [constructor|]. constructor; auto.
Qed.

Definition pa0 : pa := {| a_j := 0; a_ln := false; a_cv := false; a_f := 0; a_e := 0; a_fexp := 1 |}.

Lemma pre_loop_string s : Forall (fun c => c <> 0) s ->
  pre_loop (S (S (length s))) (S (S (length s))) s pre_init
  = let* a' := pre_items (items s) pa0 in IOk (mk_pre (Z.of_nat (length s)) a').
Proof.
  intro Hs. pose proof (pre_loop_items _ (items s) eq_refl [] pa0 (S (S (length s))) (S (S (length s)))
    (items_normal s Hs)) as H.
  cbn [app length] in H. rewrite items_flatten in H. apply H.
  - pose proof (items_length s). lia.
  - lia.
Qed.

(* ================= pre-pass on tokens, unbounded counters ================= *)
Record zst := { z_j : Z; z_ln : bool; z_f : Z; z_e : Z; z_fexp : Z }.

Definition zpre_tok (t : tok) (z : zst) : option zst :=
  match t with
  | TLP => Some {| z_j := z_j z + 1; z_ln := false; z_f := z_f z; z_e := z_e z; z_fexp := z_fexp z |}
  | TRP => if (z_j z - 1 <? 0)%Z then None
           else Some {| z_j := z_j z - 1; z_ln := false; z_f := z_f z; z_e := z_e z; z_fexp := z_fexp z |}
  | TF _ => Some {| z_j := z_j z; z_ln := false; z_f := z_f z + 1; z_e := z_e z + 1; z_fexp := z_fexp z |}
  | TNOT => if z_ln z
            then Some {| z_j := z_j z; z_ln := false; z_f := z_f z; z_e := z_e z - 1; z_fexp := z_fexp z |}
            else Some {| z_j := z_j z; z_ln := true; z_f := z_f z; z_e := z_e z + 1; z_fexp := z_fexp z |}
  | TAND | TOR =>
      if (z_fexp z =? z_f z)%Z
      then Some {| z_j := z_j z; z_ln := false; z_f := z_f z; z_e := z_e z + 1; z_fexp := z_fexp z + 1 |}
      else None
  end.
Fixpoint zpre (ts : list tok) (z : zst) : option zst :=
  match ts with
  | [] => Some z
  | t :: r => match zpre_tok t z with Some z' => zpre r z' | None => None end
  end.

Definition z0 : zst := {| z_j := 0; z_ln := false; z_f := 0; z_e := 0; z_fexp := 1 |}.

Definition Rz (a : pa) (z : zst) : Prop :=
  a_j a = z_j z /\ a_ln a = z_ln z /\ Z.of_N (a_f a) = z_f z /\ Z.of_N (a_e a) = z_e z /\ Z.of_N (a_fexp a) = z_fexp z.
Definition ZU : Z := 18446744073709551616%Z.
(* counters stay in range while n more items are read *)
Definition WFz (z : zst) (n : nat) : Prop :=
  (0 <= z_f z /\ 0 <= z_e z /\ 0 <= z_fexp z /\ (z_ln z = true -> 1 <= z_e z) /\
   z_f z + Z.of_nat n < ZU /\ z_e z + Z.of_nat n < ZU /\ z_fexp z + Z.of_nat n < ZU)%Z.

Fixpoint trailing_kw (its : list item) : bool :=
  match its with
  | [] => false
  | IW w :: r => if is_kw w && all_sp r then true else trailing_kw r
  | _ :: r => trailing_kw r
  end.

Lemma U64_ZU : Z.of_N U64 = ZU. Proof. reflexivity. Qed.

Lemma inc64_z x : (Z.of_N x + 1 < ZU)%Z -> Z.of_N (inc64 x) = (Z.of_N x + 1)%Z.
Proof. intro H. unfold inc64. rewrite N.mod_small; [lia|]. unfold ZU in H. unfold U64. lia. Qed.

Lemma inc_sub64_z x : (1 <= Z.of_N x < ZU)%Z -> Z.of_N (inc64 (sub64 x 2)) = (Z.of_N x - 1)%Z.
Proof.
  intro H. unfold inc64, sub64, ZU, U64 in *.
  rewrite N.add_mod_idemp_l by lia.
  replace (x + (18446744073709551616 - 2) + 1) with ((x - 1) + 1 * 18446744073709551616) by lia.
  rewrite N.mod_add by lia. rewrite N.mod_small by lia. lia.
Qed.

Lemma all_sp_toks r : all_sp r = true -> toks r = [].
Proof.
  induction r as [|[| |c|w] r IH]; cbn; try discriminate; auto.
Qed.

Lemma all_sp_trailing r : all_sp r = true -> trailing_kw r = false.
Proof.
  induction r as [|[| |c|w] r IH]; cbn; try discriminate; auto.
Qed.

Lemma is_kw_classify w : is_kw w = true ->
  (w = KW_NOT /\ classify w true = TNOT) \/ (w = KW_AND /\ classify w true = TAND) \/ (w = KW_OR /\ classify w true = TOR).
Proof.
  unfold is_kw, classify. intro H.
  destruct (beq_bytes w KW_NOT) eqn:B1; [apply beq_bytes_eq in B1; auto|].
  destruct (beq_bytes w KW_AND) eqn:B2; [apply beq_bytes_eq in B2; auto|].
  destruct (beq_bytes w KW_OR) eqn:B3; [apply beq_bytes_eq in B3; auto|]. discriminate.
Qed.

Lemma not_kw_classify w b : is_kw w = false -> classify w b = TF w.
Proof.
  unfold is_kw, classify. intro H. destruct b; [|reflexivity].
  destruct (beq_bytes w KW_NOT); [discriminate|]. destruct (beq_bytes w KW_AND); [discriminate|].
  destruct (beq_bytes w KW_OR); [discriminate|]. reflexivity.
Qed.

(* pre_items never reports an out-of-bounds access; its verdict is that of zpre, plus the
   `unexpected end` rule for a trailing bare keyword *)
Definition pre_err (e : N) : Prop := e = E_END \/ e = E_MISSING \/ e = E_PAREN.
Lemma pre_items_zpre : forall n its, length its = n -> forall a z,
  normal its -> Rz a z -> WFz z (length its) ->
  match zpre (toks its) z, trailing_kw its with
  | Some z', false => exists a', pre_items its a = IOk a' /\ Rz a' z' /\ WFz z' 0
  | _, _ => exists e, pre_items its a = IErr e /\ pre_err e
  end.
Proof.
  induction n as [n IH] using lt_wf_ind. intros its Hlen a z Hn HR HW.
  destruct its as [|it r].
  - cbn. exists a. repeat split; try apply HR; try apply HW.
  - assert (IHr : forall a1 z1, Rz a1 z1 -> WFz z1 (length r) ->
       match zpre (toks r) z1, trailing_kw r with
       | Some z', false => exists a', pre_items r a1 = IOk a' /\ Rz a' z' /\ WFz z' 0
       | _, _ => exists e, pre_items r a1 = IErr e /\ pre_err e
       end).
    { intros a1 z1 H1 H2. apply (IH (length r)); auto. cbn in Hlen; lia. eapply normal_tail; eauto. }
    destruct HR as (Rj & Rl & Rf & Re & Rx).
    destruct HW as (W1 & W2 & W3 & W4 & W5 & W6 & W7). cbn [length] in W5, W6, W7.
    destruct it as [| |c|w]; cbn [toks zpre zpre_tok trailing_kw pre_items].
    + apply IHr; [repeat split; cbn; auto; lia|unfold WFz; cbn; repeat split; auto; try lia; discriminate].
    + rewrite Rj. destruct (z_j z - 1 <? 0)%Z.
      * eexists; split; [reflexivity|right; right; reflexivity].
      * apply IHr; [repeat split; cbn; auto; lia|unfold WFz; cbn; repeat split; auto; try lia; discriminate].
    + apply IHr; [repeat split; cbn; auto; lia|unfold WFz; cbn; repeat split; auto; lia].
    + (* the ISP after a word is skipped: harmless for toks / trailing_kw *)
      assert (IHs : forall a1 z1, Rz a1 z1 -> WFz z1 (length r) ->
         match zpre (toks r) z1, trailing_kw r with
         | Some z', false => exists a', match r with ISP _ :: r' => pre_items r' a1 | _ => pre_items r a1 end = IOk a' /\ Rz a' z' /\ WFz z' 0
         | _, _ => exists e, match r with ISP _ :: r' => pre_items r' a1 | _ => pre_items r a1 end = IErr e /\ pre_err e
         end).
      { intros a1 z1 H1 H2. destruct r as [|[| |c|w2] r']; try (apply IHr; assumption).
        cbn [toks trailing_kw]. apply (IH (length r')); auto.
        - cbn in Hlen; lia.
        - eapply normal_tail, normal_tail; eauto.
        - destruct H2 as (V1 & V2 & V3 & V4 & V5 & V6 & V7). cbn [length] in *. unfold WFz. repeat split; auto; lia. }
      unfold pre_word_abs.
      destruct (is_kw w) eqn:Ekw.
      * destruct (all_sp r) eqn:Eall.
        { cbn [andb ibind]. match goal with |- match ?X with _ => _ end => destruct X end; eexists; (split; [reflexivity|left; reflexivity]). }
        cbn [andb].
        destruct (next_is_sp r) eqn:Ensp.
        -- destruct (is_kw_classify w Ekw) as [(-> & ->)|[(-> & ->)|(-> & ->)]];
             cbn [beq_bytes KW_NOT KW_AND KW_OR N.eqb Pos.eqb andb zpre_tok].
           ++ rewrite Rl. destruct (z_ln z) eqn:Eln; cbn [ibind].
              ** apply IHs.
                 --- unfold Rz, a_bump. cbn. specialize (W4 eq_refl). repeat split; auto. rewrite inc_sub64_z by lia. lia.
                 --- unfold WFz. cbn. specialize (W4 eq_refl). repeat split; try lia; try discriminate.
              ** apply IHs.
                 --- unfold Rz, a_bump. cbn. repeat split; auto. rewrite inc64_z; lia.
                 --- unfold WFz. cbn. repeat split; try lia.
           ++ replace (a_fexp a =? a_f a) with (z_fexp z =? z_f z)%Z by lia.
              destruct (z_fexp z =? z_f z)%Z; cbn [negb ibind]; [|eexists; split; [reflexivity|right; left; reflexivity]].
              apply IHs.
              ** unfold Rz, a_bump. cbn. repeat split; auto; rewrite inc64_z; lia.
              ** unfold WFz. cbn. repeat split; try lia; try discriminate.
           ++ replace (a_fexp a =? a_f a) with (z_fexp z =? z_f z)%Z by lia.
              destruct (z_fexp z =? z_f z)%Z; cbn [negb ibind]; [|eexists; split; [reflexivity|right; left; reflexivity]].
              apply IHs.
              ** unfold Rz, a_bump. cbn. repeat split; auto; rewrite inc64_z; lia.
              ** unfold WFz. cbn. repeat split; try lia; try discriminate.
        -- unfold classify. cbn [ibind zpre_tok]. apply IHs.
           ++ unfold Rz, a_bump, a_feature. cbn. repeat split; auto; rewrite inc64_z; lia.
           ++ unfold WFz. cbn. repeat split; try lia; try discriminate.
      * cbn [andb ibind]. rewrite (not_kw_classify _ _ Ekw). cbn [zpre_tok]. apply IHs.
        -- unfold Rz, a_bump, a_feature. cbn. repeat split; auto; rewrite inc64_z; lia.
        -- unfold WFz. cbn. repeat split; try lia; try discriminate.
Qed.

(* ================= E. the main pass as a machine on tokens ================= *)
Notation cNOT := Consts.LYS_IFF_NOT.
Notation cAND := Consts.LYS_IFF_AND.
Notation cOR := Consts.LYS_IFF_OR.
Notation cF := Consts.LYS_IFF_F.

Record ast := { k_stk : list N; k_out : list N; k_fts : list bytes }.
Inductive mres := MOk (s : ast) | MErr | MOob.

Fixpoint popw (p : N) (stk out : list N) : list N * list N :=
  match stk with
  | op :: stk' => if op <=? p then popw p stk' (op :: out) else (stk, out)
  | [] => ([], out)
  end.
Fixpoint popr (stk out : list N) : option (list N * list N) :=
  match stk with
  | [] => None
  | op :: stk' => if op =? IFF_RP then Some (stk', out) else popr stk' (op :: out)
  end.

Definition mtok (lookup : bytes -> option bytes) (t : tok) (s : ast) : mres :=
  match t with
  | TRP => MOk {| k_stk := IFF_RP :: k_stk s; k_out := k_out s; k_fts := k_fts s |}
  | TLP => match popr (k_stk s) (k_out s) with
           | None => MOob
           | Some (stk', out') => MOk {| k_stk := stk'; k_out := out'; k_fts := k_fts s |}
           end
  | TNOT => match k_stk s with
            | op :: stk' =>
                if op =? cNOT then MOk {| k_stk := stk'; k_out := k_out s; k_fts := k_fts s |}
                else MOk {| k_stk := cNOT :: k_stk s; k_out := k_out s; k_fts := k_fts s |}
            | [] => MOk {| k_stk := [cNOT]; k_out := k_out s; k_fts := k_fts s |}
            end
  | TAND => let '(stk', out') := popw cAND (k_stk s) (k_out s) in
            MOk {| k_stk := cAND :: stk'; k_out := out'; k_fts := k_fts s |}
  | TOR => let '(stk', out') := popw cOR (k_stk s) (k_out s) in
           MOk {| k_stk := cOR :: stk'; k_out := out'; k_fts := k_fts s |}
  | TF w => match lookup w with
            | None => MErr
            | Some f => MOk {| k_stk := k_stk s; k_out := cF :: k_out s; k_fts := f :: k_fts s |}
            end
  end.

(* the same machine with the extents E (records) and Fsz (features) of the two arrays *)
Definition mtokB (E Fsz : nat) (lookup : bytes -> option bytes) (t : tok) (s : ast) : mres :=
  match mtok lookup t s with
  | MOk s' => if (length (k_out s') <=? E)%nat && (length (k_fts s') <=? Fsz)%nat then MOk s' else MOob
  | MErr => if (S (length (k_out s)) <=? E)%nat then MErr else MOob
  | MOob => MOob
  end.
Fixpoint mrunB (E Fsz : nat) (lookup : bytes -> option bytes) (ts : list tok) (s : ast) : mres :=
  match ts with
  | [] => MOk s
  | t :: r => match mtokB E Fsz lookup t s with MOk s' => mrunB E Fsz lookup r s' | x => x end
  end.

Lemma mrunB_app E Fsz lookup l1 l2 s :
  mrunB E Fsz lookup (l1 ++ l2) s
  = match mrunB E Fsz lookup l1 s with MOk s' => mrunB E Fsz lookup l2 s' | x => x end.
Proof.
  revert s; induction l1 as [|t l1 IH]; intro s; cbn; [reflexivity|].
  destruct (mtokB E Fsz lookup t s); auto.
Qed.

(* ---------- list helpers ---------- *)
Lemma nth_firstn_lt {A} (l : list A) n m d : (n < m)%nat -> nth n (firstn m l) d = nth n l d.
Proof.
  revert n m; induction l as [|x l IH]; intros n m H; [destruct n, m; reflexivity|].
  destruct m; [lia|]. destruct n; cbn; [reflexivity|]. apply IH. lia.
Qed.

Lemma firstn_upd_ge {A} (l : list A) n k v : (n <= k)%nat -> firstn n (upd l k v) = firstn n l.
Proof.
  revert n k; induction l as [|x l IH]; intros n k H; [destruct n; reflexivity|].
  destruct n; [reflexivity|]. destruct k; [lia|]. cbn. f_equal. apply IH. lia.
Qed.

Lemma firstn_succ_upd {A} (l : list A) k v : (k < length l)%nat ->
  firstn (S k) (upd l k v) = firstn k l ++ [v].
Proof.
  revert k; induction l as [|x l IH]; intros k H; [cbn in H; lia|].
  destruct k; cbn; [reflexivity|]. f_equal. apply IH. cbn in H. lia.
Qed.

Lemma skipn_firstn_upd {A} (l : list A) k E v : (k < E)%nat -> (E <= length l)%nat ->
  skipn k (firstn E (upd l k v)) = v :: skipn (S k) (firstn E l).
Proof.
  revert k E; induction l as [|x l IH]; intros k E H1 H2; [cbn in H2; lia|].
  destruct E; [lia|]. destruct k.
  - cbn. reflexivity.
  - cbn [upd firstn skipn]. apply IH; cbn in H2; lia.
Qed.

Lemma skipn_upd_lt {A} (l : list A) k n v : (k < n)%nat -> skipn n (upd l k v) = skipn n l.
Proof.
  revert k n; induction l as [|x l IH]; intros k n H; [destruct n; reflexivity|].
  destruct n; [lia|]. destruct k; cbn; [reflexivity|]. apply IH. lia.
Qed.

Lemma skipn_upd_at {A} (l : list A) k v : (k < length l)%nat -> skipn k (upd l k v) = v :: skipn (S k) l.
Proof.
  revert k; induction l as [|x l IH]; intros k H; [cbn in H; lia|].
  destruct k; [reflexivity|]. cbn [upd skipn]. apply IH. cbn in H; lia.
Qed.

(* ---------- simulation relation ---------- *)
Definition stk_ok (op : N) : Prop := op = cNOT \/ op = cAND \/ op = cOR \/ op = IFF_RP.

Record Rm (E Fsz B : nat) (c : mst) (a : ast) : Prop := {
  rm_idx : s_index (m_stack c) = N.of_nat (length (k_stk a));
  rm_stk : firstn (length (k_stk a)) (s_data (m_stack c)) = rev (k_stk a);
  rm_stk_len : (length (k_stk a) <= length (s_data (m_stack c)))%nat;
  rm_data_len : (length (s_data (m_stack c)) <= B)%nat;
  rm_stk_ok : Forall stk_ok (k_stk a);
  rm_expr_b : bytes_lt256 (m_expr c);
  rm_expr_len : (E <= 4 * length (m_expr c))%nat;
  rm_out_len : (length (k_out a) <= E)%nat;
  rm_out : skipn (E - length (k_out a)) (firstn E (unpack (m_expr c))) = k_out a;
  rm_esize : Z.of_N (m_esize c) = ((Z.of_nat E - 1 - Z.of_nat (length (k_out a))) mod ZU)%Z;
  rm_feat_len : length (m_feat c) = Fsz;
  rm_fts_len : (length (k_fts a) <= Fsz)%nat;
  rm_fts : skipn (Fsz - length (k_fts a)) (m_feat c) = map Some (k_fts a);
  rm_fsize : Z.of_N (m_fsize c) = ((Z.of_nat Fsz - 1 - Z.of_nat (length (k_fts a))) mod ZU)%Z;
  rm_cnt : m_cnt c = N.of_nat (length (k_fts a))
}.

Lemma dec64_z x v : (Z.of_N x = v mod ZU)%Z -> (Z.of_N (dec64 x) = (v - 1) mod ZU)%Z.
Proof.
  intro H. unfold dec64. rewrite N2Z.inj_mod, N2Z.inj_add, H. unfold U64, ZU.
  rewrite N2Z.inj_sub by lia.
  change (Z.of_N 18446744073709551616) with 18446744073709551616%Z. change (Z.of_N 1) with 1%Z.
  replace (v mod 18446744073709551616 + (18446744073709551616 - 1))%Z
    with ((v mod 18446744073709551616 - 1) + 1 * 18446744073709551616)%Z by lia.
  rewrite Z.mod_add by lia. rewrite Zminus_mod_idemp_l. reflexivity.
Qed.

Lemma dec64_pos x : 0 < x -> x < U64 -> dec64 x = x - 1.
Proof.
  intros H1 H2. unfold dec64, U64 in *.
  replace (x + (18446744073709551616 - 1)) with ((x - 1) + 1 * 18446744073709551616) by lia.
  rewrite N.mod_add by lia. apply N.mod_small. lia.
Qed.

Section Sim.
Variables (E Fsz B : nat).
Hypothesis HE : (Z.of_nat E < ZU)%Z.
Hypothesis HF : (Z.of_nat Fsz < ZU)%Z.
Hypothesis HB : (Z.of_nat B + 4 < ZU)%Z.

Definition with_stk (a : ast) (stk : list N) : ast := {| k_stk := stk; k_out := k_out a; k_fts := k_fts a |}.
Definition with_out (a : ast) (out : list N) : ast := {| k_stk := k_stk a; k_out := out; k_fts := k_fts a |}.

Lemma emit_ok c a op :
  Rm E Fsz B c a -> op < 4 -> (length (k_out a) < E)%nat ->
  exists c', emit c op = IOk c' /\ Rm E Fsz B c' (with_out a (op :: k_out a)).
Proof using HE HF HB.
  intros R Hop Hlt. destruct R.
  assert (Hes : N.to_nat (m_esize c) = (E - 1 - length (k_out a))%nat).
  { rewrite Z.mod_small in rm_esize0 by lia. lia. }
  unfold emit.
  destruct (setop_unpack (m_expr c) op (m_esize c) rm_expr_b0 Hop) as (e' & He' & Hb' & Hl' & Hu'); [lia|].
  rewrite He'. cbn [ibind]. eexists; split; [reflexivity|].
  constructor; cbn [m_stack m_expr m_feat m_cnt m_esize m_fsize with_out k_stk k_out k_fts length]; auto; try lia.
  - rewrite Hu', Hes.
    replace (E - S (length (k_out a)))%nat with (E - 1 - length (k_out a))%nat by lia.
    rewrite skipn_firstn_upd by (rewrite ?unpack_length; lia).
    f_equal. replace (S (E - 1 - length (k_out a))) with (E - length (k_out a))%nat by lia. exact rm_out0.
  - rewrite (dec64_z _ _ rm_esize0). f_equal. lia.
Qed.

Lemma push_ok c a v :
  Rm E Fsz B c a -> stk_ok v -> (length (k_stk a) + 4 <= B)%nat ->
  exists stk', stack_push (m_stack c) v = IOk stk' /\ Rm E Fsz B (set_stack c stk') (with_stk a (v :: k_stk a)).
Proof using HE HF HB.
  intros R Hv Hlen. destruct R. unfold stack_push.
  set (data := if s_index (m_stack c) =? N.of_nat (length (s_data (m_stack c)))
               then s_data (m_stack c) ++ repeat 0 4 else s_data (m_stack c)).
  assert (Hd : (length (k_stk a) < length data)%nat /\ (length data <= B)%nat /\
               firstn (length (k_stk a)) data = rev (k_stk a)).
  { unfold data. destruct (N.eqb_spec (s_index (m_stack c)) (N.of_nat (length (s_data (m_stack c))))) as [Heq|Hne].
    - rewrite app_length. cbn [repeat length]. assert (length (k_stk a) = length (s_data (m_stack c))) by lia.
      repeat split; try lia. rewrite firstn_app. replace (length (k_stk a) - length (s_data (m_stack c)))%nat with 0%nat by lia.
      cbn [firstn]. rewrite app_nil_r. exact rm_stk0.
    - repeat split; auto; lia. }
  destruct Hd as (Hd1 & Hd2 & Hd3).
  rewrite wr_ok by lia. cbn [ibind]. eexists; split; [reflexivity|].
  constructor; cbn [set_stack m_stack m_expr m_feat m_cnt m_esize m_fsize with_stk k_stk k_out k_fts s_index s_data length rev]; auto.
  - rewrite rm_idx0. rewrite inc64_small; [lia|]. unfold U64. unfold ZU in HB. lia.
  - rewrite rm_idx0, Nat2N.id. rewrite firstn_succ_upd by lia. rewrite Hd3. reflexivity.
  - rewrite upd_length. lia.
  - rewrite upd_length. lia.
Qed.

Lemma top_ok c a op stk' :
  Rm E Fsz B c a -> k_stk a = op :: stk' ->
  s_index (m_stack c) <> 0 /\ rd (s_data (m_stack c)) (dec64 (s_index (m_stack c))) = IOk op.
Proof using HE HF HB.
  intros R Hs. destruct R. rewrite Hs in *. cbn [length rev] in *.
  assert (Hidx : dec64 (s_index (m_stack c)) = N.of_nat (length stk')).
  { rewrite dec64_pos; [lia|lia|]. unfold U64. unfold ZU in HB. lia. }
  split; [lia|]. rewrite Hidx. rewrite (rd_ok _ _ 0) by lia. f_equal. rewrite Nat2N.id.
  rewrite <- (nth_firstn_lt _ (length stk') (S (length stk'))) by lia. rewrite rm_stk0.
  rewrite app_nth2 by (rewrite rev_length; lia). rewrite rev_length, Nat.sub_diag. reflexivity.
Qed.

Lemma pop_ok c a op stk' :
  Rm E Fsz B c a -> k_stk a = op :: stk' ->
  exists stk1, stack_pop (m_stack c) = IOk (op, stk1) /\ Rm E Fsz B (set_stack c stk1) (with_stk a stk').
Proof using HE HF HB.
  intros R Hs. destruct (top_ok c a op stk' R Hs) as [Hnz Hrd]. destruct R. rewrite Hs in *. cbn [length rev] in *.
  assert (Hidx : dec64 (s_index (m_stack c)) = N.of_nat (length stk')).
  { rewrite dec64_pos; [lia|lia|]. unfold U64. unfold ZU in HB. lia. }
  unfold stack_pop. rewrite Hrd. cbn [ibind]. eexists; split; [reflexivity|].
  constructor; cbn [set_stack m_stack m_expr m_feat m_cnt m_esize m_fsize with_stk k_stk k_out k_fts s_index s_data]; auto; try lia.
  - assert (H : firstn (length stk') (firstn (S (length stk')) (s_data (m_stack c))) = firstn (length stk') (rev stk' ++ [op]))
      by (rewrite rm_stk0; reflexivity).
    rewrite firstn_firstn in H. replace (Nat.min (length stk') (S (length stk'))) with (length stk') in H by lia.
    rewrite H. rewrite firstn_app, rev_length, Nat.sub_diag. cbn [firstn]. rewrite app_nil_r.
    rewrite <- (rev_length stk') at 1. apply firstn_all.
  - inversion rm_stk_ok0; auto.
Qed.

Lemma popr_len stk : forall out stk' out', popr stk out = Some (stk', out') -> (length out <= length out')%nat.
Proof.
  induction stk as [|op stk IH]; intros out stk' out' H; cbn in H; [discriminate|].
  destruct (op =? IFF_RP); [inversion H; subst; lia|]. apply IH in H. cbn in H. lia.
Qed.
Lemma popw_len p stk : forall out, (length out <= length (snd (popw p stk out)))%nat.
Proof.
  induction stk as [|op stk IH]; intro out; cbn; [lia|].
  destruct (op <=? p); [|cbn; lia]. specialize (IH (op :: out)). cbn in IH. lia.
Qed.

Definition mk_ast stk out fts : ast := {| k_stk := stk; k_out := out; k_fts := fts |}.

Lemma stk_ok_lt4 op : stk_ok op -> op <> IFF_RP -> op < 4.
Proof. unfold stk_ok. intros [->|[->|[->| ->]]] H; try (vm_compute; reflexivity). congruence. Qed.

Lemma pop_until_rp_ok stk : forall out fts c fuel stk' out',
  Rm E Fsz B c (mk_ast stk out fts) -> popr stk out = Some (stk', out') -> (length out' <= E)%nat ->
  (length stk < fuel)%nat ->
  exists c', pop_until_rp fuel c = IOk c' /\ Rm E Fsz B c' (mk_ast stk' out' fts).
Proof using HE HF HB.
  induction stk as [|op stk IH]; intros out fts c fuel stk' out' R Hp Hlen Hf; cbn in Hp; [discriminate|].
  destruct fuel as [|fuel]; [cbn in Hf; lia|]. cbn [pop_until_rp].
  destruct (pop_ok c _ op stk R eq_refl) as (stk1 & Hpop & R1). rewrite Hpop. cbn [ibind].
  destruct (op =? IFF_RP) eqn:Eop.
  - inversion Hp; subst. eexists; split; [reflexivity|]. exact R1.
  - assert (Hop : op < 4).
    { apply stk_ok_lt4; [|lia]. pose proof (rm_stk_ok _ _ _ _ _ R) as Hs. inversion Hs; auto. }
    pose proof (popr_len _ _ _ _ Hp) as Hl. cbn [length] in Hl.
    destruct (emit_ok _ _ op R1 Hop) as (c2 & He & R2); [cbn; lia|]. rewrite He. cbn [ibind].
    apply (IH (op :: out) fts c2 fuel stk' out'); auto. cbn in Hf. lia.
Qed.

Lemma pop_while_le_ok p stk : p < 4 -> forall out fts c fuel,
  Rm E Fsz B c (mk_ast stk out fts) -> (length (snd (popw p stk out)) <= E)%nat ->
  (length stk < fuel)%nat ->
  exists c', pop_while_le fuel p c = IOk c' /\ Rm E Fsz B c' (mk_ast (fst (popw p stk out)) (snd (popw p stk out)) fts).
Proof using HE HF HB.
  intro Hp. induction stk as [|op stk IH]; intros out fts c fuel R Hlen Hf;
    (destruct fuel as [|fuel]; [cbn in Hf; lia|]); cbn [pop_while_le popw].
  - rewrite (rm_idx _ _ _ _ _ R). cbn. eexists; split; [reflexivity|]. exact R.
  - destruct (top_ok c _ op stk R eq_refl) as [Hnz Hrd].
    replace (s_index (m_stack c) =? 0) with false by lia. rewrite Hrd. cbn [ibind].
    cbn [popw] in Hlen.
    destruct (op <=? p) eqn:Eop.
    + destruct (pop_ok c _ op stk R eq_refl) as (stk1 & Hpop & R1). rewrite Hpop. cbn [ibind].
      pose proof (popw_len p stk (op :: out)) as Hl. cbn [length] in Hl.
      destruct (emit_ok _ _ op R1) as (c2 & He & R2); [lia|cbn; lia|]. rewrite He. cbn [ibind].
      apply (IH (op :: out) fts c2 fuel); auto. cbn in Hf. lia.
    + cbn [fst snd]. eexists; split; [reflexivity|]. exact R.
Qed.

Lemma flush_ok stk : forall out fts c fuel,
  Rm E Fsz B c (mk_ast stk out fts) -> Forall (fun op => op < 4) stk -> (length stk + length out <= E)%nat ->
  (length stk < fuel)%nat ->
  exists c', flush_stack fuel c = IOk c' /\ Rm E Fsz B c' (mk_ast [] (rev stk ++ out) fts).
Proof using HE HF HB.
  induction stk as [|op stk IH]; intros out fts c fuel R Hall Hlen Hf;
    (destruct fuel as [|fuel]; [cbn in Hf; lia|]); cbn [flush_stack].
  - rewrite (rm_idx _ _ _ _ _ R). cbn. eexists; split; [reflexivity|]. exact R.
  - destruct (top_ok c _ op stk R eq_refl) as [Hnz _].
    replace (s_index (m_stack c) =? 0) with false by lia.
    destruct (pop_ok c _ op stk R eq_refl) as (stk1 & Hpop & R1). rewrite Hpop. cbn [ibind].
    inversion Hall as [|? ? Hop Hall']; subst. cbn [length] in Hlen.
    destruct (emit_ok _ _ op R1 Hop) as (c2 & He & R2); [cbn; lia|]. rewrite He. cbn [ibind].
    destruct (IH (op :: out) fts c2 fuel R2 Hall') as (c3 & H3 & R3); [cbn; lia|cbn in Hf; lia|].
    exists c3. split; [exact H3|]. cbn [rev]. rewrite <- app_assoc. exact R3.
Qed.

Lemma feat_ok c a f :
  Rm E Fsz B c a -> (length (k_fts a) < Fsz)%nat ->
  exists ft, wr (m_feat c) (m_fsize c) (Some f) = IOk ft /\
    Rm E Fsz B {| m_stack := m_stack c; m_expr := m_expr c; m_feat := ft; m_cnt := inc64 (m_cnt c);
                  m_esize := m_esize c; m_fsize := dec64 (m_fsize c) |}
       {| k_stk := k_stk a; k_out := k_out a; k_fts := f :: k_fts a |}.
Proof using HE HF HB.
  intros R Hlt. destruct R.
  assert (Hfs : N.to_nat (m_fsize c) = (Fsz - 1 - length (k_fts a))%nat).
  { rewrite Z.mod_small in rm_fsize0 by lia. lia. }
  rewrite wr_ok by lia. eexists; split; [reflexivity|].
  constructor; cbn [m_stack m_expr m_feat m_cnt m_esize m_fsize k_stk k_out k_fts length map]; auto; try lia.
  - rewrite upd_length. exact rm_feat_len0.
  - rewrite Hfs. replace (Fsz - S (length (k_fts a)))%nat with (Fsz - 1 - length (k_fts a))%nat by lia.
    rewrite skipn_upd_at by lia. f_equal.
    replace (S (Fsz - 1 - length (k_fts a))) with (Fsz - length (k_fts a))%nat by lia. exact rm_fts0.
  - rewrite (dec64_z _ _ rm_fsize0). f_equal. lia.
  - rewrite rm_cnt0. rewrite inc64_small; [lia|]. unfold U64. unfold ZU in HF. lia.
Qed.

End Sim.

(* ---------- backward scanning ---------- *)
Definition back_stop (P : bytes) : Prop :=
  P = [] \/ exists P' d, P = P' ++ [d] /\ (is_cspace d = true \/ d = 40 \/ d = 41).

Lemma scan_back_spec w : forallb wordch w = true -> forall P R fuel,
  back_stop P -> (length w < fuel)%nat ->
  scan_back fuel (P ++ w ++ R) (Z.of_nat (length P + length w) - 1) = IOk (Z.of_nat (length P) - 1)%Z.
Proof.
  induction w as [|c w IH] using rev_ind; intros Hw P R fuel HP Hf; (destruct fuel as [|fuel]; [cbn in Hf; lia|]).
  - cbn [app length scan_back]. rewrite Nat.add_0_r.
    destruct HP as [->|(P' & d & -> & Hd)].
    + cbn. reflexivity.
    + rewrite app_length. cbn [length].
      replace (Z.of_nat (length P' + 1) - 1 <? 0)%Z with false by lia.
      rewrite <- app_assoc. cbn [app].
      replace (Z.of_nat (length P' + 1) - 1)%Z with (Z.of_nat (length P')) by lia.
      rewrite rdc_hd. cbn [ibind hd]. destruct Hd as [Hd|[->| ->]]; [rewrite Hd; reflexivity|reflexivity|reflexivity].
  - rewrite forallb_app in Hw. apply andb_true_iff in Hw. destruct Hw as [Hw Hc]. cbn in Hc. rewrite andb_true_r in Hc.
    destruct (wordch_facts _ Hc) as (H0 & H40 & H41 & Hs).
    rewrite app_length in *. cbn [length] in *. cbn [scan_back].
    replace (Z.of_nat (length P + (length w + 1)) - 1 <? 0)%Z with false by lia.
    replace (P ++ (w ++ [c]) ++ R) with ((P ++ w) ++ c :: R) by (rewrite <- !app_assoc; reflexivity).
    replace (Z.of_nat (length P + (length w + 1)) - 1)%Z with (Z.of_nat (length (P ++ w))) by (rewrite app_length; lia).
    rewrite rdc_hd. cbn [ibind hd]. rewrite Hs. replace (c =? 40) with false by lia. replace (c =? 41) with false by lia.
    rewrite <- app_assoc. rewrite app_length.
    replace (Z.of_nat (length P + length w) - 1)%Z with (Z.of_nat (length P + length w) - 1)%Z by lia.
    apply IH; auto. lia.
Qed.

Lemma beq_bytes_refl w : beq_bytes w w = true.
Proof. apply beq_bytes_eq. reflexivity. Qed.

Lemma kw_sp_spec kw : forallb wordch kw = true -> forall P w R,
  forallb wordch w = true -> delim_start R ->
  kw_sp (P ++ w ++ R) (Z.of_nat (length P)) kw
  = IOk (beq_bytes w kw && match R with d :: _ => is_cspace d | [] => false end).
Proof.
  intros Hkw P w R Hw HR. unfold kw_sp.
  assert (Hnz : Forall (fun k => k <> 0) kw).
  { apply Forall_forall. intros k Hk. eapply forallb_forall in Hkw; [|exact Hk]. apply wordch_facts in Hkw. tauto. }
  rewrite (kw_at_spec kw Hnz). cbn [ibind]. rewrite (starts_with_word kw Hkw w R HR).
  destruct (starts_with kw w) eqn:Es.
  - apply starts_with_spec in Es. destruct Es as [rest ->].
    replace (P ++ (kw ++ rest) ++ R) with ((P ++ kw) ++ rest ++ R) by (rewrite <- !app_assoc; reflexivity).
    replace (Z.of_nat (length P) + Z.of_nat (length kw))%Z with (Z.of_nat (length (P ++ kw))) by (rewrite app_length; lia).
    rewrite rdc_hd. cbn [ibind]. destruct rest as [|d rest].
    + rewrite app_nil_r, beq_bytes_refl. cbn [app andb]. destruct R; reflexivity.
    + cbn [app hd]. rewrite forallb_app in Hw. apply andb_true_iff in Hw. destruct Hw as [_ Hw]. cbn in Hw.
      apply andb_true_iff in Hw. destruct Hw as [Hd _]. apply wordch_facts in Hd. destruct Hd as (_ & _ & _ & ->).
      replace (beq_bytes (kw ++ d :: rest) kw) with false; [reflexivity|].
      symmetry. destruct (beq_bytes (kw ++ d :: rest) kw) eqn:Eb; [|reflexivity].
      apply beq_bytes_eq in Eb. apply (f_equal (@length N)) in Eb. rewrite app_length in Eb. cbn in Eb. lia.
  - replace (beq_bytes w kw) with false; [reflexivity|].
    symmetry. destruct (beq_bytes w kw) eqn:Eb; [|reflexivity]. apply beq_bytes_eq in Eb. subst.
    pose proof (starts_with_app kw []) as Hx. rewrite app_nil_r in Hx. congruence.
Qed.

Lemma sub_spec P w R : sub (P ++ w ++ R) (Z.of_nat (length P)) (Z.of_nat (length P + length w) - Z.of_nat (length P)) = w.
Proof.
  unfold sub. rewrite Nat2Z.id. replace (Z.to_nat _) with (length w) by lia.
  rewrite skipn_app, skipn_all, Nat.sub_diag. cbn [app skipn].
  rewrite firstn_app, firstn_all, Nat.sub_diag. cbn [firstn]. apply app_nil_r.
Qed.

(* tokens of a list of items whose right neighbour is known *)
Fixpoint toksc (its : list item) (nxt : bool) : list tok :=
  match its with
  | [] => []
  | ILP :: r => TLP :: toksc r nxt
  | IRP :: r => TRP :: toksc r nxt
  | ISP _ :: r => toksc r nxt
  | IW w :: r => classify w (match r with [] => nxt | _ => next_is_sp r end) :: toksc r nxt
  end.

Lemma toksc_app l1 l2 nxt :
  toksc (l1 ++ l2) nxt = toksc l1 (match l2 with [] => nxt | _ => next_is_sp l2 end) ++ toksc l2 nxt.
Proof.
  induction l1 as [|it l1 IH]; [reflexivity|].
  destruct it as [| |c|w]; cbn [app toksc]; rewrite ?IH; try reflexivity.
  f_equal. destruct l1 as [|it1 l1]; cbn [app]; [|reflexivity]. destruct l2; reflexivity.
Qed.

Lemma toks_toksc its : toks its = toksc its false.
Proof.
  induction its as [|[| |c|w] r IH]; cbn; rewrite ?IH; try reflexivity. destruct r; reflexivity.
Qed.

Lemma flatten_app a b : flatten (a ++ b) = flatten a ++ flatten b.
Proof. unfold flatten. apply flat_map_app. Qed.

Lemma normal_app_r l1 l2 : normal (l1 ++ l2) -> normal l2.
Proof. induction l1 as [|x l1 IH]; cbn [app]; auto. intro H. apply IH. eapply normal_tail; eauto. Qed.

(* what precedes a word *)
Lemma before_word l w r : normal (l ++ IW w :: r) -> back_stop (flatten l).
Proof.
  induction l as [|x l IH] using rev_ind; intros Hn; [left; reflexivity|].
  right. rewrite <- app_assoc in Hn. cbn [app] in Hn.
  apply normal_app_r in Hn.
  destruct Hn as (Hx & Hxw & _).
  rewrite flatten_app. destruct x as [| |c|w2]; cbn [flatten flat_map item_bytes app] in *.
  - exists (flatten l), 40. auto.
  - exists (flatten l), 41. auto.
  - exists (flatten l), c. cbn in Hx. auto.
  - contradiction.
Qed.

Lemma popw_stk_len p stk : forall out, (length (fst (popw p stk out)) <= length stk)%nat.
Proof.
  induction stk as [|op stk IH]; intro out; cbn; [lia|]. destruct (op <=? p); [|cbn; lia].
  specialize (IH (op :: out)). lia.
Qed.
Lemma popr_stk_len stk : forall out stk' out', popr stk out = Some (stk', out') -> (length stk' <= length stk)%nat.
Proof.
  induction stk as [|op stk IH]; intros out stk' out' H; cbn in H; [discriminate|].
  destruct (op =? IFF_RP); [inversion H; subst; cbn; lia|]. apply IH in H. cbn. lia.
Qed.

Lemma mtok_stk_len lookup t a a' : mtok lookup t a = MOk a' -> (length (k_stk a') <= S (length (k_stk a)))%nat.
Proof.
  destruct t; cbn [mtok]; intro H.
  - destruct (popr (k_stk a) (k_out a)) as [[stk' out']|] eqn:Ep; [|discriminate].
    inversion H; subst; cbn. apply popr_stk_len in Ep. lia.
  - inversion H; subst; cbn. lia.
  - destruct (k_stk a) as [|op stk']; [inversion H; subst; cbn; lia|].
    destruct (op =? cNOT); inversion H; subst; cbn; lia.
  - destruct (popw cAND (k_stk a) (k_out a)) as [stk' out'] eqn:Ep. inversion H; subst; cbn.
    pose proof (popw_stk_len cAND (k_stk a) (k_out a)) as Hl. rewrite Ep in Hl. cbn in Hl. lia.
  - destruct (popw cOR (k_stk a) (k_out a)) as [stk' out'] eqn:Ep. inversion H; subst; cbn.
    pose proof (popw_stk_len cOR (k_stk a) (k_out a)) as Hl. rewrite Ep in Hl. cbn in Hl. lia.
  - destruct (lookup w); [|discriminate]. inversion H; subst; cbn. lia.
Qed.

Lemma stk_ok_popw p stk : Forall stk_ok stk -> forall out, Forall stk_ok (fst (popw p stk out)).
Proof.
  induction 1 as [|op stk Hop Hs IH]; intro out; cbn; [constructor|].
  destruct (op <=? p); [apply IH|]. cbn. constructor; auto.
Qed.

Section MainSim.
Variables (E Fsz B : nat) (lookup : bytes -> option bytes).
Hypothesis HE : (Z.of_nat E < ZU)%Z.
Hypothesis HF : (Z.of_nat Fsz < ZU)%Z.
Hypothesis HB : (Z.of_nat B + 4 < ZU)%Z.

Definition sim_res (r : mres) (x : ires mst) : Prop :=
  match r with
  | MOk a' => exists c', x = IOk c' /\ Rm E Fsz B c' a'
  | MErr => x = IErr E_NOTFOUND
  | MOob => True
  end.

Lemma main_word_ok P w R nxt c a fu :
  w <> [] -> forallb wordch w = true -> delim_start R ->
  (match R with d :: _ => is_cspace d | [] => false end) = nxt ->
  Rm E Fsz B c a -> (length (k_stk a) + 4 <= B)%nat -> (length (k_stk a) < fu)%nat ->
  sim_res (mtokB E Fsz lookup (classify w nxt) a)
          (main_word fu lookup (P ++ w ++ R) (Z.of_nat (length P)) (Z.of_nat (length P + length w)) c).
Proof.
  intros Hne Hw HR Hnxt R0 HBs Hfu. destruct a as [stk out fts]. cbn [k_stk] in *.
  unfold main_word.
  rewrite (kw_sp_spec KW_NOT eq_refl P w R Hw HR), Hnxt. cbn [ibind].
  assert (Hcl : classify w nxt =
    if beq_bytes w KW_NOT && nxt then TNOT else if beq_bytes w KW_AND && nxt then TAND
    else if beq_bytes w KW_OR && nxt then TOR else TF w).
  { unfold classify. destruct nxt; rewrite ?andb_true_r, ?andb_false_r; reflexivity. }
  rewrite Hcl. clear Hcl.
  destruct (beq_bytes w KW_NOT && nxt) eqn:E1.
  { (* not *)
    unfold mtokB. cbn [mtok k_stk k_out k_fts].
    pose proof (rm_out_len _ _ _ _ _ R0) as Ho. pose proof (rm_fts_len _ _ _ _ _ R0) as Hft. cbn [k_out k_fts] in Ho, Hft.
    destruct stk as [|op stk'].
    - rewrite (rm_idx _ _ _ _ _ R0). cbn [k_stk length N.of_nat N.eqb ibind].
      cbn [k_out k_fts]. replace ((length out <=? E)%nat && (length fts <=? Fsz)%nat) with true by lia.
      destruct (push_ok E Fsz B HE HF HB c _ cNOT R0) as (stk1 & Hp & R1); [left; reflexivity|cbn; lia|].
      rewrite Hp. cbn [ibind sim_res]. eexists; split; [reflexivity|exact R1].
    - destruct (top_ok E Fsz B HE HF HB c _ op stk' R0 eq_refl) as [Hnz Hrd].
      replace (s_index (m_stack c) =? 0) with false by lia. rewrite Hrd. cbn [ibind].
      destruct (op =? cNOT) eqn:Eop; cbn [k_out k_fts];
        replace ((length out <=? E)%nat && (length fts <=? Fsz)%nat) with true by lia.
      + destruct (pop_ok E Fsz B HE HF HB c _ op stk' R0 eq_refl) as (stk1 & Hp & R1).
        rewrite Hp. cbn [ibind sim_res]. eexists; split; [reflexivity|exact R1].
      + destruct (push_ok E Fsz B HE HF HB c _ cNOT R0) as (stk1 & Hp & R1); [left; reflexivity|cbn in *; lia|].
        rewrite Hp. cbn [ibind sim_res]. eexists; split; [reflexivity|exact R1]. }
  rewrite (kw_sp_spec KW_AND eq_refl P w R Hw HR), Hnxt. cbn [ibind].
  destruct (beq_bytes w KW_AND && nxt) eqn:E2.
  { unfold mtokB. cbn [mtok k_stk k_out k_fts].
    destruct (popw cAND stk out) as [stk' out'] eqn:Ep. cbn [k_out k_fts].
    destruct ((length out' <=? E)%nat && (length fts <=? Fsz)%nat) eqn:Eb; [|exact I].
    destruct (pop_while_le_ok E Fsz B HE HF HB cAND stk eq_refl out fts c fu R0) as (c1 & H1 & R1);
      [rewrite Ep; cbn; lia|lia|].
    rewrite H1, Ep in *. cbn [ibind fst snd] in *.
    destruct (push_ok E Fsz B HE HF HB c1 _ cAND R1) as (stk1 & Hp & R2); [right; left; reflexivity| |].
    { cbn. pose proof (popw_stk_len cAND stk out) as Hl. rewrite Ep in Hl. cbn in Hl. lia. }
    rewrite Hp. cbn [ibind sim_res]. eexists; split; [reflexivity|exact R2]. }
  rewrite (kw_sp_spec KW_OR eq_refl P w R Hw HR), Hnxt. cbn [ibind].
  destruct (beq_bytes w KW_OR && nxt) eqn:E3.
  { unfold mtokB. cbn [mtok k_stk k_out k_fts].
    destruct (popw cOR stk out) as [stk' out'] eqn:Ep. cbn [k_out k_fts].
    destruct ((length out' <=? E)%nat && (length fts <=? Fsz)%nat) eqn:Eb; [|exact I].
    destruct (pop_while_le_ok E Fsz B HE HF HB cOR stk eq_refl out fts c fu R0) as (c1 & H1 & R1);
      [rewrite Ep; cbn; lia|lia|].
    rewrite H1, Ep in *. cbn [ibind fst snd] in *.
    destruct (push_ok E Fsz B HE HF HB c1 _ cOR R1) as (stk1 & Hp & R2); [right; right; left; reflexivity| |].
    { cbn. pose proof (popw_stk_len cOR stk out) as Hl. rewrite Ep in Hl. cbn in Hl. lia. }
    rewrite Hp. cbn [ibind sim_res]. eexists; split; [reflexivity|exact R2]. }
  (* feature *)
  rewrite sub_spec. unfold mtokB. cbn [mtok k_stk k_out k_fts].
  destruct (lookup w) as [f|] eqn:El.
  - cbn [k_out k_fts length].
    destruct ((S (length out) <=? E)%nat && (S (length fts) <=? Fsz)%nat) eqn:Eb; [|exact I].
    destruct (emit_ok E Fsz B HE HF HB c _ cF R0) as (c1 & H1 & R1); [reflexivity|cbn; lia|].
    rewrite H1. cbn [ibind].
    destruct (feat_ok E Fsz B HE HF HB c1 _ f R1) as (ft & Hwr & R2); [cbn; lia|].
    rewrite Hwr. cbn [ibind sim_res]. eexists; split; [reflexivity|exact R2].
  - cbn [k_out]. destruct (S (length out) <=? E)%nat eqn:Eb; [|exact I].
    destruct (emit_ok E Fsz B HE HF HB c _ cF R0) as (c1 & H1 & R1); [reflexivity|cbn; lia|].
    rewrite H1. cbn [ibind sim_res]. reflexivity.
Qed.

End MainSim.

Section MainSim2.
Variables (E Fsz B : nat) (lookup : bytes -> option bytes).
Hypothesis HE : (Z.of_nat E < ZU)%Z.
Hypothesis HF : (Z.of_nat Fsz < ZU)%Z.
Hypothesis HB : (Z.of_nat B + 4 < ZU)%Z.

Lemma sim_res_bind r x (k : mst -> ires mst) (kr : ast -> mres) :
  sim_res E Fsz B r x ->
  (forall c' a', Rm E Fsz B c' a' -> r = MOk a' -> sim_res E Fsz B (kr a') (k c')) ->
  sim_res E Fsz B (match r with MOk a' => kr a' | MErr => MErr | MOob => MOob end) (ibind x k).
Proof.
  intros H Hk. destruct r as [a'| |]; cbn [sim_res] in *.
  - destruct H as (c' & -> & R). cbn [ibind]. apply Hk; auto.
  - subst. reflexivity.
  - exact I.
Qed.

Lemma mtokB_stk_len t a a' : mtokB E Fsz lookup t a = MOk a' -> (length (k_stk a') <= S (length (k_stk a)))%nat.
Proof.
  unfold mtokB. destruct (mtok lookup t a) as [s'| |] eqn:Em.
  - destruct (_ && _); [|discriminate]. intro H; inversion H; subst. eapply mtok_stk_len; eauto.
  - destruct (_ <=? _)%nat; discriminate.
  - discriminate.
Qed.

Lemma mrunB_single t a : mrunB E Fsz lookup [t] a = mtokB E Fsz lookup t a.
Proof. cbn. destruct (mtokB E Fsz lookup t a); reflexivity. Qed.

Lemma main_loop_items : forall its Rits c a fuel fu,
  normal (its ++ Rits) -> Rm E Fsz B c a ->
  (length its < fuel)%nat -> (length (flatten (its ++ Rits)) < fu)%nat ->
  (length (k_stk a) + length its + 4 <= B)%nat -> (length (k_stk a) + length its < fu)%nat ->
  sim_res E Fsz B (mrunB E Fsz lookup (rev (toksc its (next_is_sp Rits))) a)
    (main_loop fuel fu lookup (flatten its ++ flatten Rits) (Z.of_nat (length (flatten its)) - 1) c).
Proof using HE HF HB.
  induction its as [|it its IH] using rev_ind; intros Rits c a fuel fu Hn R0 Hfuel Hfu HBs Hfs;
    (destruct fuel as [|fuel]; [lia|]).
  - cbn [flatten flat_map length toksc rev mrunB sim_res main_loop]. cbn. eexists; split; [reflexivity|exact R0].
  - rewrite <- app_assoc in Hn, Hfu. cbn [app] in Hn, Hfu.
    rewrite app_length in Hfuel, HBs, Hfs. cbn [length] in Hfuel, HBs, Hfs.
    rewrite toksc_app. cbn [next_is_sp].
    rewrite rev_app_distr, mrunB_app.
    rewrite flatten_app. rewrite <- app_assoc.
    assert (Hflat : flatten [it] ++ flatten Rits = flatten (it :: Rits)).
    { cbn [flatten flat_map]. rewrite app_nil_r. reflexivity. }
    (* the continuation: the remaining items with [it] as right neighbour *)
    assert (Hcont : forall c1 a1, Rm E Fsz B c1 a1 -> (length (k_stk a1) <= S (length (k_stk a)))%nat ->
              sim_res E Fsz B (mrunB E Fsz lookup (rev (toksc its (next_is_sp (it :: Rits)))) a1)
                (main_loop fuel fu lookup (flatten its ++ flatten (it :: Rits)) (Z.of_nat (length (flatten its)) - 1) c1)).
    { intros c1 a1 R1 Hl. apply IH; auto; lia. }
    rewrite Hflat.
    assert (Hnr : normal (it :: Rits)) by (eapply normal_app_r; eauto).
    pose proof (normal_tail _ _ Hnr) as HnR.
    assert (HdR : match it with IW _ => delim_start (flatten Rits) | _ => True end).
    { destruct it; auto. pose proof (flatten_delim Rits HnR) as Hd. destruct Hnr as (_ & Hx & _).
      destruct Rits as [|[| | |] ?]; auto. contradiction. }
    destruct it as [| |sc|w].
    + (* ( *)
      cbn [toksc rev app]. rewrite mrunB_single.
      cbn [main_loop]. rewrite app_length. cbn [flatten flat_map item_bytes app length].
      replace (Z.of_nat (length (flatten its) + 1) - 1 <? 0)%Z with false by lia.
      replace (Z.of_nat (length (flatten its) + 1) - 1)%Z with (Z.of_nat (length (flatten its))) by lia.
      rewrite rdc_hd. cbn [ibind hd N.eqb Pos.eqb].
      fold (flatten Rits).
      change (40 :: flatten Rits) with (flatten (ILP :: Rits)).
      apply sim_res_bind with (kr := fun a1 => mrunB E Fsz lookup (rev (toksc its false)) a1).
      * unfold mtokB. cbn [mtok]. destruct a as [stk out fts]. cbn [k_stk k_out k_fts] in *.
        destruct (popr stk out) as [[stk' out']|] eqn:Ep; [|exact I]. cbn [k_out k_fts].
        destruct ((length out' <=? E)%nat && (length fts <=? Fsz)%nat) eqn:Eb; [|exact I].
        destruct (pop_until_rp_ok E Fsz B HE HF HB stk out fts c fu stk' out' R0 Ep) as (c1 & H1 & R1); [lia|lia|].
        cbn [sim_res]. eauto.
      * intros c1 a1 R1 Hm. apply Hcont; auto. eapply mtokB_stk_len; eauto.
    + (* ) *)
      cbn [toksc rev app]. rewrite mrunB_single.
      cbn [main_loop]. rewrite app_length. cbn [flatten flat_map item_bytes app length].
      replace (Z.of_nat (length (flatten its) + 1) - 1 <? 0)%Z with false by lia.
      replace (Z.of_nat (length (flatten its) + 1) - 1)%Z with (Z.of_nat (length (flatten its))) by lia.
      rewrite rdc_hd. cbn [ibind hd N.eqb Pos.eqb].
      fold (flatten Rits).
      change (41 :: flatten Rits) with (flatten (IRP :: Rits)).
      unfold mtokB. cbn [mtok k_out k_fts].
      pose proof (rm_out_len _ _ _ _ _ R0) as Ho. pose proof (rm_fts_len _ _ _ _ _ R0) as Hft.
      replace ((length (k_out a) <=? E)%nat && (length (k_fts a) <=? Fsz)%nat) with true by lia.
      destruct (push_ok E Fsz B HE HF HB c a IFF_RP R0) as (stk1 & Hp & R1); [right; right; right; reflexivity|lia|].
      rewrite Hp. cbn [ibind]. apply Hcont; [exact R1|cbn; lia].
    + (* white-space *)
      cbn [toksc rev app mrunB].
      destruct Hnr as (Hsc & _ & _). cbn in Hsc.
      assert (sc <> 40 /\ sc <> 41) as [H40 H41] by (unfold is_cspace in Hsc; lia).
      cbn [main_loop]. rewrite app_length. cbn [flatten flat_map item_bytes app length].
      replace (Z.of_nat (length (flatten its) + 1) - 1 <? 0)%Z with false by lia.
      replace (Z.of_nat (length (flatten its) + 1) - 1)%Z with (Z.of_nat (length (flatten its))) by lia.
      rewrite rdc_hd. cbn [ibind hd].
      replace (sc =? 41) with false by lia. replace (sc =? 40) with false by lia. rewrite Hsc.
      fold (flatten Rits).
      change (sc :: flatten Rits) with (flatten (ISP sc :: Rits)).
      apply Hcont; [exact R0|lia].
    + (* word *)
      cbn [toksc rev app]. rewrite mrunB_single.
      destruct Hnr as ((Hne & Hw) & _ & _).
      assert (Hlast : exists w' d, w = w' ++ [d]).
      { destruct (exists_last Hne) as (w' & d & ->). eauto. }
      destruct Hlast as (w' & d & Hwd).
      assert (Hd : wordch d = true).
      { rewrite Hwd, forallb_app in Hw. apply andb_true_iff in Hw. destruct Hw as [_ Hw]. cbn [forallb] in Hw.
        rewrite andb_true_r in Hw. exact Hw. }
      destruct (wordch_facts _ Hd) as (H0 & H40 & H41 & Hsd).
      cbn [main_loop]. cbn [flatten flat_map item_bytes]. rewrite app_nil_r. fold (flatten Rits).
      rewrite app_length.
      replace (Z.of_nat (length (flatten its) + length w) - 1 <? 0)%Z with false by (destruct w; [congruence|cbn [length]; lia]).
      assert (Hrd : rdc (flatten its ++ w ++ flatten Rits) (Z.of_nat (length (flatten its) + length w) - 1) = IOk d).
      { rewrite Hwd. replace (flatten its ++ (w' ++ [d]) ++ flatten Rits) with ((flatten its ++ w') ++ d :: flatten Rits)
          by (rewrite <- !app_assoc; reflexivity).
        rewrite app_length. cbn [length].
        replace (Z.of_nat (length (flatten its) + (length w' + 1)) - 1)%Z with (Z.of_nat (length (flatten its ++ w')))
          by (rewrite app_length; lia).
        apply rdc_hd. }
      rewrite Hrd. cbn [ibind].
      replace (d =? 41) with false by lia. replace (d =? 40) with false by lia. rewrite Hsd.
      rewrite scan_back_spec; auto.
      2:{ eapply before_word; eauto. }
      2:{ rewrite flatten_app in Hfu. cbn [flatten flat_map item_bytes] in Hfu. rewrite !app_length in Hfu. lia. }
      cbn [ibind].
      replace (Z.of_nat (length (flatten its)) - 1 + 1)%Z with (Z.of_nat (length (flatten its))) by lia.
      replace (Z.of_nat (length (flatten its) + length w) - 1 + 1)%Z with (Z.of_nat (length (flatten its) + length w)) by lia.
      change (w ++ flatten Rits) with (item_bytes (IW w) ++ flatten Rits).
      apply sim_res_bind with (kr := fun a1 => mrunB E Fsz lookup (rev (toksc its false)) a1).
      * apply main_word_ok; auto; try lia.
        pose proof (next_is_sp_hd Rits HnR) as Hh. destruct (flatten Rits); [|exact Hh]. rewrite Hh.
        destruct Rits; reflexivity.
      * intros c1 a1 R1 Hm.
        replace (item_bytes (IW w) ++ flatten Rits) with (flatten (IW w :: Rits))
          by (cbn [flatten flat_map]; reflexivity).
        apply Hcont; auto. eapply mtokB_stk_len; eauto.
Qed.

End MainSim2.

(* ================= F. counting argument on tokens (no out-of-bounds) ================= *)
(* expression counter and last_not flag of the pre-pass *)
Fixpoint zc (ts : list tok) (e : Z) (ln : bool) : Z * bool :=
  match ts with
  | [] => (e, ln)
  | TLP :: r | TRP :: r => zc r e false
  | TNOT :: r => if ln then zc r (e - 1) false else zc r (e + 1) true
  | _ :: r => zc r (e + 1) false
  end.
Fixpoint ntf (ts : list tok) : nat :=
  match ts with [] => 0 | TF _ :: r => S (ntf r) | _ :: r => ntf r end.
Fixpoint tdepth (ts : list tok) : Z :=
  match ts with [] => 0 | TLP :: r => tdepth r + 1 | TRP :: r => tdepth r - 1 | _ :: r => tdepth r end.

Lemma zc_app l1 l2 e ln : zc (l1 ++ l2) e ln = let '(e1, ln1) := zc l1 e ln in zc l2 e1 ln1.
Proof.
  revert e ln; induction l1 as [|t l1 IH]; intros e ln; [reflexivity|].
  destruct t; cbn [app zc]; try apply IH. destruct ln; apply IH.
Qed.
Lemma ntf_app l1 l2 : ntf (l1 ++ l2) = (ntf l1 + ntf l2)%nat.
Proof. induction l1 as [|[] l1 IH]; cbn; lia. Qed.
Lemma tdepth_app l1 l2 : tdepth (l1 ++ l2) = (tdepth l1 + tdepth l2)%Z.
Proof. induction l1 as [|[] l1 IH]; cbn; lia. Qed.

Lemma zc_pos ts : forall e ln, (0 <= e)%Z -> (ln = true -> 1 <= e)%Z ->
  (0 <= fst (zc ts e ln) /\ (snd (zc ts e ln) = true -> 1 <= fst (zc ts e ln)))%Z.
Proof.
  induction ts as [|t r IH]; intros e ln H1 H2; [cbn; auto|].
  destruct t; cbn [zc].
  - apply IH; [lia|discriminate].
  - apply IH; [lia|discriminate].
  - destruct ln.
    + specialize (H2 eq_refl). apply IH; [lia|discriminate].
    + apply IH; [lia|intros; lia].
  - apply IH; [lia|discriminate].
  - apply IH; [lia|discriminate].
  - apply IH; [lia|discriminate].
Qed.

Lemma zpre_facts ts : forall z z', zpre ts z = Some z' ->
  (z_e z', z_ln z') = zc ts (z_e z) (z_ln z) /\ z_f z' = (z_f z + Z.of_nat (ntf ts))%Z /\
  z_j z' = (z_j z + tdepth ts)%Z.
Proof.
  induction ts as [|t r IH]; intros z z' H; cbn in H.
  - inversion H; subst. cbn. repeat split; lia.
  - destruct (zpre_tok t z) as [z1|] eqn:E1; [|discriminate]. apply IH in H. destruct H as (H1 & H2 & H3).
    destruct t; cbn [zpre_tok] in E1; cbn [zc ntf tdepth].
    + inversion E1; subst; cbn in *. repeat split; auto; lia.
    + destruct (z_j z - 1 <? 0)%Z; inversion E1; subst; cbn in *. repeat split; auto; lia.
    + destruct (z_ln z); inversion E1; subst; cbn in *; repeat split; auto; lia.
    + destruct (z_fexp z =? z_f z)%Z; inversion E1; subst; cbn in *; repeat split; auto; lia.
    + destruct (z_fexp z =? z_f z)%Z; inversion E1; subst; cbn in *; repeat split; auto; lia.
    + inversion E1; subst; cbn in *. repeat split; auto; lia.
Qed.

(* the pre-pass accepts only strings whose parenthesis depth never drops below zero *)
Lemma zpre_depth ts : forall z z', zpre ts z = Some z' -> (0 <= z_j z)%Z ->
  forall P Q, ts = P ++ Q -> (0 <= z_j z + tdepth P)%Z.
Proof.
  induction ts as [|t r IH]; intros z z' H Hj P Q HT.
  - destruct P; [cbn; lia|discriminate].
  - destruct P as [|t' P]; [cbn; lia|]. cbn [app] in HT. inversion HT; subst. cbn in H.
    destruct (zpre_tok t' z) as [z1|] eqn:E1; [|discriminate].
    assert (Hz1 : (0 <= z_j z1)%Z /\ z_j z1 = (z_j z + tdepth [t'])%Z).
    { destruct t'; cbn [zpre_tok] in E1; cbn [tdepth].
      - inversion E1; subst; cbn; lia.
      - destruct (z_j z - 1 <? 0)%Z eqn:Ej; inversion E1; subst; cbn; lia.
      - destruct (z_ln z); inversion E1; subst; cbn; lia.
      - destruct (z_fexp z =? z_f z)%Z; inversion E1; subst; cbn; lia.
      - destruct (z_fexp z =? z_f z)%Z; inversion E1; subst; cbn; lia.
      - inversion E1; subst; cbn; lia. }
    destruct Hz1 as [Hz1 Hz2]. specialize (IH z1 z' H Hz1 P Q eq_refl).
    change (t' :: P) with ([t'] ++ P). rewrite tdepth_app. lia.
Qed.

Definition nrp (stk : list N) : nat := length (filter (fun op => negb (op =? IFF_RP)) stk).
Definition crp (stk : list N) : nat := length (filter (fun op => op =? IFF_RP) stk).
Definition is_tnot_hd (q : list tok) : bool := match q with TNOT :: _ => true | _ => false end.
Definition top_not (stk : list N) : bool := match stk with op :: _ => op =? cNOT | [] => false end.

Lemma popw_counts p stk : p < IFF_RP -> forall out,
  (length (snd (popw p stk out)) + nrp (fst (popw p stk out)) = length out + nrp stk)%nat /\
  crp (fst (popw p stk out)) = crp stk.
Proof.
  intro Hp. induction stk as [|op stk IH]; intro out; cbn [popw]; [cbn; lia|].
  destruct (op <=? p) eqn:Eop.
  - destruct (IH (op :: out)) as [H1 H2]. unfold nrp, crp in *. cbn [filter length].
    replace (op =? IFF_RP) with false by (unfold IFF_RP in *; lia). cbn [negb length] in *. lia.
  - cbn. lia.
Qed.

Lemma popr_counts stk : forall out,
  match popr stk out with
  | Some (stk', out') => (length out' + nrp stk' = length out + nrp stk)%nat /\ S (crp stk') = crp stk
  | None => crp stk = 0%nat
  end.
Proof.
  induction stk as [|op stk IH]; intro out; cbn [popr]; [reflexivity|].
  unfold nrp, crp in *. cbn [filter]. destruct (op =? IFF_RP) eqn:Eop; cbn [negb length].
  - lia.
  - specialize (IH (op :: out)). destruct (popr stk (op :: out)) as [[stk' out']|]; cbn [length] in *; lia.
Qed.

Lemma nrp_cons op s : nrp (op :: s) = if op =? IFF_RP then nrp s else S (nrp s).
Proof. unfold nrp. cbn [filter]. destruct (op =? IFF_RP); reflexivity. Qed.
Lemma crp_cons op s : crp (op :: s) = if op =? IFF_RP then S (crp s) else crp s.
Proof. unfold crp. cbn [filter]. destruct (op =? IFF_RP); reflexivity. Qed.

Section NoOob.
Variables (T : list tok) (E Fsz : nat) (lookup : bytes -> option bytes).
Hypothesis HT_depth : forall P Q, T = P ++ Q -> (0 <= tdepth P)%Z.
Hypothesis HT_E : Z.of_nat E = fst (zc T 0 false).
Hypothesis HT_F : Fsz = ntf T.

Definition delta (P Q : list tok) (a : ast) : Z :=
  if snd (zc P 0 false) && is_tnot_hd Q && top_not (k_stk a) then 2%Z else 0%Z.

Record Inv (P Q : list tok) (a : ast) : Prop := {
  inv_e : (Z.of_nat (length (k_out a) + nrp (k_stk a)) + fst (zc P 0 false) <= Z.of_nat E + delta P Q a)%Z;
  inv_d : Z.of_nat (crp (k_stk a)) = tdepth P;
  inv_f : (length (k_fts a) + ntf P <= Fsz)%nat
}.

Lemma inv_out_bound P Q a : Inv P Q a -> (length (k_out a) <= E)%nat /\ (length (k_fts a) <= Fsz)%nat.
Proof using HT_depth HT_E HT_F lookup.
  intros [He _ Hf]. split; [|lia].
  destruct (zc_pos P 0 false ltac:(lia) ltac:(discriminate)) as [H1 H2].
  unfold delta in He. destruct (snd (zc P 0 false)) eqn:Eln; cbn [andb] in He; [|lia].
  specialize (H2 eq_refl).
  destruct (is_tnot_hd Q); cbn [andb] in He; [|lia].
  destruct (k_stk a) as [|op stk]; cbn [top_not] in He; [lia|].
  destruct (op =? cNOT) eqn:Eop; [|lia].
  unfold nrp in He. cbn [filter] in He. replace (op =? IFF_RP) with false in He by (unfold IFF_RP; change cNOT with 0 in Eop; lia).
  cbn [negb length] in He. lia.
Qed.

Lemma inv_step P t Q a :
  T = (P ++ [t]) ++ Q -> Inv (P ++ [t]) Q a ->
  match mtokB E Fsz lookup t a with
  | MOk a' => Inv P (t :: Q) a'
  | MErr => True
  | MOob => False
  end.
Proof using HT_depth HT_E HT_F lookup.
  intros HT HI.
  assert (Hok : forall a', mtok lookup t a = MOk a' -> Inv P (t :: Q) a' ->
            match mtokB E Fsz lookup t a with MOk a' => Inv P (t :: Q) a' | MErr => True | MOob => False end).
  { intros a' Hm HI'. unfold mtokB. rewrite Hm. destruct (inv_out_bound _ _ _ HI') as [H1 H2].
    replace ((length (k_out a') <=? E)%nat && (length (k_fts a') <=? Fsz)%nat) with true by lia. exact HI'. }
  destruct HI as [He Hd Hf]. unfold delta in He.
  rewrite zc_app in He. rewrite tdepth_app in Hd. rewrite ntf_app in Hf.
  destruct (zc P 0 false) as [e' ln'] eqn:Ezc.
  destruct (zc_pos P 0 false ltac:(lia) ltac:(discriminate)) as [Hp1 Hp2]. rewrite Ezc in Hp1, Hp2. cbn [fst snd] in Hp1, Hp2.
  destruct a as [stk out fts]. cbn [k_stk k_out k_fts] in *.
  destruct t.
  - (* ( *)
    cbn [zc tdepth ntf fst snd andb] in *.
    pose proof (popr_counts stk out) as Hc.
    destruct (popr stk out) as [[stk' out']|] eqn:Ep.
    + apply (Hok {| k_stk := stk'; k_out := out'; k_fts := fts |}); [cbn [mtok k_stk k_out]; rewrite Ep; reflexivity|].
      destruct Hc as [Hc1 Hc2].
      constructor; unfold delta; cbn [k_stk k_out k_fts]; rewrite ?Ezc; cbn [fst snd is_tnot_hd]; rewrite ?andb_false_r; cbn [andb]; try lia.
    + exfalso. rewrite <- app_assoc in HT. pose proof (HT_depth P _ HT). lia.
  - (* ) *)
    cbn [zc tdepth ntf fst snd andb] in *.
    apply (Hok {| k_stk := IFF_RP :: stk; k_out := out; k_fts := fts |}); [reflexivity|].
    constructor; unfold delta; cbn [k_stk k_out k_fts]; rewrite ?Ezc; cbn [fst snd is_tnot_hd]; rewrite ?andb_false_r; cbn [andb];
      unfold nrp, crp in *; cbn [filter N.eqb IFF_RP Pos.eqb negb length]; try lia.
  - (* not *)
    cbn [zc tdepth ntf] in *.
    destruct stk as [|op stk'].
    + apply (Hok {| k_stk := [cNOT]; k_out := out; k_fts := fts |}); [reflexivity|].
      destruct ln'; cbn [fst snd top_not andb] in *; rewrite ?andb_false_r in He;
        constructor; unfold delta; cbn [k_stk k_out k_fts]; rewrite ?Ezc; cbn [fst snd is_tnot_hd top_not andb];
        rewrite ?nrp_cons, ?crp_cons; change (cNOT =? IFF_RP) with false; change (cNOT =? cNOT) with true;
        cbn [nrp crp filter length] in *; try lia.
    + rewrite nrp_cons, crp_cons in *.
      destruct (op =? cNOT) eqn:Eop.
      * apply (Hok {| k_stk := stk'; k_out := out; k_fts := fts |}); [cbn [mtok k_stk]; rewrite Eop; reflexivity|].
        assert (Hrp : (op =? IFF_RP) = false) by (unfold IFF_RP; change cNOT with 0 in Eop; lia).
        rewrite Hrp in *.
        destruct ln'; cbn [fst snd top_not andb] in *; rewrite ?andb_false_r in He; rewrite ?Eop in He;
          constructor; unfold delta; cbn [k_stk k_out k_fts]; rewrite ?Ezc; cbn [fst snd is_tnot_hd andb]; try lia.
        -- destruct (top_not stk'); lia.
        -- destruct (is_tnot_hd Q); cbn [andb] in He; lia.
      * apply (Hok {| k_stk := cNOT :: op :: stk'; k_out := out; k_fts := fts |}); [cbn [mtok k_stk]; rewrite Eop; reflexivity|].
        destruct ln'; cbn [fst snd top_not andb] in *; rewrite ?andb_false_r in He; rewrite ?Eop in He; rewrite ?andb_false_r in He;
          constructor; unfold delta; cbn [k_stk k_out k_fts]; rewrite ?Ezc; cbn [fst snd is_tnot_hd top_not andb];
          rewrite ?(nrp_cons cNOT), ?(crp_cons cNOT), ?nrp_cons, ?crp_cons;
          change (cNOT =? IFF_RP) with false; change (cNOT =? cNOT) with true; cbn [andb]; try lia.
  - (* and *)
    cbn [zc tdepth ntf fst snd andb] in *.
    destruct (popw_counts cAND stk ltac:(reflexivity) out) as [Hc1 Hc2].
    destruct (popw cAND stk out) as [stk' out'] eqn:Ep. cbn [fst snd] in *.
    apply (Hok {| k_stk := cAND :: stk'; k_out := out'; k_fts := fts |}); [cbn [mtok k_stk k_out]; rewrite Ep; reflexivity|].
    constructor; unfold delta; cbn [k_stk k_out k_fts]; rewrite ?Ezc; cbn [fst snd is_tnot_hd top_not andb]; rewrite ?andb_false_r; cbn [andb];
      unfold nrp, crp in *; cbn [filter]; change (cAND =? IFF_RP) with false; cbn [negb length]; try lia.
  - (* or *)
    cbn [zc tdepth ntf fst snd andb] in *.
    destruct (popw_counts cOR stk ltac:(reflexivity) out) as [Hc1 Hc2].
    destruct (popw cOR stk out) as [stk' out'] eqn:Ep. cbn [fst snd] in *.
    apply (Hok {| k_stk := cOR :: stk'; k_out := out'; k_fts := fts |}); [cbn [mtok k_stk k_out]; rewrite Ep; reflexivity|].
    constructor; unfold delta; cbn [k_stk k_out k_fts]; rewrite ?Ezc; cbn [fst snd is_tnot_hd top_not andb]; rewrite ?andb_false_r; cbn [andb];
      unfold nrp, crp in *; cbn [filter]; change (cOR =? IFF_RP) with false; cbn [negb length]; try lia.
  - (* feature *)
    cbn [zc tdepth ntf fst snd andb] in *.
    destruct (lookup w) as [f|] eqn:El.
    + apply (Hok {| k_stk := stk; k_out := cF :: out; k_fts := f :: fts |}); [cbn [mtok]; rewrite El; reflexivity|].
      constructor; unfold delta; cbn [k_stk k_out k_fts length]; rewrite ?Ezc; cbn [fst snd is_tnot_hd top_not andb]; rewrite ?andb_false_r; cbn [andb];
        try lia.
    + unfold mtokB. cbn [mtok]. rewrite El. cbn [k_out].
      replace (S (length out) <=? E)%nat with true by lia. exact I.
Qed.

Lemma run_no_oob : forall P Q a, T = P ++ Q -> Inv P Q a ->
  match mrunB E Fsz lookup (rev P) a with
  | MOk a' => Inv [] T a'
  | MErr => True
  | MOob => False
  end.
Proof using HT_depth HT_E HT_F lookup.
  induction P as [|t P IH] using rev_ind; intros Q a HT HI.
  - cbn. cbn in HT. subst Q. exact HI.
  - rewrite rev_app_distr. cbn [rev app mrunB].
    pose proof (inv_step P t Q a HT HI) as Hs.
    destruct (mtokB E Fsz lookup t a) as [a'| |]; auto.
    apply (IH (t :: Q)); auto. rewrite HT, <- app_assoc. reflexivity.
Qed.

Definition ast0 : ast := {| k_stk := []; k_out := []; k_fts := [] |}.

Lemma inv_init : tdepth T = 0%Z -> Inv T [] ast0.
Proof using HT_depth HT_E HT_F lookup.
  intro Hb. constructor; cbn [ast0 k_stk k_out k_fts length]; unfold delta, nrp, crp; cbn [filter length is_tnot_hd andb top_not].
  - rewrite andb_false_r. lia.
  - lia.
  - lia.
Qed.

End NoOob.

(* ================= G/H. lys_compile_iffeature never leaves its arrays ================= *)
Lemma repeat_lt256 n : bytes_lt256 (repeat 0 n).
Proof. induction n; cbn; constructor; auto. lia. Qed.

Lemma crp0_lt4 stk : Forall stk_ok stk -> crp stk = 0%nat -> Forall (fun op => op < 4) stk /\ nrp stk = length stk.
Proof.
  induction 1 as [|op stk Hop Hs IH]; intro Hc; [split; [constructor|reflexivity]|].
  rewrite crp_cons in Hc. rewrite nrp_cons. destruct (op =? IFF_RP) eqn:Eop; [discriminate|].
  destruct (IH Hc) as [H1 H2]. split; [|cbn; lia]. constructor; auto.
  apply stk_ok_lt4; auto. lia.
Qed.

Lemma zpre_fexp_ge ts : forall z z', zpre ts z = Some z' -> (z_fexp z <= z_fexp z')%Z.
Proof.
  induction ts as [|t r IH]; intros z z' H; cbn in H; [inversion H; lia|].
  destruct (zpre_tok t z) as [z1|] eqn:E1; [|discriminate]. apply IH in H.
  destruct t; cbn [zpre_tok] in E1; try (inversion E1; subst; cbn in *; lia).
  - destruct (z_j z - 1 <? 0)%Z; inversion E1; subst; cbn in *; lia.
  - destruct (z_ln z); inversion E1; subst; cbn in *; lia.
  - destruct (z_fexp z =? z_f z)%Z; inversion E1; subst; cbn in *; lia.
  - destruct (z_fexp z =? z_f z)%Z; inversion E1; subst; cbn in *; lia.
Qed.

(* every feature is counted in expr_size *)
Lemma zc_ge_ntf ts : forall (e : Z) (ln : bool),
  (e - (if ln then 1 else 0) + Z.of_nat (ntf ts) <= fst (zc ts e ln) - (if snd (zc ts e ln) then 1 else 0))%Z.
Proof.
  induction ts as [|t r IH]; intros e ln; [cbn; lia|].
  destruct t; cbn [zc ntf].
  - specialize (IH e false). destruct ln; lia.
  - specialize (IH e false). destruct ln; lia.
  - destruct ln; [specialize (IH (e - 1)%Z false)|specialize (IH (e + 1)%Z true)]; lia.
  - specialize (IH (e + 1)%Z false). destruct ln; lia.
  - specialize (IH (e + 1)%Z false). destruct ln; lia.
  - specialize (IH (e + 1)%Z false). destruct ln; lia.
Qed.

Lemma zc_le ts : forall e ln, (fst (zc ts e ln) <= e + Z.of_nat (length ts))%Z.
Proof.
  induction ts as [|t r IH]; intros e ln; [cbn; lia|].
  destruct t; cbn [zc length]; try (specialize (IH e false); lia); try (specialize (IH (e + 1)%Z false); lia).
  destruct ln; [specialize (IH (e - 1)%Z false)|specialize (IH (e + 1)%Z true)]; lia.
Qed.
Lemma ntf_le ts : (ntf ts <= length ts)%nat.
Proof. induction ts as [|[] r IH]; cbn; lia. Qed.
Lemma toks_length its : (length (toks its) <= length its)%nat.
Proof. induction its as [|[| | |] r IH]; cbn; lia. Qed.
Notation Bnd := len_ok.

Lemma init_Rm E Fsz B : (E <= B)%nat -> (Z.of_nat E < ZU)%Z -> (Z.of_nat Fsz < ZU)%Z -> (1 <= E)%nat -> (1 <= Fsz)%nat ->
  Rm E Fsz B
    {| m_stack := {| s_data := repeat 0 E; s_index := 0 |};
       m_expr := repeat 0 (N.to_nat (N.of_nat E / 4 + (if N.of_nat E mod 4 =? 0 then 0 else 1)));
       m_feat := repeat None Fsz; m_cnt := 0;
       m_esize := dec64 (N.of_nat E); m_fsize := dec64 (N.of_nat Fsz) |} ast0.
Proof.
  intros HB HE HF H1 H2.
  constructor; cbn [m_stack m_expr m_feat m_cnt m_esize m_fsize ast0 k_stk k_out k_fts s_data s_index length rev firstn map];
    rewrite ?repeat_length; auto; try lia.
  - apply repeat_lt256.
  - assert (N.of_nat E <= 4 * (N.of_nat E / 4 + (if N.of_nat E mod 4 =? 0 then 0 else 1))).
    { pose proof (N.div_mod (N.of_nat E) 4 ltac:(lia)). pose proof (N.mod_lt (N.of_nat E) 4 ltac:(lia)).
      destruct (N.eqb_spec (N.of_nat E mod 4) 0); lia. }
    lia.
  - rewrite Nat.sub_0_r. apply skipn_all2. rewrite firstn_length. lia.
  - rewrite (dec64_z _ (Z.of_nat E)). + f_equal. lia. + rewrite Z.mod_small; lia.
  - rewrite Nat.sub_0_r. apply skipn_all2. rewrite repeat_length. lia.
  - rewrite (dec64_z _ (Z.of_nat Fsz)). + f_equal. lia. + rewrite Z.mod_small; lia.
Qed.

(* for EVERY NUL-free string: the sizes computed by the pre-pass bound the numbers of records and of
   features the main pass writes, the operator stack never underflows, no index leaves the string *)
Theorem compile_no_oob lookup v11 s :
  Forall (fun c => c <> 0) s -> Bnd s ->
  compile lookup v11 s <> IOob /\ compile lookup v11 s <> IErr E_FUEL /\ compile lookup v11 s <> IErr E_MEM.
Proof.
  intros Hnz Hb. unfold len_ok in Hb.
  set (its := items s). set (T := toks its).
  pose proof (items_normal s Hnz) as Hnorm.
  pose proof (items_length s) as Hil. fold its in Hnorm, Hil.
  unfold compile. rewrite (pre_loop_string s Hnz). fold its.
  assert (HR0 : Rz pa0 z0) by (repeat split).
  assert (HW0 : WFz z0 (length its)).
  { unfold WFz, z0, ZU. cbn [z_f z_e z_fexp z_ln z_j]. repeat split; try lia; try discriminate. }
  pose proof (pre_items_zpre _ its eq_refl pa0 z0 Hnorm HR0 HW0) as Hpre. fold T in Hpre.
  destruct (zpre T z0) as [z'|] eqn:Ez.
  2:{ destruct Hpre as (e & -> & [-> |[-> | ->]]); cbn [ibind]; repeat split; discriminate. }
  destruct (trailing_kw its).
  { destruct Hpre as (e & -> & [-> |[-> | ->]]); cbn [ibind]; repeat split; discriminate. }
  destruct Hpre as (a' & -> & HRz & HWz). cbn [ibind p_j p_fexp p_fsize p_cv p_esize p_i mk_pre].
  destruct HRz as (Rj & Rl & Rf & Re & Rx).
  destruct (negb (a_j a' =? 0)%Z) eqn:Ej; [repeat split; discriminate|].
  destruct (negb (a_fexp a' =? a_f a')) eqn:Efx; [repeat split; discriminate|].
  destruct ((a_cv a' || (1 <? a_e a')) && negb v11); [repeat split; discriminate|].
  destruct (zpre_facts T z0 z' Ez) as (Hzc & Hzf & Hzj). cbn [z0 z_e z_ln z_f z_j] in Hzc, Hzf, Hzj.
  assert (Emem : (N.of_nat (length s) <? a_e a') || (N.of_nat (length s) <? a_f a') = false).
  { pose proof (zc_le T 0%Z false) as Hle1. rewrite <- Hzc in Hle1. cbn [fst] in Hle1.
    pose proof (ntf_le T) as Hle2. pose proof (toks_length its) as Hle3. fold T in Hle3.
    clear -Hle1 Hle2 Hle3 Hil Re Rf Hzf. lia. }
  rewrite Emem.
  (* sizes *)
  remember (N.to_nat (a_e a')) as E eqn:HEdef. remember (N.to_nat (a_f a')) as Fsz eqn:HFdef.
  assert (HEs : (E <= length s)%nat) by lia.
  assert (HFs : (Fsz <= length s)%nat) by lia.
  assert (HFsz : Fsz = ntf T) by (clear -HFdef Rf Hzf; lia).
  assert (HEz : Z.of_nat E = fst (zc T 0 false)) by (rewrite <- Hzc; cbn [fst]; clear -HEdef Re; lia).
  assert (HF1 : (1 <= Fsz)%nat).
  { pose proof (zpre_fexp_ge T z0 z' Ez) as Hx. cbn [z0 z_fexp] in Hx. clear -Hx Rx Rf Efx HFdef. lia. }
  assert (HE1 : (1 <= E)%nat).
  { pose proof (zc_ge_ntf T 0%Z false) as Hx. cbn [negb] in Hx. rewrite <- HEz in Hx.
    destruct (snd (zc T 0 false)); clear -Hx HF1 HFsz; lia. }
  set (B := (E + length its + 4)%nat).
  assert (HBz : (Z.of_nat B + 4 < ZU)%Z) by (unfold B, ZU; lia).
  assert (HEzu : (Z.of_nat E < ZU)%Z) by (unfold ZU; lia).
  assert (HFzu : (Z.of_nat Fsz < ZU)%Z) by (unfold ZU; lia).
  assert (Hae : a_e a' = N.of_nat E) by (clear -HEdef; lia).
  assert (Haf : a_f a' = N.of_nat Fsz) by (clear -HFdef; lia).
  rewrite Hae, Haf. rewrite ?Nat2N.id.
  pose proof (init_Rm E Fsz B ltac:(unfold B; lia) HEzu HFzu HE1 HF1) as HR.
  (* the main pass *)
  pose proof (main_loop_items E Fsz B lookup HEzu HFzu HBz its [] _ ast0 (S (S (length s))) (S (S (length s)))
                ltac:(rewrite app_nil_r; exact Hnorm) HR) as Hmain.
  cbn [flatten flat_map next_is_sp] in Hmain. rewrite !app_nil_r in Hmain.
  replace (flatten its) with s in Hmain by (symmetry; apply items_flatten).
  rewrite <- toks_toksc in Hmain. fold T in Hmain.
  specialize (Hmain ltac:(lia) ltac:(lia) ltac:(cbn; unfold B; lia) ltac:(cbn; lia)).
  (* the token machine stays within the extents *)
  assert (HTdepth : forall P Q, T = P ++ Q -> (0 <= tdepth P)%Z).
  { intros P Q HT. pose proof (zpre_depth T z0 z' Ez ltac:(cbn; lia) P Q HT) as Hx. cbn [z0 z_j] in Hx. clear -Hx. lia. }
  assert (Hbal : tdepth T = 0%Z) by lia.
  pose proof (run_no_oob T E Fsz lookup HTdepth HEz HFsz T [] ast0 ltac:(rewrite app_nil_r; reflexivity)
                (inv_init T E Fsz lookup HTdepth HEz HFsz Hbal)) as Hrun.
  replace (Z.of_nat (length s) - 1)%Z with (Z.of_nat (length s) - 1)%Z in Hmain by lia.
  destruct (mrunB E Fsz lookup (rev T) ast0) as [af| |]; [| |contradiction].
  2:{ cbn [sim_res] in Hmain. rewrite Hmain. cbn [ibind]. repeat split; discriminate. }
  destruct Hmain as (c1 & -> & R1). cbn [ibind].
  destruct Hrun as [Ie Id If]. unfold delta in Ie. cbn [zc fst snd andb tdepth] in Ie, Id.
  destruct af as [stk out fts]. cbn [k_stk k_out k_fts] in *.
  destruct (crp0_lt4 stk (rm_stk_ok _ _ _ _ _ R1) ltac:(lia)) as [Hlt4 Hnrp].
  destruct (flush_ok E Fsz B HEzu HFzu HBz stk out fts c1 (S (N.to_nat (s_index (m_stack c1)))) R1 Hlt4) as (c2 & -> & R2).
  { lia. }
  { rewrite (rm_idx _ _ _ _ _ R1). cbn [k_stk]. lia. }
  cbn [ibind].
  destruct (negb (inc64 (m_esize c2) =? 0)); [repeat split; discriminate|].
  destruct (negb (inc64 (m_fsize c2) =? 0)); repeat split; discriminate.
Qed.

(* ================= I. the grammar on tokens: shunting-yard correctness ================= *)
Fixpoint mrun (lookup : bytes -> option bytes) (ts : list tok) (a : ast) : mres :=
  match ts with
  | [] => MOk a
  | t :: r => match mtok lookup t a with MOk a' => mrun lookup r a' | x => x end
  end.

Lemma mrun_app lookup l1 l2 a :
  mrun lookup (l1 ++ l2) a = match mrun lookup l1 a with MOk a' => mrun lookup l2 a' | x => x end.
Proof. revert a; induction l1 as [|t l1 IH]; intro a; cbn; [reflexivity|]. destruct (mtok lookup t a); auto. Qed.

Lemma popr_out_len stk : forall out stk' out', popr stk out = Some (stk', out') -> (length out <= length out')%nat.
Proof.
  induction stk as [|op stk IH]; intros out stk' out' H; cbn in H; [discriminate|].
  destruct (op =? IFF_RP); [inversion H; subst; lia|]. apply IH in H. cbn in H. lia.
Qed.
Lemma popw_out_len p stk : forall out, (length out <= length (snd (popw p stk out)))%nat.
Proof.
  induction stk as [|op stk IH]; intro out; cbn; [lia|]. destruct (op <=? p); [|cbn; lia].
  specialize (IH (op :: out)). cbn in IH. lia.
Qed.

Lemma mtok_mono lookup t a a' : mtok lookup t a = MOk a' ->
  (length (k_out a) <= length (k_out a'))%nat /\ (length (k_fts a) <= length (k_fts a'))%nat.
Proof.
  destruct t; cbn [mtok]; intro H.
  - destruct (popr (k_stk a) (k_out a)) as [[stk' out']|] eqn:Ep; [|discriminate].
    inversion H; subst; cbn. apply popr_out_len in Ep. lia.
  - inversion H; subst; cbn. lia.
  - destruct (k_stk a) as [|op stk']; [inversion H; subst; cbn; lia|].
    destruct (op =? cNOT); inversion H; subst; cbn; lia.
  - pose proof (popw_out_len cAND (k_stk a) (k_out a)) as Hl.
    destruct (popw cAND (k_stk a) (k_out a)) as [stk' out']. inversion H; subst; cbn in *. lia.
  - pose proof (popw_out_len cOR (k_stk a) (k_out a)) as Hl.
    destruct (popw cOR (k_stk a) (k_out a)) as [stk' out']. inversion H; subst; cbn in *. lia.
  - destruct (lookup w); [|discriminate]. inversion H; subst; cbn. lia.
Qed.

Lemma mrun_mono lookup ts : forall a a', mrun lookup ts a = MOk a' ->
  (length (k_out a) <= length (k_out a'))%nat /\ (length (k_fts a) <= length (k_fts a'))%nat.
Proof.
  induction ts as [|t r IH]; intros a a' H; cbn in H; [inversion H; subst; lia|].
  destruct (mtok lookup t a) as [a1| |] eqn:Em; try discriminate.
  apply mtok_mono in Em. apply IH in H. lia.
Qed.

Lemma mrun_mrunB E Fsz lookup ts : forall a a', mrun lookup ts a = MOk a' ->
  (length (k_out a') <= E)%nat -> (length (k_fts a') <= Fsz)%nat -> mrunB E Fsz lookup ts a = MOk a'.
Proof.
  induction ts as [|t r IH]; intros a a' H H1 H2; cbn in *; [exact H|].
  unfold mtokB. destruct (mtok lookup t a) as [a1| |] eqn:Em; try discriminate.
  pose proof (mrun_mono _ _ _ _ H) as [M1 M2].
  replace ((length (k_out a1) <=? E)%nat && (length (k_fts a1) <=? Fsz)%nat) with true by lia.
  apply IH; auto.
Qed.

Definition top_gt (lvl : N) (stk : list N) : Prop := match stk with [] => True | op :: _ => lvl < op end.

Lemma popw_pend p pend : Forall (fun op => op <= p) pend -> forall st out, top_gt p st ->
  popw p (pend ++ st) out = (st, rev pend ++ out).
Proof.
  induction 1 as [|op pend Hop Hp IH]; intros st out Ht; cbn [app rev].
  - destruct st as [|op st]; [reflexivity|]. cbn in *. replace (op <=? p) with false by lia. reflexivity.
  - cbn [popw]. replace (op <=? p) with true by lia. rewrite IH by assumption. rewrite <- app_assoc. reflexivity.
Qed.

Lemma popr_pend pend : Forall (fun op => op <= 2) pend -> forall st out,
  popr (pend ++ IFF_RP :: st) out = Some (st, rev pend ++ out).
Proof.
  induction 1 as [|op pend Hop Hp IH]; intros st out; cbn [app rev popr].
  - reflexivity.
  - replace (op =? IFF_RP) with false by (unfold IFF_RP; lia). rewrite IH. rewrite <- app_assoc. reflexivity.
Qed.

Lemma zpre_app l1 l2 z : zpre (l1 ++ l2) z = match zpre l1 z with Some z1 => zpre l2 z1 | None => None end.
Proof. revert z; induction l1 as [|t l1 IH]; intro z; cbn; [reflexivity|]. destruct (zpre_tok t z); auto. Qed.

Section Grammar.
Variable lookup : bytes -> option bytes.

(* the grammar on tokens; level 0 = factor, 1 = term, 2 = expr *)
Inductive der : N -> iexp -> list tok -> Prop :=
| D_id x : lookup x = Some x -> der 0 (F x) [TF x]
| D_not e ts : der 0 e ts -> der 0 (Not e) (TNOT :: ts)
| D_paren e ts : der 2 e ts -> der 0 e (TLP :: ts ++ [TRP])
| D_f2t e ts : der 0 e ts -> der 1 e ts
| D_and a b ta tb : der 0 a ta -> der 1 b tb -> der 1 (And a b) (ta ++ TAND :: tb)
| D_t2e e ts : der 1 e ts -> der 2 e ts
| D_or a b ta tb : der 1 a ta -> der 2 b tb -> der 2 (Or a b) (ta ++ TOR :: tb).

Definition SY (lvl : N) (e : iexp) (ts : list tok) : Prop :=
  exists pend e',
    Forall (fun op => op <= lvl) pend /\
    (lvl = 0 -> pend = [] \/ (pend = [cNOT] /\ exists e0, e' = Not e0)) /\
    (forall env, denote env e' = denote env e) /\
    (forall a, top_gt lvl (k_stk a) ->
       exists o', mrun lookup (rev ts) a = MOk {| k_stk := pend ++ k_stk a; k_out := o'; k_fts := feats e' ++ k_fts a |}
                  /\ rev pend ++ o' = pre e' ++ k_out a) /\
    (forall z, z_fexp z = (z_f z + 1)%Z -> (0 <= z_j z)%Z ->
       exists z', zpre ts z = Some z' /\ z_j z' = z_j z /\ z_ln z' = false /\
                  z_f z' = (z_f z + Z.of_nat (length (feats e')))%Z /\ z_fexp z' = z_f z' /\
                  z_e z' = (z_e z + Z.of_nat (size e') - (if z_ln z && top_not pend then 2 else 0))%Z).

Lemma SY_weaken l1 l2 e ts : l1 < l2 -> SY l1 e ts -> SY l2 e ts.
Proof.
  intros Hl (pend & e' & H1 & H2 & H4 & H5 & H6). exists pend, e'. repeat split; auto.
  - eapply Forall_impl; [|exact H1]. intros; cbn in *; lia.
  - intro; lia.
  - intros a Ht. apply H5. destruct (k_stk a); cbn in *; auto; lia.
Qed.

Lemma der_SY lvl e ts : der lvl e ts -> SY lvl e ts.
Proof.
  induction 1 as [x Hx|e ts Hd IH|e ts Hd IH|e ts Hd IH|a b ta tb Ha IHa Hb IHb|e ts Hd IH|a b ta tb Ha IHa Hb IHb].
  - (* identifier *)
    exists [], (F x). repeat split; auto; try (cbn; discriminate).
    + intros a Ht. cbn [rev app mrun mtok]. rewrite Hx. eexists; split; reflexivity.
    + intros z Hz Hn. cbn [zpre zpre_tok]. eexists; split; [reflexivity|]. cbn. rewrite andb_false_r. repeat split; lia.
  - (* not *)
    destruct IH as (pend & e' & H1 & H2 & H4 & H5 & H6).
    destruct (H2 eq_refl) as [-> | (-> & e0 & ->)].
    + (* pushed *)
      exists [cNOT], (Not e'). repeat split; auto.
      * constructor; [reflexivity|constructor].
      * intros _. right. split; eauto.
      * intro env. cbn. rewrite H4. reflexivity.
      * intros a Ht. cbn [rev]. rewrite mrun_app.
        destruct (H5 a Ht) as (o' & Hr & Ho). rewrite Hr. cbn [app mrun mtok k_stk k_out k_fts] in *.
        destruct (k_stk a) as [|op stk] eqn:Es.
        -- cbn [rev app] in Ho. subst o'. eexists; split; reflexivity.
        -- cbn in Ht. replace (op =? cNOT) with false by (change cNOT with 0; lia).
           cbn [rev app] in Ho. subst o'. eexists; split; reflexivity.
      * intros z Hz Hn. cbn [zpre zpre_tok] in *.
        destruct (z_ln z) eqn:Eln.
        -- destruct (H6 {| z_j := z_j z; z_ln := false; z_f := z_f z; z_e := z_e z - 1; z_fexp := z_fexp z |} Hz Hn)
             as (z' & Hp & A & B & C & D & Ee).
           exists z'. cbn in *. repeat split; auto; lia.
        -- destruct (H6 {| z_j := z_j z; z_ln := true; z_f := z_f z; z_e := z_e z + 1; z_fexp := z_fexp z |} Hz Hn)
             as (z' & Hp & A & B & C & D & Ee).
           exists z'. cbn in *. repeat split; auto; lia.
    + (* cancelled *)
      exists [], e0. repeat split; auto; try (cbn; discriminate).
      * intro env. cbn. rewrite <- H4. cbn. symmetry. apply negb_involutive.
      * intros a Ht. cbn [rev]. rewrite mrun_app.
        destruct (H5 a Ht) as (o' & Hr & Ho). rewrite Hr. cbn [app mrun mtok k_stk k_out k_fts rev pre feats] in *.
        change (cNOT =? cNOT) with true. inversion Ho; subst. eexists; split; reflexivity.
      * intros z Hz Hn. cbn [zpre zpre_tok] in *.
        destruct (z_ln z) eqn:Eln.
        -- destruct (H6 {| z_j := z_j z; z_ln := false; z_f := z_f z; z_e := z_e z - 1; z_fexp := z_fexp z |} Hz Hn)
             as (z' & Hp & A & B & C & D & Ee).
           exists z'. cbn in *. repeat split; auto; lia.
        -- destruct (H6 {| z_j := z_j z; z_ln := true; z_f := z_f z; z_e := z_e z + 1; z_fexp := z_fexp z |} Hz Hn)
             as (z' & Hp & A & B & C & D & Ee).
           exists z'. cbn in *. repeat split; auto; lia.
  - (* parentheses *)
    destruct IH as (pend & e' & H1 & H2 & H4 & H5 & H6).
    exists [], e'. repeat split; auto; try (cbn; discriminate).
    + intros a Ht. cbn [rev]. rewrite rev_app_distr. cbn [rev app]. cbn [mrun mtok]. rewrite mrun_app.
      destruct (H5 {| k_stk := IFF_RP :: k_stk a; k_out := k_out a; k_fts := k_fts a |}) as (o' & Hr & Ho).
      { cbn. reflexivity. }
      rewrite Hr. cbn [mrun mtok k_stk k_out k_fts] in *.
      rewrite popr_pend by exact H1. eexists; split; [reflexivity|]. cbn. exact Ho.
    + intros z Hz Hn. cbn [zpre zpre_tok].
      set (z1 := {| z_j := z_j z + 1; z_ln := false; z_f := z_f z; z_e := z_e z; z_fexp := z_fexp z |}).
      destruct (H6 z1 Hz ltac:(cbn; lia)) as (z' & Hp & A & B & C & D & Ee).
      rewrite zpre_app, Hp. cbn [zpre zpre_tok]. cbn [z_j z_ln z_f z_e z_fexp z1 andb] in *.
      replace (z_j z' - 1 <? 0)%Z with false by lia.
      eexists; split; [reflexivity|]. cbn [z_j z_ln z_f z_e z_fexp top_not].
      rewrite andb_false_r. repeat split; auto; lia.
  - apply (SY_weaken 0 1); [lia|exact IH].
  - (* and *)
    destruct IHa as (pa & ea & A1 & A2 & A4 & A5 & A6).
    destruct IHb as (pb & eb & B1 & B2 & B4 & B5 & B6).
    exists (pa ++ [cAND]), (And ea eb). repeat split.
    + apply Forall_app. split; [eapply Forall_impl; [|exact A1]; intros; cbn in *; lia|]. constructor; [reflexivity|constructor].
    + intro; lia.
    + intro env. cbn. rewrite A4, B4. reflexivity.
    + intros st Ht. rewrite rev_app_distr. cbn [rev]. rewrite <- app_assoc. rewrite mrun_app.
      destruct (B5 st Ht) as (ob & Hrb & Hob). rewrite Hrb. cbn [app mrun mtok k_stk k_out k_fts].
      rewrite (popw_pend cAND pb B1 _ _ Ht).
      destruct (A5 {| k_stk := cAND :: k_stk st; k_out := rev pb ++ ob; k_fts := feats eb ++ k_fts st |}) as (oa & Hra & Hoa).
      { cbn. reflexivity. }
      rewrite Hra. cbn [k_stk k_out k_fts] in *. eexists; split.
      * cbn [feats]. rewrite <- !app_assoc. cbn [app]. reflexivity.
      * rewrite rev_app_distr. cbn [rev app pre]. rewrite Hoa, Hob. rewrite <- !app_assoc. reflexivity.
    + intros z Hz Hn.
      destruct (A6 z Hz Hn) as (z1 & Hp1 & C1 & C2 & C3 & C4 & C5).
      rewrite zpre_app, Hp1. cbn [zpre zpre_tok]. replace (z_fexp z1 =? z_f z1)%Z with true by lia.
      set (z2 := {| z_j := z_j z1; z_ln := false; z_f := z_f z1; z_e := z_e z1 + 1; z_fexp := z_fexp z1 + 1 |}).
      destruct (B6 z2 ltac:(cbn; lia) ltac:(cbn; lia)) as (z3 & Hp3 & D1 & D2 & D3 & D4 & D5).
      exists z3. split; [exact Hp3|]. cbn [z2 z_j z_ln z_f z_e z_fexp andb feats size] in *.
      rewrite app_length. repeat split; auto; try lia.
      replace (top_not (pa ++ [cAND])) with (top_not pa) by (destruct pa; reflexivity). lia.
  - apply (SY_weaken 1 2); [lia|exact IH].
  - (* or *)
    destruct IHa as (pa & ea & A1 & A2 & A4 & A5 & A6).
    destruct IHb as (pb & eb & B1 & B2 & B4 & B5 & B6).
    exists (pa ++ [cOR]), (Or ea eb). repeat split.
    + apply Forall_app. split; [eapply Forall_impl; [|exact A1]; intros; cbn in *; lia|]. constructor; [reflexivity|constructor].
    + intro; lia.
    + intro env. cbn. rewrite A4, B4. reflexivity.
    + intros st Ht. rewrite rev_app_distr. cbn [rev]. rewrite <- app_assoc. rewrite mrun_app.
      destruct (B5 st Ht) as (ob & Hrb & Hob). rewrite Hrb. cbn [app mrun mtok k_stk k_out k_fts].
      rewrite (popw_pend cOR pb B1 _ _ Ht).
      destruct (A5 {| k_stk := cOR :: k_stk st; k_out := rev pb ++ ob; k_fts := feats eb ++ k_fts st |}) as (oa & Hra & Hoa).
      { cbn. reflexivity. }
      rewrite Hra. cbn [k_stk k_out k_fts] in *. eexists; split.
      * cbn [feats]. rewrite <- !app_assoc. cbn [app]. reflexivity.
      * rewrite rev_app_distr. cbn [rev app pre]. rewrite Hoa, Hob. rewrite <- !app_assoc. reflexivity.
    + intros z Hz Hn.
      destruct (A6 z Hz Hn) as (z1 & Hp1 & C1 & C2 & C3 & C4 & C5).
      rewrite zpre_app, Hp1. cbn [zpre zpre_tok]. replace (z_fexp z1 =? z_f z1)%Z with true by lia.
      set (z2 := {| z_j := z_j z1; z_ln := false; z_f := z_f z1; z_e := z_e z1 + 1; z_fexp := z_fexp z1 + 1 |}).
      destruct (B6 z2 ltac:(cbn; lia) ltac:(cbn; lia)) as (z3 & Hp3 & D1 & D2 & D3 & D4 & D5).
      exists z3. split; [exact Hp3|]. cbn [z2 z_j z_ln z_f z_e z_fexp andb feats size] in *.
      rewrite app_length. repeat split; auto; try lia.
      replace (top_not (pa ++ [cOR])) with (top_not pa) by (destruct pa; reflexivity). lia.
Qed.

End Grammar.

(* ================= J. from the grammar on bytes to the grammar on tokens ================= *)
Lemma items_flatten_inv its : normal its -> items (flatten its) = its.
Proof.
  induction its as [|it r IH]; intro Hn; [reflexivity|].
  pose proof (normal_tail _ _ Hn) as Hr. specialize (IH Hr).
  destruct it as [| |c|w]; cbn [flatten flat_map item_bytes app]; fold (flatten r).
  - cbn [items N.eqb Pos.eqb]. rewrite IH. reflexivity.
  - cbn [items N.eqb Pos.eqb]. rewrite IH. reflexivity.
  - destruct Hn as (Hc & _ & _). cbn in Hc. cbn [items].
    assert (c <> 40 /\ c <> 41) as [H40 H41] by (unfold is_cspace in Hc; lia).
    replace (c =? 40) with false by lia. replace (c =? 41) with false by lia. rewrite Hc, IH. reflexivity.
  - destruct Hn as ((Hne & Hw) & Hnw & _).
    induction w as [|c w IHw]; [congruence|]. cbn [forallb] in Hw. apply andb_true_iff in Hw. destruct Hw as [Hc Hw].
    destruct (wordch_facts _ Hc) as (H0 & H40 & H41 & Hs).
    cbn [app items]. replace (c =? 40) with false by lia. replace (c =? 41) with false by lia. rewrite Hs.
    destruct w as [|d w].
    + cbn [app]. rewrite IH. destruct r as [|[| | |] ?]; try reflexivity. contradiction.
    + rewrite IHw; auto. discriminate.
Qed.

Lemma flatten_nonzero its : normal its -> Forall (fun c => c <> 0) (flatten its).
Proof.
  induction its as [|it r IH]; intro Hn; [constructor|].
  pose proof (normal_tail _ _ Hn) as Hr. destruct Hn as (Hi & _ & _).
  cbn [flatten flat_map]. apply Forall_app. split; [|apply IH; exact Hr].
  destruct it as [| |c|w]; cbn [item_bytes]; try (constructor; [discriminate|constructor]).
  - cbn in Hi. constructor; [apply cspace_nonzero; exact Hi|constructor].
  - destruct Hi as [_ Hw]. apply Forall_forall. intros c Hc. eapply forallb_forall in Hw; [|exact Hc].
    apply wordch_facts in Hw. tauto.
Qed.

Definition sps (w : bytes) : list item := map ISP w.

Lemma flatten_sps w l : flatten (sps w ++ l) = w ++ flatten l.
Proof. induction w as [|c w IH]; [reflexivity|]. cbn [sps map app flatten flat_map item_bytes]. f_equal. exact IH. Qed.
Lemma normal_sps w l : forallb is_cspace w = true -> normal l -> normal (sps w ++ l).
Proof.
  induction w as [|c w IH]; intros Hw Hl; [exact Hl|]. cbn [forallb] in Hw. apply andb_true_iff in Hw. destruct Hw as [Hc Hw].
  cbn [sps map app normal item_ok]. repeat split; auto.
Qed.
Lemma toksc_sps w l nxt : toksc (sps w ++ l) nxt = toksc l nxt.
Proof. induction w as [|c w IH]; [reflexivity|]. cbn [sps map app toksc]. exact IH. Qed.
Lemma all_sp_app_r l1 l2 : all_sp l2 = false -> all_sp (l1 ++ l2) = false.
Proof. intro H. unfold all_sp in *. rewrite forallb_app, H. apply andb_false_r. Qed.
Lemma trailing_kw_app l1 l2 : all_sp l2 = false -> trailing_kw (l1 ++ l2) = trailing_kw l2.
Proof.
  intro H. induction l1 as [|it l1 IH]; [reflexivity|]. destruct it; cbn [app trailing_kw]; auto.
  rewrite (all_sp_app_r l1 l2 H), andb_false_r. exact IH.
Qed.

Lemma normal_app_sp l1 c l2 : normal l1 -> normal (ISP c :: l2) -> normal (l1 ++ ISP c :: l2).
Proof.
  induction l1 as [|x l1 IH]; intros H1 H2; [exact H2|].
  cbn [app]. destruct H1 as (Hx & Hb & Hr). cbn [normal]. repeat split; auto.
  destruct l1 as [|y l1]; cbn [app]; [destruct x; exact I|exact Hb].
Qed.
Lemma normal_app_rp l : normal l -> normal (l ++ [IRP]).
Proof.
  induction l as [|x l IH]; intro H; [cbn; auto|].
  cbn [app]. destruct H as (Hx & Hb & Hr). cbn [normal]. repeat split; auto.
  destruct l as [|y l]; cbn [app]; [destruct x; exact I|exact Hb].
Qed.

Lemma sep_cons w : is_sep w -> exists c w', w = c :: w' /\ is_cspace c = true /\ forallb is_cspace w' = true.
Proof.
  intros [Hne Hw]. destruct w as [|c w']; [congruence|]. cbn in Hw. apply andb_true_iff in Hw. destruct Hw. eauto.
Qed.

Lemma kw_item_ok kw : kw = KW_NOT \/ kw = KW_AND \/ kw = KW_OR -> item_ok (IW kw).
Proof. intros [->|[->| ->]]; cbn; split; try discriminate; reflexivity. Qed.

Section Bytes2Tokens.
Variable lookup : bytes -> option bytes.

Definition G (lvl : N) (e : iexp) (r : bytes) : Prop :=
  (forall x, In x (feats e) -> lookup x = Some x) ->
  exists its tk, flatten its = r /\ normal its /\ all_sp its = false /\ trailing_kw its = false /\
    (forall nxt, toksc its nxt = tk) /\ der lookup lvl e tk.

(* left ++ sep ++ keyword ++ sep ++ right *)
Lemma G_binop kw t ia ib tka tkb w1 w2 :
  (kw = KW_AND /\ t = TAND) \/ (kw = KW_OR /\ t = TOR) ->
  is_sep w1 -> is_sep w2 ->
  normal ia -> (forall nxt, toksc ia nxt = tka) ->
  normal ib -> all_sp ib = false -> trailing_kw ib = false -> (forall nxt, toksc ib nxt = tkb) ->
  let its := ia ++ sps w1 ++ IW kw :: sps w2 ++ ib in
  flatten its = flatten ia ++ w1 ++ kw ++ w2 ++ flatten ib /\ normal its /\ all_sp its = false /\
  trailing_kw its = false /\ (forall nxt, toksc its nxt = tka ++ t :: tkb).
Proof.
  intros Hkw Hs1 Hs2 Hna Hta Hnb Hab Htb Htkb its.
  destruct (sep_cons _ Hs1) as (c1 & v1 & -> & Hc1 & Hv1).
  destruct (sep_cons _ Hs2) as (c2 & v2 & -> & Hc2 & Hv2).
  assert (Hik : item_ok (IW kw)) by (apply kw_item_ok; destruct Hkw as [[-> _]|[-> _]]; auto).
  assert (Hn2 : normal (IW kw :: sps (c2 :: v2) ++ ib)).
  { cbn [sps map app normal]. refine (conj Hik (conj I (conj Hc2 (conj I _)))). apply normal_sps; auto. }
  unfold its. repeat split.
  - rewrite flatten_app, flatten_sps. cbn [flatten flat_map item_bytes]. fold (flatten (sps (c2 :: v2) ++ ib)).
    rewrite flatten_sps. reflexivity.
  - cbn [sps map app]. apply normal_app_sp; auto. cbn [normal]. refine (conj Hc1 (conj I _)). apply normal_sps; auto.
  - apply all_sp_app_r. apply all_sp_app_r. reflexivity.
  - rewrite trailing_kw_app by (apply all_sp_app_r; reflexivity).
    rewrite trailing_kw_app by reflexivity. cbn [trailing_kw].
    rewrite (all_sp_app_r (sps (c2 :: v2)) ib Hab), andb_false_r.
    rewrite trailing_kw_app by exact Hab. exact Htb.
  - intro nxt. rewrite toksc_app. cbn [sps map app next_is_sp]. rewrite Hta. f_equal.
    change (ISP c1 :: map ISP v1 ++ IW kw :: ISP c2 :: map ISP v2 ++ ib) with (sps (c1 :: v1) ++ IW kw :: sps (c2 :: v2) ++ ib).
    rewrite toksc_sps. cbn [toksc sps map app next_is_sp].
    change (ISP c2 :: map ISP v2 ++ ib) with (sps (c2 :: v2) ++ ib). rewrite toksc_sps, Htkb.
    destruct Hkw as [[-> ->]|[-> ->]]; reflexivity.
Qed.

Scheme rexpr_ind2 := Induction for rexpr Sort Prop
  with rterm_ind2 := Induction for rterm Sort Prop
  with rfactor_ind2 := Induction for rfactor Sort Prop.
Combined Scheme rgrammar_ind from rexpr_ind2, rterm_ind2, rfactor_ind2.

Lemma grammar_tokens :
  (forall e r, rexpr e r -> G 2 e r) /\ (forall e r, rterm e r -> G 1 e r) /\ (forall e r, rfactor e r -> G 0 e r).
Proof.
  apply rgrammar_ind; unfold G.
  - (* expr = term *)
    intros e r _ IH Hl. destruct (IH Hl) as (its & tk & H1 & H2 & H4 & H5 & H6 & H7).
    exists its, tk. repeat split; auto. apply D_t2e. exact H7.
  - (* or *)
    intros a b ra w1 w2 rb _ IHa Hs1 Hs2 _ IHb Hl.
    destruct (IHa ltac:(intros; apply Hl; cbn; apply in_or_app; auto)) as (ia & tka & A1 & A2 & A4 & A5 & A6 & A7).
    destruct (IHb ltac:(intros; apply Hl; cbn; apply in_or_app; auto)) as (ib & tkb & B1 & B2 & B4 & B5 & B6 & B7).
    destruct (G_binop KW_OR TOR ia ib tka tkb w1 w2 ltac:(right; auto) Hs1 Hs2 A2 A6 B2 B4 B5 B6)
      as (C1 & C2 & C4 & C5 & C6).
    eexists; exists (tka ++ TOR :: tkb). repeat split; eauto.
    + rewrite C1, A1, B1. reflexivity.
    + apply D_or; auto.
  - intros e r _ IH Hl. destruct (IH Hl) as (its & tk & H1 & H2 & H4 & H5 & H6 & H7).
    exists its, tk. repeat split; auto. apply D_f2t. exact H7.
  - (* and *)
    intros a b ra w1 w2 rb _ IHa Hs1 Hs2 _ IHb Hl.
    destruct (IHa ltac:(intros; apply Hl; cbn; apply in_or_app; auto)) as (ia & tka & A1 & A2 & A4 & A5 & A6 & A7).
    destruct (IHb ltac:(intros; apply Hl; cbn; apply in_or_app; auto)) as (ib & tkb & B1 & B2 & B4 & B5 & B6 & B7).
    destruct (G_binop KW_AND TAND ia ib tka tkb w1 w2 ltac:(left; auto) Hs1 Hs2 A2 A6 B2 B4 B5 B6)
      as (C1 & C2 & C4 & C5 & C6).
    eexists; exists (tka ++ TAND :: tkb). repeat split; eauto.
    + rewrite C1, A1, B1. reflexivity.
    + apply D_and; auto.
  - (* not *)
    intros e w r Hs _ IH Hl. destruct (IH Hl) as (its & tk & H1 & H2 & H4 & H5 & H6 & H7).
    destruct (sep_cons _ Hs) as (c & v & -> & Hc & Hv).
    exists (IW KW_NOT :: sps (c :: v) ++ its), (TNOT :: tk).
    refine (conj _ (conj _ (conj _ (conj _ (conj _ _))))).
    + cbn [flatten flat_map item_bytes]. fold (flatten (sps (c :: v) ++ its)). rewrite flatten_sps, H1. reflexivity.
    + cbn [sps map app normal].
      refine (conj (kw_item_ok KW_NOT (or_introl eq_refl)) (conj I (conj Hc (conj I _)))). apply normal_sps; auto.
    + reflexivity.
    + cbn [trailing_kw]. rewrite (all_sp_app_r (sps (c :: v)) its H4), andb_false_r.
      rewrite trailing_kw_app by exact H4. exact H5.
    + intro nxt. cbn [sps map app toksc next_is_sp]. change (ISP c :: map ISP v ++ its) with (sps (c :: v) ++ its).
      rewrite toksc_sps, H6. reflexivity.
    + apply D_not. exact H7.
  - (* parentheses *)
    intros e w1 w2 r Hw1 Hw2 _ IH Hl. destruct (IH Hl) as (its & tk & H1 & H2 & H4 & H5 & H6 & H7).
    exists (ILP :: sps w1 ++ its ++ sps w2 ++ [IRP]), (TLP :: tk ++ [TRP]).
    assert (Hn : normal (its ++ sps w2 ++ [IRP])).
    { destruct w2 as [|c2 v2]; [apply normal_app_rp; exact H2|].
      unfold is_optsep in Hw2. cbn [forallb] in Hw2. apply andb_true_iff in Hw2. destruct Hw2 as [Hc2 Hv2].
      cbn [sps map app]. apply normal_app_sp; auto. cbn [normal]. refine (conj Hc2 (conj I _)).
      apply normal_sps; cbn; auto. }
    refine (conj _ (conj _ (conj _ (conj _ (conj _ _))))).
    + cbn [flatten flat_map item_bytes]. fold (flatten (sps w1 ++ its ++ sps w2 ++ [IRP])).
      rewrite flatten_sps, flatten_app, flatten_sps, H1. cbn. reflexivity.
    + cbn [normal]. refine (conj I (conj I _)). apply normal_sps; auto.
    + reflexivity.
    + cbn [trailing_kw].
      rewrite (trailing_kw_app (sps w1)) by (apply all_sp_app_r, all_sp_app_r; reflexivity).
      rewrite (trailing_kw_app its) by (apply all_sp_app_r; reflexivity).
      rewrite (trailing_kw_app (sps w2)) by reflexivity. reflexivity.
    + intro nxt. cbn [toksc]. rewrite toksc_sps. rewrite toksc_app.
      replace (match sps w2 ++ [IRP] with [] => nxt | _ :: _ => next_is_sp (sps w2 ++ [IRP]) end)
        with (next_is_sp (sps w2 ++ [IRP])) by (destruct w2; reflexivity).
      rewrite H6, toksc_sps. reflexivity.
    + apply D_paren. exact H7.
  - (* identifier *)
    intros x (Hne & Hw & Hk1 & Hk2 & Hk3) Hl.
    assert (Hnk : is_kw x = false).
    { unfold is_kw. destruct (beq_bytes x KW_NOT) eqn:B1; [apply beq_bytes_eq in B1; congruence|].
      destruct (beq_bytes x KW_AND) eqn:B2; [apply beq_bytes_eq in B2; congruence|].
      destruct (beq_bytes x KW_OR) eqn:B3; [apply beq_bytes_eq in B3; congruence|]. reflexivity. }
    exists [IW x], [TF x].
    refine (conj _ (conj _ (conj _ (conj _ (conj _ _))))).
    + cbn. apply app_nil_r.
    + cbn [normal item_ok]. auto.
    + reflexivity.
    + cbn [trailing_kw]. rewrite Hnk. reflexivity.
    + intro nxt. cbn [toksc]. rewrite not_kw_classify by exact Hnk. reflexivity.
    + apply D_id. apply Hl. cbn. auto.
Qed.

End Bytes2Tokens.

Lemma size_pos e : (1 <= size e)%nat.
Proof. destruct e; cbn; lia. Qed.
Lemma feats_pos e : (1 <= length (feats e))%nat.
Proof. induction e; cbn; rewrite ?app_length; lia. Qed.

(* iffeature_correct: every string of the RFC 7950 grammar whose features resolve compiles, and the
   compiled expression evaluates to the denotation of the parse tree *)
Theorem compile_grammar lookup e r :
  rexpr e r -> (forall x, In x (feats e) -> lookup x = Some x) -> Bnd r ->
  exists c, compile lookup true r = IOk c /\ forall env, iff_value c env = IOk (denote env e).
Proof.
  intros Hr Hl Hb. unfold len_ok in Hb.
  destruct (proj1 (grammar_tokens lookup) e r Hr Hl) as (its & tk & Hfl & Hnorm & Hall & Htr & Htk & Hder).
  assert (Hit : items r = its) by (rewrite <- Hfl; apply items_flatten_inv; exact Hnorm).
  assert (Hnz : Forall (fun c => c <> 0) r) by (rewrite <- Hfl; apply flatten_nonzero; exact Hnorm).
  assert (HT : toks its = tk) by (rewrite toks_toksc; apply Htk).
  pose proof (items_length r) as Hil. rewrite Hit in Hil.
  destruct (der_SY lookup 2 e tk Hder) as (pend & e' & S1 & _ & S4 & S5 & S6).
  destruct (S6 z0 eq_refl ltac:(cbn; lia)) as (z' & Hz & Zj & Zl & Zf & Zx & Ze). cbn [z0 z_j z_f z_e z_ln andb] in Zj, Zf, Ze.
  unfold compile. rewrite (pre_loop_string r Hnz). rewrite Hit.
  assert (HR0 : Rz pa0 z0) by (repeat split).
  assert (HW0 : WFz z0 (length its)).
  { unfold WFz, z0, ZU. cbn [z_f z_e z_fexp z_ln z_j]. repeat split; try lia; try discriminate. }
  pose proof (pre_items_zpre _ its eq_refl pa0 z0 Hnorm HR0 HW0) as Hpre. rewrite HT, Hz, Htr in Hpre.
  destruct Hpre as (a' & -> & HRz & HWz). cbn [ibind p_j p_fexp p_fsize p_cv p_esize p_i mk_pre].
  destruct HRz as (Rj & Rl & Rf & Re & Rx).
  replace (a_j a' =? 0)%Z with true by lia. cbn [negb].
  replace (a_fexp a' =? a_f a') with true by lia. cbn [negb]. rewrite andb_false_r.
  (* sizes *)
  pose proof (zpre_facts tk z0 z' Hz) as (Hzc & Hzf & _). cbn [z0 z_e z_ln z_f] in Hzc, Hzf.
  pose proof (zc_le tk 0%Z false) as Hle1. rewrite <- Hzc in Hle1. cbn [fst] in Hle1.
  pose proof (ntf_le tk) as Hle2. pose proof (toks_length its) as Hle3. rewrite HT in Hle3.
  pose proof (size_pos e') as HE1. pose proof (feats_pos e') as HF1.
  set (E := size e') in *. set (Fsz := length (feats e')) in *.
  assert (Hae : a_e a' = N.of_nat E) by lia.
  assert (Haf : a_f a' = N.of_nat Fsz) by lia.
  rewrite Hae, Haf.
  replace ((N.of_nat (length r) <? N.of_nat E) || (N.of_nat (length r) <? N.of_nat Fsz)) with false by lia.
  rewrite !Nat2N.id.
  set (B := (E + length its + 4)%nat).
  assert (HBz : (Z.of_nat B + 4 < ZU)%Z) by (unfold B, ZU; lia).
  assert (HEzu : (Z.of_nat E < ZU)%Z) by (unfold ZU; lia).
  assert (HFzu : (Z.of_nat Fsz < ZU)%Z) by (unfold ZU; lia).
  pose proof (init_Rm E Fsz B ltac:(unfold B; lia) HEzu HFzu HE1 HF1) as HR.
  pose proof (main_loop_items E Fsz B lookup HEzu HFzu HBz its [] _ ast0 (S (S (length r))) (S (S (length r)))
                ltac:(rewrite app_nil_r; exact Hnorm) HR) as Hmain.
  cbn [flatten flat_map next_is_sp] in Hmain. rewrite !app_nil_r in Hmain. rewrite Hfl in Hmain.
  rewrite <- toks_toksc, HT in Hmain.
  specialize (Hmain ltac:(lia) ltac:(lia) ltac:(cbn; unfold B; lia) ltac:(cbn; lia)).
  (* the token machine *)
  destruct (S5 ast0 I) as (o' & Hrun & Ho). cbn [ast0 k_stk k_out k_fts] in Hrun, Ho. rewrite !app_nil_r in *.
  assert (Hlen : (length pend + length o' = E)%nat).
  { apply (f_equal (@length N)) in Ho. rewrite app_length, rev_length, pre_length in Ho. exact Ho. }
  rewrite (mrun_mrunB E Fsz lookup _ _ _ Hrun) in Hmain by (cbn; lia).
  destruct Hmain as (c1 & -> & R1). cbn [ibind].
  assert (Hlt4 : Forall (fun op => op < 4) pend) by (eapply Forall_impl; [|exact S1]; intros; cbn in *; lia).
  destruct (flush_ok E Fsz B HEzu HFzu HBz pend o' (feats e') c1 (S (N.to_nat (s_index (m_stack c1)))) R1 Hlt4) as (c2 & -> & R2).
  { lia. }
  { rewrite (rm_idx _ _ _ _ _ R1). cbn [k_stk]. lia. }
  cbn [ibind]. rewrite Ho in R2.
  pose proof (rm_esize _ _ _ _ _ R2) as Hes. pose proof (rm_fsize _ _ _ _ _ R2) as Hfs.
  cbn [mk_ast k_out k_fts] in Hes, Hfs. rewrite pre_length in Hes. fold E in Hes. fold Fsz in Hfs.
  assert (He0 : inc64 (m_esize c2) = 0).
  { replace (Z.of_nat E - 1 - Z.of_nat E)%Z with (-1)%Z in Hes by lia. change ((-1) mod ZU)%Z with (ZU - 1)%Z in Hes.
    unfold inc64, U64. unfold ZU in Hes. replace (m_esize c2) with 18446744073709551615 by lia. reflexivity. }
  assert (Hf0 : inc64 (m_fsize c2) = 0).
  { replace (Z.of_nat Fsz - 1 - Z.of_nat Fsz)%Z with (-1)%Z in Hfs by lia. change ((-1) mod ZU)%Z with (ZU - 1)%Z in Hfs.
    unfold inc64, U64. unfold ZU in Hfs. replace (m_fsize c2) with 18446744073709551615 by lia. reflexivity. }
  rewrite He0, Hf0. cbn [N.eqb negb].
  eexists; split; [reflexivity|]. intro env. rewrite <- S4.
  (* evaluation of the compiled arrays *)
  unfold iff_value.
  pose proof (rm_out _ _ _ _ _ R2) as Hout. cbn [mk_ast k_out] in Hout. rewrite pre_length in Hout. fold E in Hout.
  rewrite Nat.sub_diag in Hout. cbn [skipn] in Hout.
  pose proof (rm_fts _ _ _ _ _ R2) as Hfts. cbn [mk_ast k_fts] in Hfts. fold Fsz in Hfts.
  rewrite Nat.sub_diag in Hfts. cbn [skipn] in Hfts.
  pose proof (rm_expr_len _ _ _ _ _ R2) as Hel.
  rewrite (iff_value_codes e' _ (m_expr c2) (m_feat c2) env 0 0 (rm_expr_b _ _ _ _ _ R2)).
  - reflexivity.
  - fold E. lia.
  - exists [], (skipn E (unpack (m_expr c2))). cbn [app length N.to_nat]. split; [|reflexivity].
    rewrite <- Hout. symmetry. apply firstn_skipn.
  - exists [], []. cbn [app length N.to_nat]. rewrite app_nil_r. auto.
  - fold E. unfold U64. unfold ZU in HEzu. lia.
  - fold E. unfold U64. unfold ZU in HEzu. lia.
Qed.

(* ---------- regression: the four inputs on which the code before the fixes left its arrays ---------- *)
Definition w_not_paren : bytes := [110;111;116;32;40;110;111;116;32;97;41].      (* not (not a) *)
Definition w_neg_depth : bytes := [41;97;40].                                     (* )a( *)
Definition w_neg_depth2 : bytes := [97;32;41;40].                                 (* a )( *)
Definition w_rp_word : bytes := [40;41;110;111;116;32;110;111;116;32;98].         (* ()not not b *)

Lemma name_ok_a : name_ok [97].
Proof. unfold name_ok. repeat split; try discriminate. Qed.

Lemma rexpr_not_paren : rexpr (Not (Not (F [97]))) w_not_paren.
Proof.
  apply RE_term, RT_factor.
  apply (RF_not (Not (F [97])) [32] ([40] ++ [] ++ (KW_NOT ++ [32] ++ [97]) ++ [] ++ [41])).
  - split; [discriminate|reflexivity].
  - apply RF_paren; try reflexivity. apply RE_term, RT_factor. apply RF_not.
    + split; [discriminate|reflexivity].
    + apply RF_id. exact name_ok_a.
Qed.

(* ================= K. the two renderers are in the grammar; C strings ================= *)
Lemma rfactor_paren e r s : rexpr e r -> s = [40] ++ r ++ [41] -> rfactor e s.
Proof.
  intros H ->. replace ([40] ++ r ++ [41]) with ([40] ++ [] ++ r ++ [] ++ [41]) by reflexivity.
  apply RF_paren; auto; reflexivity.
Qed.

Lemma sep_sp : is_sep [32]. Proof. split; [discriminate|reflexivity]. Qed.

Lemma render_full_factor e : names_ok e -> rfactor e (render_full e).
Proof.
  unfold names_ok. induction e as [x|a IHa|a IHa b IHb|a IHa b IHb]; cbn [feats render_full]; intro Hn.
  - apply RF_id. inversion Hn; auto.
  - eapply rfactor_paren with (r := KW_NOT ++ [32] ++ render_full a).
    + apply RE_term, RT_factor. apply (RF_not a [32] (render_full a) sep_sp). auto.
    + rewrite <- !app_assoc. reflexivity.
  - apply Forall_app in Hn. destruct Hn as [Ha Hb].
    eapply rfactor_paren with (r := render_full a ++ [32] ++ KW_AND ++ [32] ++ render_full b).
    + apply RE_term. apply RT_and; auto using sep_sp. apply RT_factor; auto.
    + rewrite <- !app_assoc. reflexivity.
  - apply Forall_app in Hn. destruct Hn as [Ha Hb].
    eapply rfactor_paren with (r := render_full a ++ [32] ++ KW_OR ++ [32] ++ render_full b).
    + apply RE_or; auto using sep_sp. * apply RT_factor; auto. * apply RE_term, RT_factor; auto.
    + rewrite <- !app_assoc. reflexivity.
Qed.

Lemma render_full_rexpr e : names_ok e -> rexpr e (render_full e).
Proof. intro H. apply RE_term, RT_factor, render_full_factor, H. Qed.

Lemma render_min_all e : names_ok e ->
  rfactor e (render_min 0 e) /\ rterm e (render_min 1 e) /\ rexpr e (render_min 2 e).
Proof.
  unfold names_ok. induction e as [x|a IHa|a IHa b IHb|a IHa b IHb]; cbn [feats render_min]; intro Hn.
  - assert (rfactor (F x) x) by (apply RF_id; inversion Hn; auto).
    repeat split; [assumption|apply RT_factor; assumption|apply RE_term, RT_factor; assumption].
  - destruct (IHa Hn) as (Hf & _ & _).
    assert (rfactor (Not a) (KW_NOT ++ [32] ++ render_min 0 a)) by (apply RF_not; auto using sep_sp).
    repeat split; [assumption|apply RT_factor; assumption|apply RE_term, RT_factor; assumption].
  - apply Forall_app in Hn. destruct Hn as [Ha Hb].
    destruct (IHa Ha) as (Hfa & _ & _). destruct (IHb Hb) as (_ & Htb & _).
    assert (Ht : rterm (And a b) (render_min 0 a ++ [32] ++ KW_AND ++ [32] ++ render_min 1 b))
      by (apply RT_and; auto using sep_sp).
    cbn [Nat.ltb Nat.leb]. repeat split; [|assumption|apply RE_term; assumption].
    eapply rfactor_paren; [apply RE_term; eassumption|reflexivity].
  - apply Forall_app in Hn. destruct Hn as [Ha Hb].
    destruct (IHa Ha) as (_ & Hta & _). destruct (IHb Hb) as (_ & _ & Heb).
    assert (He : rexpr (Or a b) (render_min 1 a ++ [32] ++ KW_OR ++ [32] ++ render_min 2 b))
      by (apply RE_or; auto using sep_sp).
    cbn [Nat.ltb Nat.leb]. repeat split; [| |assumption].
    + eapply rfactor_paren; [eassumption|reflexivity].
    + apply RT_factor. eapply rfactor_paren; [eassumption|reflexivity].
Qed.

Lemma render_min_rexpr e : names_ok e -> rexpr e (render_min 2 e).
Proof. intro H. apply render_min_all, H. Qed.

(* the compiler on an arbitrary byte string (read as a C string) *)
Theorem compile_c_no_oob lookup v11 s :
  len_ok (cstr s) ->
  compile_c lookup v11 s <> IOob /\ compile_c lookup v11 s <> IErr E_FUEL /\ compile_c lookup v11 s <> IErr E_MEM.
Proof. intros. unfold compile_c. apply compile_no_oob; auto. apply cstr_nonzero. Qed.

Lemma eval_prefix_correct' e env cnt :
  N.of_nat (length (pre e)) < U64 ->
  iff_value (pack (pre e), map Some (feats e), cnt) env = IOk (denote env e).
Proof. rewrite pre_length. apply eval_prefix_correct. Qed.

(* examples used in the Properties files *)
Definition ex_e : iexp := Or (And (F [97]) (Not (Not (F [98])))) (Not (And (F [99]) (Not (F [97])))).
Lemma ex_e_names : names_ok ex_e.
Proof.
  unfold names_ok, ex_e. cbn [feats app].
  repeat (constructor; [unfold name_ok; repeat split; try discriminate|]). constructor.
Qed.
