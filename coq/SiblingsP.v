(* SiblingsP.v - proofs about Siblings.v: the anchor searches of lyd_insert_node put a new node at the position of the
   canonical order, and inserts / user-ordered moves / removals keep the siblings canonical. *)
From Coq Require Import Permutation.
From LY Require Import Base RBTree Sorted RBTreeP Siblings.

Section SiblingsP.
Variable sys : nat -> bool.
Variable user : nat -> bool.
Hypothesis user_not_sys : forall i, user i = true -> sys i = false.

Notation cmp := (scmp sys).

Lemma lex3_antisym a b : lex3 a b = CompOpp (lex3 b a).
Proof.
  destruct a as [[a1 a2] a3], b as [[b1 b2] b3]. unfold lex3.
  rewrite (Z.compare_antisym b1 a1), (Z.compare_antisym b2 a2), (Z.compare_antisym b3 a3).
  destruct (b1 ?= a1)%Z; cbn; try reflexivity. destruct (b2 ?= a2)%Z; cbn; reflexivity.
Qed.

Lemma lex3_le_iff a b :
  lex3 a b <> Gt <->
  (let '(a1, a2, a3) := a in let '(b1, b2, b3) := b in
   (a1 < b1 \/ (a1 = b1 /\ (a2 < b2 \/ (a2 = b2 /\ a3 <= b3))))%Z).
Proof.
  destruct a as [[a1 a2] a3], b as [[b1 b2] b3]. unfold lex3.
  destruct (Z.compare_spec a1 b1); [|split; [lia|discriminate]|split; [intro H0; now elim H0|lia]].
  destruct (Z.compare_spec a2 b2); [|split; [lia|discriminate]|split; [intro H1; now elim H1|lia]].
  destruct (Z.compare_spec a3 b3); split; try lia; try discriminate. intro H2. now elim H2.
Qed.

Lemma scmp_antisym a b : cmp a b = CompOpp (cmp b a).
Proof. apply lex3_antisym. Qed.

Lemma scmp_trans a b c : le cmp a b -> le cmp b c -> le cmp a c.
Proof.
  unfold le, scmp. rewrite !lex3_le_iff.
  destruct (srank sys a) as [[a1 a2] a3], (srank sys b) as [[b1 b2] b3], (srank sys c) as [[c1 c2] c3]. lia.
Qed.

Definition canon (l : list snode) : Prop := sorted cmp l.

Lemma spec_insert_canon l x : canon l -> canon (spec_insert sys l x).
Proof. apply stable_insert_sorted; [apply scmp_antisym|apply scmp_trans]. Qed.

Lemma spec_insert_perm l x : Permutation (x :: l) (spec_insert sys l x).
Proof. apply stable_insert_perm. Qed.

(* ---------- the linear anchor search ---------- *)
Lemma ibf_stable (p : snode -> bool) x l :
  (forall m, In m l -> p m = match cmp m x with Gt => true | _ => false end) ->
  insert_before_first p x l = stable_insert cmp l x.
Proof.
  induction l as [|m r IH]; intro Hp; [reflexivity|]. cbn [insert_before_first Sorted.stable_insert].
  rewrite (Hp m) by (left; reflexivity).
  assert (IH' : insert_before_first p x r = stable_insert cmp r x) by (apply IH; intros z Hz; apply Hp; now right).
  destruct (cmp m x); try (now rewrite IH'); reflexivity.
Qed.

(* the key of a sibling plays a role only among the instances of one system-ordered (leaf-)list *)
Lemma gt_pred i x m : sidx x = Some i -> sys i = false \/ has_idx i m = false ->
  (match sidx m with None => true | Some j => Nat.ltb i j end) = match cmp m x with Gt => true | _ => false end.
Proof.
  intros Hx Hs. unfold scmp, srank. rewrite Hx. unfold has_idx in Hs. destruct (sidx m) as [j|]; [|reflexivity].
  unfold lex3. cbn [Z.compare]. destruct (Z.compare_spec (Z.of_nat j) (Z.of_nat i)) as [E|E|E].
  - apply Nat2Z.inj in E. subst j. destruct Hs as [Hs|Hs]; [|rewrite Nat.eqb_refl in Hs; discriminate].
    rewrite Hs. cbn. apply Nat.ltb_irrefl.
  - apply Nat.ltb_ge. lia.
  - apply Nat.ltb_lt. lia.
Qed.

Definition no_sys_inst (i : nat) (l : list snode) : Prop := forall m, In m l -> sys i = false \/ has_idx i m = false.

Lemma linear_insert_spec i l x : sidx x = Some i -> no_sys_inst i l -> linear_insert i l x = spec_insert sys l x.
Proof. intros Hx Hs. unfold linear_insert, spec_insert. apply ibf_stable. intros m Hm. apply gt_pred; auto. Qed.

(* ---------- the anchor search by hashes ---------- *)
Lemma insert_at_app (l1 l2 : list snode) x : insert_at (length l1) x (l1 ++ l2) = l1 ++ x :: l2.
Proof.
  unfold insert_at. rewrite firstn_app, skipn_app, Nat.sub_diag, firstn_all, skipn_all. cbn. now rewrite app_nil_r.
Qed.

Lemma first_pos_app p (l1 : list snode) m r :
  (forall y, In y l1 -> p y = false) -> p m = true -> first_pos p (l1 ++ m :: r) = Some (length l1).
Proof.
  intros H1 Hm. induction l1 as [|y l1 IH]; cbn [app first_pos length].
  - now rewrite Hm.
  - rewrite (H1 y) by (left; reflexivity). rewrite IH; [reflexivity|]. intros z Hz. apply H1. now right.
Qed.

Lemma find_none_all (p : nat -> bool) js : (forall j, In j js -> p j = false) -> find p js = None.
Proof.
  induction js as [|j js IH]; intro H; [reflexivity|]. cbn [find]. rewrite (H j) by (left; reflexivity).
  apply IH. intros k Hk. apply H. now right.
Qed.

Lemma find_seq_first (p : nat -> bool) len : forall n j0,
  n <= j0 < n + len -> p j0 = true -> (forall j, n <= j < j0 -> p j = false) -> find p (seq n len) = Some j0.
Proof.
  induction len as [|len IH]; intros n j0 Hr Hp Hb; [lia|]. cbn [seq find].
  destruct (Nat.eq_dec n j0) as [->|Hne]; [now rewrite Hp|].
  rewrite (Hb n) by lia. apply IH; [lia|exact Hp|]. intros j Hj. apply Hb. lia.
Qed.

Lemma trail_start_app (l1 l2 : list snode) :
  (forall y, In y l1 -> is_opaq y = false) -> forallb is_opaq l2 = true -> trail_start (l1 ++ l2) = length l1.
Proof.
  intros H1 H2. induction l1 as [|y l1 IH]; cbn [app length].
  - destruct l2 as [|m r]; [reflexivity|]. cbn [trail_start]. now rewrite H2.
  - cbn [trail_start]. cbn [forallb]. rewrite (H1 y) by (left; reflexivity). cbn [andb]. f_equal. apply IH.
    intros z Hz. apply H1. now right.
Qed.

Lemma le_data_cases m y j0 : sidx m = Some j0 -> le cmp m y -> is_opaq y = true \/ exists j, sidx y = Some j /\ j0 <= j.
Proof.
  intros Hm. unfold le, scmp. rewrite lex3_le_iff. unfold srank, is_opaq. rewrite Hm.
  destruct (sidx y) as [j|]; [|now left]. intro H. right. exists j. split; [reflexivity|]. lia.
Qed.

Lemma le_opaq_cases m y : sidx m = None -> le cmp m y -> is_opaq y = true.
Proof.
  intros Hm. unfold le, scmp. rewrite lex3_le_iff. unfold srank, is_opaq. rewrite Hm.
  destruct (sidx y) as [j|]; [|reflexivity]. lia.
Qed.

Lemma hash_insert_spec hi i l x :
  canon l -> sidx x = Some i -> no_sys_inst i l ->
  (forall m j, In m l -> sidx m = Some j -> j <= hi) ->
  hash_insert false hi i l x = spec_insert sys l x.
Proof.
  intros Hs Hx Hsys Hb. unfold spec_insert.
  destruct (stable_insert_split snode cmp scmp_trans l x Hs) as (l1 & l2 & -> & -> & F1 & F2).
  rewrite Forall_forall in F1, F2.
  assert (H1 : forall y, In y l1 -> exists j, sidx y = Some j /\ j <= i).
  { intros y Hy. specialize (F1 y Hy). pose proof (gt_pred i x y Hx (Hsys y (in_or_app _ _ _ (or_introl Hy)))) as G. unfold le in F1.
    destruct (sidx y) as [j|]; [|destruct (cmp y x); try discriminate G; congruence].
    exists j. split; [reflexivity|]. destruct (Nat.ltb i j) eqn:E; [destruct (cmp y x); try discriminate G; congruence|].
    apply Nat.ltb_ge in E. exact E. }
  assert (H2 : forall y, In y l2 -> is_opaq y = true \/ exists j, sidx y = Some j /\ i < j).
  { intros y Hy. specialize (F2 y Hy). pose proof (gt_pred i x y Hx (Hsys y (in_or_app _ _ _ (or_intror Hy)))) as G. rewrite F2 in G. unfold is_opaq.
    destruct (sidx y) as [j|]; [|now left]. right. exists j. split; [reflexivity|]. now apply Nat.ltb_lt. }
  assert (H1o : forall y, In y l1 -> is_opaq y = false).
  { intros y Hy. destruct (H1 y Hy) as (j & E & _). unfold is_opaq. now rewrite E. }
  assert (H1n : forall j y, i < j -> In y l1 -> has_idx j y = false).
  { intros j y Hj Hy. destruct (H1 y Hy) as (k & E & Hk). unfold has_idx. rewrite E. apply Nat.eqb_neq. lia. }
  apply (sorted_app snode cmp) in Hs. destruct Hs as (_ & S2 & _).
  unfold hash_insert. destruct l2 as [|m r].
  - (* nothing behind the new node *)
    assert (Ha : hash_anchor hi i (l1 ++ []) = None).
    { unfold hash_anchor. rewrite find_none_all; [reflexivity|]. intros j Hj. apply in_seq in Hj.
      rewrite app_nil_r. apply not_true_is_false. intro E. apply existsb_exists in E. destruct E as (y & Hy & E).
      rewrite (H1n j y) in E by (lia || assumption). discriminate. }
    rewrite Ha. rewrite app_nil_r. unfold opaq_fallback. destruct (rev l1) as [|z rz] eqn:Er; [reflexivity|].
    assert (Hz : In z l1) by (apply in_rev; rewrite Er; left; reflexivity). now rewrite (H1o z Hz).
  - cbn [sorted] in S2. destruct S2 as (Hm & _). rewrite Forall_forall in Hm.
    destruct (H2 m (or_introl eq_refl)) as [Hmo|(j0 & Ej0 & Hj0)].
    + (* the first node behind is opaque: so are all the others *)
      assert (Hall : forallb is_opaq (m :: r) = true).
      { cbn [forallb]. rewrite Hmo. cbn [andb]. apply forallb_forall. intros y Hy.
        apply (le_opaq_cases m y); [unfold is_opaq in Hmo; destruct (sidx m); [discriminate|reflexivity]|exact (Hm y Hy)]. }
      assert (Ha : hash_anchor hi i (l1 ++ m :: r) = None).
      { unfold hash_anchor. rewrite find_none_all; [reflexivity|]. intros j Hj. apply in_seq in Hj.
        apply not_true_is_false. intro E. apply existsb_exists in E. destruct E as (y & Hy & E).
        apply in_app_or in Hy. destruct Hy as [Hy|Hy]; [rewrite (H1n j y) in E by (lia || assumption); discriminate|].
        rewrite forallb_forall in Hall. specialize (Hall y Hy). unfold is_opaq in Hall. unfold has_idx in E.
        destruct (sidx y); discriminate. }
      rewrite Ha. unfold opaq_fallback.
      destruct (exists_last (l := m :: r)) as (r' & z & Ez); [discriminate|].
      rewrite Ez, app_assoc, rev_app_distr. cbn [rev app].
      assert (Hzo : is_opaq z = true).
      { rewrite forallb_forall in Hall. apply Hall. rewrite Ez. apply in_or_app. right. left. reflexivity. }
      rewrite Hzo. rewrite <- app_assoc, <- Ez. rewrite trail_start_app by assumption. apply insert_at_app.
    + (* the first node behind is a data node of schema index j0: the closest following schema node with an instance *)
      assert (Ha : hash_anchor hi i (l1 ++ m :: r) = Some (length l1)).
      { unfold hash_anchor. rewrite (find_seq_first _ (hi - i) (S i) j0).
        - apply first_pos_app; [intros y Hy; now apply H1n|]. unfold has_idx. rewrite Ej0. apply Nat.eqb_refl.
        - assert (j0 <= hi) by (apply (Hb m j0); [apply in_or_app; right; left; reflexivity|exact Ej0]). lia.
        - apply existsb_exists. exists m. split; [apply in_or_app; right; left; reflexivity|].
          unfold has_idx. rewrite Ej0. apply Nat.eqb_refl.
        - intros j Hj. apply not_true_is_false. intro E. apply existsb_exists in E. destruct E as (y & Hy & E).
          apply in_app_or in Hy. destruct Hy as [Hy|[<-|Hy]].
          + rewrite (H1n j y) in E by (lia || assumption). discriminate.
          + unfold has_idx in E. rewrite Ej0 in E. apply Nat.eqb_eq in E. lia.
          + destruct (le_data_cases m y j0 Ej0 (Hm y Hy)) as [Ho|(k & Ek & Hk)]; unfold has_idx, is_opaq in *.
            * destruct (sidx y); discriminate.
            * rewrite Ek in E. apply Nat.eqb_eq in E. lia. }
      rewrite Ha. apply insert_at_app.
Qed.

(* ---------- lyd_insert_node: the new node lands at its canonical position ---------- *)
Lemma le_any_opaq y x : sidx x = None -> le cmp y x.
Proof.
  intro Hx. unfold le, scmp. rewrite lex3_le_iff. unfold srank. rewrite Hx. destruct (sidx y); [lia|lia].
Qed.

Theorem sib_insert_spec hi ht l x :
  canon l -> (forall i, sidx x = Some i -> forall m j, In m l -> sidx m = Some j -> j <= hi i) ->
  sib_insert sys false hi ht l x = spec_insert sys l x.
Proof.
  intros Hs Hb. unfold sib_insert. destruct (sidx x) as [i|] eqn:Hx; [specialize (Hb i eq_refl)|].
  - destruct (sys i && existsb (has_idx i) l) eqn:E; [reflexivity|].
    assert (Hfree : no_sys_inst i l).
    { intros m Hm. apply andb_false_iff in E. destruct E as [E|E]; [now left|right].
      apply not_true_is_false. intro Hh. assert (existsb (has_idx i) l = true) by (apply existsb_exists; eauto). congruence. }
    destruct ht; [now apply hash_insert_spec|now apply linear_insert_spec].
  - unfold spec_insert. rewrite <- (app_nil_r l) at 2. rewrite (si_app_le snode cmp); [reflexivity|].
    apply Forall_forall. intros y _. now apply le_any_opaq.
Qed.

(* ---------- lyd_insert_after / lyd_insert_before of a user-ordered instance ---------- *)
Lemma nth_error_remove_nth (l : list snode) : forall i j s,
  i <> j -> nth_error l j = Some s -> nth_error (remove_nth i l) (if Nat.ltb i j then j - 1 else j) = Some s.
Proof.
  induction l as [|y l IH]; intros i j s Hne Hj; [destruct j; discriminate|].
  destruct i as [|i], j as [|j]; [congruence| | |].
  - cbn [remove_nth]. replace (if Nat.ltb 0 (S j) then S j - 1 else S j) with j by (cbn; lia). exact Hj.
  - cbn [remove_nth]. replace (if Nat.ltb (S i) 0 then 0 - 1 else 0) with 0 by (cbn; lia). exact Hj.
  - cbn [remove_nth]. cbn [nth_error] in Hj. specialize (IH i j s (fun E => Hne (f_equal S E)) Hj).
    replace (if Nat.ltb (S i) (S j) then S j - 1 else S j) with (S (if Nat.ltb i j then j - 1 else j)).
    + exact IH.
    + change (Nat.ltb (S i) (S j)) with (Nat.ltb i j). destruct (Nat.ltb i j) eqn:E; [|reflexivity]. apply Nat.ltb_lt in E. lia.
Qed.

Lemma insert_at_nth (r : list snode) q s x :
  nth_error r q = Some s ->
  exists a b, r = a ++ s :: b /\ insert_at (S q) x r = a ++ s :: x :: b /\ insert_at q x r = a ++ x :: s :: b.
Proof.
  intro H. destruct (nth_error_split r q H) as (a & b & -> & Hl). exists a, b. split; [reflexivity|]. subst q. split.
  - change (a ++ s :: b) with (a ++ [s] ++ b). rewrite app_assoc. replace (S (length a)) with (length (a ++ [s])) by (rewrite app_length; cbn; lia).
    rewrite insert_at_app. now rewrite <- app_assoc.
  - apply insert_at_app.
Qed.

Lemma sorted_adjacent (a b : list snode) s x :
  sorted cmp (a ++ s :: b) -> cmp x s = Eq -> sorted cmp (a ++ s :: x :: b) /\ sorted cmp (a ++ x :: s :: b).
Proof.
  intros Hs E. assert (Exs : le cmp x s) by (unfold le; rewrite E; discriminate).
  assert (Esx : le cmp s x) by (unfold le; rewrite scmp_antisym, E; discriminate).
  apply (sorted_app snode cmp) in Hs. destruct Hs as (Sa & Ssb & Hab). cbn [sorted] in Ssb. destruct Ssb as (Hsb & Sb).
  rewrite Forall_forall in Hsb.
  assert (Hxb : Forall (le cmp x) b).
  { apply Forall_forall. intros y Hy. apply (scmp_trans x s y); [exact Exs|exact (Hsb y Hy)]. }
  assert (Hax : forall y, In y a -> le cmp y x).
  { intros y Hy. apply (scmp_trans y s x); [apply Hab; [exact Hy|left; reflexivity]|exact Esx]. }
  split; apply (sorted_app snode cmp); (split; [exact Sa|]); split.
  - cbn [sorted]. split; [constructor; [exact Esx|apply Forall_forall; exact Hsb]|]. split; [exact Hxb|exact Sb].
  - intros y z Hy [<-|[<-|Hz]]; [apply Hab; [exact Hy|left; reflexivity]|now apply Hax|apply Hab; [exact Hy|now right]].
  - cbn [sorted]. split; [constructor; [exact Exs|exact Hxb]|]. split; [apply Forall_forall; exact Hsb|exact Sb].
  - intros y z Hy [<-|[<-|Hz]]; [now apply Hax|apply Hab; [exact Hy|left; reflexivity]|apply Hab; [exact Hy|now right]].
Qed.

Lemma move_ok_eq node sibl : is_opaq node = false -> is_opaq sibl = false -> move_ok user node sibl = true -> cmp node sibl = Eq.
Proof.
  unfold is_opaq, move_ok, scmp, srank. destruct (sidx node) as [i|]; [|discriminate]. destruct (sidx sibl) as [j|]; [|discriminate].
  intros _ _ H. apply andb_true_iff in H. destruct H as (Hu & Hij). apply Nat.eqb_eq in Hij. subst j.
  rewrite (user_not_sys i Hu). unfold lex3. now rewrite !Z.compare_refl.
Qed.

(* a successful move of a DATA node next to a DATA sibling: the node stands directly behind (after) / in front of (before)
   the sibling, all other siblings keep their order, nothing is lost, and the siblings stay canonical *)
Theorem sib_move_spec after l i j l' :
  canon l -> sib_move user false after l i j = Some l' ->
  (forall n, nth_error l i = Some n -> is_opaq n = false) -> (forall n, nth_error l j = Some n -> is_opaq n = false) ->
  exists node sibl a b,
    nth_error l i = Some node /\ nth_error l j = Some sibl /\ remove_nth i l = a ++ sibl :: b /\
    l' = (if after then a ++ sibl :: node :: b else a ++ node :: sibl :: b) /\ Permutation l l' /\ canon l'.
Proof.
  intros Hs H Hi Hj. unfold sib_move in H.
  destruct (nth_error l i) as [node|] eqn:Ei; [|discriminate]. destruct (nth_error l j) as [sibl|] eqn:Ej; [|discriminate].
  destruct (Nat.eqb i j) eqn:Eij; [discriminate|]. apply Nat.eqb_neq in Eij.
  destruct (move_ok user node sibl) eqn:Eok; [|discriminate]. cbn [negb andb] in H. injection H as <-.
  pose proof (nth_error_remove_nth l i j sibl Eij Ej) as Hr. unfold remove_at.
  destruct (insert_at_nth _ _ sibl node Hr) as (a & b & Er & Ha & Hb).
  assert (Heq : cmp node sibl = Eq) by (apply move_ok_eq; auto).
  assert (Hsr : sorted cmp (a ++ sibl :: b)) by (rewrite <- Er; now apply (remove_nth_sorted snode cmp)).
  destruct (sorted_adjacent a b sibl node Hsr Heq) as (S1 & S2).
  assert (Hp : Permutation l (node :: a ++ sibl :: b)).
  { rewrite <- Er. clear - Ei. revert i Ei. induction l as [|y l IH]; intros i Ei; [destruct i; discriminate|].
    destruct i as [|i]; cbn [nth_error remove_nth] in *; [injection Ei as ->; reflexivity|].
    etransitivity; [apply perm_skip, (IH i Ei)|apply perm_swap]. }
  exists node, sibl, a, b. split; [reflexivity|]. split; [reflexivity|]. split; [exact Er|]. destruct after.
  - rewrite Ha. split; [reflexivity|]. split; [|exact S1]. etransitivity; [exact Hp|].
    change (a ++ sibl :: node :: b) with (a ++ [sibl] ++ node :: b). rewrite app_assoc.
    etransitivity; [|apply Permutation_middle]. apply perm_skip. rewrite <- app_assoc. reflexivity.
  - rewrite Hb. split; [reflexivity|]. split; [|exact S2]. etransitivity; [exact Hp|]. apply Permutation_middle.
Qed.

(* ---------- histories ---------- *)
(* the moves name data nodes (the API also lets an opaque node be put anywhere, on request), every schema index is below
   the bound the hash walk reaches *)
Fixpoint sops_ok (hi : nat -> nat) (l : list snode) (ops : list sop) : Prop :=
  match ops with
  | [] => True
  | o :: r =>
    (match o with
     | SNew x _ => match sidx x with Some i => forall m j, In m (x :: l) -> sidx m = Some j -> j <= hi i | None => True end
     | SAfter i j | SBefore i j =>
       (forall n, nth_error l i = Some n -> is_opaq n = false) /\ (forall n, nth_error l j = Some n -> is_opaq n = false)
     | SDel _ => True
     end) /\ sops_ok hi (sib_step sys user hi l o) r
  end.

Theorem sib_history hi (ops : list sop) : forall l,
  canon l -> sops_ok hi l ops ->
  canon (fold_left (sib_step sys user hi) ops l) /\
  fold_left (sib_step sys user hi) ops l =
  fold_left (fun l o => match o with SNew x _ => spec_insert sys l x | _ => sib_step sys user hi l o end) ops l.
Proof.
  induction ops as [|o ops IH]; intros l Hs Hok; cbn [fold_left]; [auto|].
  cbn [sops_ok] in Hok. destruct Hok as (Ho & Hok).
  assert (Hstep : canon (sib_step sys user hi l o) /\
                  sib_step sys user hi l o = match o with SNew x _ => spec_insert sys l x | _ => sib_step sys user hi l o end).
  { destruct o as [x ht|i j|i j|i]; cbn [sib_step].
    - assert (E : sib_insert sys false hi ht l x = spec_insert sys l x).
      { apply sib_insert_spec; [exact Hs|]. intros i0 Hi0 m j Hm. rewrite Hi0 in Ho. apply Ho. now right. }
      rewrite E. split; [now apply spec_insert_canon|reflexivity].
    - split; [|reflexivity]. destruct (sib_move user false true l i j) as [l'|] eqn:E; [|exact Hs].
      destruct (sib_move_spec true l i j l' Hs E (proj1 Ho) (proj2 Ho)) as (? & ? & ? & ? & _ & _ & _ & _ & _ & Hc). exact Hc.
    - split; [|reflexivity]. destruct (sib_move user false false l i j) as [l'|] eqn:E; [|exact Hs].
      destruct (sib_move_spec false l i j l' Hs E (proj1 Ho) (proj2 Ho)) as (? & ? & ? & ? & _ & _ & _ & _ & _ & Hc). exact Hc.
    - split; [|reflexivity]. now apply (remove_nth_sorted snode cmp). }
  destruct Hstep as (Hc & He). destruct (IH _ Hc Hok) as (Hc' & He'). split; [exact Hc'|].
  rewrite He'. rewrite He at 1. reflexivity.
Qed.

End SiblingsP.
