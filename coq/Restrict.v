(* Restrict.v — model of the compilation of range / length restrictions (slice restrict, property C11):
     lys_compile_type_range()            src/schema_compile_node.c   the parser of the argument text and the
                                                                     check against the restriction of the base type
     range_part_minmax()                 one boundary: number or the min / max keyword
     range_part_check_value_syntax()     the number lexeme (decimal64: scaling to fraction-digits)
     range_part_check_ascendancy()       order of consecutive boundaries
     lys_compile_type() / lys_compile_type_()   how the compiled restriction of the base type is handed down a
                                                chain of typedefs (compile_chain below)
   The compiled restriction is the array range->parts of (min, max) pairs; the model keeps the mathematical
   integers (the C code stores int64 / uint64 in a union and compares with the signedness of the built-in type,
   which agrees with the comparison of the mathematical values because every stored value passed the limits of
   its type). decimal64 boundaries are scaled by 10^fraction-digits as in the C code.
   History: up to round 2 the code had two defects which the model carried: a new part was started by a number or
   max also when no | was seen (1 50 was two parts, the second one escaped the ascending check and the check against
   the base: a derived restriction could WIDEN its base), and two | in a row (1||) made parts_done larger than the
   number of parts so that the check against the base read parts[] beyond the array. Both were fixed in /repo:
   commit 72878af (a number / max that starts a part is unexpected data unless every part so far was finished by |)
   and commit b6c3725 (a | with no part since the previous | is an error). The model follows the FIXED code; the
   distinguished answer E_OOB of compile_range (the place where the C loop would index beyond the array) is kept and
   proved unreachable (RestrictP.compile_range_never_oob).
   The model is what the code does, including the remaining departures from RFC 7950 9.2.4 / 14 (ABNF range-arg),
   all confirmed on the library (see RestrictP.v for the witnesses):
     - .. can be repeated (1..9..3 is the part 1..3, 1....5 is 1..5);
     - a bare max part may repeat the upper bound of the previous part (127 | max);
     - number lexemes: + sign, leading zeros, -0 for unsigned types; decimal64: a sign without digits is 0,
       -.5 is accepted, more fraction digits than fraction-digits are rejected even when they are zeros;
     - the white space is isspace() (VT and FF as well);
     - a derived part must lie inside ONE part of the base, so 3..7 is rejected under 1..5 | 6..9;
     - min is only accepted as the very first boundary and max only as the very last one.
   Model only; proofs in RestrictP.v. *)
From LY Require Import Base TypesMisc IntLex Dec64.
Local Open Scope N_scope.

Definition E_EXIST : N := 7.    (* LY_EEXIST: boundaries not in ascending order *)
Definition E_BASE  : N := 8.    (* the derived restriction is not equally or more limiting *)
Definition E_FUEL  : N := 9.    (* model only: out of fuel (never with the fuel compile_range gives) *)
Definition E_INT   : N := 10.   (* model only: a state the C code cannot be in *)

(* the built-in type that is restricted: the eight integer types, decimal64 with its fraction-digits, or a
   length (string, binary: uint64) *)
Inductive rty : Type := RInt (t : ity) | RDec (fd : nat) | RLen.

Definition rty_min (ty : rty) : Z :=
  match ty with RInt t => ity_min t | RDec _ => I64MIN_Z | RLen => 0%Z end.
Definition rty_max (ty : rty) : Z :=
  match ty with RInt t => ity_max t | RDec _ => I64MAX_Z | RLen => ity_max U64 end.

Definition parts := list (Z * Z).

(* ---------- range_part_check_value_syntax(ctx, basetype, frdigits, value, &len, &valcopy) ----------
   [rd value i] is value[i]; the text is a C string, reading its terminator gives 0 as [rd] does
   beyond the end of the list. *)

(* from the label decimal: on; fraction = index of the period or 0 *)
Definition dec_valcopy (fd : nat) (value : bytes) (fraction len : nat) : res bytes :=
  (* if (fraction && ( *len - 1 - fraction > frdigits)) return LY_EINVAL *)
  if negb (fraction =? 0)%nat && (fd <? len - 1 - fraction)%nat then Err E_INVAL
  else if negb (fraction =? 0)%nat then
    (* memcpy(valcopy, value, fraction); memcpy(valcopy + fraction, value + fraction + 1, len - 1 - fraction);
       memset(valcopy + len - 1, '0', frdigits - (len - 1 - fraction)) *)
    Ok (firstn fraction value
        ++ firstn (len - 1 - fraction) (skipn (fraction + 1) value)
        ++ repeat 48 (fd - (len - 1 - fraction)))
  else
    (* memcpy(valcopy, value, len); memset(valcopy + len, '0', frdigits) *)
    Ok (firstn len value ++ repeat 48 fd).

Definition value_syntax (ty : rty) (value : bytes) : res (nat * bytes) :=
  let c0 := rd value 0 in
  (* if (!isdigit(value[0]) && (value[0] != '-') && (value[0] != '+')) return LY_EVALID *)
  if negb (is_digit c0) && negb (c0 =? 45) && negb (c0 =? 43) then Err E_VALID
  else
    (* if ((value[len] == '-') || (value[len] == '+')) ++len;   while (isdigit(value[len])) ++len; *)
    let len1 := if (c0 =? 45) || (c0 =? 43) then 1%nat else 0%nat in
    let len2 := (len1 + count_digits (skipn len1 value))%nat in
    match ty with
    | RDec fd =>
        (* if ((basetype != LY_TYPE_DEC64) || (value[len] != '.') || !isdigit(value[len + 1])) goto decimal
           (with fraction = 0) *)
        if negb (rd value len2 =? 46) || negb (is_digit (rd value (len2 + 1))) then
          match dec_valcopy fd value 0 len2 with
          | Ok vc => Ok (len2, vc)
          | Err e => Err e
          end
        else
          (* fraction = len; ++len; while (isdigit(value[len])) ++len; *)
          let len3 := (len2 + 1 + count_digits (skipn (len2 + 1) value))%nat in
          match dec_valcopy fd value len2 len3 with
          | Ok vc => Ok (len3, vc)
          | Err e => Err e
          end
    | _ => Ok (len2, firstn len2 value)           (* valcopy = strndup(value, len) *)
    end.

(* the switch of range_part_minmax() for a number: ly_parse_int / ly_parse_uint with the limits of the type *)
Definition parse_bound (ty : rty) (valcopy : bytes) : res Z :=
  match ty with
  | RInt t => if ity_signed t then ly_parse_int valcopy (ity_min t) (ity_max t)
              else ly_parse_uint valcopy (ity_max t)
  | RDec _ => ly_parse_int valcopy I64MIN_Z I64MAX_Z
  | RLen => ly_parse_uint valcopy (ity_max U64)
  end.

(* range_part_check_ascendancy(unsigned_value, max, value, prev_value) == LY_SUCCESS:
   an upper bound may equal the previous value, a lower bound must be greater *)
Definition asc_ok (max : bool) (value prev : Z) : bool :=
  if max then (prev <=? value)%Z else (prev <? value)%Z.

(* range_part_minmax(ctx, part, max, prev, basetype, first, ..., base_range = NULL, &expr):
   the value of the boundary and the number of bytes consumed *)
Definition bound_num (ty : rty) (max first : bool) (prev : Z) (expr : bytes) : res (Z * nat) :=
  match value_syntax ty expr with
  | Err e => Err e
  | Ok (len, vc) =>
      match parse_bound ty vc with
      | Err e => Err e
      | Ok v => if first || asc_ok max v prev then Ok (v, len) else Err E_EXIST
      end
  end.

(* range_part_minmax(ctx, part, max, prev, basetype, first, ..., base_range, value = NULL): the min / max keyword:
   from the first / last part of the base restriction when there is one, else the limit of the built-in type.
   [base = []] stands for base_range == NULL (a compiled restriction always has at least one part). *)
Definition kw_value (ty : rty) (base : parts) (max : bool) : Z :=
  match base with
  | [] => if max then rty_max ty else rty_min ty
  | p :: _ => if max then snd (last base p) else fst p
  end.

Definition bound_kw (ty : rty) (base : parts) (max first : bool) (prev : Z) : res Z :=
  let v := kw_value ty base max in
  if first || asc_ok max v prev then Ok v else Err E_EXIST.

(* ---------- the loop of lys_compile_type_range() ----------
   [rparts] is the array parts in REVERSE order (its head is parts[LY_ARRAY_COUNT(parts) - 1]), [pd] is
   parts_done, [re] is range_expected. The branches are tested in the order of the C code. Every round
   consumes at least one byte or ends the loop, so length expr + 1 rounds suffice. *)
Definition s_min : bytes := [109; 105; 110].
Definition s_max : bytes := [109; 97; 120].
Definition s_dots : bytes := [46; 46].

Definition is_nil {A} (l : list A) : bool := match l with [] => true | _ :: _ => false end.

(* parts_done ? parts[LY_ARRAY_COUNT(parts) - 2].max_64 : 0   evaluated after the new element was appended *)
Definition prev_max (pd : nat) (rparts : parts) : Z :=
  match pd, rparts with
  | S _, (_, hi) :: _ => hi
  | _, _ => 0%Z
  end.

Fixpoint loop (fuel : nat) (ty : rty) (base rparts : parts) (pd : nat) (re : bool) (expr : bytes)
  : res (parts * nat) :=
  match fuel with
  | O => Err E_FUEL
  | S f =>
      match expr with
      | [] =>
          (* end of the text *)
          if re then Err E_VALID                                     (* unexpected end after .. *)
          else if is_nil rparts || (pd =? length rparts)%nat then Err E_VALID
          else Ok (rev rparts, S pd)
      | c :: rest =>
          if is_space c then loop f ty base rparts pd re rest
          else if starts_with s_min expr then
            match rparts with
            | _ :: _ => Err E_VALID                                  (* data before the min keyword *)
            | [] =>
                match bound_kw ty base false true 0 with
                | Err e => Err e
                | Ok m => loop f ty base [(m, m)] pd re (skipn 3 expr)
                end
            end
          else if c =? 124 then
            (* !parts || range_expected || (parts_done == LY_ARRAY_COUNT(parts)) *)
            if is_nil rparts || re || (pd =? length rparts)%nat then Err E_VALID
            else loop f ty base rparts (S pd) re rest
          else if starts_with s_dots expr then
            if is_nil rparts || (length rparts =? pd)%nat then Err E_VALID
            else loop f ty base rparts pd true (skip_space (skipn 2 expr))
          else if is_digit c || (c =? 45) || (c =? 43) then
            if re then
              (* upper bound of the last part; prev = its lower bound *)
              match rparts with
              | [] => Err E_INT
              | (lo, _) :: tl =>
                  match bound_num ty true false lo expr with
                  | Err e => Err e
                  | Ok (v, len) => loop f ty base ((lo, v) :: tl) pd false (skipn len expr)
                  end
              end
            else if negb (is_nil rparts) && negb (length rparts =? pd)%nat then
              Err E_VALID                       (* the previous part was not finished by | : unexpected data *)
            else
              (* a new part *)
              match bound_num ty false (pd =? 0)%nat (prev_max pd rparts) expr with
              | Err e => Err e
              | Ok (v, len) => loop f ty base ((v, v) :: rparts) pd false (skipn len expr)
              end
          else if starts_with s_max expr then
            if negb re && negb (is_nil rparts) && negb (length rparts =? pd)%nat then
              Err E_VALID                       (* the previous part was not finished by | : unexpected data *)
            else
            match skip_space (skipn 3 expr) with
            | _ :: _ => Err E_VALID                                  (* data after the max keyword *)
            | [] =>
                if re then
                  match rparts with
                  | [] => Err E_INT
                  | (lo, _) :: tl =>
                      match bound_kw ty base true false lo with
                      | Err e => Err e
                      | Ok v => loop f ty base ((lo, v) :: tl) pd false []
                      end
                  end
                else
                  match bound_kw ty base true (pd =? 0)%nat (prev_max pd rparts) with
                  | Err e => Err e
                  | Ok v => loop f ty base ((v, v) :: rparts) pd false []
                  end
            end
          else Err E_VALID                                           (* unexpected data *)
      end
  end.

(* ---------- the check against the restriction of the base type ----------
   for (u = v = 0; u < parts_done && v < LY_ARRAY_COUNT(base_range->parts); ++u) { ... }  if (u != parts_done) error
   [check_part d b]: the rounds spent on one derived part d = parts[u] starting at base part b = base[v ..]:
   None = baseerror (or the base parts ran out), Some b' = the loop goes on with parts[u + 1] at base b'. *)
Fixpoint check_part (d : Z * Z) (b : parts) : option parts :=
  let '(dl, dh) := d in
  match b with
  | [] => None
  | (bl, bh) :: b' =>
      if (dl <? bl)%Z then None
      else if (bl =? bh)%Z then
        (* base has a single value *)
        if (bl =? dl)%Z then
          if negb (dl =? dh)%Z then None        (* current continues with a range *)
          else Some b'                          (* equal single values, move both forward *)
        else check_part d b'                    (* ++v; --u; continue *)
      else if (dl =? dh)%Z then
        (* current is a single value *)
        if (bh <? dh)%Z then check_part d b' else Some b
      else if (bh <? dh)%Z then
        if (bh <? dl)%Z then check_part d b' else None
      else Some b
  end.

(* the whole loop over the derived parts [ds]: None = baseerror, Some b' = every part was placed and the base index
   stands at b' *)
Fixpoint check_base_rem (ds : parts) (b : parts) : option parts :=
  match ds with
  | [] => Some b
  | d :: ds' =>
      match check_part d b with
      | None => None
      | Some b' => check_base_rem ds' b'
      end
  end.

Definition check_base (ds : parts) (b : parts) : bool :=
  match check_base_rem ds b with Some _ => true | None => false end.

(* lys_compile_type_range(ctx, range_p, basetype, length_restr, frdigits, base_range, &range):
   the loop of the check runs over u < parts_done, all LY_ARRAY_COUNT(parts) parts are stored. If parts_done could
   exceed COUNT, the loop would read parts[u] beyond the array once the real parts are placed and base parts are left:
   the model answers the distinguished error E_OOB there. Since commits 72878af / b6c3725 the parser ends with
   parts_done = COUNT for every text (RestrictP.loop_inv), so neither that answer nor the truncation by firstn can
   happen any more; they are kept because the C loop is still written with parts_done. *)
Definition E_OOB : N := 11.

Definition compile_range (ty : rty) (base : parts) (text : bytes) : res parts :=
  match loop (S (length text)) ty base [] 0 false text with
  | Err e => Err e
  | Ok (ps, pd) =>
      match base with
      | [] => Ok ps
      | _ :: _ =>
          match check_base_rem (firstn pd ps) base with
          | None => Err E_BASE
          | Some b' =>
              if (pd <=? length ps)%nat then Ok ps
              else if is_nil b' then Err E_BASE
              else Err E_OOB
          end
      end
  end.

(* lys_compile_type(): the typedefs are compiled from the built-in type towards the leaf; a typedef without
   a restriction statement of its own shares the compiled type (and so the restriction) of its base *)
Fixpoint compile_chain (ty : rty) (base : parts) (rs : list (option bytes)) : res parts :=
  match rs with
  | [] => Ok base
  | None :: rs' => compile_chain ty base rs'
  | Some r :: rs' =>
      match compile_range ty base r with
      | Err e => Err e
      | Ok ps => compile_chain ty ps rs'
      end
  end.

(* ---------- Spec: RFC 7950 9.2.4 / 9.4.4 and the ABNF of range-arg / length-arg ----------
   range-arg = range-part *( optsep | optsep range-part );   range-part = boundary [ optsep .. optsep boundary ];
   boundary = min / max / integer-value / decimal-value.  The abstract syntax: *)
Inductive bnd : Type := BMin | BMax | BNum (v : Z).
Definition rpart : Type := (bnd * option bnd)%type.

(* the number lexemes of the grammar the theorems are stated for: optional sign, digits (for decimal64 optionally
   a period and 1 .. fraction-digits digits), with the value they denote (decimal64: scaled by 10^fraction-digits).
   This is the RFC lexeme plus a + sign and leading zeros. *)
Inductive num_lex : rty -> bytes -> Z -> Prop :=
| NumInt t sg ds :
    is_sign sg -> ds <> [] -> all_digit ds ->
    num_lex (RInt t) (sg ++ ds) (sign_val sg (dec_to_N ds))
| NumLen sg ds :
    is_sign sg -> ds <> [] -> all_digit ds ->
    num_lex RLen (sg ++ ds) (sign_val sg (dec_to_N ds))
| NumDecI fd sg ip :
    is_sign sg -> ip <> [] -> all_digit ip ->
    num_lex (RDec fd) (sg ++ ip) (sign_val sg (dec_to_N (ip ++ repeat 48 fd)))
| NumDecF fd sg ip fp :
    is_sign sg -> ip <> [] -> all_digit ip -> fp <> [] -> all_digit fp -> (length fp <= fd)%nat ->
    num_lex (RDec fd) (sg ++ ip ++ 46 :: fp) (sign_val sg (dec_to_N (ip ++ fp ++ repeat 48 (fd - length fp)))).

Inductive bnd_text (ty : rty) : bnd -> bytes -> Prop :=
| BtMin : bnd_text ty BMin s_min
| BtMax : bnd_text ty BMax s_max
| BtNum l v : num_lex ty l v -> bnd_text ty (BNum v) l.

(* one range-part followed by optional white space *)
Inductive part_text (ty : rty) : rpart -> bytes -> Prop :=
| PtOne b tb ws : bnd_text ty b tb -> all_space ws -> part_text ty (b, None) (tb ++ ws)
| PtTwo b1 t1 ws1 ws2 b2 t2 ws3 :
    bnd_text ty b1 t1 -> all_space ws1 -> all_space ws2 -> bnd_text ty b2 t2 -> all_space ws3 ->
    part_text ty (b1, Some b2) (t1 ++ ws1 ++ s_dots ++ ws2 ++ t2 ++ ws3).

(* parts separated by a vertical bar; white space is allowed around every token *)
Inductive parts_text (ty : rty) : list rpart -> bytes -> Prop :=
| PsOne p tp : part_text ty p tp -> parts_text ty [p] tp
| PsCons p tp ws ps tps :
    part_text ty p tp -> all_space ws -> parts_text ty ps tps ->
    parts_text ty (p :: ps) (tp ++ 124 :: ws ++ tps).

Inductive range_text (ty : rty) : list rpart -> bytes -> Prop :=
| RangeText ws ps tps : all_space ws -> parts_text ty ps tps -> range_text ty ps (ws ++ tps).

(* the meaning: min / max stand for the smallest / largest value the base type accepts *)
Definition bnd_val (ty : rty) (base : parts) (b : bnd) : Z :=
  match b with
  | BMin => kw_value ty base false
  | BMax => kw_value ty base true
  | BNum v => v
  end.

Definition part_val (ty : rty) (base : parts) (p : rpart) : Z * Z :=
  match p with
  | (b1, None) => (bnd_val ty base b1, bnd_val ty base b1)
  | (b1, Some b2) => (bnd_val ty base b1, bnd_val ty base b2)
  end.

Definition resolve (ty : rty) (base : parts) (ps : list rpart) : parts := map (part_val ty base) ps.

(* every number lies in the value space of the built-in type *)
Definition bnd_in_type (ty : rty) (b : bnd) : Prop :=
  match b with BNum v => (rty_min ty <= v <= rty_max ty)%Z | _ => True end.
Definition part_in_type (ty : rty) (p : rpart) : Prop :=
  bnd_in_type ty (fst p) /\ match snd p with Some b => bnd_in_type ty b | None => True end.

(* as coded: min only as the very first boundary, max only as the very last one *)
Fixpoint kw_ok_from (first : bool) (ps : list rpart) : bool :=
  match ps with
  | [] => true
  | (b1, ob2) :: ps' =>
      let last := is_nil ps' in
      (match b1 with
       | BMin => first
       | BMax => last && match ob2 with None => true | Some _ => false end
       | BNum _ => true
       end) &&
      (match ob2 with
       | None => true
       | Some BMin => false
       | Some BMax => last
       | Some (BNum _) => true
       end) &&
      kw_ok_from false ps'
  end.
Definition kw_ok (ps : list rpart) : bool := negb (is_nil ps) && kw_ok_from true ps.

(* each derived part lies inside one part of the base restriction (as coded) *)
Definition part_inside (b : parts) (d : Z * Z) : Prop :=
  exists bl bh, In (bl, bh) b /\ (bl <= fst d)%Z /\ (snd d <= bh)%Z.
Definition parts_inside (ds b : parts) : Prop := Forall (part_inside b) ds.

(* RFC: the value set of the derived restriction is a subset of the value set of the base *)
Definition subset (ds b : parts) : Prop := forall v, in_parts ds v -> in_parts b v.

(* base parts with a gap between consecutive parts (1..5 | 6..9 has none) *)
Fixpoint parts_gapped (ps : parts) : Prop :=
  match ps with
  | [] => True
  | (lo, hi) :: ps' =>
      (lo <= hi)%Z /\
      match ps' with [] => True | (lo2, _) :: _ => (hi + 1 < lo2)%Z end /\
      parts_gapped ps'
  end.

(* the last part is a bare max that repeats the upper bound of the part before it (127 | max): accepted by the
   code although the parts are not disjoint; excluded from the main theorem and shown as a witness instead.
   [prev] is the upper bound of the part before [ps], if any. *)
Fixpoint touching_from (ty : rty) (base : parts) (prev : option Z) (ps : list rpart) : Prop :=
  match ps with
  | [] => False
  | p :: ps' =>
      match ps', p with
      | [], (BMax, None) => prev = Some (kw_value ty base true)
      | _, _ => touching_from ty base (Some (snd (part_val ty base p))) ps'
      end
  end.
Definition touching_max (ty : rty) (base : parts) (ps : list rpart) : Prop := touching_from ty base None ps.

(* no restriction (an empty parts array) accepts every value of the type *)
Definition denote (ps : parts) (v : Z) : Prop := ps = [] \/ in_parts ps v.

(* a legal restriction as the code decides it on texts of the grammar above *)
Definition legal (ty : rty) (base : parts) (ps : list rpart) : Prop :=
  kw_ok ps = true /\ Forall (part_in_type ty) ps /\ parts_sorted (resolve ty base ps) /\
  (base <> [] -> parts_inside (resolve ty base ps) base).
