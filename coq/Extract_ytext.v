(* Extract_ytext.v — extraction of slice ytext (YangText, PathQuote) *)
From Coq Require Extraction ExtrOcamlBasic.
From LY Require Import Base Utf8 YangText PathQuote.
Extraction Language OCaml.
Extraction "model_ytext.ml"
  N.add N.mul N.div N.modulo N.sub Z.add Z.mul Z.opp Z.of_N Z.abs_N Z.sub Z.ltb
  Utf8.all_checkutf8
  YangText.ypr_encode YangText.ypr_text YangText.ypr_text_parts YangText.col_after YangText.lex_qstring
  YangText.print_then_lex YangText.E_NOTQ
  PathQuote.path_ll PathQuote.path_l PathQuote.leaflist_pred PathQuote.list_pred PathQuote.pred_finds
  PathQuote.path_literal PathQuote.xpath_literal PathQuote.inst_quoted.
