(* Extract_types.v — extraction of slice types (IntLex, Dec64, TypesMisc) to model_types.ml *)
From Coq Require Extraction ExtrOcamlBasic.
From LY Require Import Base TypesMisc IntLex Dec64.
Extraction Language OCaml.
Extraction "model_types.ml"
  N.add N.mul N.div N.modulo N.sub Z.add Z.mul Z.opp Z.of_N Z.abs_N Z.sub Z.ltb
  TypesMisc.validate_range TypesMisc.bool_store TypesMisc.bool_canon TypesMisc.bool_compare TypesMisc.bool_sort
  IntLex.int_store IntLex.int_canon IntLex.int_compare IntLex.int_sort
  Dec64.dec64_store Dec64.dec64_canon Dec64.dec64_compare Dec64.dec64_sort.
