(* Properties_C07_dflt.v -- property C07 (validation is an idempotent normalisation whose reported changes are exact; a
   node reported as default holds its schema default; the with-defaults modes select the RFC 6243 node sets): statements
   about Implicit.validate_all / implicit_all and WithDefaults.wd_print_forest, the transcriptions of lyd_validate_all /
   lyd_new_implicit_all (implicit nodes, auto-deletion, validation diff) and of lyd_node_should_print + the printer's
   child loop on the Tree.v model, tied to the C code by the correspondence run tools/props/comps_dflt.py (DfltModel).

   Vocabulary
     validate_all sch f = Ok (g, d)   lyd_validate_all(LYD_VALIDATE_PRESENT) succeeds with tree g and change list d (the
                                      calls of lyd_val_diff_add in order; entries marked silent are deletions libyang makes
                                      without recording them); Err = LY_EVALID (or the model's fuel ran out)
     normalb sch g                    g is THE normal form RFC 7950 asks for (independent of the code): nothing is marked
                                      new; per sibling list at most one case of a choice holds nodes; for every schema child
                                      the default-flagged instances are exactly the required ones (7.6.1 default leaf, 7.7.2
                                      all default leaf-list values, 7.5.1 non-presence container - iff no explicit instance
                                      exists and every enclosing case is in use per 7.9.3: it holds an explicit node, or it is
                                      the default case and no case of the choice holds one); a non-presence container is
                                      default-flagged iff all its children are; recursively
     strip g                          the explicit content of g (default-flagged nodes dropped)
     flag_soundb sch g                every default-flagged node is a leaf / leaf-list instance holding one of its schema
                                      default values, or a non-presence container
     chc_okb / schema_okb             sanity of the schema encoding (tools/treeenc.py): one (choice, case) pair carries the
                                      same flags everywhere, one default case per choice; keys lead
   Not modelled here: must / unique / leafref, several modules, opaque nodes; `when` is not in Implicit.v (the schemas of
   component dfltmodel have none) - only its resolution loop is modelled, separately, in WhenRes.v (theorems
   C07_when_resolution_* at the end; no combined theorem).
   With LYD_VALIDATE_PRESENT an EMPTY tree is not validated at all (no module has data): validate_all sch [] = Ok ([], []).

   Deviations of libyang from the full statements (each with a witness below; all are listed findings):
     dflt-leaflist-partial      one of several default leaf-list instances freed: not restored
     vdiff-np-container         the auto-deletion of an (empty) default NP container is not in the change list
     wd-leaflist-partial-default  trim mode drops an explicit leaf-list instance equal to ONE of the default values *)
From LY Require Import Base Tree TreeP Implicit ImplicitP WithDefaults WithDefaultsP WhenRes.
From Coq Require Import Permutation.
Local Open Scope N_scope.

(* ------------------------------------------------------------------------------------------- *)
(* idempotence                                                                                   *)
(* ------------------------------------------------------------------------------------------- *)
(* Validating a tree that is in normal form changes nothing and reports an EMPTY change list (not even the internal
   sequence of lyd_val_diff_add calls holds an entry): if validation of f gave g and g is the normal form, then a second
   validation of g, if it answers, answers g with no change.
   Partial: (1) hypothesis normalb g - it FAILS for the deviation dflt-leaflist-partial (witness below); the correspondence run evaluates it on every tree libyang produces and reports a tree that is not
   normal; C07_implicit_exact_partial proves it for freshly parsed input. (2) That the second validation does not end in
   an error (mandatory / min-elements / duplicate checks pass again, fuel) is not proved here; the correspondence run and
   the API oracle validate-idem observe it.
   WHAT SEPARATES IT FROM THE FULL STATEMENT "for every f: validate (validate f) = validate f with an empty change set":
     (a) normalb sch g. Discharged by proof for edited input (C07_validate_idempotent_edited, any tree after edits that
         flag what they touch) and for freshly parsed input (_fresh); NOT dischargeable in general: the C-side reason is
         the open finding dflt-leaflist-partial (lyd_new_implicit adds leaf-list defaults only when NO instance exists;
         replayed on every run and still reproduced) - the former second reason, dflt-nested-case-leftover,
         was removed by 357db45 and its hypothesis went with it. The later fixes do not bear on (a): 7ad8277 concerns
         the ORDER of top-level nodes (C07_validate_canon / property C04), 7b3176d, 6d13b8c, 3ea8124 concern `when`,
         which Implicit.v does not model (see WhenRes.v below).
     (b) "the second validation answers". No C-side reason is known (no generated history ever showed a second
         validation failing other than through finding vdiff-np-recreate, which needs the diff argument); what is
         missing is a proof that Implicit.level returns Ok on a normal tree (duplicate check, the fuel bounds dfuel /
         cfuel) and that check_level accepts g again after np_set changed container flags.
     (c) chc_okb sch: well-formedness of the choice chains of the schema encoding, executable, checked on every
         generated schema (field K of the correspondence run); not a restriction on libyang. *)
Theorem C07_validate_idempotent_partial : forall sch f g d,
  chc_okb sch = true ->
  validate_all sch f = Ok (g, d) -> normalb sch g = true ->
  forall g' d', validate_all sch g = Ok (g', d') -> g' = g /\ d' = [].
Proof. intros sch f g d Hk _ Hn g' d' H. exact (validate_normal_fixpoint sch g g' d' Hk Hn H). Qed.
Print Assumptions C07_validate_idempotent_partial.

(* ------------------------------------------------------------------------------------------- *)
(* the implicit nodes are exact                                                                  *)
(* ------------------------------------------------------------------------------------------- *)
(* For freshly parsed input - every node new and explicit, no empty non-presence container (Implicit.freshb; what
   LYD_PARSE_ONLY yields for a document without default attributes), canonical -
   a successful validation reaches THE normal form: the default-flagged nodes of the result are exactly the defaults RFC 7950
   requires for its explicit nodes (normalb), and the explicit content is that of the input (nothing explicit is deleted,
   nothing explicit is made up). Partial: freshly parsed canonical input only; histories are covered by
   C07_implicit_exact_edited_partial below (which drops Canon but not the conclusion strip g = strip f - edits may make
   validation delete explicit nodes of a superseded case).
   WHAT SEPARATES IT FROM THE FULL STATEMENT "for every f": Canon + freshb (a special case of editedb, see below) and
   the treatment of the EMPTY tree: LYD_VALIDATE_PRESENT validates only modules that have data, so for f = [] nothing is
   created and the result is the normal form iff the schema asks for no top-level implicit node - this is by design,
   not a defect, and is now stated exactly (hypothesis f = [] -> normalb sch [] = true instead of f <> []). *)
Theorem C07_implicit_exact_partial : forall sch f g d,
  chc_okb sch = true -> Canon sch f -> freshb sch f = true -> (f = [] -> normalb sch [] = true) ->
  validate_all sch f = Ok (g, d) -> normalb sch g = true /\ strip g = strip f.
Proof.
  intros sch f g d Hk Hc Hf He H. destruct f as [|x f0].
  - cbn in H. inversion H; subst. split; [exact (He eq_refl)|reflexivity].
  - apply (validate_fresh_normal sch (x :: f0) g d Hk Hc Hf); [discriminate|exact H].
Qed.
Print Assumptions C07_implicit_exact_partial.

(* The same for EDITED data (Implicit.editedb, executable; freshly parsed canonical data are a special case,
   ImplicitP.fresh_edited): a tree - typically a validated one - after any edits that mark what they touch as new: nodes
   freed, values changed, nodes created by path, moved with lyd_insert_*, created by lyd_diff_apply next to the default
   instances they supersede. Per sibling list a new node is explicit, the default-flagged instances of a schema node are
   none or the complete set with no old explicit instance beside them, nodes sit under their schema parent, terminal
   nodes have no children, a non-presence container is default-flagged iff its children are. The siblings need NOT be
   canonical (duplicates of a leaf are allowed as long as validation can resolve them). Then a successful validation
   reaches the normal form: the cases are resolved (lyd_validate_choice_r leaves at most one case per choice populated -
   proved for arbitrary input), superseded and left-over defaults are gone (the closed form of the node loop of
   lyd_validate_new; lyd_validate_autodel_case_dflt as of 357db45), the missing defaults are created.
   Partial: the hypothesis excludes the remaining deviation dflt-leaflist-partial (one of several default leaf-list
   instances freed: the default set is not complete) and nodes that are new AND default (documents with default
   attributes parsed without validation, empty NP containers created by path); both are covered by the correspondence run
   only.
   WHAT SEPARATES IT FROM THE FULL STATEMENT "for every f: a successful validation reaches the normal form": editedb,
   i.e. exactly three input classes
     (1) an INCOMPLETE set of default-flagged leaf-list instances, or default instances beside an OLD explicit one:
         the conclusion is FALSE there (C07_implicit_exact_refuted_leaflist; C defect dflt-leaflist-partial, open,
         its replay still fails) - this part of the hypothesis cannot go before libyang changes;
     (2) nodes that are new AND default: no counterexample is known (about 10% of the generated histories are of
         this class and all reach the normal form); what is missing is the closed form of the node loop of
         lyd_validate_new (ImplicitP.vnew_loop_form) for new default nodes, which the loop treats as superseding
         older defaults of the same schema node;
     (3) structural well-formedness (nodes under their schema parent, terms without children, NP container flag iff
         its children are default): holds for every tree libyang builds, executable, evaluated on every generated
         tree (field H).
   None of the libyang fixes since (7ad8277 order of top-level nodes, 7b3176d / 6d13b8c / 3ea8124 when resolution)
   touches these: the first is about Canon, which this theorem does not need, the others about `when`.
   The empty tree is treated as in C07_implicit_exact_partial. *)
Theorem C07_implicit_exact_edited_partial : forall sch f g d,
  chc_okb sch = true -> editedb sch f = true -> (f = [] -> normalb sch [] = true) ->
  validate_all sch f = Ok (g, d) -> normalb sch g = true.
Proof.
  intros sch f g d Hk Hed He H. destruct f as [|x f0].
  - cbn in H. inversion H; subst. exact (He eq_refl).
  - apply (validate_edited_normal sch (x :: f0) g d Hk Hed); [discriminate|exact H].
Qed.
Print Assumptions C07_implicit_exact_edited_partial.

(* edit, validate, validate: the second validation changes nothing and reports an empty change list (also for the empty
   tree, which LYD_VALIDATE_PRESENT leaves alone: the hypothesis f <> [] of earlier versions is gone) *)
Theorem C07_validate_idempotent_edited : forall sch f g d g' d',
  chc_okb sch = true -> editedb sch f = true ->
  validate_all sch f = Ok (g, d) -> validate_all sch g = Ok (g', d') -> g' = g /\ d' = [].
Proof.
  intros sch f g d g' d' Hk He H1 H2. destruct f as [|x f0].
  - cbn in H1. inversion H1; subst. cbn in H2. inversion H2; subst. split; reflexivity.
  - assert (Hne : x :: f0 <> []) by discriminate.
    exact (validate_normal_fixpoint sch g g' d' Hk (validate_edited_normal sch (x :: f0) g d Hk He Hne H1) H2).
Qed.
Print Assumptions C07_validate_idempotent_edited.

(* parse, validate, validate: the second validation of freshly parsed data changes nothing and reports nothing (no
   f <> [] any more) *)
Theorem C07_validate_idempotent_fresh : forall sch f g d g' d',
  chc_okb sch = true -> Canon sch f -> freshb sch f = true ->
  validate_all sch f = Ok (g, d) -> validate_all sch g = Ok (g', d') -> g' = g /\ d' = [].
Proof.
  intros sch f g d g' d' Hk Hc Hf H1 H2. destruct f as [|x f0].
  - cbn in H1. inversion H1; subst. cbn in H2. inversion H2; subst. split; reflexivity.
  - assert (Hne : x :: f0 <> []) by discriminate.
    destruct (validate_fresh_normal sch (x :: f0) g d Hk Hc Hf Hne H1) as [Hn _].
    exact (validate_normal_fixpoint sch g g' d' Hk Hn H2).
Qed.
Print Assumptions C07_validate_idempotent_fresh.

(* regression case of the former finding dflt-nested-case-leftover (libyang 357db45; lyd_validate_autodel_case_dflt now
   walks up over enclosing default cases):
     choice ch { case a { leaf e; leaf d {default 1}; choice n { default n1; case n1 { leaf y {default 2} } } }
                 case b { leaf z } }  leaf w;
   <e>q</e><w>w</w> is validated (normal form e, d, y, w), then e is freed. Validation now removes the left-over defaults
   d and y: the result is w alone, the normal form of the explicit content, and a fixpoint with an empty change list. *)
Theorem C07_nested_case_regression :
  exists sch f g,
    schema_okb sch = true /\ chc_okb sch = true /\ Canon sch f /\ np_flagsb sch f = true /\ flag_soundb sch f = true /\
    editedb sch f = true /\
    (exists d, validate_all sch f = Ok (g, d)) /\ normalb sch g = true /\ strip f = g /\ validate_all sch g = Ok (g, []).
Proof.
  destruct w1_facts as [H1 [H2 [_ [_ [H5 [H6 [H7 [H8 [H9 [H10 H11]]]]]]]]]].
  apply (proj1 (canonb_spec _ _ _)) in H5.
  exists w1_sch, w1_freed, w1_after.
  split; [exact H1|]. split; [exact H2|]. split; [exact H5|]. split; [exact H6|]. split; [exact H7|]. split; [exact w1_f12|].
  split; [exact H8|]. split; [exact H9|]. split; [exact H10|exact H11].
Qed.
Print Assumptions C07_nested_case_regression.

(* the class of seeded change C02-5, explicitly: a choice nested three deep,
     choice c0 { case a { leaf da {default 1} container np { leaf dn {default 2} }
                          choice c1 { case b { leaf db {default 3} choice c2 { case c { leaf x } case c' { leaf y {default 4} } } } } }
                 case z { leaf q } }
   with <x/> as the ONLY explicit node. Validation creates the implicit nodes of every enclosing case (da, np { dn }, db; not
   y, not q), that tree is the normal form and a fixpoint; the tree with the explicit content alone - what a walk that stops
   at the innermost case leaves - is NOT the normal form. (For arbitrary schemas and fresh / edited input this is
   C07_implicit_exact_partial / _edited_partial: normalb asks, per schema node, for the defaults of every case on the chain
   that holds an explicit node at any depth - Implicit.active.) *)
Theorem C07_nested_case_outer_defaults :
  exists sch f g,
    schema_okb sch = true /\ chc_okb sch = true /\ Canon sch f /\ freshb sch f = true /\
    (exists d, validate_all sch f = Ok (g, d)) /\ normalb sch g = true /\ validate_all sch g = Ok (g, []) /\
    length g = 4%nat /\ normalb sch (strip g) = false.
Proof.
  exists w4_sch, w4_parsed, w4_valid.
  split; [exact w4_f1|]. split; [exact w4_f2|]. split; [apply (proj1 (canonb_spec _ _ _)); exact w4_f3|].
  split; [exact w4_f4|]. split; [exists w4_d0; exact w4_f5|]. split; [exact w4_f6|]. split; [exact w4_f7|].
  split; [reflexivity|]. rewrite w4_f9. exact w4_f8.
Qed.
Print Assumptions C07_nested_case_outer_defaults.

(* refuted in general (dflt-leaflist-partial): leaf-list ll { default x; default y } leaf z; <z>q</z> is
   validated (ll = x, y default), the instance x is freed; validation leaves ll = y (default-flagged) and reports no change *)
Theorem C07_implicit_exact_refuted_leaflist :
  exists sch f,
    schema_okb sch = true /\ chc_okb sch = true /\ Canon sch f /\ flag_soundb sch f = true /\ editedb sch f = false /\
    validate_all sch f = Ok (f, []) /\ normalb sch f = false.
Proof.
  destruct w2_facts as [H1 [H2 [_ [_ [H5 [H6 [H7 H8]]]]]]].
  apply (proj1 (canonb_spec _ _ _)) in H5.
  exists w2_sch, w2_freed.
  split; [exact H1|]. split; [exact H2|]. split; [exact H5|]. split; [exact H6|]. split; [exact w2_f9|]. split; [exact H7|exact H8].
Qed.
Print Assumptions C07_implicit_exact_refuted_leaflist.

(* ------------------------------------------------------------------------------------------- *)
(* a node reported as default holds its schema default                                           *)
(* ------------------------------------------------------------------------------------------- *)
(* validation (and lyd_new_implicit_all) keep the default flag sound: if every default-flagged node of the input is a
   leaf / leaf-list instance holding one of its schema defaults or a non-presence container, so is every one of the
   result - in particular every node validation itself flags (the created ones, the containers flagged by
   lyd_np_cont_dflt_set). Parsed input has no default-flagged terms, so the hypothesis holds at the start of a history
   and is carried through it by this theorem (edits between validations: lyd_change_term keeps the flag only for the
   default value). *)
Theorem C07_dflt_flag_sound : forall sch f g d,
  flag_soundb sch f = true -> validate_all sch f = Ok (g, d) -> flag_soundb sch g = true.
Proof. exact flag_sound_validate. Qed.
Print Assumptions C07_dflt_flag_sound.

Theorem C07_dflt_flag_sound_implicit : forall sch nostate f g d,
  flag_soundb sch f = true -> implicit_all sch nostate f = Ok (g, d) -> flag_soundb sch g = true.
Proof. exact flag_sound_implicit. Qed.
Print Assumptions C07_dflt_flag_sound_implicit.

(* ------------------------------------------------------------------------------------------- *)
(* the canonical order is kept                                                                   *)
(* ------------------------------------------------------------------------------------------- *)
(* validation (auto-deletion, creation of the implicit nodes with lyd_insert_node = Tree.insert_node, the bottom-up flag
   pass) and lyd_new_implicit_all keep the tree canonical: siblings in schema order, instances contiguous and (system
   ordered) sorted, one instance of a leaf / container, list instances with their keys, recursively. Schema hypotheses
   (executable, checked on every generated schema): unique schema ids, keys lead (schema_okb), key leaves have no default
   and are not in a choice. Uses Tree.insert_node_canon for every created node. *)
Theorem C07_validate_canon : forall sch f g d,
  sids_uniqb sch = true -> schema_okb sch = true -> keys_plainb sch = true ->
  Canon sch f -> validate_all sch f = Ok (g, d) -> Canon sch g.
Proof. exact validate_canon. Qed.
Print Assumptions C07_validate_canon.

Theorem C07_implicit_all_canon : forall sch nostate f g d,
  sids_uniqb sch = true -> schema_okb sch = true -> keys_plainb sch = true ->
  Canon sch f -> implicit_all sch nostate f = Ok (g, d) -> Canon sch g.
Proof. exact implicit_all_canon. Qed.
Print Assumptions C07_implicit_all_canon.

(* ------------------------------------------------------------------------------------------- *)
(* the change list                                                                               *)
(* ------------------------------------------------------------------------------------------- *)
(* refuted in general (vdiff-np-container): choice ch { case a { container c; leaf e } case b { leaf z } }; <e>q</e> is
   validated (c default, e), e is freed; validation deletes the left-over default container c (the tree becomes empty)
   but the change list holds only the silent entry: replaying it on the tree before leaves c; replaying it with the silent
   entry included gives the tree after *)
Theorem C07_change_set_exact_refuted :
  exists sch f d,
    schema_okb sch = true /\ chc_okb sch = true /\ Canon sch f /\
    validate_all sch f = Ok ([], d) /\ changes_idb sch d = true /\
    np_norm sch (apply_changes sch d f) = f /\ f <> [] /\
    np_norm sch (apply_changes_all sch d f) = [].
Proof.
  destruct w3_facts as [H1 [H2 [_ [H4 [d [H5 [H6 [H7 H8]]]]]]]].
  apply (proj1 (canonb_spec _ _ _)) in H4.
  exists w3_sch, w3_freed, d.
  split; [exact H1|]. split; [exact H2|]. split; [exact H4|]. split; [exact H5|]. split; [exact H6|].
  split; [exact H7|]. split; [discriminate|exact H8].
Qed.
Print Assumptions C07_change_set_exact_refuted.

(* ------------------------------------------------------------------------------------------- *)
(* with-defaults modes                                                                           *)
(* ------------------------------------------------------------------------------------------- *)
(* for every mode (explicit, trim, report-all, report-all-tagged in both taggings) what the printer emits - which nodes,
   and which terms carry the default attribute - is the RFC 6243 view of the tree: terms by the mode's rule (3.1 all; 3.2
   trim: not if the node contains the schema default value; 3.3 explicit: not if default-flagged, except non-configuration
   nodes; 3.4 tags), lists / presence containers / anydata always, a non-presence container iff something below it is
   reported. Hypothesis wd_wf_forest (executable, evaluated by the correspondence run on every printed tree): flags are
   consistent - sound default flags (C07_dflt_flag_sound), NP container flagged iff all children are (normal form) - and
   no explicit leaf-list instance equals one default value while the leaf-list as a whole differs from its default (the
   deviation below). LYD_PRINT_KEEPEMPTYCONT (not an RFC notion) is off; with it the printer is only tied by the
   correspondence run.
   WHAT SEPARATES IT FROM THE FULL STATEMENT "for every tree": wd_wf_forest, three clauses -
     (1) no explicit leaf-list instance equal to ONE of several default values while the leaf-list differs from its
         default: the conclusion is FALSE there (C07_wd_modes_rfc6243_refuted; C defect wd-leaflist-partial-default,
         lyd_is_default works per instance; open, its replay still fails) - cannot go before libyang changes;
     (2) sound default flags: a property of the producer, proved for validation and lyd_new_implicit_all
         (C07_dflt_flag_sound, _implicit) - for trees made by these two the clause could be discharged, the lemma
         "validate_all preserves / establishes wd_wf_forest" is not written;
     (3) NP container flag iff all children default: part of the normal form (normalb), so it holds for the result of
         every validation covered by C07_implicit_exact_edited_partial.
   No libyang fix since touched the printer's selection (7ad8277 / 7b3176d / 6d13b8c / 3ea8124 are about insertion order and
   when resolution). *)
Theorem C07_wd_modes_rfc6243_partial : forall sch mode f,
  wd_wf_forest sch f = true -> wd_print_forest sch mode false f = rfc_view_forest sch mode false f.
Proof. exact wd_forest_rfc. Qed.
Print Assumptions C07_wd_modes_rfc6243_partial.

(* refuted without the leaf-list hypothesis (wd-leaflist-partial-default): leaf-list ll { default x; default y } with the
   single explicit instance x: trim prints nothing, RFC 6243 reports the instance *)
Theorem C07_wd_modes_rfc6243_refuted :
  exists sch f, Canon sch f /\ wd_print_forest sch WdTrim false f <> rfc_view_forest sch WdTrim false f.
Proof.
  exists wit_sch, wit_tree. destruct wd_trim_leaflist_refuted as [H1 [H2 H3]].
  split; [apply (proj1 (canonb_spec _ _ _)); exact H1|]. rewrite H2, H3. discriminate.
Qed.
Print Assumptions C07_wd_modes_rfc6243_refuted.

Local Close Scope N_scope.
(* ---- when resolution (WhenRes.v: the fixpoint of lyd_validate_unres_when as of 7b3176d on a flat abstraction; wrun p w Q
   runs it with fuel = number of queued nodes on the world w - present (node, value) entries - and the set Q of queued
   (node, was-true-before) pairs, conditions p over the presence / value of smaller-numbered nodes) *)

(* the loop ends with every condition resolved or with an error: the assertion "no cyclic when dependencies" holds *)
Theorem C07_when_resolution_terminates : forall p w Q, acyclicb p = true -> wrun p w Q <> Stuck.
Proof. exact wrun_terminates. Qed.
Print Assumptions C07_when_resolution_terminates.

(* the resulting tree (or the fact that the data are invalid) does not depend on the order of the set *)
Theorem C07_when_resolution_order_independent : forall p w Q1 Q2,
  acyclicb p = true -> NoDup (map fst Q1) -> Permutation Q1 Q2 ->
  (forall w', wrun p w Q1 = Done w' -> wrun p w Q2 = Done w') /\
  ((exists n, wrun p w Q1 = Err n) -> exists n, wrun p w Q2 = Err n).
Proof. exact wrun_order_independent. Qed.
Print Assumptions C07_when_resolution_order_independent.

(* resolving again what survived (every node now "was true") deletes nothing and reports no error *)
Theorem C07_when_resolution_idempotent : forall p w Q w',
  acyclicb p = true -> NoDup (map fst Q) -> wrun p w Q = Done w' ->
  exists D, w' = wof nat w D /\ wrun p w' (requeue Q D) = Done w'.
Proof. exact wrun_idempotent. Qed.
Print Assumptions C07_when_resolution_idempotent.

(* resolution in phases - lyd_new_implicit_module resolves the new top-level nodes first and then the new nested nodes -
   equals one resolution of all queued nodes when no condition of the first phase reads a node queued in the second *)
Theorem C07_when_resolution_phases : forall p w Q1 Q2 w1 w2,
  acyclicb p = true -> NoDup (map fst (Q1 ++ Q2)) ->
  (forall n wt d, In (n, wt) Q1 -> In d (pdeps p n) -> ~ In d (map fst Q2)) ->
  wrun p w Q1 = Done w1 -> wrun p w1 Q2 = Done w2 -> wrun p w (Q1 ++ Q2) = Done w2.
Proof. exact wrun_split. Qed.
Print Assumptions C07_when_resolution_phases.

(* ... also when the world gains NEW entries E between the phases (the nested default nodes are created only after the
   top-level ones were resolved), provided no condition of the first phase reads a node of the second set or a new entry *)
Theorem C07_when_resolution_phases_ext : forall p w E Q1 Q2 w1 w2,
  acyclicb p = true -> NoDup (map fst (Q1 ++ Q2)) ->
  (forall n wt d, In (n, wt) Q1 -> In d (pdeps p n) -> ~ In d (map fst Q2) /\ entries nat d E = []) ->
  (forall x, In x (map fst Q1) -> entries nat x E = []) ->
  wrun p w Q1 = Done w1 -> wrun p (w1 ++ E) Q2 = Done w2 -> wrun p (w ++ E) (Q1 ++ Q2) = Done w2.
Proof. exact wrun_split_ext. Qed.
Print Assumptions C07_when_resolution_phases_ext.

(* regression instance for the class of seeded change C07-8 (top-level nodes resolved only after the nested ones):
   mode (0, explicit, value 0), top-level default flag (1, when "mode = 7": false), nested default extra (2, when
   "flag = 1"). Top-level phase then nested phase, and ONE resolution of both, delete both defaults; resolving extra
   while the doomed flag still exists keeps it (fifth fact), and the later top-level phase leaves extra behind (sixth). *)
Example C07_when_phase_order_regression :
  acyclicb ph_prog = true /\
  wrun ph_prog (ph_w ++ [(1, 1)]) [(1, true)] = Done ph_w /\
  wrun ph_prog (ph_w ++ [(2, 5)]) [(2, true)] = Done ph_w /\
  wrun ph_prog (ph_w ++ [(1, 1)] ++ [(2, 5)]) ([(1, true)] ++ [(2, true)]) = Done ph_w /\
  wrun ph_prog (ph_w ++ [(1, 1)] ++ [(2, 5)]) [(2, true)] = Done (ph_w ++ [(1, 1)] ++ [(2, 5)]) /\
  wrun ph_prog (ph_w ++ [(1, 1)] ++ [(2, 5)]) [(1, true)] = Done (ph_w ++ [(2, 5)]).
Proof. exact ph_facts. Qed.
Print Assumptions C07_when_phase_order_regression.

(* the entry of lyd_new_implicit_tree / _module / _all - only nodes the call created are queued, all marked was-true -
   never ends in an error and never with unresolved nodes: false conditions delete *)
Theorem C07_when_resolution_implicit_entry : forall p w Q,
  acyclicb p = true -> forallb snd Q = true -> exists w', wrun p w Q = Done w'.
Proof. exact wrun_all_true_done. Qed.
Print Assumptions C07_when_resolution_implicit_entry.

(* HOW THIS LAYER RELATES TO Implicit.validate_all - stated, not proved. libyang's validation of data with `when` is
     validate = final checks o when-resolution o (node loop + lyd_new_implicit);
   Implicit.validate_all is the outer two without the middle one, WhenRes.run is the middle one on a flat world. On the
   common subset (one level of leaves, world_of g = the (sid, value) entries of g, queue_of g = its conditional nodes,
   default nodes and nodes validated before marked was-true) the missing statement is
     validate_when sch p f := validate_all sch f >>= fun (g, d) => wrun p (world_of g) (queue_of g)
     CONJECTURE  validate_when sch p f = Done w  ->  validate_when sch p (forest_of w) = Done w
   i.e. the second validation creates exactly the default nodes the first resolution deleted (completeness of
   lyd_new_implicit, ImplicitP.implicit_complete) and the resolution deletes exactly them again (run_complete with the
   stable solution D of the first run - C07_when_resolution_idempotent covers the case D = []). What is missing is the
   lemma that validate_all of (normal tree minus default nodes D) gives the normal tree back - uniqueness of the normal
   form for a given explicit content - and the translation forest <-> world. The open finding when-autodel-default-case
   shows the conjecture is FALSE as soon as choices are in the subset (an explicit case node deleted by the resolution
   needs lyd_new_implicit to run again), so the subset must exclude when on case members. The T2 runner of component
   whenres computes exactly this composition (missing defaults created first, then wrun) and agrees with libyang on
   every generated history. *)

(* the same three statements for ANY conditions that read only their declared dependencies, acyclic by some rank *)
Theorem C07_when_resolution_generic : forall (val : Type) (cond : nat -> list (nat * val) -> bool) (deps : nat -> list nat)
    (rank : nat -> nat),
  (forall n d, In d (deps n) -> rank d < rank n) ->
  (forall n w1 w2, agree val (deps n) w1 w2 -> cond n w1 = cond n w2) ->
  forall w Q1 Q2 f1 f2, NoDup (map fst Q1) -> Permutation Q1 Q2 -> length Q1 <= f1 -> length Q2 <= f2 ->
    run val cond deps f1 w Q1 <> Stuck /\
    (forall w', run val cond deps f1 w Q1 = Done w' -> run val cond deps f2 w Q2 = Done w') /\
    ((exists n, run val cond deps f1 w Q1 = Err n) -> exists n, run val cond deps f2 w Q2 = Err n).
Proof. intros val cond deps rank A C w Q1 Q2 f1 f2 ND P L1 L2. split.
  - exact (run_terminates val cond deps rank A f1 w Q1 L1).
  - exact (run_order_independent val cond deps rank A C w Q1 Q2 f1 f2 ND P L1 L2).
Qed.
Print Assumptions C07_when_resolution_generic.
Local Open Scope N_scope.

(* the hypotheses are satisfiable by a non-trivial value: the first witness schema (nested choices with a default case),
   parsed input e, w: validation succeeds, the result (e, d default, y default, w) is the normal form, its flags are
   sound and consistent for printing, and validating it again changes nothing *)
Example C07_hypotheses_satisfiable :
  chc_okb w1_sch = true /\ schema_okb w1_sch = true /\ sids_uniqb w1_sch = true /\ keys_plainb w1_sch = true /\
  canonb w1_sch None w1_parsed = true /\ freshb w1_sch w1_parsed = true /\
  (exists d, validate_all w1_sch w1_parsed = Ok (w1_valid, d) /\ d <> []) /\
  normalb w1_sch w1_valid = true /\ flag_soundb w1_sch w1_valid = true /\ wd_wf_forest w1_sch w1_valid = true /\
  validate_all w1_sch w1_valid = Ok (w1_valid, []).
Proof. vm_compute. repeat split; try reflexivity. eexists. split; [reflexivity|discriminate]. Qed.
