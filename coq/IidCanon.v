(* IidCanon.v — the canonical string of instance-identifier / node-instance-identifier values (slice types2, property C03):
     printer  src/plugins_types/instanceid.c instanceid_path2str() and node_instanceid.c node_instanceid_path2str() in the
              JSON / canonical format: "/" [module ":"] name, the module printed when it differs from the previous node's;
              key predicates [name='value'], leaf-list predicates [.='value'], position predicates [n]; the quote of EVERY
              predicate value is chosen for that value (single quote unless the value holds one) - PathQuote.quote_for;
     reader   the simple-path grammar of ly_path_parse() / ly_path_compile() with LY_PATH_PREFIX_STRICT_INHERIT and
              LY_PATH_PRED_SIMPLE restricted to the shapes the printer writes (no blanks), the Literal token of the XPath
              tokenizer (PathQuote.path_literal).
   Built on PathQuote.v (predicate printer, tokenizer, parse_pred). Model only; proofs in IidCanonP.v. *)
From LY Require Import Base TypesMisc PathQuote.
Local Open Scope N_scope.

Inductive ipred : Type :=
| PKey (k v : bytes)        (* [k='v'] *)
| PLeaf (v : bytes)         (* [.='v'] *)
| PPos (n : N).             (* [n] *)
(* (module name, node name, predicates) *)
Definition iseg : Type := (bytes * bytes * list ipred)%type.

Definition print_pred (p : ipred) : bytes :=
  match p with
  | PKey k v => list_pred k v
  | PLeaf v => leaflist_pred v
  | PPos n => [91] ++ N_to_dec n ++ [93]
  end.

(* LY_ARRAY_FOR(path, u): if (!inherit_prefix || (mod != path[u].node->module)) "/%s:%s" else "/%s"; then the predicates *)
Fixpoint print_segs (prev : bytes) (p : list iseg) : bytes :=
  match p with
  | [] => []
  | (m, n, ps) :: r =>
      47 :: (if beq_bytes m prev then n else m ++ 58 :: n) ++ concat (map print_pred ps) ++ print_segs m r
  end.
Definition iid_print (p : list iseg) : bytes := print_segs [] p.

(* the variant of seeded change C03-8: the quote variable is initialised once and never reset, so every predicate after a
   value with an apostrophe is written with the double quote *)
Definition list_pred_q (q : N) (name v : bytes) : bytes := [91] ++ name ++ [61; q] ++ v ++ [q; 93].
Fixpoint print_preds_hoisted (q : N) (ps : list ipred) : bytes :=
  match ps with
  | [] => []
  | PKey k v :: r => let q' := if pq_has q v then 34 else q in list_pred_q q' k v ++ print_preds_hoisted q' r
  | p :: r => print_pred p ++ print_preds_hoisted q r
  end.

(* ---------- reader ---------- *)
(* [ digits ] ; [s] is the input after the bracket *)
Definition parse_pos (s : bytes) : option (N * bytes) :=
  let '(ds, r) := span_digits s in
  match ds, r with
  | _ :: _, c :: r' => if c =? 93 then Some (dec_to_N ds, r') else None
  | _, _ => None
  end.

Fixpoint parse_preds (fuel : nat) (s : bytes) : option (list ipred * bytes) :=
  match fuel with
  | O => None
  | S f =>
      match s with
      | a :: c :: t =>
          if negb (a =? 91) then Some ([], s)
          else if is_digit c then
            match parse_pos (c :: t) with
            | Some (n, r) => match parse_preds f r with Some (ps, r') => Some (PPos n :: ps, r') | None => None end
            | None => None
            end
          else
            match parse_pred path_literal s with
            | Some (Some k, v, r) => match parse_preds f r with Some (ps, r') => Some (PKey k v :: ps, r') | None => None end
            | Some (None, v, r) => match parse_preds f r with Some (ps, r') => Some (PLeaf v :: ps, r') | None => None end
            | None => None
            end
      | _ => Some ([], s)
      end
  end.

Fixpoint parse_segs (fuel : nat) (prev : bytes) (s : bytes) : option (list iseg) :=
  match fuel with
  | O => None
  | S f =>
      match s with
      | [] => Some []
      | c0 :: s1 =>
          if negb (c0 =? 47) then None else
          let '(n1, s2) := span_name s1 [] in
          let '(m, n, s3) :=
            match s2 with
            | c :: s2' =>
                if c =? 58 then let '(n2, s3) := span_name s2' [] in (n1, n2, s3)
                else (prev, n1, s2)     (* LY_PATH_PREFIX_STRICT_INHERIT: the module of the previous node *)
            | [] => (prev, n1, s2)
            end in
          if name_ok m && name_ok n then
            match parse_preds (S (length s3)) s3 with
            | Some (ps, s4) =>
                match parse_segs f m s4 with
                | Some r => Some ((m, n, ps) :: r)
                | None => None
                end
            | None => None
            end
          else None
      end
  end.
Definition iid_parse (s : bytes) : option (list iseg) := parse_segs (S (length s)) [] s.
