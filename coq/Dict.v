(* Dict.v - model of the string dictionary of src/dict.c on top of HashTable.v.

   A record (struct ly_dict_rec) is (string, refcount); strings are byte lists without NUL.
   The three callbacks of dict.c are modelled by one relation, equality of the strings:
     lydict_val_eq          strncmp(str1, str2, len) == 0 && str2[len] == 0   (len = cb_data)
     lydict_resize_val_eq   mod: strcmp(str1, str2) == 0;  !mod: str1 == str2 (pointers)
   On the records of a dictionary (stored strings are NUL-terminated and pairwise different, see
   DictP.dinv) these decide the same relation: the pointer comparison is only applied to a pointer
   the dictionary itself handed out.  Not modelled: allocation failure, the zero-copy variant
   (same table effect), strings with an embedded NUL given with an explicit length (they can be
   inserted but never removed, lydict_remove() uses strlen). *)
From LY Require Import Base HashFn HashTable.
From LY.Gen Require Import Consts.
Local Open Scope N_scope.

Definition dval : Type := bytes * N.
Definition dvdef : dval := ([], 0).
Definition dveq (_ : bool) (a b : dval) : bool := beq_bytes (fst a) (fst b).
Definition dict : Type := ht dval.

Definition LYDICT_MIN_SIZE : N := 1024.       (* dict.c:29 *)

(* lydict_init(); [sz = 0] is the real starting size, other sizes are used by the driver to reach
   the resize code with few strings *)
Definition lydict_init (sz : N) : res dict :=
  lyht_new dvdef (if sz =? 0 then LYDICT_MIN_SIZE else sz) 1.

(* dict_insert() (dict.c:177-224) under lydict_insert(): code, returned string, dictionary *)
Definition lydict_insert (d : dict) (s : bytes) : res (N * bytes * dict) :=
  bind (insert dvdef dveq d true true (lyht_hash s) (s, 1)) (fun x =>
    let c := fst (fst x) in
    let i := snd (fst x) in
    let d1 := snd x in
    bind (rd (ht_recs d1) i) (fun r =>
      if c =? LY_ERR_EEXIST then
        (* match->refcount++ *)
        bind (set_val d1 i (fst (r_val r), (snd (r_val r) + 1) mod U32)) (fun d2 =>
          Ok (LY_ERR_SUCCESS, fst (r_val r), d2))
      else
        (* LY_SUCCESS: match->value = copy of the string *)
        Ok (c, fst (r_val r), d1))).

(* lydict_insert_zc() (dict.c:249-266) -> dict_insert(zerocopy = 1): the table effect and the answer are
   those of lydict_insert (the record is compared and stored by value; strlen replaces the explicit
   length).  Ownership of the caller's buffer, which the table model does not carry: it is always
   consumed - free()d when the string is already present (LY_EEXIST inside), adopted as the stored
   string otherwise (the driver checks returned pointer == buffer exactly in that case). *)
Definition lydict_insert_zc (d : dict) (s : bytes) : res (N * bytes * dict) := lydict_insert d s.

(* lydict_remove() (dict.c:122-175) *)
Definition lydict_remove (d : dict) (s : bytes) : res (N * dict) :=
  let h := lyht_hash s in
  bind (find_rec d (dveq false (s, 0)) h) (fun fr =>
    match fr with
    | None => Ok (LY_ERR_ENOTFOUND, d)
    | Some i =>
        bind (rd (ht_recs d) i) (fun r =>
          let c := (snd (r_val r) + U32 - 1) mod U32 in          (* match->refcount-- *)
          bind (set_val d i (fst (r_val r), c)) (fun d1 =>
            if c =? 0 then lyht_remove dvdef dveq d1 h (s, 0)
            else Ok (LY_ERR_SUCCESS, d1)))
    end).

(* dict_dup() (dict.c:268-293): the argument must be a pointer handed out by this dictionary; the
   lookup compares pointers, which on such pointers is equality of the strings *)
Definition lydict_dup (d : dict) (s : bytes) : res (N * bytes * dict) :=
  bind (find_rec d (dveq false (s, 0)) (lyht_hash s)) (fun fr =>
    match fr with
    | None => Ok (LY_ERR_ENOTFOUND, [], d)
    | Some i =>
        bind (rd (ht_recs d) i) (fun r =>
        bind (set_val d i (fst (r_val r), (snd (r_val r) + 1) mod U32)) (fun d1 =>
          Ok (LY_ERR_SUCCESS, fst (r_val r), d1)))
    end).

Inductive dop := DIns (s : bytes) | DRem (s : bytes) | DDup (s : bytes) | DInsZc (s : bytes).

(* result of one operation: code and returned string (empty for remove) *)
Definition dict_step (d : dict) (o : dop) : res (N * bytes * dict) :=
  match o with
  | DIns s => lydict_insert d s
  | DRem s => bind (lydict_remove d s) (fun x => Ok (fst x, [], snd x))
  | DDup s => lydict_dup d s
  | DInsZc s => lydict_insert_zc d s
  end.

Fixpoint dict_run (d : dict) (ops : list dop) (acc : list (N * bytes))
  : list (N * bytes) * res dict :=
  match ops with
  | [] => (rev acc, Ok d)
  | o :: ops' =>
      match dict_step d o with
      | Ok x => dict_run (snd x) ops' (fst x :: acc)
      | Err e => (rev acc, Err e)
      end
  end.
