(* Extract_types2.v — extraction of slice types2 (TypesMore, with IntLex for the union members) to model_types2.ml *)
From Coq Require Extraction ExtrOcamlBasic.
From LY Require Import Base TypesMisc IntLex Utf8 TypesMore PathQuote IidCanon IdRef.
Extraction Language OCaml.
Extraction "model_types2.ml"
  N.add N.mul N.div N.modulo N.sub Z.add Z.mul Z.opp Z.of_N Z.abs_N Z.sub Z.ltb
  TypesMore.enum_store TypesMore.enum_canon TypesMore.enum_compare TypesMore.enum_sort
  TypesMore.bits_store TypesMore.bits_canon TypesMore.bits_compare TypesMore.bits_sort TypesMore.bits_size TypesMore.le_bytes
  TypesMore.binary_store TypesMore.binary_canon TypesMore.binary_compare TypesMore.binary_sort TypesMore.b64_encode
  TypesMore.str_store TypesMore.str_compare TypesMore.str_sort TypesMore.utf8len
  TypesMore.union_store TypesMore.union_canon TypesMore.union_compare TypesMore.union_sort
  TypesMore.ip4p_store TypesMore.ip4p_compare
  IidCanon.iid_print IidCanon.iid_parse
  IdRef.idref_store IdRef.idref_canon IdRef.idref_compare IdRef.idref_sort.
