(* Properties_C05_yangstr.v - property C05 (arbitrary input never corrupts memory), counters of the quoted-string
   lexer of src/parser_yang.c: read_qstring(), buf_store_char(), buf_add_char() and the end of get_argument().
   Theorem statements only. Model: YangStr.v (word_len, buf_len, trailing_ws, block and current indentation,
   need_buf; every store recorded with the block size of the moment; the unchecked subtraction
   word_len - trailing_ws and the assert(need_buf) of the tab branch are explicit outcomes RUnderflow / RAssert);
   proofs: YangStrP.v.

   An event list stands for the text after the opening quote: other characters of 1 to 4 bytes, blanks, tabs,
   line feeds, valid and invalid escapes, invalid characters, closing quote + plus sign + opening quote of a
   further part (double- or single-quoted), the closing quote, the end of the input. The only hypothesis is
   that characters have 1 to 4 bytes (ly_getutf8); the first part may be double- or single-quoted and
   ctx->indent at the opening quote is arbitrary.

   Tie to the code (T2 component yangstr): the C driver calls the real get_argument() on texts rendered from
   event lists and reports return code, dynamic flag, word length and the sequence of malloc / realloc / free
   requests (macros around the allocator names, parser_yang.c is not edited); the model must produce the same
   line. The stores themselves are observed by ASan (the component also runs on the sanitizer build).
   The last theorem ties the length to RFC 7950 6.1.3 for one double-quoted string; WHICH bytes are kept (not
   only how many) is the business of slice ytext, property C10/C15. *)
From Coq Require Import NArith List Lia.
From LY Require Import YangStr YangStrP YangStrLen.
Import ListNotations.
Local Open Scope N_scope.

(* no underflow, no overflow: for EVERY event sequence, kind of the first quote and indentation, whenever
   trailing_ws is subtracted from word_len it is at most word_len (size_t does not wrap), the assert(need_buf) of
   the tab-in-indentation branch holds, and every store - the copy of the word into the fresh buffer, each
   character added by buf_add_char() after its single 16-byte growth step, the leftover blanks of a tab, the
   final NUL - lies inside the block as allocated at that moment *)
Theorem C05_yangstr_no_underflow :
  forall dq indent evs, Forall ev_wf evs ->
    match qstring dq indent evs with
    | (r, ws, _) => r <> RUnderflow /\ r <> RAssert /\ Forall wr_ok ws
    end.
Proof. exact no_underflow. Qed.
Print Assumptions C05_yangstr_no_underflow.

(* the computed length is the one of RFC 7950 6.1.3: for EVERY double-quoted string without concatenation,
   given as its lines (events of a line: characters of 1 to 4 bytes, blanks, tabs, valid escapes), whatever
   the column of the opening quote, get_argument() succeeds and the length it returns is the number of bytes
   the RFC keeps - per line the indentation up to the column after the opening quote is removed (a tab counts
   8 columns, the columns of a tab reaching over that column stay as blanks), the blanks and tabs before a
   line break are removed (trail_from 0 = number of blanks / tabs at the end of the line), an escape is one
   kept byte that is never trimmed, each line break is one byte. The specification rfc_len_lines (YangStrLen.v)
   works on the lines and knows nothing of word_len, trailing_ws, current_indent or the buffer *)
Theorem C05_yangstr_len_rfc :
  forall indent lines, lines <> [] -> Forall (Forall is_body) lines ->
    exists d, res_of (qstring true indent (join lines ++ [EEnd])) =
              ROk d (rfc_len_lines (indent + 1) (indent + 1) lines).
Proof. exact len_is_rfc. Qed.
Print Assumptions C05_yangstr_len_rfc.

(* the specification on a concrete string at column 2:   "ab<sp><sp><LF><sp><sp><sp><sp>c<tab><LF><tab>d<sp>"
   keeps  ab LF  <sp>c LF  <5 blanks>d<sp>  = 2+1 + 2+1 + 7 = 13 bytes *)
Example C05_yangstr_len_rfc_example :
  rfc_len_lines 3 3 [[EChar 1; EChar 1; ESpace; ESpace]; [ESpace; ESpace; ESpace; ESpace; EChar 1; ETab]; [ETab; EChar 1; ESpace]] = 13.
Proof. vm_compute. reflexivity. Qed.

(* regression, seeded change C05-3 (trailing_ws is not reset after the line break is stored): the same statement
   is false for that variant - two blanks, a line break and a second line break subtract 2 from a word_len
   of 1 - while the code as it is returns a word of 3 bytes for the same events *)
Example C05_yangstr_noreset_refuted :
  exists evs, Forall ev_wf evs /\
    (exists ws tr, qstring_noreset true 2 evs = (RUnderflow, ws, tr)) /\
    (exists ws tr, qstring true 2 evs = (ROk true 3, ws, tr)).
Proof. exists noreset_witness. exact noreset_underflows. Qed.
Print Assumptions C05_yangstr_noreset_refuted.

(* the hypotheses are satisfiable by a value that goes through the interesting paths: 20 characters read in place,
   trailing blanks trimmed at the line break (first need of the buffer: malloc of the 20 bytes), indentation
   skipped, a tab reaching over the block indentation (5 leftover blanks), an escape, a second single-quoted
   part, the final NUL *)
Example C05_yangstr_hypotheses_satisfiable :
  let evs := repeat (EChar 1) 20 ++ [ESpace; ESpace; ELf; ESpace; ETab; EChar 3; EEsc; EConcat false; ELf; EEnd] in
  Forall ev_wf evs /\
  qstring true 3 evs =
    (ROk true 31,
     [W 0 20 20; W 20 1 36; W 21 1 36; W 22 1 36; W 23 1 36; W 24 1 36; W 25 1 36; W 26 3 36; W 29 1 36; W 30 1 36; W 31 1 32],
     [AMalloc 20; ARealloc 36; ARealloc 32]).
Proof.
  intro evs. subst evs. split; [|vm_compute; reflexivity].
  apply Forall_app. split.
  - apply Forall_forall. intros e I. apply repeat_spec in I. subst. simpl. lia.
  - repeat first [apply Forall_nil | apply Forall_cons; [simpl; first [lia | exact I]|]].
Qed.
