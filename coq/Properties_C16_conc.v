(* Properties_C16_conc.v - property C16 (one context can be shared by concurrent readers), PARTIAL:
   theorem statements only. Model: Sched.v (the locking logic of dict.c, log.c, lyb.c and of the lazily cached
   canonical strings of plugins_types/*.c, the process-wide / thread-local logging options, the reference count of a
   shared compiled type and scratch buffers, as a state machine of atomic steps; a schedule is a list of thread ids);
   proofs: SchedP.v.
   What no theorem here can say: anything about the C11 memory model, about pthread mutexes beyond mutual exclusion,
   about the heap. The theorems are about EVERY schedule of the model; that the C code takes and drops the locks where
   the model does is checked on the running code by the lock-set trace of impl/t_conc.c, and the atomicity assumption
   is probed by ThreadSanitizer runs (tools/props/comps_conc.py). *)
From LY Require Import Base Sched SchedP.
Local Open Scope N_scope.

(* lock_discipline: in every schedule of threads whose programs pass the static lock check (disc: guarded steps only
   with their lock held, no double acquire, no release of a lock not held, conditionally skipped blocks lock-neutral,
   nothing held at the end), no step touches dict.hash_tab, err_ht or the LYB hash cache without holding the
   guarding lock, and no unlock of a lock that is not held happens. *)
Theorem C16_lock_discipline : forall d0 progs sched,
  (forall p, In p progs -> disc (false, false) p = true) ->
  forall t e, In (t, e) (snd (run sched (init d0 progs))) ->
    is_bad_access e = false /\ forall m, e <> EvBadUnlock m.
Proof. exact lock_discipline. Qed.
Print Assumptions C16_lock_discipline.

(* every sequence of the modelled API calls (lydict_insert/_zc, lydict_remove, log_store, ly_err_last/first,
   ly_err_clean, the lazily caching print callbacks and their free, lyb_cache_module_hash + reads, private work)
   passes that static check: the theorem above applies to all of them *)
Theorem C16_api_programs_disciplined : forall ops, disc (false, false) (compile ops) = true.
Proof. exact compile_disc. Qed.
Print Assumptions C16_api_programs_disciplined.

(* dict_linearizable: threads that run lock-bracketed lydict_insert / lydict_remove calls (each call = lock, table
   lookup, separate reference count update, unlock), under ANY schedule, cut at ANY point: let lin be the calls in the
   order in which they returned. Then (1) lin respects every thread's program order and with the calls the thread has
   not finished yet gives exactly its program; (2) executing lin serially with the atomic specification from the
   initial dictionary returns to every call exactly the value it returned in the concurrent run; (3) whenever the lock
   is free the dictionary is the one the serial execution produces. *)
Theorem C16_dict_linearizable : forall d0 opss sched,
  let r := run sched (init d0 (map dprog opss)) in
  let lin := dict_events (snd r) in
  (forall t, proj t lin ++ ops_of (thread_rem (fst r) t) = nth t opss []) /\
  snd (replay d0 lin) = true /\
  (s_ldict (fst r) = None -> s_dict (fst r) = fst (replay d0 lin)).
Proof. exact dict_linearizable. Qed.
Print Assumptions C16_dict_linearizable.

(* the serial order does not matter: when every thread only gives back references it obtained itself (owned: a
   (thread, string) token per reference), then under every schedule every call succeeds (inserts return the string,
   removes return LY_SUCCESS) and each final reference count is the initial one plus the references still held - in
   particular the dictionary is back to its initial state when all references were given back *)
Theorem C16_dict_final_refcounts : forall d0 opss sched own,
  let r := run sched (init d0 (map dprog opss)) in
  let lin := dict_events (snd r) in
  s_ldict (fst r) = None -> owned (map fst lin) [] = Some own ->
  lin = expect (map fst lin) /\ forall x, s_dict (fst r) x = d0 x + held_refs own x.
Proof. exact dict_final_refcounts. Qed.
Print Assumptions C16_dict_final_refcounts.

(* the lock is what makes it true: two unlocked removals of a string with one reference, interleaved lookup / lookup /
   decrement / decrement, both return LY_SUCCESS; no serial order does that (in C: the second is a use after free) *)
Example C16_dict_unlocked_not_linearizable :
  snd (replay w_one_ref (dict_events (snd (run w_nolock_fine (init w_one_ref w_nolock_progs))))) = false.
Proof. vm_compute. reflexivity. Qed.

(* private_ops_schedule_independent: the result of a thread's private operations (Priv steps folded over its local
   data) is, at every point of every schedule, on the way to the value the thread computes alone: what it has so far
   completed with what remains gives priv_result of its whole program; when the thread is done its local data is that
   value. (Programs in which no Priv step sits in a conditionally skipped block; all compiled API programs are.) *)
Theorem C16_private_ops_schedule_independent : forall d0 progs sched t p,
  (forall q, In q progs -> privs_unskipped q = true) -> nth_error progs t = Some p ->
  priv_result (thread_rem (fst (run sched (init d0 progs))) t) (thread_local (fst (run sched (init d0 progs))) t)
  = priv_result p 0.
Proof. exact private_ops_schedule_independent. Qed.
Print Assumptions C16_private_ops_schedule_independent.

Theorem C16_api_programs_privs_unskipped : forall ops, privs_unskipped (compile ops) = true.
Proof. exact compile_privs_unskipped. Qed.
Print Assumptions C16_api_programs_privs_unskipped.

(* err_records_isolated: for ARBITRARY thread programs and schedules, whenever ly_err_first / ly_err_last hands a
   thread a list of error items, every item of the list was stored by
   that same thread. *)
Theorem C16_err_records_isolated : forall d0 progs sched t items,
  In (t, EvErrGot (Some items)) (snd (run sched (init d0 progs))) ->
  forall it, In it items -> fst it = t.
Proof. exact err_records_isolated. Qed.
Print Assumptions C16_err_records_isolated.

(* err_rec_pointer_stable at full strength: for ARBITRARY thread programs, any number of threads and every schedule, the
   handle returned by ly_err_get_rec / ly_err_new_rec still names a record whenever it is used (ly_err_last/first,
   ly_err_clean, log_store), although lyb_hash_lock was dropped in between and other threads create their records
   (and enlarge = free the table's arena) meanwhile.
   History: this was FALSE of the code before /repo commit 75f292f (records stored inline in the arena of err_ht;
   err_rec_pointer_stable_refuted with a 6-thread schedule, and only C16_err_rec_pointer_stable_partial for <= 5
   threads); since 75f292f the table stores pointers to separately allocated records and the model follows it. *)
Definition err_rec_pointer_stable_statement : Prop :=
  forall d0 (progs : list (list step)) (sched : list tid) t e,
    In (t, e) (snd (run sched (init d0 progs))) -> is_dangling e = false.

Theorem C16_err_rec_pointer_stable : err_rec_pointer_stable_statement.
Proof. exact err_rec_pointer_stable. Qed.
Print Assumptions C16_err_rec_pointer_stable.

(* regression: the former refutation witness (threads 0..4 log an error; thread 0 is preempted in ly_err_last after
   ly_err_get_rec; thread 5 logs its first error, the 6th record, which enlarges the table: generation 1; thread 0
   continues) now dereferences nothing dangling and thread 0 reads exactly the item it stored *)
Definition is_errgot (x : tid * event) : bool := match snd x with EvErrGot _ => true | _ => false end.
Definition former_witness_run : state * trace := run w_err_fine (init (fun _ => 0) w_err_progs).
Example C16_former_err_rec_witness :
  count_ev is_dangling (snd former_witness_run) = 0%nat /\
  s_egen (fst former_witness_run) = 1 /\
  all_done (fst former_witness_run) = true /\
  filter is_errgot (snd former_witness_run) = [(0%nat, EvErrGot (Some [(0%nat, 10)]))].
Proof. vm_compute. repeat split; reflexivity. Qed.

(* canon_cache_single_ref - concurrent first prints of one shared value take exactly one dictionary reference, so
   that freeing the tree once gives everything back - is FALSE of the model that follows the code
   (plugins_types/bits.c:419-430 and the same code in binary.c:394, date_and_time.c:286, ipv4_address.c:299,
   ipv4_address_no_zone.c:171, ipv4_prefix.c:256, ipv6_address.c:302, ipv6_address_no_zone.c:219, ipv6_prefix.c:270,
   union.c:611: the test of value->_canonical is made without a lock). Witness: threads 0 and 1 both test before
   either stores; both insert; thread 2 frees the value once: one reference stays. Forced on the C code by
   impl/t_conc.c (known finding canon-lazy-cache). *)
Definition canon_cache_single_ref : Prop :=
  forall sched, all_done (fst (run sched (init (fun _ => 0) w_canon_progs))) = true ->
                s_dict (fst (run sched (init (fun _ => 0) w_canon_progs))) w_canon_str = 0.

Theorem canon_cache_single_ref_refuted :
  exists sched, all_done (fst (run sched (init (fun _ => 0) w_canon_progs))) = true /\
                s_dict (fst (run sched (init (fun _ => 0) w_canon_progs))) w_canon_str = 1 /\
                count_ev is_bad_access (snd (run sched (init (fun _ => 0) w_canon_progs))) = 0%nat.
Proof. exists w_canon_fine. vm_compute. repeat split; reflexivity. Qed.
Print Assumptions canon_cache_single_ref_refuted.

(* one print after the other: exactly one reference, the dictionary is empty after the free *)
Example C16_canon_serial_single_ref :
  all_done (fst (run w_canon_fine_serial (init (fun _ => 0) w_canon_progs))) = true /\
  s_dict (fst (run w_canon_fine_serial (init (fun _ => 0) w_canon_progs))) w_canon_str = 0.
Proof. vm_compute. split; reflexivity. Qed.

(* logging options. The process-wide cell ly_log_opts (ly_log_options) and the thread-local override
   temp_ly_log_opts (ly_temp_log_options): when no thread writes the process-wide cell after the setup (library code
   silences the logger with the override only: lydxml_data_check_opaq and the other users of ly_temp_log_options),
   then in every schedule every logging call of a thread that uses no override itself works with the options the
   application set - whatever overrides the other threads set and clear meanwhile. *)
Theorem C16_log_temp_override_isolated : forall g0 d0 progs sched t p,
  (forall q, In q progs -> global_log_free q = true) ->
  nth_error progs t = Some p -> temp_log_free p = true ->
  forall v, In (t, EvLogOpts v) (snd (run sched (init_log g0 d0 progs))) -> v = g0.
Proof. exact log_temp_override_isolated. Qed.
Print Assumptions C16_log_temp_override_isolated.

(* compiled API programs (including the silenced trial ASilentTrial, as coded) never write the process-wide cell *)
Theorem C16_api_programs_global_log_free : forall ops, global_log_free (compile ops) = true.
Proof.
  induction ops as [|o ops IH]; [reflexivity|]. unfold compile, global_log_free in *. cbn [map concat].
  rewrite existsb_app. destruct o; cbn; exact IH.
Qed.
Print Assumptions C16_api_programs_global_log_free.

(* why the API has ly_temp_log_options: the same trial done with the process-wide cell (prev = ly_log_options(0); ...;
   ly_log_options(prev)) is visible to other threads: a logging call of thread 1 inside thread 0's window works with
   options 0 instead of 3 (its error is neither stored nor printed), and two overlapping windows (0 saves 3, 1 saves
   0, 0 restores 3, 1 restores 0) leave the process-wide options at 0 for good. With the override (as coded) thread 1
   sees 3 under the same schedule. (This is what a seeded change of lydxml_data_check_opaq did to the C code; the
   oracle conc-serial sees it as lost error records and as a changed process-wide state.) *)
Example C16_log_global_window_visible :
  In (1%nat, EvLogOpts 0) (snd (run w_log_fine (init_log 3 (fun _ => 0) w_log_progs))) /\
  s_logopts (fst (run w_log_fine (init_log 3 (fun _ => 0) w_log_progs))) = 3 /\
  all_done (fst (run w_log2_fine (init_log 3 (fun _ => 0) w_log2_progs))) = true /\
  s_logopts (fst (run w_log2_fine (init_log 3 (fun _ => 0) w_log2_progs))) = 0 /\
  In (1%nat, EvLogOpts 3) (snd (run w_log_fine (init_log 3 (fun _ => 0) w_log_progs_temp))).
Proof. vm_compute. repeat split; auto. Qed.

(* reference count of a compiled type of the SHARED schema, touched from PRIVATE data trees (values with compiled
   predicate paths take / give back a reference on the key's type when stored, duplicated, freed): when every thread
   uses the atomic operations only (LY_ATOMIC_INC_BARRIER / LY_ATOMIC_DEC_BARRIER - all compiled API programs do), then
   in every schedule, cut anywhere, the counter is its initial value plus the sum of the operations that took effect: no
   update is ever lost, so after every duplicate was freed the counter is back to its initial value. *)
Theorem C16_type_refcount_atomic_no_lost_update : forall c progs sched,
  (forall q, In q progs -> plain_ref_free q = true) ->
  s_tref (fst (run sched (init_ref c progs))) = (c + ref_sum (snd (run sched (init_ref c progs))))%Z.
Proof. exact ref_atomic_no_lost_update. Qed.
Print Assumptions C16_type_refcount_atomic_no_lost_update.

Theorem C16_api_programs_plain_ref_free : forall ops, plain_ref_free (compile ops) = true.
Proof.
  induction ops as [|o ops IH]; [reflexivity|]. unfold compile, plain_ref_free in *. cbn [map concat].
  rewrite existsb_app. destruct o; cbn; exact IH.
Qed.
Print Assumptions C16_api_programs_plain_ref_free.

(* regression (a seeded change of ly_path_dup_predicates, path.c:977, replaced the atomic increment by a plain
   ++refcount): type_refcount_plain_increment_safe - a plain increment is as good as the atomic one - is refuted: two
   duplicating threads interleaved load / load / store / store leave the counter at 2 instead of 3 (a later free releases
   the type while the schema still uses it), and a plain increment around another thread's atomic decrement (load, dec,
   store) leaves 2 instead of 1 (the type is leaked at ly_ctx_destroy). With the atomic operation the first schedule
   gives 3. The oracle conc-serial sees both as a changed lysc_type.refcount of the shared schema (refs=...). *)
Definition type_refcount_plain_increment_safe : Prop :=
  forall sched, all_done (fst (run sched (init_ref 1 w_ref_progs))) = true ->
                s_tref (fst (run sched (init_ref 1 w_ref_progs))) = 3%Z.

Theorem type_refcount_plain_increment_refuted :
  exists sched, all_done (fst (run sched (init_ref 1 w_ref_progs))) = true /\
                s_tref (fst (run sched (init_ref 1 w_ref_progs))) = 2%Z.
Proof. exists w_ref_fine. vm_compute. split; reflexivity. Qed.
Print Assumptions type_refcount_plain_increment_refuted.

Example C16_type_refcount_witnesses :
  all_done (fst (run w_ref2_fine (init_ref 1 w_ref2_progs))) = true /\
  s_tref (fst (run w_ref2_fine (init_ref 1 w_ref2_progs))) = 2%Z /\
  all_done (fst (run w_ref_fine (init_ref 1 w_ref_progs_atomic))) = true /\
  s_tref (fst (run w_ref_fine (init_ref 1 w_ref_progs_atomic))) = 3%Z.
Proof. vm_compute. repeat split; reflexivity. Qed.

(* thread-local against process-wide scratch memory (a struct tm filled by gmtime_r / localtime_r on the stack, against
   the static struct tm of gmtime / localtime): the sequence of values a thread reads back from its THREAD-LOCAL buffer
   is, in every schedule, cut anywhere, and whatever the other threads do (also when they use the process-wide buffer),
   on the way to the sequence it reads running alone: what it has read so far followed by what its remaining program
   will read from the current buffer is scr_reads of its whole program. (Programs in which no scratch step sits in a
   conditionally skipped block; all compiled API programs are.) *)
Theorem C16_scratch_local_interference_free : forall d0 progs sched t p,
  (forall q, In q progs -> scr_unskipped q = true) -> nth_error progs t = Some p ->
  local_reads t (snd (run sched (init d0 progs))) ++
    scr_reads (thread_rem (fst (run sched (init d0 progs))) t) (s_lscr (fst (run sched (init d0 progs))) t)
  = scr_reads p 0.
Proof. exact scratch_local_interference_free. Qed.
Print Assumptions C16_scratch_local_interference_free.

Theorem C16_api_programs_scr_unskipped : forall ops, scr_unskipped (compile ops) = true.
Proof. exact compile_scr_unskipped. Qed.
Print Assumptions C16_api_programs_scr_unskipped.

(* regression (a seeded change used gmtime() in lyplg_type_print_date_and_time): with the PROCESS-WIDE buffer thread 0
   fills in 5, thread 1 fills in 9, thread 0 reads back 9; with the thread-local buffer (as coded) the same schedule
   gives each thread its own value *)
Definition is_scratch_ev (x : tid * event) : bool := match snd x with EvScratch _ _ => true | _ => false end.
Example C16_static_scratch_shared :
  filter is_scratch_ev (snd (run w_scr_fine (init (fun _ => 0) w_scr_progs)))
  = [(0%nat, EvScratch true 9); (1%nat, EvScratch true 9)] /\
  filter is_scratch_ev (snd (run w_scr_fine (init (fun _ => 0) w_scr_progs_local)))
  = [(0%nat, EvScratch false 5); (1%nat, EvScratch false 9)].
Proof. vm_compute. split; reflexivity. Qed.

(* regression (a seeded change of ly_err_get_rec read the found slot of err_ht after pthread_mutex_unlock): the program
   does not pass the static lock check, and under the schedule of the former err-rec witness (thread 5 creates the 6th
   record and enlarges the table between thread 0's unlock and its read) the slot read is an access to the table without
   the lock through a pointer into the freed arena. The program as coded (read before the unlock) passes the check, so
   C16_lock_discipline applies to it. *)
Definition is_slot_ev (x : tid * event) : bool :=
  match snd x with EvSlot _ => true | EvAccess RErrTab false => true | _ => false end.
Example C16_err_slot_read_after_unlock :
  disc (false, false) p_err_get_late = false /\ disc (false, false) p_err_get_slot = true /\
  all_done (fst (run w_slot_fine (init (fun _ => 0) w_slot_progs))) = true /\
  filter is_slot_ev (snd (run w_slot_fine (init (fun _ => 0) w_slot_progs)))
  = [(0%nat, EvAccess RErrTab false); (0%nat, EvSlot false)].
Proof. vm_compute. repeat split; reflexivity. Qed.

(* regression (a seeded change put an unlocked test of the first node's hash in front of the lock in
   lyb_cache_module_hash): the cache is filled node by node, so thread 1, seeing the first node's hash that thread 0 has
   just stored, skips the lock and reads a hash that is not stored yet. No lock discipline is broken (the test needs no
   lock by design): it is the fast path itself that is wrong. As coded every thread passes through the lock and both
   read cached hashes. *)
Definition is_hashread_ev (x : tid * event) : bool := match snd x with EvHashRead _ => true | _ => false end.
Example C16_hash_cache_double_checked :
  filter is_hashread_ev (snd (run w_hashdc_fine (init (fun _ => 0) w_hashdc_progs)))
  = [(1%nat, EvHashRead false); (0%nat, EvHashRead true)] /\
  count_ev is_bad_access (snd (run w_hashdc_fine (init (fun _ => 0) w_hashdc_progs))) = 0%nat /\
  filter is_hashread_ev (snd (run w_hash_fine (init (fun _ => 0) w_hash_progs)))
  = [(0%nat, EvHashRead true); (1%nat, EvHashRead true)].
Proof. vm_compute. repeat split; reflexivity. Qed.

(* LYB hash cache as coded (every user goes through the locked fill of ALL nodes before it reads): for programs that
   pass the static check hchk (each read of a cached hash is preceded, in the same thread, by a completed fill; no hash
   step in a conditionally skipped block) every read in every schedule finds the hash cached. All compiled API programs
   pass the check; the double-checked variant of the regression example above does not. *)
Theorem C16_hash_read_after_own_fill : forall d0 progs sched,
  (forall q, In q progs -> hchk false q = true) ->
  forall t b, In (t, EvHashRead b) (snd (run sched (init d0 progs))) -> b = true.
Proof. exact hash_read_after_own_fill. Qed.
Print Assumptions C16_hash_read_after_own_fill.

Theorem C16_api_programs_hash_checked : forall ops, hchk false (compile ops) = true.
Proof. exact compile_hchk. Qed.
Print Assumptions C16_api_programs_hash_checked.

Example C16_hash_double_checked_rejected : hchk false p_lyb_hash_dc = false /\ hchk false p_lyb_hash = true.
Proof. vm_compute. split; reflexivity. Qed.

(* err_ht slot pointers, positive side of the regression above: for programs that pass the lock check disc AND the check
   schk (every read through a slot pointer of the table's arena happens in the critical section in which the slot was
   looked up, with no insertion by the thread in between), in every schedule every slot read goes through a pointer
   into the CURRENT arena - no other thread can enlarge the table in between, because enlarging needs the lock. All
   compiled API programs pass both checks; the read-after-unlock variant passes neither. *)
Theorem C16_slot_read_in_section_valid : forall d0 progs sched,
  (forall q, In q progs -> disc (false, false) q = true /\ schk false q = true) ->
  forall t b, In (t, EvSlot b) (snd (run sched (init d0 progs))) -> b = true.
Proof. exact slot_read_in_section_valid. Qed.
Print Assumptions C16_slot_read_in_section_valid.

Theorem C16_api_programs_slot_checked : forall ops, schk false (compile ops) = true.
Proof. exact compile_schk. Qed.
Print Assumptions C16_api_programs_slot_checked.

Example C16_slot_check_examples :
  schk false p_err_get_late = false /\ schk false p_err_get_slot = true /\
  schk false (compile [ALogStore 10] ++ p_err_get_slot) = true.
Proof. vm_compute. repeat split; reflexivity. Qed.

(* the hypotheses of the positive theorems are satisfiable by non-trivial values: three threads inserting and removing
   overlapping strings under a schedule that interleaves their critical sections; all finish, every call succeeded,
   all references were given back and the dictionary is the initial one *)
Definition ex_s1 : bytes := [97].
Definition ex_s2 : bytes := [98; 99].
Definition ex_opss : list (list dop) :=
  [[DIns ex_s1; DIns ex_s2; DRem ex_s1; DRem ex_s2]; [DIns ex_s2; DRem ex_s2; DIns ex_s1; DRem ex_s1]; [DIns ex_s1; DRem ex_s1]].
Definition ex_sched : list tid :=
  (concat (repeat [0; 1; 2; 2; 1; 0; 0; 2; 1] 12))%nat.
Example C16_hypotheses_satisfiable :
  (forall p, In p (map dprog ex_opss) -> disc (false, false) p = true) /\
  all_done (fst (run ex_sched (init (dupd (fun _ => 0) ex_s2 3) (map dprog ex_opss)))) = true /\
  s_ldict (fst (run ex_sched (init (dupd (fun _ => 0) ex_s2 3) (map dprog ex_opss)))) = None /\
  length (dict_events (snd (run ex_sched (init (dupd (fun _ => 0) ex_s2 3) (map dprog ex_opss))))) = 10%nat /\
  owned (map fst (dict_events (snd (run ex_sched (init (dupd (fun _ => 0) ex_s2 3) (map dprog ex_opss)))))) [] = Some [] /\
  count_ev is_blocked (snd (run ex_sched (init (dupd (fun _ => 0) ex_s2 3) (map dprog ex_opss)))) = 39%nat.
Proof.
  split.
  - intros p Hp. apply in_map_iff in Hp. destruct Hp as [ops [<- _]]. apply dprog_disc.
  - vm_compute. repeat split; reflexivity.
Qed.
