(* DepSet.v — model of the dependency sets of the schema compiler (slice depset, property C11):
     lys_unres_dep_sets_create(ctx, main_set, mod) with mod != NULL      src/tree_schema.c
     lys_unres_dep_sets_create_mod_r()                                   the recursive traversal
     LYS_IS_SINGLE_DEP_SET(), lys_has_dep_mods()                         src/tree_schema_internal.h, tree_schema_common.c
   (as of /repo commit 64300ce). The dependency set of a module is what is recompiled when the module changes (a
   feature is switched, the module becomes implemented); a module left out keeps a stale compiled tree.
   A context is a list of modules in the order of ctx->list; a module is its index. All modules are implemented, so
   mod->compiled exists exactly when the module has something to compile.
   Model only; proofs in DepSetP.v. *)
From LY Require Import Base.

Record module := {
  m_imports : list nat;        (* imports of the module and of its submodules, in statement order *)
  m_feat : bool;               (* has feature statements *)
  m_data : bool;               (* data nodes, rpcs, notifications or extension instances: LYSP_HAS_RECOMPILED *)
  m_grp : bool;                (* groupings *)
  m_aug : bool;                (* augments *)
  m_dev : bool;                (* deviations *)
  m_tpd : bool                 (* typedefs *)
}.

Definition ctxt := list module.
Definition get (c : ctxt) (i : nat) : module := nth i c (Build_module [] false false false false false false).

(* LYS_IS_SINGLE_DEP_SET(mod): !features && (!lys_has_compiled(mod) || (mod->compiled && !lys_has_recompiled(mod))),
   with mod->compiled <-> lys_has_compiled(mod) for an implemented module *)
Definition is_single (m : module) : bool := negb (m_feat m) && negb (m_data m).

(* lys_has_dep_mods(mod), with the typedef / deviation cases of commit 64300ce *)
Definition has_dep (m : module) : bool :=
  m_feat m || m_grp m || m_aug m || m_dev m || (m_tpd m && negb (match m_imports m with [] => true | _ => false end)).

Definition mem (x : nat) (l : list nat) : bool := existsb (Nat.eqb x) l.
Definition remove1 (x : nat) (l : list nat) : list nat := filter (fun y => negb (Nat.eqb x y)) l.

(* state of the traversal: ctx_set (not yet processed modules), dep_set (in insertion order), aux_set *)
Record st := { s_ctx : list nat; s_dep : list nat; s_aux : list nat; s_fuel_out : bool }.

(* modules importing m, in ctx->list order *)
Definition importers (c : ctxt) (m : nat) : list nat :=
  filter (fun i => mem m (m_imports (get c i))) (seq 0 (length c)).

(* lys_unres_dep_sets_create_mod_r(mod, ctx_set, dep_set, aux_set); [fuel] bounds the recursion depth *)
Fixpoint dep_r (fuel : nat) (c : ctxt) (m : nat) (s : st) : st :=
  match fuel with
  | O => Build_st (s_ctx s) (s_dep s) (s_aux s) true
  | S f =>
      let md := get c m in
      let enter : option st :=
        if is_single md then
          if negb (has_dep md) then None                         (* break the dep set here *)
          else if mem m (s_aux s) then None                      (* it was traversed *)
          else Some (Build_st (s_ctx s) (s_dep s) (s_aux s ++ [m]) (s_fuel_out s))
        else if negb (mem m (s_ctx s)) then None                 (* it was already processed *)
        else Some (Build_st (remove1 m (s_ctx s)) (s_dep s ++ [m]) (s_aux s) (s_fuel_out s)) in
      match enter with
      | None => s
      | Some s1 =>
          let s2 := fold_left (fun acc i => dep_r f c i acc) (m_imports md) s1 in
          fold_left (fun acc i => dep_r f c i acc) (importers c m) s2
      end
  end.

(* lys_unres_dep_sets_create(ctx, main_set, mod): the single modules get their own sets first; the set of mod *)
Definition dep_set_of (c : ctxt) (m : nat) : list nat :=
  let all := seq 0 (length c) in
  let ctx_set := filter (fun i => negb (is_single (get c i))) all in
  if negb (mem m ctx_set) then [m]
  else s_dep (dep_r (S (length c)) c m (Build_st ctx_set [] [] false)).

Definition dep_fuel_out (c : ctxt) (m : nat) : bool :=
  let ctx_set := filter (fun i => negb (is_single (get c i))) (seq 0 (length c)) in
  s_fuel_out (dep_r (S (length c)) c m (Build_st ctx_set [] [] false)).
