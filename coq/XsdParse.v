(* XsdParse.v - slice regex (property C18): concrete syntax of XSD regular expressions -> Xsd.re.
   Model only. Specification side (XML Schema Part 2 appendix F, with the grammar of the 1.1 edition
   where the 1.0 productions are ambiguous about '-' inside bracket expressions); no C code is
   transcribed here. All functions are total; None = not a valid XSD regular expression (or outside the
   modelled subset, see below).

     regExp     ::= branch ( '|' branch )*
     branch     ::= piece*
     piece      ::= atom quantifier?
     quantifier ::= '?' | '*' | '+' | '{' n '}' | '{' n ',' '}' | '{' n ',' m '}'        (n <= m)
     atom       ::= NormalChar | '.' | escape | '[' group ']' | '(' regExp ')'
     NormalChar ::= any character except . \ ? * + { } ( ) | [ ]     (so ^ $ - , are ordinary)
     escape     ::= '\' [nrt\|.?*+(){}-[]^]  |  '\' [dDsSwWiIcC]  |  '\p{' Name '}'  |  '\P{' Name '}'
     group      ::= '^'? item+ ( '-' '[' group ']' )?
     item       ::= char | char '-' char | class-escape          (char: escaped or not one of [ ] \ ;
                    an unescaped '-' is an item only as the first or the last item; lo <= hi)

   Name is IsBlock for the blocks of Xsd.xsd_blocks or a general category of Xsd.latin1_categories.
   The parser is fuelled by a multiple of the input length (every call level consumes a character at
   least every third level), so the fuel never runs out; a None from exhausted fuel cannot be told
   from a syntax error and is not needed by any theorem. *)
From LY Require Import Base Xsd.
Local Open Scope N_scope.

Definition cps := list N.

(* ---- UTF-8 (RFC 3629) -> code points; None on any ill-formed sequence --------------------------- *)
Definition is_cont (b : N) : bool := (128 <=? b) && (b <? 192).

Fixpoint utf8_dec (s : bytes) : option cps :=
  match s with
  | [] => Some []
  | b0 :: t =>
      if b0 <? 128 then
        match utf8_dec t with Some r => Some (b0 :: r) | None => None end
      else if b0 <? 194 then None
      else if b0 <? 224 then
        match t with
        | b1 :: t1 =>
            if is_cont b1 then
              match utf8_dec t1 with
              | Some r => Some (((b0 - 192) * 64 + (b1 - 128)) :: r)
              | None => None
              end
            else None
        | _ => None
        end
      else if b0 <? 240 then
        match t with
        | b1 :: b2 :: t2 =>
            let cp := (b0 - 224) * 4096 + (b1 - 128) * 64 + (b2 - 128) in
            if is_cont b1 && is_cont b2 && (2048 <=? cp) && negb ((55296 <=? cp) && (cp <=? 57343)) then
              match utf8_dec t2 with Some r => Some (cp :: r) | None => None end
            else None
        | _ => None
        end
      else if b0 <? 245 then
        match t with
        | b1 :: b2 :: b3 :: t3 =>
            let cp := (b0 - 240) * 262144 + (b1 - 128) * 4096 + (b2 - 128) * 64 + (b3 - 128) in
            if is_cont b1 && is_cont b2 && is_cont b3 && (65536 <=? cp) && (cp <=? MAXCP) then
              match utf8_dec t3 with Some r => Some (cp :: r) | None => None end
            else None
        | _ => None
        end
      else None
  end.

(* ---- lexical helpers ------------------------------------------------------------------------------ *)
Definition is_c (x : N) (s : cps) : bool := match s with y :: _ => x =? y | [] => false end.

Definition mem_n (x : N) (l : list N) : bool := existsb (N.eqb x) l.

(* . \ ? * + { } ( ) | [ ] *)
Definition is_meta (c : N) : bool := mem_n c [46; 92; 63; 42; 43; 123; 125; 40; 41; 124; 91; 93].

(* SingleCharEsc: the character denoted by backslash x *)
Definition single_esc (x : N) : option N :=
  if x =? 110 then Some 10 else if x =? 114 then Some 13 else if x =? 116 then Some 9
  else if mem_n x [92; 124; 46; 63; 42; 43; 40; 41; 123; 125; 45; 91; 93; 94] then Some x
  else None.

(* MultiCharEsc *)
Definition multi_esc (x : N) : option cset :=
  if x =? 100 then Some cs_digit else if x =? 68 then Some (CsNeg cs_digit)
  else if x =? 115 then Some cs_space else if x =? 83 then Some (CsNeg cs_space)
  else if x =? 119 then Some cs_word else if x =? 87 then Some (CsNeg cs_word)
  else if x =? 105 then Some cs_initial else if x =? 73 then Some (CsNeg cs_initial)
  else if x =? 99 then Some cs_namechar else if x =? 67 then Some (CsNeg cs_namechar)
  else None.

(* text up to the first ch (excluded) and the text after it *)
Fixpoint span_until (ch : N) (s : cps) : option (cps * cps) :=
  match s with
  | [] => None
  | c :: t => if c =? ch then Some ([], t)
              else match span_until ch t with Some (a, r) => Some (c :: a, r) | None => None end
  end.

(* '{' Name '}' after \p or \P *)
Definition p_prop (s : cps) : option (cset * cps) :=
  match s with
  | c :: t =>
      if c =? 123 then
        match span_until 125 t with
        | Some (name, rest) =>
            match prop_set name with Some cs => Some (cs, rest) | None => None end
        | None => None
        end
      else None
  | [] => None
  end.

Inductive esc_res : Type := EChar (c : N) | ESet (cs : cset).

(* the text after a backslash *)
Definition p_escape (s : cps) : option (esc_res * cps) :=
  match s with
  | [] => None
  | x :: t =>
      match single_esc x with
      | Some c => Some (EChar c, t)
      | None =>
          match multi_esc x with
          | Some cs => Some (ESet cs, t)
          | None =>
              if x =? 112 then
                match p_prop t with Some (cs, r) => Some (ESet cs, r) | None => None end
              else if x =? 80 then
                match p_prop t with Some (cs, r) => Some (ESet (CsNeg cs), r) | None => None end
              else None
          end
      end
  end.

(* decimal digits *)
Fixpoint p_digits (s : cps) (acc : N) (seen : bool) : option (N * cps) :=
  match s with
  | c :: t => if is_digit c then p_digits t (10 * acc + (c - 48)) true
              else if seen then Some (acc, s) else None
  | [] => if seen then Some (acc, s) else None
  end.

(* quantifier: None = malformed; Some (None, s) = there is none *)
Definition p_quant (s : cps) : option (option (N * option N) * cps) :=
  match s with
  | [] => Some (None, s)
  | c :: t =>
      if c =? 63 then Some (Some (0, Some 1), t)
      else if c =? 42 then Some (Some (0, None), t)
      else if c =? 43 then Some (Some (1, None), t)
      else if c =? 123 then
        match p_digits t 0 false with
        | None => None
        | Some (n, t1) =>
            match t1 with
            | [] => None
            | d :: t2 =>
                if d =? 125 then Some (Some (n, Some n), t2)
                else if d =? 44 then
                  if is_c 125 t2 then Some (Some (n, None), tl t2)
                  else match p_digits t2 0 false with
                       | None => None
                       | Some (m, t3) =>
                           if is_c 125 t3 && (n <=? m) then Some (Some (n, Some m), tl t3) else None
                       end
                else None
            end
        end
      else Some (None, s)
  end.

Definition apply_quant (q : option (N * option N)) (a : re) : re :=
  match q with None => a | Some (lo, hi) => Rep a lo hi end.

(* ---- bracket expressions -------------------------------------------------------------------------- *)
(* p_group: the text after '[' -> (set, text after the matching ']')
   p_items: the items of a group; first = no item read yet; result (union of the items,
            subtracted set if any, text after the closing ']') *)
Fixpoint p_group (fuel : nat) (s : cps) : option (cset * cps) :=
  match fuel with
  | O => None
  | S f =>
      let neg := is_c 94 s in
      match p_items f true CsNone (if neg then tl s else s) with
      | None => None
      | Some (acc, sub, rest) =>
          let base := if neg then CsNeg acc else acc in
          Some (match sub with None => base | Some d => CsDiff base d end, rest)
      end
  end
with p_items (fuel : nat) (first : bool) (acc : cset) (s : cps) : option (cset * option cset * cps) :=
  match fuel with
  | O => None
  | S f =>
      match s with
      | [] => None
      | c :: rest =>
          if c =? 93 then (if first then None else Some (acc, None, rest))
          else if c =? 91 then None
          else if c =? 45 then
            if is_c 91 rest then
              (* subtraction: '-' '[' group ']' ']' *)
              if first then None
              else match p_group f (tl rest) with
                   | Some (d, rest') => if is_c 93 rest' then Some (acc, Some d, tl rest') else None
                   | None => None
                   end
            else if first || is_c 93 rest then p_items f false (CsUnion acc (cs_char 45)) rest
            else None
          else
            match (if c =? 92 then p_escape rest else Some (EChar c, rest)) with
            | None => None
            | Some (ESet cs, rest') => p_items f false (CsUnion acc cs) rest'
            | Some (EChar lo, rest') =>
                if is_c 45 rest' && negb (is_c 91 (tl rest')) && negb (is_c 93 (tl rest')) then
                  (* range lo '-' hi *)
                  match tl rest' with
                  | [] => None
                  | e :: rest2 =>
                      if e =? 45 then None
                      else match (if e =? 92 then p_escape rest2 else Some (EChar e, rest2)) with
                           | Some (EChar hi, rest3) =>
                               if lo <=? hi then p_items f false (CsUnion acc (CsRange lo hi)) rest3
                               else None
                           | _ => None
                           end
                  end
                else p_items f false (CsUnion acc (cs_char lo)) rest'
            end
      end
  end.

(* ---- regular expressions --------------------------------------------------------------------------- *)
(* p_alt: regExp, stops before ')' or at the end; p_seq: branch, stops before '|' or ')' or at the
   end; p_atom: one atom *)
Fixpoint p_alt (fuel : nat) (s : cps) : option (re * cps) :=
  match fuel with
  | O => None
  | S f =>
      match p_seq f s with
      | None => None
      | Some (r1, rest) =>
          if is_c 124 rest then
            match p_alt f (tl rest) with
            | Some (r2, rest') => Some (Alt r1 r2, rest')
            | None => None
            end
          else Some (r1, rest)
      end
  end
with p_seq (fuel : nat) (s : cps) : option (re * cps) :=
  match fuel with
  | O => None
  | S f =>
      match s with
      | [] => Some (Eps, s)
      | c :: _ =>
          if (c =? 124) || (c =? 41) then Some (Eps, s)
          else match p_atom f s with
               | None => None
               | Some (a, rest) =>
                   match p_quant rest with
                   | None => None
                   | Some (q, rest') =>
                       match p_seq f rest' with
                       | Some (r, rest'') => Some (Cat (apply_quant q a) r, rest'')
                       | None => None
                       end
                   end
               end
      end
  end
with p_atom (fuel : nat) (s : cps) : option (re * cps) :=
  match fuel with
  | O => None
  | S f =>
      match s with
      | [] => None
      | c :: rest =>
          if c =? 40 then
            match p_alt f rest with
            | Some (r, rest') => if is_c 41 rest' then Some (r, tl rest') else None
            | None => None
            end
          else if c =? 91 then
            match p_group f rest with
            | Some (cs, rest') => Some (Chr cs, rest')
            | None => None
            end
          else if c =? 92 then
            match p_escape rest with
            | Some (EChar x, rest') => Some (Chr (cs_char x), rest')
            | Some (ESet cs, rest') => Some (Chr cs, rest')
            | None => None
            end
          else if c =? 46 then Some (Chr cs_dot, rest)
          else if is_meta c then None
          else Some (Chr (cs_char c), rest)
      end
  end.

Definition parse_cps (s : cps) : option re :=
  match p_alt (4 * length s + 8) s with
  | Some (r, []) => Some r
  | _ => None
  end.

(* pattern as UTF-8 bytes -> AST *)
Definition parse (p : bytes) : option re :=
  match utf8_dec p with
  | Some s => parse_cps s
  | None => None
  end.

(* the XSD answer for (pattern, string) given as UTF-8 bytes: None = the pattern is not a valid XSD
   regular expression of the modelled subset, or one of the two is not UTF-8 *)
Definition xsd_match (p s : bytes) : option bool :=
  match parse p, utf8_dec s with
  | Some r, Some cs => Some (matches r cs)
  | _, _ => None
  end.
