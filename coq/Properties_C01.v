(* Properties_C01.v — property C01 (print ∘ parse = identity): theorem statements only.
   Each is closed by [exact] of a lemma proved in the model files and followed by Print Assumptions. *)
From LY Require Import Base Utf8 XmlText XmlTextP.
Local Open Scope N_scope.

(* XML text: what lyxml_dump_text() prints, lyxml_parse_value() reads back unchanged — for element
   content (ends at '<') and attribute values (between double quotes), for every string of characters the lexer
   accepts (any length), whatever follows the terminator (except a CDATA header directly after '<',
   which XML defines as a continuation of the text). The printer is the one of the current tree (table scraped
   into Gen/Consts.v): CR is written as the reference &#xD; and, in attribute values, TAB and LF as &#x9; and
   &#xA;; the lexer reads these references back as the same bytes.
   Third component = the lexer's white-space-only flag: it is set iff every byte is white space that was
   printed raw ([ws_printed]: a reference clears the flag, so a CR never counts and TAB/LF count only in
   element content). *)
Theorem C01_xml_text_roundtrip :
  forall attr endc s rest,
    lexable s -> delim_ok attr endc -> starts_with cdata_hdr (endc :: rest) = false ->
    xml_value endc (xml_esc attr s ++ endc :: rest) = Ok (s, endc :: rest, forallb (ws_printed attr) s).
Proof. exact xml_value_roundtrip. Qed.
Print Assumptions C01_xml_text_roundtrip.

(* the hypothesis [lexable] is met by the RFC 3629 encoding of every sequence of yang-char
   (RFC 7950 section 14: Unicode scalar values except C0 controls other than TAB/LF/CR and the
   noncharacters), which since /repo commit d2cc93f are exactly the characters ly_getutf8 accepts
   (Utf8P.getutf8_encode_iff) *)
Theorem C01_xml_text_roundtrip_unicode :
  forall attr endc cps rest,
    forallb is_yang_char cps = true -> delim_ok attr endc ->
    starts_with cdata_hdr (endc :: rest) = false ->
    let s := flat_map utf8_encode cps in
    xml_value endc (xml_esc attr s ++ endc :: rest) = Ok (s, endc :: rest, forallb (ws_printed attr) s).
Proof. exact xml_text_roundtrip_encoded. Qed.
Print Assumptions C01_xml_text_roundtrip_unicode.

(* non-vacuity: CR, TAB, LF, every escape class, 2-, 3- and 4-byte characters, as content and as attribute value *)
Example C01_xml_text_roundtrip_example :
  let cps := [97; 38; 60; 62; 34; 39; 9; 10; 13; 10; 13; 233; 8364; 128512; 93; 93; 62; 13] in
  forallb is_yang_char cps = true /\
  xml_esc true [97; 13; 9; 10; 98] = [97; 38;35;120;68;59; 38;35;120;57;59; 38;35;120;65;59; 98] /\
  xml_esc false [97; 13; 9; 10; 98] = [97; 38;35;120;68;59; 9; 10; 98] /\
  xml_value 60 (xml_esc false (flat_map utf8_encode cps) ++ [60; 47; 97; 62]) =
    Ok (flat_map utf8_encode cps, [60; 47; 97; 62], false) /\
  xml_value 34 (xml_esc true (flat_map utf8_encode cps) ++ [34; 47; 62]) =
    Ok (flat_map utf8_encode cps, [34; 47; 62], false).
Proof. exact xml_roundtrip_example. Qed.
