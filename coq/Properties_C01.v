(* Properties_C01.v — property C01 (print ∘ parse = identity): theorem statements only.
   Each is closed by [exact] of a lemma proved in the model files and followed by Print Assumptions. *)
From LY Require Import Base Utf8 XmlText XmlTextP.
Local Open Scope N_scope.

(* XML text: what lyxml_dump_text() prints, lyxml_parse_value() reads back unchanged — for element
   content (ends at '<') and attribute values (between double quotes), for every string of characters the lexer
   accepts (any length), whatever follows the terminator (except a CDATA header directly after '<',
   which XML defines as a continuation of the text). *)
Theorem C01_xml_text_roundtrip :
  forall attr endc s rest,
    lexable s -> delim_ok attr endc -> starts_with cdata_hdr (endc :: rest) = false ->
    xml_value endc (xml_esc attr s ++ endc :: rest) = Ok (s, endc :: rest, forallb is_xmlws s).
Proof. exact xml_value_roundtrip. Qed.
Print Assumptions C01_xml_text_roundtrip.

(* the hypothesis [lexable] is met by the RFC 3629 encoding of every sequence of characters that
   ly_getutf8 accepts (all Unicode scalar values except C0 controls other than TAB/LF/CR and
   U+FFFE/U+FFFF) *)
Theorem C01_xml_text_roundtrip_unicode :
  forall attr endc cps rest,
    forallb getutf8_accepts_char cps = true -> delim_ok attr endc ->
    starts_with cdata_hdr (endc :: rest) = false ->
    let s := flat_map utf8_encode cps in
    xml_value endc (xml_esc attr s ++ endc :: rest) = Ok (s, endc :: rest, forallb is_xmlws s).
Proof. exact xml_text_roundtrip_encoded. Qed.
Print Assumptions C01_xml_text_roundtrip_unicode.
