(* XmlDoc.v -- document level of the XML data printer / parser on the Tree subset. MODEL ONLY (proofs: XmlDocP.v).

   Printer: src/printer_xml.c in LYD_PRINT_SHRINK mode (no indentation, no line ends), LYD_PRINT_WITHSIBLINGS:
     xml_print_data -> xml_print_node -> xml_print_inner / xml_print_term, xml_print_node_open, xml_print_ns,
     xml_print_meta; text through lyxml_dump_text (XmlText.xml_esc).
   The with-defaults node selection (lyd_node_should_print) is the parameter [sel]; the tagged modes (attribute
   ncwd:default) are not modelled. Anydata, opaque nodes, value types whose XML form needs prefixes (identityref,
   instance-identifier), the NETCONF filter attribute special case of xml_print_meta are not modelled.

   Readers: ONE generic namespace-aware XML 1.0 reader for a subset of the grammar (elements, attributes, character
   data, references; no prolog, comments, PIs, CDATA sections, DTD) written from the recommendations, parametric in the
   two text readers (character data, attribute value). Instance 1 = the standard reader (StdText: nothing of it comes
   from libyang). Instance 2 = the libyang side: the same element grammar with the model of the real lexer
   (XmlText.xml_value), followed by the schema-directed conversion of the element tree to a data forest. *)
From LY Require Import Base Utf8 XmlText Tree.
From LY Require StdText.
Local Open Scope N_scope.

(* ------------------------------------------------------------------------------------------- *)
(* side tables produced by tools/docenc.py                                                       *)
(* ------------------------------------------------------------------------------------------- *)
Record modinfo := mk_modinfo { mi_name : bytes; mi_prefix : bytes; mi_ns : bytes }.

Record doctabs := mk_doctabs {
  dt_names : list (sid * (N * bytes));     (* schema id -> (module id, node name) *)
  dt_mods : list (N * modinfo)             (* module id -> name, prefix, namespace *)
}.

Fixpoint assocN {A} (l : list (N * A)) (k : N) : option A :=
  match l with
  | [] => None
  | (a, v) :: r => if a =? k then Some v else assocN r k
  end.

Definition mi_none : modinfo := mk_modinfo [] [] [].

Definition node_mod (t : doctabs) (s : sid) : N :=
  match assocN (dt_names t) s with Some (m, _) => m | None => 0 end.
Definition node_name (t : doctabs) (s : sid) : bytes :=
  match assocN (dt_names t) s with Some (_, nm) => nm | None => [] end.
Definition mod_info (t : doctabs) (m : N) : modinfo :=
  match assocN (dt_mods t) m with Some i => i | None => mi_none end.
Definition node_ns (t : doctabs) (s : sid) : bytes := mi_ns (mod_info t (node_mod t s)).

Fixpoint mod_by_name (l : list (N * modinfo)) (nm : bytes) : option modinfo :=
  match l with
  | [] => None
  | (_, i) :: r => if beq_bytes (mi_name i) nm then Some i else mod_by_name r nm
  end.
Fixpoint mod_by_ns (l : list (N * modinfo)) (ns : bytes) : option (N * modinfo) :=
  match l with
  | [] => None
  | (k, i) :: r => if beq_bytes (mi_ns i) ns then Some (k, i) else mod_by_ns r ns
  end.

(* metadata keys of Tree.v are  module-name ':' name  : split at the first colon *)
Fixpoint split_colon (k : bytes) : bytes * bytes :=
  match k with
  | [] => ([], [])
  | x :: r => if x =? 58 then ([], r) else let '(a, b) := split_colon r in (x :: a, b)
  end.

(* well-formedness of the side tables (checked by T2 on every generated case; hypothesis of the theorems) *)
Definition xmlns_b : bytes := [120; 109; 108; 110; 115].          (* xmlns *)

Definition is_alpha (b : N) : bool := ((65 <=? b) && (b <=? 90)) || ((97 <=? b) && (b <=? 122)).
(* Namespaces in XML 1.0, production [4] NCName, ASCII part: NameStartChar without the colon, NameChar *)
Definition is_ncname_start (b : N) : bool := is_alpha b || (b =? 95).
Definition is_ncname_char (b : N) : bool := is_ncname_start b || is_digit b || (b =? 45) || (b =? 46).
Definition ncname_ok (nm : bytes) : bool :=
  match nm with [] => false | c :: r => is_ncname_start c && forallb is_ncname_char r end.

(* characters of a namespace name that the printer can write raw between double quotes: printable ASCII without the
   double quote, ampersand, less-than and greater-than signs *)
Definition ns_char_ok (b : N) : bool :=
  (32 <=? b) && (b <? 127) && negb (b =? 34) && negb (b =? 38) && negb (b =? 60) && negb (b =? 62).

Definition opt_sid_eq (a b : option sid) : bool :=
  match a, b with
  | None, None => true
  | Some x, Some y => x =? y
  | _, _ => false
  end.

(* the schema node named nm of module m below parent p *)
Fixpoint sid_by_name (sch : schema) (names : list (sid * (N * bytes))) (p : option sid) (m : N) (nm : bytes)
  : option sid :=
  match names with
  | [] => None
  | (s, (m', nm')) :: r =>
      if (m' =? m) && beq_bytes nm' nm && opt_sid_eq (si_parent (sget sch s)) p then Some s
      else sid_by_name sch r p m nm
  end.

(* modules: identifiers as names and prefixes (the prefix is not xmlns), non-empty namespace of plain characters, a
   module is found by its name and by its namespace. Two modules MAY have the same prefix (the printer numbers the
   prefixes it declares since 91f0178) *)
Definition mods_okb (t : doctabs) : bool :=
  forallb (fun e : N * modinfo =>
    let '(m, mi) := e in
    ncname_ok (mi_name mi) && ncname_ok (mi_prefix mi) && negb (beq_bytes (mi_prefix mi) xmlns_b) &&
    negb (match mi_ns mi with [] => true | _ => false end) && forallb ns_char_ok (mi_ns mi) &&
    match assocN (dt_mods t) m with Some _ => true | None => false end &&
    match mod_by_ns (dt_mods t) (mi_ns mi) with
    | Some (m', mi') => (m' =? m) && beq_bytes (mi_name mi') (mi_name mi) && beq_bytes (mi_prefix mi') (mi_prefix mi)
    | None => false end &&
    match mod_by_name (dt_mods t) (mi_name mi) with
    | Some mi' => beq_bytes (mi_ns mi') (mi_ns mi) && beq_bytes (mi_prefix mi') (mi_prefix mi)
    | None => false end)
  (dt_mods t).

(* every schema node has a name (an identifier) in a listed module and is found by parent, module and name *)
Definition names_okb (sch : schema) (t : doctabs) : bool :=
  forallb (fun e : sid * sinfo =>
    let '(s, i) := e in
    match assocN (dt_names t) s with
    | Some (m, nm) =>
        ncname_ok nm &&
        match assocN (dt_mods t) m with Some _ => true | None => false end &&
        match sid_by_name sch (dt_names t) (si_parent (sget sch s)) m nm with Some s' => s' =? s | None => false end
    | None => false
    end) sch.

Definition tabs_okb (sch : schema) (t : doctabs) : bool := mods_okb t && names_okb sch t.

(* ------------------------------------------------------------------------------------------- *)
(* printer                                                                                       *)
(* ------------------------------------------------------------------------------------------- *)
(* struct xmlpr_ctx .prefix / .ns: the namespace declarations in scope, INNERMOST FIRST (the C sets are searched
   from the last entry down) *)
Definition nsstack := list (option bytes * bytes).

(* xml_print_ns(pctx, ns, NULL, 0): the innermost default declaration decides *)
Fixpoint ns_has_default (st : nsstack) (ns : bytes) : bool :=
  match st with
  | [] => false
  | (None, u) :: _ => beq_bytes u ns
  | (Some _, _) :: r => ns_has_default r ns
  end.

(* xml_print_ns(pctx, ns, prefix, opts): a declaration of the same namespace with a prefix; the prefix must be the
   same one when LYXML_PREFIX_REQUIRED *)
Fixpoint ns_find_prefix (st : nsstack) (ns pfx : bytes) (required : bool) : option bytes :=
  match st with
  | [] => None
  | (p, u) :: r =>
      if beq_bytes u ns then
        match p with
        | None => ns_find_prefix r ns pfx required
        | Some q => if beq_bytes q pfx || negb required then Some q else ns_find_prefix r ns pfx required
        end
      else ns_find_prefix r ns pfx required
  end.

(* what is written inside a start tag after the element name *)
Inductive pattr :=
| PDecl (pfx : option bytes) (ns : bytes)       (* xmlns="ns" / xmlns:pfx="ns": the namespace is written RAW (%s) *)
| PMeta (pfx name value : bytes).               (* pfx:name="value": the value through lyxml_dump_text(.., 1) *)

Definition render_attr (a : pattr) : bytes :=
  match a with
  | PDecl None ns => 32 :: xmlns_b ++ [61; 34] ++ ns ++ [34]
  | PDecl (Some p) ns => 32 :: xmlns_b ++ 58 :: p ++ [61; 34] ++ ns ++ [34]
  | PMeta p nm v => 32 :: p ++ 58 :: nm ++ [61; 34] ++ xml_esc true v ++ [34]
  end.
Definition render_attrs (l : list pattr) : bytes := flat_map render_attr l.

Definition print_ns_default (st : nsstack) (ns : bytes) : list pattr * nsstack :=
  if ns_has_default st ns then ([], st) else ([PDecl None ns], (None, ns) :: st).

(* xml_print_ns() since 91f0178, new declaration with a prefix that is only a suggestion (no LYXML_PREFIX_REQUIRED): while
   some declaration in the scope uses the prefix, it is replaced by  <suggested><n>  with n = 1, 2, ... (asprintf "%s%u",
   restarting the scan). The smallest n whose candidate is free is found after at most as many steps as there are
   declarations; the fuel of the model is that bound (XmlDocP.uniq_prefix_free: the result is free). *)
Definition prefix_used (st : nsstack) (p : bytes) : bool :=
  existsb (fun e : option bytes * bytes => match fst e with Some q => beq_bytes q p | None => false end) st.
Definition prefix_cand (sug : bytes) (n : N) : bytes := if n =? 0 then sug else sug ++ N_to_dec n.
Fixpoint uniq_from (fuel : nat) (st : nsstack) (sug : bytes) (n : N) : bytes :=
  match fuel with
  | O => prefix_cand sug n
  | S f => if prefix_used st (prefix_cand sug n) then uniq_from f st sug (n + 1) else prefix_cand sug n
  end.
Definition uniq_prefix (st : nsstack) (sug : bytes) : bytes := uniq_from (length st) st sug 0.

Definition print_ns_prefix (st : nsstack) (ns pfx : bytes) (required : bool) : list pattr * nsstack * bytes :=
  match ns_find_prefix st ns pfx required with
  | Some q => ([], st, q)
  | None =>
      let p := if required then pfx else uniq_prefix st pfx in
      ([PDecl (Some p) ns], (Some p, ns) :: st, p)
  end.

(* xml_print_meta(): for every metadata instance the declaration of its module's namespace when no prefixed declaration
   of it is in scope - the module's prefix is a suggestion (no LYXML_PREFIX_REQUIRED since 91f0178) -, then the attribute
   with the prefix in scope *)
Fixpoint print_metas (t : doctabs) (st : nsstack) (m : list (bytes * bytes)) : list pattr * nsstack :=
  match m with
  | [] => ([], st)
  | (k, v) :: m' =>
      let '(mn, nm) := split_colon k in
      let mi := match mod_by_name (dt_mods t) mn with Some i => i | None => mi_none end in
      let '(d, st1, q) := print_ns_prefix st (mi_ns mi) (mi_prefix mi) false in
      let '(r, st2) := print_metas t st1 m' in
      (d ++ PMeta q nm v :: r, st2)
  end.

(* xml_print_node_open(): the attributes of the start tag and the declarations in scope for the content *)
Definition open_attrs (t : doctabs) (st : nsstack) (s : sid) (m : list (bytes * bytes)) : list pattr * nsstack :=
  let '(d, st1) := print_ns_default st (node_ns t s) in
  let '(r, st2) := print_metas t st1 m in
  (d ++ r, st2).

Definition close_tag (nm : bytes) : bytes := 60 :: 47 :: nm ++ [62].          (* </nm> *)

Section Printer.
  Variable sch : schema.
  Variable t : doctabs.
  Variable sel : dnode -> bool.          (* lyd_node_should_print(node, options) *)

  (* xml_print_node(): nothing for a node that is not selected; the declarations a node adds are removed after it
     (its siblings start from the same stack [st]) *)
  Fixpoint xml_node (st : nsstack) (n : dnode) {struct n} : bytes :=
    if negb (sel n) then [] else
    match n with
    | DN s v d m ch =>
        let nm := node_name t s in
        let '(attrs, st') := open_attrs t st s m in
        60 :: nm ++ render_attrs attrs ++
        match kind_of sch s with
        | KLeaf | KLeafList =>                       (* xml_print_term *)
            match v with
            | [] => [47; 62]
            | _ => 62 :: xml_esc false v ++ close_tag nm
            end
        | KCont _ | KList =>                         (* xml_print_inner *)
            if existsb sel ch then 62 :: flat_map (xml_node st') ch ++ close_tag nm
            else [47; 62]
        | KAny => [47; 62]                           (* not modelled: printed as if it had no content *)
        end
    end.

  (* xml_print_data() with LYD_PRINT_WITHSIBLINGS *)
  Definition xml_forest (st : nsstack) (f : forest) : bytes := flat_map (xml_node st) f.
End Printer.

Definition sel_all (n : dnode) : bool := true.

Definition xml_print (sch : schema) (t : doctabs) (sel : dnode -> bool) (f : forest) : bytes :=
  xml_forest sch t sel [] f.
Definition xml_print_all (sch : schema) (t : doctabs) (f : forest) : bytes := xml_print sch t sel_all f.

(* what a document holds of a tree: the selected nodes, without the default flags *)
Fixpoint prune_node (sel : dnode -> bool) (n : dnode) {struct n} : dnode :=
  match n with
  | DN s v d m ch => DN s v d m (flat_map (fun c => if sel c then [prune_node sel c] else []) ch)
  end.
Definition prune (sel : dnode -> bool) (f : forest) : forest :=
  flat_map (fun c => if sel c then [prune_node sel c] else []) f.

Fixpoint clear_dflt_node (n : dnode) {struct n} : dnode :=
  match n with DN s v d m ch => DN s v false m (map clear_dflt_node ch) end.
Definition clear_dflt (f : forest) : forest := map clear_dflt_node f.

(* ------------------------------------------------------------------------------------------- *)
(* lexical helpers shared by the two readers                                                     *)
(* ------------------------------------------------------------------------------------------- *)
Fixpoint span (p : N -> bool) (s : bytes) : bytes * bytes :=
  match s with
  | [] => ([], [])
  | c :: r => if p c then let '(a, b) := span p r in (c :: a, b) else ([], s)
  end.

(* QName = [prefix ':'] local *)
Definition lex_qname (s : bytes) : option bytes * bytes * bytes :=
  let '(a, r) := span is_ncname_char s in
  match r with
  | c :: r' => if c =? 58 then let '(b, r'') := span is_ncname_char r' in (Some a, b, r'') else (None, a, r)
  | [] => (None, a, r)
  end.

(* ------------------------------------------------------------------------------------------- *)
(* generic namespace-aware reader (XML 1.0 + Namespaces in XML 1.0), parametric in the text readers  *)
(* ------------------------------------------------------------------------------------------- *)
(* element: namespace name ([] = none), local name, attributes (namespace name, local name, value) without the
   namespace declarations, character data (all chunks concatenated), child elements *)
Inductive xnode := XE (ns name : bytes) (attrs : list (bytes * bytes * bytes)) (text : bytes) (ch : list xnode).

Definition isnil {A} (l : list A) : bool := match l with [] => true | _ => false end.

Definition lattr := (option bytes * bytes * bytes)%type.      (* prefix, local name, value *)

Definition skip_S (s : bytes) : bytes := snd (span StdText.is_xml_S s).

(* QName well-formedness: both parts NCNames *)
Definition qname_ok (p : option bytes) (nm : bytes) : bool :=
  ncname_ok nm && match p with Some q => ncname_ok q | None => true end.

(* Namespaces in XML 1.0 section 3: declarations of the element, in any position among the attributes; the prefix
   xmlns must not be declared and a prefix must not be bound to the empty namespace name *)
Fixpoint std_decls (l : list lattr) : option nsstack :=
  match l with
  | [] => Some []
  | (None, nm, v) :: r =>
      match std_decls r with
      | None => None
      | Some d => if beq_bytes nm xmlns_b then Some ((None, v) :: d) else Some d
      end
  | (Some p, nm, v) :: r =>
      match std_decls r with
      | None => None
      | Some d =>
          if beq_bytes p xmlns_b then
            (if beq_bytes nm xmlns_b || match v with [] => true | _ => false end then None else Some ((Some nm, v) :: d))
          else Some d
      end
  end.

Fixpoint std_prefix_ns (st : nsstack) (p : bytes) : option bytes :=
  match st with
  | [] => None
  | (Some q, u) :: r => if beq_bytes q p then Some u else std_prefix_ns r p
  | (None, _) :: r => std_prefix_ns r p
  end.
Fixpoint std_default_ns (st : nsstack) : bytes :=
  match st with
  | [] => []
  | (None, u) :: _ => u
  | (Some _, _) :: r => std_default_ns r
  end.

(* the attributes that are not declarations, with expanded names: an unprefixed attribute is in no namespace, a
   prefix must be declared (Namespace constraint: Prefix Declared) *)
Fixpoint std_expand_attrs (st : nsstack) (l : list lattr) : option (list (bytes * bytes * bytes)) :=
  match l with
  | [] => Some []
  | (None, nm, v) :: r =>
      if beq_bytes nm xmlns_b then std_expand_attrs st r
      else match std_expand_attrs st r with Some x => Some (([], nm, v) :: x) | None => None end
  | (Some p, nm, v) :: r =>
      if beq_bytes p xmlns_b then std_expand_attrs st r
      else match std_prefix_ns st p with
           | None => None
           | Some u => match std_expand_attrs st r with Some x => Some ((u, nm, v) :: x) | None => None end
           end
  end.

(* Well-formedness constraint Unique Att Spec (no QName twice in one tag) and Namespaces section 6.3 (no two
   attributes with the same expanded name) *)
Definition beq_opt_bytes (a b : option bytes) : bool :=
  match a, b with
  | None, None => true
  | Some x, Some y => beq_bytes x y
  | _, _ => false
  end.
Definition same_qname (p : option bytes) (nm : bytes) (a : lattr) : bool :=
  let '(p', nm', _) := a in beq_opt_bytes p p' && beq_bytes nm nm'.
Fixpoint uniq_qnames (l : list lattr) : bool :=
  match l with
  | [] => true
  | (p, nm, _) :: r => negb (existsb (same_qname p nm) r) && uniq_qnames r
  end.
Definition same_xname (u nm : bytes) (a : bytes * bytes * bytes) : bool :=
  let '(u', nm', _) := a in beq_bytes u u' && beq_bytes nm nm'.
Fixpoint uniq_expanded (l : list (bytes * bytes * bytes)) : bool :=
  match l with
  | [] => true
  | (u, nm, _) :: r => negb (existsb (same_xname u nm) r) && uniq_expanded r
  end.
Definition lattr_qname_ok (a : lattr) : bool := let '(p, nm, _) := a in qname_ok p nm.

(* [42] ETag ::= '</' Name S? '>' *)
Definition std_etag (p : option bytes) (nm : bytes) (s : bytes) : option bytes :=
  if starts_with [60; 47] s then
    let '(p', nm', r1) := lex_qname (skipn 2 s) in
    if beq_opt_bytes p p' && beq_bytes nm nm' then
      match skip_S r1 with
      | c :: r2 => if c =? 62 then Some r2 else None
      | [] => None
      end
    else None
  else None.

Section Generic.
  (* character data up to the next markup: (text reported to the application, input from the less-than sign on) *)
  Variable rd_text : bytes -> option (bytes * bytes).
  (* attribute value: delimiter, input after the opening delimiter: (value, input after the closing delimiter) *)
  Variable rd_att : N -> bytes -> option (bytes * bytes).

  (* [41] Attribute ::= Name Eq AttValue, [25] Eq ::= S? '=' S?, [10] AttValue: double or single quotes.
     [40] STag ::= '<' Name (S Attribute)* S? '>' ; the input is what follows the Name. Result: the attributes with
     their QNames (prefix, local) and the input from '>' or '/>' on *)
  Fixpoint gx_attrs (fuel : nat) (s : bytes) : option (list lattr * bytes) :=
    match fuel with
    | O => None
    | S f =>
        match s with
        | c :: _ =>
            if StdText.is_xml_S c then
              let r := skip_S s in
              if starts_with [62] r || starts_with [47] r then Some ([], r)
              else
                let '(p, nm, r1) := lex_qname r in
                match skip_S r1 with
                | e :: r2 =>
                    if e =? 61 then
                      match skip_S r2 with
                      | q :: r3 =>
                          if (q =? 34) || (q =? 39) then
                            match rd_att q r3 with
                            | Some (v, r5) =>
                                match gx_attrs f r5 with
                                | Some (l, r6) => Some ((p, nm, v) :: l, r6)
                                | None => None
                                end
                            | None => None
                            end
                          else None
                      | [] => None
                      end
                    else None
                | [] => None
                end
            else Some ([], s)
        | [] => Some ([], s)
        end
    end.

  (* [43] content ::= CharData? ((element | Reference) CharData?)*  : character data chunks and child elements, up to
     an end tag or the end of the input. [39] element ::= EmptyElemTag | STag content ETag.
     [st] = namespace declarations in scope, innermost first. *)
  Fixpoint gx_content (fuel : nat) (st : nsstack) (s : bytes) : option (bytes * list xnode * bytes) :=
    match fuel with
    | O => None
    | S f =>
        if isnil s then Some ([], [], []) else
        match rd_text s with
        | None => None
        | Some (txt, r) =>
            if isnil r then Some (txt, [], [])
            else if starts_with [60; 47] r then Some (txt, [], r)
            else if negb (starts_with [60] r) then None
            else
              let '(p, nm, r1) := lex_qname (skipn 1 r) in
              if negb (qname_ok p nm) then None else
              match gx_attrs (S (length r1)) r1 with
              | None => None
              | Some (attrs, r2) =>
                  if negb (uniq_qnames attrs && forallb lattr_qname_ok attrs) then None else
                  match std_decls attrs with
                  | None => None
                  | Some d =>
                      (* (the order among the declarations of one element is irrelevant: Unique Att Spec) *)
                      let st1 := rev d ++ st in
                      match (match p with Some q => std_prefix_ns st1 q | None => Some (std_default_ns st1) end) with
                      | None => None
                      | Some u =>
                      match std_expand_attrs st1 attrs with
                      | None => None
                      | Some xa =>
                          if negb (uniq_expanded xa) then None else
                          let cont (e : xnode) (r5 : bytes) :=
                            match gx_content f st r5 with
                            | Some (txt', es, r6) => Some (txt ++ txt', e :: es, r6)
                            | None => None
                            end in
                          if starts_with [47; 62] r2 then cont (XE u nm xa [] []) (skipn 2 r2)
                          else if starts_with [62] r2 then
                            match gx_content f st1 (skipn 1 r2) with
                            | Some (t', ch, r4) =>
                                match std_etag p nm r4 with
                                | Some r5 => cont (XE u nm xa t' ch) r5
                                | None => None
                                end
                            | None => None
                            end
                          else None
                      end end
                  end
              end
        end
    end.

  (* the printed siblings as the content of some element *)
  Definition gx_parse (s : bytes) : option (bytes * list xnode) :=
    match gx_content (S (length s)) [] s with
    | Some (txt, es, []) => Some (txt, es)
    | _ => None
    end.
End Generic.

(* ---- instance 1: the standard reader. Character data chunks are cut at the next less-than sign and read by
   StdText.std_xml_text false (references, Char check, line ends 2.11, no CDATA-section-close); attribute values are cut
   at the closing delimiter and read by StdText.std_xml_text true (plus normalisation 3.3.3). A value delimited by single
   quotes may contain double quotes: StdText refuses a raw double quote, which only makes this reader accept less. *)
Definition not_lt (b : N) : bool := negb (b =? 60).
Definition std_rd_text (s : bytes) : option (bytes * bytes) :=
  let '(raw, r) := span not_lt s in
  match StdText.std_xml_text false raw with Some v => Some (v, r) | None => None end.
Definition std_rd_att (q : N) (s : bytes) : option (bytes * bytes) :=
  let '(raw, r) := span (fun b => negb (b =? q)) s in
  match r with
  | _ :: r' => match StdText.std_xml_text true raw with Some v => Some (v, r') | None => None end
  | [] => None
  end.

(* libyang prints a sequence of elements: a document in the sense of production [1] only when there is exactly one
   top-level node; in general the output is well-formed content *)
Definition std_xml_content : bytes -> option (bytes * list xnode) := gx_parse std_rd_text std_rd_att.

(* [1] document ::= prolog element Misc*  with empty prolog and no Misc: exactly one element *)
Definition std_xml_document (s : bytes) : option xnode :=
  match std_xml_content s with
  | Some ([], [e]) => Some e
  | _ => None
  end.

(* ---- instance 2: the libyang side. The same element grammar with the model of libyang's lexer lyxml_parse_value()
   for character data (end character: less-than sign) and attribute values (end character: the delimiter), then the
   schema-directed conversion of the element tree to a data forest. This is a reader for the documents the printer emits,
   NOT a transcription of parser_xml.c (no re-ordering of siblings, no validation, no default flags); it is tied to the
   implementation by reading libyang's own output and comparing with libyang's tree (tools/props/comps_doc.py). *)
Definition ly_rd_text (s : bytes) : option (bytes * bytes) :=
  match xml_value 60 s with Ok (v, r, _) => Some (v, r) | Err _ => None end.
Definition ly_rd_att (q : N) (s : bytes) : option (bytes * bytes) :=
  match xml_value q s with Ok (v, _ :: r, _) => Some (v, r) | _ => None end.

(* attributes -> metadata: namespace -> module -> key  module-name:name *)
Fixpoint metas_of (t : doctabs) (l : list (bytes * bytes * bytes)) : option (list (bytes * bytes)) :=
  match l with
  | [] => Some []
  | (u, nm, v) :: r =>
      match mod_by_ns (dt_mods t) u with
      | None => None
      | Some (_, mi) =>
          match metas_of t r with
          | Some ms => Some ((mi_name mi ++ 58 :: nm, v) :: ms)
          | None => None
          end
      end
  end.

Fixpoint node_of_xnode (sch : schema) (t : doctabs) (p : option sid) (e : xnode) {struct e} : option dnode :=
  match e with
  | XE u nm xa txt ch =>
      match mod_by_ns (dt_mods t) u with
      | None => None
      | Some (mid, _) =>
      match sid_by_name sch (dt_names t) p mid nm with
      | None => None
      | Some sd =>
      match metas_of t xa with
      | None => None
      | Some ms =>
          if is_term sch sd then
            (if isnil ch then Some (DN sd txt false ms []) else None)
          else if isnil txt then
            match (fix go (l : list xnode) : option forest :=
                     match l with
                     | [] => Some []
                     | x :: l' =>
                         match node_of_xnode sch t (Some sd) x, go l' with
                         | Some n, Some r => Some (n :: r)
                         | _, _ => None
                         end
                     end) ch with
            | Some f => Some (DN sd [] false ms f)
            | None => None
            end
          else None
      end end end
  end.
Fixpoint forest_of_xnodes (sch : schema) (t : doctabs) (p : option sid) (l : list xnode) : option forest :=
  match l with
  | [] => Some []
  | x :: l' =>
      match node_of_xnode sch t p x, forest_of_xnodes sch t p l' with
      | Some n, Some r => Some (n :: r)
      | _, _ => None
      end
  end.

Definition xml_parse (sch : schema) (t : doctabs) (s : bytes) : option forest :=
  match gx_parse ly_rd_text ly_rd_att s with
  | Some ([], es) => forest_of_xnodes sch t None es
  | _ => None
  end.

(* what the tree holds, as a generic element tree: names and namespaces of the schema nodes, metadata as attributes in
   the namespace of their module, canonical values as character data *)
Definition meta_generic (t : doctabs) (kv : bytes * bytes) : bytes * bytes * bytes :=
  let '(mn, nm) := split_colon (fst kv) in
  (mi_ns (match mod_by_name (dt_mods t) mn with Some i => i | None => mi_none end), nm, snd kv).

Fixpoint to_generic_node (t : doctabs) (n : dnode) {struct n} : xnode :=
  match n with
  | DN s v d m ch => XE (node_ns t s) (node_name t s) (map (meta_generic t) m) v (map (to_generic_node t) ch)
  end.
Definition to_generic (t : doctabs) (f : forest) : list xnode := map (to_generic_node t) f.

(* ------------------------------------------------------------------------------------------- *)
(* boolean checkers of the data hypotheses of the theorems (used in examples and counted by T2)   *)
(* ------------------------------------------------------------------------------------------- *)
(* every character is accepted by libyang's lexer (ly_getutf8) *)
Fixpoint lexableb_f (fuel : nat) (s : bytes) : bool :=
  match fuel with
  | O => false
  | S f =>
      match s with
      | [] => true
      | _ => match getutf8 s with
             | Some (_, u) => match u with O => false | _ => lexableb_f f (skipn u s) end
             | None => false
             end
      end
  end.
Definition lexableb (s : bytes) : bool := lexableb_f (S (length s)) s.

(* the UTF-8 encoding of a sequence of XML Chars *)
Fixpoint std_decode_all (fuel : nat) (s : bytes) (acc : list N) : option (list N) :=
  match fuel with
  | O => None
  | S f =>
      match s with
      | [] => Some (rev acc)
      | _ => match StdText.std_utf8_decode s with
             | Some (cp, r) => std_decode_all f r (cp :: acc)
             | None => None
             end
      end
  end.
Definition std_valb (v : bytes) : bool :=
  match std_decode_all (S (length v)) v [] with
  | Some cps => forallb StdText.is_xml_char cps && beq_bytes (flat_map utf8_encode cps) v
  | None => false
  end.

Fixpoint nodupb (l : list bytes) : bool :=
  match l with [] => true | x :: r => negb (existsb (beq_bytes x) r) && nodupb r end.

Definition meta_okb (t : doctabs) (vb : bytes -> bool) (kv : bytes * bytes) : bool :=
  vb (snd kv) &&
  existsb (fun e : N * modinfo =>
             starts_with (mi_name (snd e) ++ [58]) (fst kv) &&
             ncname_ok (skipn (length (mi_name (snd e) ++ [58])) (fst kv))) (dt_mods t).

Fixpoint docb (sch : schema) (t : doctabs) (vb : bytes -> bool) (n : dnode) {struct n} : bool :=
  match n with
  | DN s v d m ch =>
      negb (match kind_of sch s with KAny => true | _ => false end) &&
      (if is_term sch s then vb v else isnil v) &&
      forallb (meta_okb t vb) m && nodupb (map fst m) && forallb (docb sch t vb) ch
  end.
