(* StdText.v — readers written from the standards, independent of the libyang models:
   - RFC 3629 strict UTF-8 decoder (the ABNF of section 4),
   - RFC 8259 section 7 string reader,
   - XML 1.0 (Fifth Edition) character data / attribute value reader: predefined entities (4.6),
     character references (4.1, well-formedness constraint Legal Character), end-of-line handling
     (2.11), attribute-value normalisation (3.3.3), CharData excludes the CDATA-section-close
     delimiter (2.4).
   Nothing here comes from libyang; from Utf8.v only the RFC 3629 encoder [utf8_encode] is used.
   Model only (definitions); the proofs are in StdTextP.v. *)
From LY Require Import Base.
From LY Require Utf8.
Local Open Scope N_scope.

(* ---------- RFC 3629 section 4 ----------
   UTF8-1 = %x00-7F
   UTF8-2 = %xC2-DF UTF8-tail
   UTF8-3 = %xE0 %xA0-BF UTF8-tail / %xE1-EC 2( UTF8-tail ) / %xED %x80-9F UTF8-tail / %xEE-EF 2( UTF8-tail )
   UTF8-4 = %xF0 %x90-BF 2( UTF8-tail ) / %xF1-F3 3( UTF8-tail ) / %xF4 %x80-8F 2( UTF8-tail )
   UTF8-tail = %x80-BF
   Result: the scalar value and the remaining bytes. *)
Definition is_tail (b : N) : bool := (128 <=? b) && (b <=? 191).

Definition std_utf8_decode (s : bytes) : option (N * bytes) :=
  match s with
  | [] => None
  | b0 :: r0 =>
    if b0 <? 128 then Some (b0, r0)
    else if (194 <=? b0) && (b0 <=? 223) then
      match r0 with
      | b1 :: r1 =>
          if is_tail b1 then Some ((b0 - 192) * 64 + (b1 - 128), r1) else None
      | _ => None
      end
    else if (224 <=? b0) && (b0 <=? 239) then
      match r0 with
      | b1 :: b2 :: r2 =>
          if is_tail b1 && is_tail b2 &&
             (if b0 =? 224 then 160 <=? b1 else true) && (if b0 =? 237 then b1 <=? 159 else true)
          then Some ((b0 - 224) * 4096 + (b1 - 128) * 64 + (b2 - 128), r2) else None
      | _ => None
      end
    else if (240 <=? b0) && (b0 <=? 244) then
      match r0 with
      | b1 :: b2 :: b3 :: r3 =>
          if is_tail b1 && is_tail b2 && is_tail b3 &&
             (if b0 =? 240 then 144 <=? b1 else true) && (if b0 =? 244 then b1 <=? 143 else true)
          then Some ((b0 - 240) * 262144 + (b1 - 128) * 4096 + (b2 - 128) * 64 + (b3 - 128), r3)
          else None
      | _ => None
      end
    else None
  end.

(* whole string well-formed per RFC 3629 (used for cross-checks; the theorems define validity
   through the encoder instead) *)
Fixpoint std_utf8_valid_f (fuel : nat) (s : bytes) : bool :=
  match fuel with
  | O => false
  | S f =>
      match s with
      | [] => true
      | _ => match std_utf8_decode s with
             | Some (_, r) => std_utf8_valid_f f r
             | None => false
             end
      end
  end.
Definition std_utf8_valid (s : bytes) : bool := std_utf8_valid_f (S (length s)) s.

(* ---------- RFC 8259 section 7 ----------
   string = quotation-mark *char quotation-mark
   char = unescaped / escape ( %x22 / %x5C / %x2F / %x62 / %x66 / %x6E / %x72 / %x74 / %x75 4HEXDIG )
   unescaped = %x20-21 / %x23-5B / %x5D-10FFFF
   A code point outside the Basic Multilingual Plane may be written as a UTF-16 surrogate pair
   of two \u escapes. A lone surrogate has no interoperable meaning (section 8.2); this reader
   rejects it. JSON text is UTF-8 (section 8.1), so unescaped characters are decoded with the
   strict decoder above. *)
Definition hexdig (b : N) : option N :=
  if (48 <=? b) && (b <=? 57) then Some (b - 48)
  else if (65 <=? b) && (b <=? 70) then Some (b - 55)
  else if (97 <=? b) && (b <=? 102) then Some (b - 87)
  else None.

Definition hex4 (s : bytes) : option (N * bytes) :=
  match s with
  | a :: b :: c :: d :: r =>
      match hexdig a, hexdig b, hexdig c, hexdig d with
      | Some x, Some y, Some z, Some w => Some (x * 4096 + y * 256 + z * 16 + w, r)
      | _, _, _, _ => None
      end
  | _ => None
  end.

Definition json_unescaped (cp : N) : bool :=
  ((32 <=? cp) && (cp <=? 33)) || ((35 <=? cp) && (cp <=? 91)) || ((93 <=? cp) && (cp <=? 1114111)).

(* escape letter, character it stands for *)
Definition json_escapes : list (N * N) :=
  [(34, 34); (92, 92); (47, 47); (98, 8); (102, 12); (110, 10); (114, 13); (116, 9)].
Fixpoint assoc_N (t : list (N * N)) (k : N) : option N :=
  match t with
  | [] => None
  | (a, v) :: t' => if a =? k then Some v else assoc_N t' k
  end.

Definition is_hi_surrogate (w : N) : bool := (55296 <=? w) && (w <=? 56319).
Definition is_lo_surrogate (w : N) : bool := (56320 <=? w) && (w <=? 57343).

(* characters of the string, [s] starts after the opening quotation mark; the closing quotation
   mark must be the last byte of the input *)
Fixpoint std_json_chars (fuel : nat) (s : bytes) (acc : list N) : option (list N) :=
  match fuel with
  | O => None
  | S f =>
    match s with
    | [] => None
    | b :: r =>
      if b =? 34 then (match r with [] => Some acc | _ :: _ => None end)
      else if b =? 92 then
        match r with
        | [] => None
        | e :: r1 =>
          if e =? 117 then
            match hex4 r1 with
            | None => None
            | Some (w, r2) =>
              if is_hi_surrogate w then
                if starts_with [92; 117] r2 then
                  match hex4 (skipn 2 r2) with
                  | Some (w2, r4) =>
                      if is_lo_surrogate w2
                      then std_json_chars f r4 (acc ++ [65536 + (w - 55296) * 1024 + (w2 - 56320)])
                      else None
                  | None => None
                  end
                else None
              else if is_lo_surrogate w then None
              else std_json_chars f r2 (acc ++ [w])
            end
          else
            match assoc_N json_escapes e with
            | Some v => std_json_chars f r1 (acc ++ [v])
            | None => None
            end
        end
      else
        match std_utf8_decode s with
        | Some (cp, r') => if json_unescaped cp then std_json_chars f r' (acc ++ [cp]) else None
        | None => None
        end
    end
  end.

(* the value of a JSON string token as the UTF-8 encoding of its characters; the input is the
   whole token including both quotation marks *)
Definition std_json_string (s : bytes) : option bytes :=
  match s with
  | b :: r =>
      if b =? 34 then
        match std_json_chars (S (length r)) r [] with
        | Some cps => Some (flat_map Utf8.utf8_encode cps)
        | None => None
        end
      else None
  | [] => None
  end.

(* ---------- XML 1.0 ---------- *)
(* production [2] Char *)
Definition is_xml_char (v : N) : bool :=
  (v =? 9) || (v =? 10) || (v =? 13) || ((32 <=? v) && (v <=? 55295)) ||
  ((57344 <=? v) && (v <=? 65533)) || ((65536 <=? v) && (v <=? 1114111)).

(* production [3] S *)
Definition is_xml_S (b : N) : bool := (b =? 32) || (b =? 9) || (b =? 13) || (b =? 10).

(* 2.11: the two-character sequence CR LF and any CR not followed by LF become a single LF.
   [prev_cr]: the previous input byte was a CR (already translated). *)
Fixpoint xml_eol_f (prev_cr : bool) (s : bytes) : bytes :=
  match s with
  | [] => []
  | b :: r =>
      if b =? 13 then 10 :: xml_eol_f true r
      else if (b =? 10) && prev_cr then xml_eol_f false r
      else b :: xml_eol_f false r
  end.
Definition xml_eol (s : bytes) : bytes := xml_eol_f false s.

Fixpoint std_dec (s : bytes) (n : N) : N * bytes :=
  match s with
  | d :: r => if (48 <=? d) && (d <=? 57) then std_dec r (10 * n + (d - 48)) else (n, s)
  | [] => (n, s)
  end.
Fixpoint std_hex (s : bytes) (n : N) : N * bytes :=
  match s with
  | d :: r => match hexdig d with Some x => std_hex r (16 * n + x) | None => (n, s) end
  | [] => (n, s)
  end.

(* 4.6 predefined entities: name followed by the semicolon, character *)
Definition xml_entities : list (bytes * N) :=
  [([108; 116; 59], 60); ([103; 116; 59], 62); ([97; 109; 112; 59], 38);
   ([97; 112; 111; 115; 59], 39); ([113; 117; 111; 116; 59], 34)].
Fixpoint find_entity (t : list (bytes * N)) (s : bytes) : option (N * bytes) :=
  match t with
  | [] => None
  | (nm, v) :: t' => if starts_with nm s then Some (v, skipn (length nm) s) else find_entity t' s
  end.

(* after a digit run: the semicolon, and the value must match Char *)
Definition finish_charref (vr : N * bytes) : option (bytes * bytes) :=
  let '(v, r) := vr in
  match r with
  | c :: r' => if (c =? 59) && is_xml_char v then Some (Utf8.utf8_encode v, r') else None
  | [] => None
  end.

(* [s] is the text after an ampersand: replacement bytes and the remaining text *)
Definition std_reference (s : bytes) : option (bytes * bytes) :=
  if starts_with [35; 120] s then                       (* hexadecimal character reference *)
    match skipn 2 s with
    | d :: t => match hexdig d with
                | Some _ => finish_charref (std_hex (d :: t) 0)
                | None => None
                end
    | [] => None
    end
  else if starts_with [35] s then                       (* decimal character reference *)
    match skipn 1 s with
    | d :: t => if (48 <=? d) && (d <=? 57) then finish_charref (std_dec (d :: t) 0) else None
    | [] => None
    end
  else
    match find_entity xml_entities s with
    | Some (v, r) => Some ([v], r)
    | None => None
    end.

(* character data of element content (attr = false) or the text of an attribute value
   (attr = true), already cut at its delimiter and already end-of-line normalised.
   Productions [14] CharData and [10] AttValue: everything that is not a reference must be a
   character matching [2] Char, other than the less-than sign (and the ampersand); the document is
   UTF-8, so raw characters are decoded with the strict RFC 3629 decoder above and anything that
   is not the encoding of a Char makes the document not well-formed (None). The attribute values
   in question are delimited by double quotes, so a raw double quote cannot be part of one.
   The characters are reported as their UTF-8 encoding. *)
Fixpoint std_xml_expand (fuel : nat) (attr : bool) (s : bytes) (acc : bytes) : option bytes :=
  match fuel with
  | O => None
  | S f =>
    match s with
    | [] => Some acc
    | b :: r =>
      if b =? 38 then
        match std_reference r with
        | Some (bs, r') => std_xml_expand f attr r' (acc ++ bs)
        | None => None
        end
      else if b =? 60 then None                                   (* markup / forbidden in AttValue *)
      else if negb attr && starts_with [93; 93; 62] s then None   (* CharData excludes this sequence *)
      else if attr && (b =? 34) then None                         (* the delimiter of the AttValue *)
      else
        match std_utf8_decode s with
        | Some (cp, r') =>
            if is_xml_char cp then
              if attr && is_xml_S cp then std_xml_expand f attr r' (acc ++ [32])      (* 3.3.3 *)
              else std_xml_expand f attr r' (acc ++ Utf8.utf8_encode cp)
            else None
        | None => None
        end
    end
  end.

(* what a conformant processor reports to the application for the raw text [s] *)
Definition std_xml_text (attr : bool) (s : bytes) : option bytes :=
  let t := xml_eol s in
  std_xml_expand (S (length t)) attr t [].
