(* Sched.v - slice conc (property C16): the LOCKING LOGIC of a shared libyang context as a state machine.

   What is modelled (model only; proofs are in SchedP.v):
     threads   lists of atomic steps over one shared state; a schedule is a list of thread ids, each entry lets that
               thread execute its next step (an Acquire of a taken lock does not advance: the entry is lost)
     locks     ctx->dict.lock (LDict) and ctx->lyb_hash_lock (LHash)
     dict      the string dictionary as a reference count per string (0 = absent; the hash table below it is slice ht):
               lydict_insert / lydict_insert_zc / lydict_remove (src/dict.c:122-266), each split into the table call
               and the separate read-modify-write of match->refcount, so that atomicity is a THEOREM about the lock,
               not an assumption of the model
     err_ht    the per-thread error records of src/log.c (as of /repo commit 75f292f): ly_err_get_rec, ly_err_new_rec,
               log_store, ly_err_last/first, ly_err_clean. Every record is a heap cell of its own (calloc in
               ly_err_new_rec) that lives until ly_ctx_destroy; the hash table stores POINTERS to the records
               (context.c: lyht_new with the value size of one pointer). The table's arena is still freed when
               lyht_insert enlarges it (used*100/size >= 75, hash_table.c:399-412, LYHT_MIN_SIZE 8: the 6th record;
               the generation counter below counts that), but ly_err_get_rec reads the slot (found = the content of the slot) while it
               still holds lyb_hash_lock and hands out the record's own address: a stable handle (the index of the
               record in order of creation). The handle is used AFTER the lock is dropped (ly_err_last/first,
               ly_err_clean, log_store), which is harmless now.
               History: before 75f292f the records were stored INLINE in the arena and the handed-out pointer was
               (generation, index): the 6th thread's first error freed the arena under the other threads' pointers
               (err_rec_pointer_stable_refuted, known finding err-rec-resize). The witness schedule is kept as a
               regression example (w_err_fine).
     canon     lazily cached canonical strings of shared values: lyplg_type_print_bits (plugins_types/bits.c:419-430)
               and the same code in binary.c:394, date_and_time.c:286, ipv4_address.c:299, ipv4_address_no_zone.c:171,
               ipv4_prefix.c:256, ipv6_address.c:302, ipv6_address_no_zone.c:219, ipv6_prefix.c:270, union.c:611:
               if (!value->_canonical) { build; lydict_insert_zc(ctx, ret, &value->_canonical); }  - the test is made
               without any lock, the store (store to str_p = match->value, dict.c:221) inside dict.lock
     hash      the LYB schema hash cache filled under lyb_hash_lock (src/lyb.c:100-111), read without it (lyb.c:66-79)
     logopts   the logging options: ONE process-wide cell (ly_log_opts, src/log.c:40, read and written with
               ly_log_options(), log.c:338-345) and a THREAD-LOCAL override (temp_ly_log_opts, log.c:41, set with
               ly_temp_log_options(), log.c:347-355); log_vprintf (log.c:604-611) uses the override when there is
               one, else the global cell. Library code that silences the logger for a trial operation uses the
               override (e.g. lydxml_data_check_opaq, parser_xml.c:424-426); LogSaveSet/LogRestore model what the same
               code would do with the global cell (prev = ly_log_options(0); ...; ly_log_options(prev))
     typeref   the reference counter of a compiled type of the SHARED schema (struct lysc_type.refcount): values in private
               data trees that hold a compiled path with predicates (instance-identifier) take a reference on the key's
               type when the value is stored or duplicated (LY_ATOMIC_INC_BARRIER: path.c:717, 780, 977; schema_compile.c:
               973) and give it back when the value is freed (LY_ATOMIC_DEC_BARRIER in lysc_type_free,
               tree_schema_free.c:887). RefInc / RefDec are the atomic operations; RefLoad + RefStoreInc is what a plain
               ++type->refcount compiles to (used by a regression example only)
     errslot   regression only (a seeded change of ly_err_get_rec moved the read of the found slot behind the unlock):
               ErrSlotFind is lyht_find alone (the pointer match into the table's arena, kept with the arena generation),
               ErrSlotRead is found = the content of the slot; both touch the table's memory and need lyb_hash_lock
     hashdc    the LYB hash cache is filled node by node: HashFill stores the hashes of the FIRST node of the module
               (lyb_cache_node_hash_cb on mod->compiled->data), HashFillRest those of all other nodes; HashRead reads the
               hash of some other node. HashCheck is an unlocked test of the first node's hash (regression only: a seeded
               change put a double-checked fast path in front of the lock in lyb_cache_module_hash)
     scratch   scratch memory a function fills and then reads: thread-local (a struct tm on the stack filled by gmtime_r,
               localtime_r; ScrWrite false / ScrRead false) or process-wide (the static struct tm of gmtime(); ScrWrite
               true / ScrRead true; regression only: a seeded change used gmtime() in lyplg_type_print_date_and_time)
     private   Priv f: a pure operation on thread-local data
   What is NOT modelled and cannot be: the C11 memory model (every step here is atomic and sequentially consistent),
   pthread mutex behaviour other than mutual exclusion, the heap. *)
From LY Require Import Base.
Local Open Scope N_scope.

Inductive lockid := LDict | LHash.
Definition lockid_eqb (a b : lockid) : bool :=
  match a, b with LDict, LDict => true | LHash, LHash => true | _, _ => false end.

Definition tid := nat.

(* memory guarded by a lock: the dictionary's hash table, the error table, the LYB hash cache *)
Inductive resource := RDictTab | RErrTab | RHashCache.
Definition guard (r : resource) : lockid :=
  match r with RDictTab => LDict | RErrTab => LHash | RHashCache => LHash end.

(* struct ly_ctx_err_rec * : the separately allocated record, named by its index in order of creation *)
Record eptr := mkptr { p_idx : nat }.

(* the local variables of the C functions that survive from one step to the next *)
Inductive reg :=
| RNone
| RFound (b : bool)            (* lyht_find / lyht_insert found an existing record *)
| RPtr (p : option eptr)       (* rec / match of log.c *)
| RCached (b : bool).          (* value->_canonical != NULL *)

Definition flag (r : reg) : bool :=
  match r with
  | RNone => false
  | RFound b => b
  | RPtr p => match p with Some _ => true | None => false end
  | RCached b => b
  end.

Inductive step :=
| Acquire (m : lockid)
| Release (m : lockid)
| SkipIf (b : bool) (n : nat)   (* private branch on the local variable: skip the next n steps when flag = b *)
| DictInsFind (s : bytes)       (* lyht_insert_with_resize_cb(hash_tab, {s, 1}): find, or create with refcount 1 *)
| DictInsBump (s : bytes)       (* if (ret == LY_EEXIST) match->refcount++; then str_p gets match->value *)
| DictRemFind (s : bytes)       (* lyht_find(hash_tab, s) *)
| DictRemDec (s : bytes)        (* match->refcount--; if 0: lyht_remove + free; LY_ENOTFOUND when not found *)
| ErrFind                       (* lyht_find(err_ht, &recp, ...) and the read of the found slot, both under the lock *)
| ErrInsert                     (* rec = calloc(); lyht_insert(err_ht, &rec, ...); LY_EEXIST: free(rec), NULL *)
| ErrWrite (e : N)              (* log_store: append an item through rec *)
| ErrRead                       (* ly_err_last / ly_err_first: rec ? rec->err : NULL *)
| ErrClear                      (* ly_err_clean(ctx, NULL): free rec->err; rec->err = NULL *)
| CanonCheck (v : nat)          (* if (!value->_canonical) *)
| CanonSet (v : nat)            (* *str_p = match->value with str_p = &value->_canonical (dict.c:221, inside the lock) *)
| CanonClr (v : nat)            (* value->_canonical = NULL in lyplg_type_free_* *)
| CanonUse (v : nat)            (* return value->_canonical *)
| HashFill                      (* lysc_module_dfs_full(mod, lyb_cache_node_hash_cb) *)
| HashRead                      (* lyb_get_hash: node->hash[i] *)
| Priv (f : N)
| OpEnd                         (* end of one API call (no effect; lets a schedule be given call by call) *)
| LogSaveSet (v : N)            (* prev = ly_log_options(v): save the global options in a local, set them *)
| LogRestore                    (* ly_log_options(prev) *)
| LogTempSet (v : N)            (* ly_temp_log_options(&temp) with temp = v *)
| LogTempClear                  (* ly_temp_log_options(NULL) (the previous override; overrides are not nested here) *)
| LogObserve                    (* log_vprintf learns the effective options: the override if set, else the global cell *)
| RefInc                        (* LY_ATOMIC_INC_BARRIER(type->refcount) *)
| RefDec                        (* LY_ATOMIC_DEC_BARRIER(type->refcount) (the type is freed when it was 1) *)
| RefLoad                       (* tmp = type->refcount   (first half of a plain ++) *)
| RefStoreInc                   (* type->refcount = tmp + 1  (second half) *)
| ErrSlotFind                   (* lyht_find(err_ht, ...) alone: match = address of the slot in the arena *)
| ErrSlotRead                   (* found = match ? the content of the slot : NULL *)
| HashCheck                     (* if (mod->compiled->data->hash[0]) - unlocked *)
| HashFillRest                  (* lyb_cache_node_hash_cb on the nodes after the first *)
| ScrWrite (g : bool) (v : N)   (* fill the scratch buffer: g = true process-wide static, false thread-local *)
| ScrRead (g : bool).           (* read it back *)

(* ---------------------------------------------------------------------------------------------------------------
   programs of the API calls
   --------------------------------------------------------------------------------------------------------------- *)
Inductive dop := DIns (s : bytes) | DRem (s : bytes).

(* lydict_insert / lydict_insert_zc (dict.c:242-244, 261-263) *)
Definition p_dict_insert (s : bytes) : list step :=
  [Acquire LDict; DictInsFind s; DictInsBump s; Release LDict].
(* lydict_remove (dict.c:144-173) *)
Definition p_dict_remove (s : bytes) : list step :=
  [Acquire LDict; DictRemFind s; DictRemDec s; Release LDict].
Definition p_dop (o : dop) : list step :=
  match o with DIns s => p_dict_insert s | DRem s => p_dict_remove s end.
Definition dprog (ops : list dop) : list step := concat (map p_dop ops).

(* the same two calls with the lock/unlock pair removed (what a missing lock would do; used by a counterexample) *)
Definition p_dict_insert_nolock (s : bytes) : list step := [DictInsFind s; DictInsBump s].

(* ly_err_get_rec (log.c:184-203), ly_err_new_rec (211-231) *)
Definition p_err_get : list step := [Acquire LHash; ErrFind; Release LHash].
Definition p_err_new : list step := [Acquire LHash; ErrInsert; Release LHash].
(* log_store (log.c:476-491): if (!(rec = ly_err_get_rec(ctx))) rec = ly_err_new_rec(ctx);  ... rec->err = e *)
Definition p_log_store (e : N) : list step := p_err_get ++ [SkipIf true 3] ++ p_err_new ++ [ErrWrite e; OpEnd].
(* ly_err_last / ly_err_first (log.c:233-259) *)
Definition p_err_last : list step := p_err_get ++ [ErrRead; OpEnd].
(* ly_err_clean(ctx, NULL) (log.c:301-327) *)
Definition p_err_clean : list step := p_err_get ++ [ErrClear; OpEnd].

(* lyplg_type_print_bits & co. on value v whose canonical string is s *)
Definition p_print_lazy (v : nat) (s : bytes) : list step :=
  [CanonCheck v; SkipIf true 5; Acquire LDict; DictInsFind s; DictInsBump s; CanonSet v; Release LDict; CanonUse v; OpEnd].
(* lyplg_type_free_bits & co.: lydict_remove(ctx, value->_canonical) (returns at once for NULL); value->_canonical = NULL *)
Definition p_free_lazy (v : nat) (s : bytes) : list step :=
  [CanonCheck v; SkipIf false 5; Acquire LDict; DictRemFind s; DictRemDec s; Release LDict; CanonClr v; OpEnd].

(* lyb_cache_module_hash (lyb.c:100-111) followed by the reads of the printer / parser *)
Definition p_lyb_hash : list step := [Acquire LHash; HashFill; HashFillRest; Release LHash; HashRead; OpEnd].
(* the same with a double-checked fast path in front of the lock (regression example) *)
Definition p_lyb_hash_dc : list step :=
  [HashCheck; SkipIf true 4; Acquire LHash; HashFill; HashFillRest; Release LHash; HashRead; OpEnd].
(* ly_err_get_rec with the read of the slot behind the unlock (regression example), followed by ly_err_last's use *)
Definition p_err_get_late : list step := [Acquire LHash; ErrSlotFind; Release LHash; ErrSlotRead; OpEnd].
Definition p_err_get_slot : list step := [Acquire LHash; ErrSlotFind; ErrSlotRead; Release LHash; OpEnd].
(* lyplg_type_print_date_and_time: gmtime_r into a local struct tm, then asprintf from it; and with gmtime() *)
Definition p_time_print (v : N) : list step := [ScrWrite false v; ScrRead false; OpEnd].
Definition p_time_print_static (v : N) : list step := [ScrWrite true v; ScrRead true; OpEnd].

Inductive apiop :=
| ADictInsert (s : bytes)
| ADictRemove (s : bytes)
| ALogStore (e : N)
| AErrLast
| AErrClean
| APrintLazy (v : nat) (s : bytes)
| AFreeLazy (v : nat) (s : bytes)
| ALybHash
| APriv (f : N)
| ASilentTrial (f : N)          (* a trial operation with the logger silenced by the thread-local override (as coded) *)
| ADupIid                       (* duplicate a value with a compiled predicate path: reference on the key type (path.c:977) *)
| AFreeIid                      (* free such a value: lysc_type_free of the key type *)
| ATimePrint (v : N)            (* print a date-and-time value: thread-local scratch (gmtime_r / localtime_r) *)
| ALogObserve.                  (* any logging call: which options does this thread's logger see *)

Definition p_api (o : apiop) : list step :=
  match o with
  | ADictInsert s => p_dict_insert s ++ [OpEnd]
  | ADictRemove s => p_dict_remove s ++ [OpEnd]
  | ALogStore e => p_log_store e
  | AErrLast => p_err_last
  | AErrClean => p_err_clean
  | APrintLazy v s => p_print_lazy v s
  | AFreeLazy v s => p_free_lazy v s
  | ALybHash => p_lyb_hash
  | APriv f => [Priv f; OpEnd]
  | ASilentTrial f => [LogTempSet 0; LogObserve; Priv f; LogTempClear; OpEnd]
  | ADupIid => [Priv 7; RefInc; OpEnd]
  | AFreeIid => [RefDec; Priv 8; OpEnd]
  | ATimePrint v => p_time_print v
  | ALogObserve => [LogObserve; OpEnd]
  end.

(* ly_path_dup_predicates with a plain ++refcount instead of the atomic increment (regression example) *)
Definition p_dup_iid_plain : list step := [Priv 7; RefLoad; RefStoreInc; OpEnd].

(* the same trial with the process-wide cell instead of the override (what a careless implementation does) *)
Definition p_silent_trial_global (f : N) : list step := [LogSaveSet 0; LogObserve; Priv f; LogRestore; OpEnd].
Definition compile (ops : list apiop) : list step := concat (map p_api ops).

(* ---------------------------------------------------------------------------------------------------------------
   state
   --------------------------------------------------------------------------------------------------------------- *)
Definition dictT := bytes -> N.
Definition dupd (d : dictT) (s : bytes) (n : N) : dictT := fun x => if beq_bytes x s then n else d x.
Definition bupd (c : nat -> bool) (v : nat) (b : bool) : nat -> bool := fun x => if Nat.eqb x v then b else c x.

Record tstate := mkT { t_rem : list step; t_reg : reg; t_local : N }.

(* an error item: (thread that stored it, payload) *)
Definition eitem : Type := (tid * N)%type.
Definition erec : Type := (tid * list eitem)%type.

Record state := mkS {
  s_ldict : option tid;
  s_lhash : option tid;
  s_dict : dictT;
  s_egen : N;                 (* generation of the err_ht arena (of record POINTERS; nothing outside the lock points into it) *)
  s_esize : N;                (* ht->size *)
  s_emode : N;                (* ht->resize: 1 = enlarge only after 50 % was reached once, 2 = resizing enabled *)
  s_erecs : list erec;        (* the separately allocated records, in order of creation; never freed before the context *)
  s_canon : nat -> bool;      (* value->_canonical != NULL of the shared values *)
  s_hash : bool;              (* LYB hashes cached *)
  s_thr : list tstate;
  s_logopts : N;              (* ly_log_opts: the process-wide logging options *)
  s_temp : nat -> option N;   (* temp_ly_log_opts of each thread (thread-local storage: only thread t touches s_temp t) *)
  s_saved : nat -> N;         (* the local variable prev of a thread between LogSaveSet and LogRestore *)
  s_tref : Z;                 (* lysc_type.refcount of one compiled type of the shared schema *)
  s_tmp : nat -> Z;           (* the register of a thread between RefLoad and RefStoreInc *)
  s_slot : nat -> option (N * nat);   (* a thread's pointer into the err_ht arena: (generation, index) *)
  s_hash2 : bool;             (* LYB hashes of the nodes after the first one cached *)
  s_gscr : N;                 (* process-wide scratch buffer (static storage) *)
  s_lscr : nat -> N }.        (* thread-local scratch buffers *)

Definition init (d0 : dictT) (progs : list (list step)) : state :=
  mkS None None d0 0 8 1 [] (fun _ => false) false (map (fun p => mkT p RNone 0) progs) 3 (fun _ => None) (fun _ => 0) 1%Z (fun _ => 0%Z) (fun _ => None) false 0 (fun _ => 0).

(* the same with other initial process-wide logging options (3 = LY_LOLOG | LY_LOSTORE) *)
Definition init_log (g : N) (d0 : dictT) (progs : list (list step)) : state :=
  mkS None None d0 0 8 1 [] (fun _ => false) false (map (fun p => mkT p RNone 0) progs) g (fun _ => None) (fun _ => 0) 1%Z (fun _ => 0%Z) (fun _ => None) false 0 (fun _ => 0).

(* the same with another initial reference count of the shared type *)
Definition init_ref (c : Z) (progs : list (list step)) : state :=
  mkS None None (fun _ => 0) 0 8 1 [] (fun _ => false) false (map (fun p => mkT p RNone 0) progs) 3 (fun _ => None) (fun _ => 0)
      c (fun _ => 0%Z) (fun _ => None) false 0 (fun _ => 0).

Definition holder (st : state) (m : lockid) : option tid :=
  match m with LDict => s_ldict st | LHash => s_lhash st end.

Definition holds (st : state) (t : tid) (m : lockid) : bool :=
  match holder st m with Some u => Nat.eqb u t | None => false end.

Definition set_holder (st : state) (m : lockid) (h : option tid) : state :=
  match m with
  | LDict => mkS h (s_lhash st) (s_dict st) (s_egen st) (s_esize st) (s_emode st) (s_erecs st) (s_canon st) (s_hash st) (s_thr st)
         (s_logopts st) (s_temp st) (s_saved st) (s_tref st) (s_tmp st) (s_slot st) (s_hash2 st) (s_gscr st) (s_lscr st)
  | LHash => mkS (s_ldict st) h (s_dict st) (s_egen st) (s_esize st) (s_emode st) (s_erecs st) (s_canon st) (s_hash st) (s_thr st)
         (s_logopts st) (s_temp st) (s_saved st) (s_tref st) (s_tmp st) (s_slot st) (s_hash2 st) (s_gscr st) (s_lscr st)
  end.

Definition set_dict (st : state) (d : dictT) : state :=
  mkS (s_ldict st) (s_lhash st) d (s_egen st) (s_esize st) (s_emode st) (s_erecs st) (s_canon st) (s_hash st) (s_thr st)
      (s_logopts st) (s_temp st) (s_saved st) (s_tref st) (s_tmp st) (s_slot st) (s_hash2 st) (s_gscr st) (s_lscr st).
Definition set_err (st : state) (g sz md : N) (recs : list erec) : state :=
  mkS (s_ldict st) (s_lhash st) (s_dict st) g sz md recs (s_canon st) (s_hash st) (s_thr st)
      (s_logopts st) (s_temp st) (s_saved st) (s_tref st) (s_tmp st) (s_slot st) (s_hash2 st) (s_gscr st) (s_lscr st).
Definition set_canon (st : state) (c : nat -> bool) : state :=
  mkS (s_ldict st) (s_lhash st) (s_dict st) (s_egen st) (s_esize st) (s_emode st) (s_erecs st) c (s_hash st) (s_thr st)
      (s_logopts st) (s_temp st) (s_saved st) (s_tref st) (s_tmp st) (s_slot st) (s_hash2 st) (s_gscr st) (s_lscr st).
Definition set_hash (st : state) (b : bool) : state :=
  mkS (s_ldict st) (s_lhash st) (s_dict st) (s_egen st) (s_esize st) (s_emode st) (s_erecs st) (s_canon st) b (s_thr st)
      (s_logopts st) (s_temp st) (s_saved st) (s_tref st) (s_tmp st) (s_slot st) (s_hash2 st) (s_gscr st) (s_lscr st).
Definition set_thr (st : state) (l : list tstate) : state :=
  mkS (s_ldict st) (s_lhash st) (s_dict st) (s_egen st) (s_esize st) (s_emode st) (s_erecs st) (s_canon st) (s_hash st) l
      (s_logopts st) (s_temp st) (s_saved st) (s_tref st) (s_tmp st) (s_slot st) (s_hash2 st) (s_gscr st) (s_lscr st).

Definition set_log (st : state) (g : N) (tmp : nat -> option N) (sv : nat -> N) : state :=
  mkS (s_ldict st) (s_lhash st) (s_dict st) (s_egen st) (s_esize st) (s_emode st) (s_erecs st) (s_canon st) (s_hash st) (s_thr st)
      g tmp sv (s_tref st) (s_tmp st) (s_slot st) (s_hash2 st) (s_gscr st) (s_lscr st).
Definition set_ref (st : state) (c : Z) (tmp : nat -> Z) : state :=
  mkS (s_ldict st) (s_lhash st) (s_dict st) (s_egen st) (s_esize st) (s_emode st) (s_erecs st) (s_canon st) (s_hash st) (s_thr st)
      (s_logopts st) (s_temp st) (s_saved st) c tmp (s_slot st) (s_hash2 st) (s_gscr st) (s_lscr st).
Definition set_x (st : state) (sl : nat -> option (N * nat)) (h2 : bool) (gs : N) (ls : nat -> N) : state :=
  mkS (s_ldict st) (s_lhash st) (s_dict st) (s_egen st) (s_esize st) (s_emode st) (s_erecs st) (s_canon st) (s_hash st) (s_thr st)
      (s_logopts st) (s_temp st) (s_saved st) (s_tref st) (s_tmp st) sl h2 gs ls.
Definition supd (c : nat -> option (N * nat)) (t : nat) (v : option (N * nat)) : nat -> option (N * nat) :=
  fun x => if Nat.eqb x t then v else c x.
Definition zupd (c : nat -> Z) (t : nat) (v : Z) : nat -> Z := fun x => if Nat.eqb x t then v else c x.
Definition oupd (c : nat -> option N) (t : nat) (v : option N) : nat -> option N := fun x => if Nat.eqb x t then v else c x.
Definition nupd (c : nat -> N) (t : nat) (v : N) : nat -> N := fun x => if Nat.eqb x t then v else c x.

Fixpoint lset {A} (l : list A) (i : nat) (a : A) : list A :=
  match l, i with
  | [], _ => []
  | _ :: r, O => a :: r
  | x :: r, S j => x :: lset r j a
  end.

(* index of the record of thread t *)
Fixpoint find_rec (recs : list erec) (t : tid) (i : nat) : option nat :=
  match recs with
  | [] => None
  | r :: rest => if Nat.eqb (fst r) t then Some i else find_rec rest t (S i)
  end.

Inductive dret := RStr (s : bytes) | RCode (c : N).
Definition ENOTFOUND : N := 5.        (* LY_ENOTFOUND *)

Inductive event :=
| EvAccess (r : resource) (held : bool)     (* guarded memory touched; did the thread hold the guarding lock *)
| EvBlocked (m : lockid)
| EvBadUnlock (m : lockid)
| EvDict (o : dop) (r : dret)               (* a dictionary call returns *)
| EvErrGot (items : option (list eitem))    (* ly_err_first: the list of the thread's record, None = no record *)
| EvDangling (write : bool)                 (* a record handle that names no record is dereferenced (proved unreachable) *)
| EvNullRec                                 (* log_store / ly_err_clean without a record *)
| EvCanonUse (v : nat) (cached : bool)
| EvHashRead (cached : bool)
| EvOpEnd
| EvLogOpts (v : N)
| EvRef (d : Z)
| EvSlot (valid : bool)                     (* the slot pointer read through belongs to the current arena / to a freed one *)
| EvScratch (g : bool) (v : N).             (* the value read back from the scratch buffer *)                            (* an atomic reference count operation took effect: +1 / -1 *)                        (* the logging options a logging call of this thread works with *)

Definition priv_fun (f x : N) : N := (x * 16777619 + f) mod 4294967296.

(* lyht_insert's resize decision after ++ht->used (hash_table.c:399-412): new (generation, size, mode) *)
Definition err_resize (g sz md used : N) : N * N * N :=
  let r := (used * 100) / sz in
  let md1 := if (md =? 1) && (50 <=? r) then 2 else md in
  if (md1 =? 2) && (75 <=? r) then (g + 1, 2 * sz, md1) else (g, sz, md1).

(* one step of thread t (whose state is ts, next step stp, rest of its program rest) *)
Definition exec_step (st : state) (t : tid) (ts : tstate) (stp : step) (rest : list step) : state * list event :=
  let adv (st1 : state) (r : reg) (loc : N) (rem : list step) : state :=
    set_thr st1 (lset (s_thr st1) t (mkT rem r loc)) in
  let same (st1 : state) := adv st1 (t_reg ts) (t_local ts) rest in
  match stp with
  | Acquire m =>
      match holder st m with
      | None => (same (set_holder st m (Some t)), [])
      | Some _ => (st, [EvBlocked m])
      end
  | Release m =>
      if holds st t m then (same (set_holder st m None), []) else (same st, [EvBadUnlock m])
  | SkipIf b n =>
      (adv st (t_reg ts) (t_local ts) (if Bool.eqb (flag (t_reg ts)) b then skipn n rest else rest), [])
  | DictInsFind s =>
      let found := negb (s_dict st s =? 0) in
      (adv (if found then st else set_dict st (dupd (s_dict st) s 1)) (RFound found) (t_local ts) rest,
       [EvAccess RDictTab (holds st t LDict)])
  | DictInsBump s =>
      (adv (if flag (t_reg ts) then set_dict st (dupd (s_dict st) s (s_dict st s + 1)) else st) RNone (t_local ts) rest,
       [EvAccess RDictTab (holds st t LDict); EvDict (DIns s) (RStr s)])
  | DictRemFind s =>
      (adv st (RFound (negb (s_dict st s =? 0))) (t_local ts) rest, [EvAccess RDictTab (holds st t LDict)])
  | DictRemDec s =>
      if flag (t_reg ts)
      then (adv (set_dict st (dupd (s_dict st) s (s_dict st s - 1))) RNone (t_local ts) rest,
            [EvAccess RDictTab (holds st t LDict); EvDict (DRem s) (RCode 0)])
      else (adv st RNone (t_local ts) rest, [EvDict (DRem s) (RCode ENOTFOUND)])
  | ErrFind =>
      (adv st (RPtr (match find_rec (s_erecs st) t 0 with
                     | Some i => Some (mkptr i) | None => None end)) (t_local ts) rest,
       [EvAccess RErrTab (holds st t LHash)])
  | ErrInsert =>
      match find_rec (s_erecs st) t 0 with
      | Some _ => (adv st (RPtr None) (t_local ts) rest, [EvAccess RErrTab (holds st t LHash)])     (* LY_EEXIST -> NULL *)
      | None =>
          let recs := s_erecs st ++ [(t, [])] in
          let '(g, sz, md) := err_resize (s_egen st) (s_esize st) (s_emode st) (N.of_nat (length recs)) in
          (adv (set_err st g sz md recs) (RPtr (Some (mkptr (length (s_erecs st))))) (t_local ts) rest,
           [EvAccess RErrTab (holds st t LHash)])
      end
  | ErrWrite e =>
      match t_reg ts with
      | RPtr (Some p) =>
          match nth_error (s_erecs st) (p_idx p) with
          | Some r => (same (set_err st (s_egen st) (s_esize st) (s_emode st)
                                     (lset (s_erecs st) (p_idx p) (fst r, snd r ++ [(t, e)]))), [])
          | None => (same st, [EvDangling true])
          end
      | _ => (same st, [EvNullRec])
      end
  | ErrRead =>
      match t_reg ts with
      | RPtr (Some p) =>
          match nth_error (s_erecs st) (p_idx p) with
          | Some r => (same st, [EvErrGot (Some (snd r))])
          | None => (same st, [EvDangling false])
          end
      | _ => (same st, [EvErrGot None])
      end
  | ErrClear =>
      match t_reg ts with
      | RPtr (Some p) =>
          match nth_error (s_erecs st) (p_idx p) with
          | Some r => (same (set_err st (s_egen st) (s_esize st) (s_emode st)
                                     (lset (s_erecs st) (p_idx p) (fst r, []))), [])
          | None => (same st, [EvDangling true])
          end
      | _ => (same st, [])                   (* if (!(rec = ly_err_get_rec(ctx))) return; *)
      end
  | CanonCheck v => (adv st (RCached (s_canon st v)) (t_local ts) rest, [])
  | CanonSet v => (same (set_canon st (bupd (s_canon st) v true)), [])
  | CanonClr v => (same (set_canon st (bupd (s_canon st) v false)), [])
  | CanonUse v => (same st, [EvCanonUse v (s_canon st v)])
  | HashFill => (same (set_hash st true), [EvAccess RHashCache (holds st t LHash)])
  | HashRead => (same st, [EvHashRead (s_hash2 st)])
  | Priv f => (adv st (t_reg ts) (priv_fun f (t_local ts)) rest, [])
  | OpEnd => (same st, [EvOpEnd])
  | LogSaveSet v => (same (set_log st v (s_temp st) (nupd (s_saved st) t (s_logopts st))), [])
  | LogRestore => (same (set_log st (s_saved st t) (s_temp st) (s_saved st)), [])
  | LogTempSet v => (same (set_log st (s_logopts st) (oupd (s_temp st) t (Some v)) (s_saved st)), [])
  | LogTempClear => (same (set_log st (s_logopts st) (oupd (s_temp st) t None) (s_saved st)), [])
  | LogObserve => (same st, [EvLogOpts (match s_temp st t with Some v => v | None => s_logopts st end)])
  | RefInc => (same (set_ref st (s_tref st + 1)%Z (s_tmp st)), [EvRef 1%Z])
  | RefDec => (same (set_ref st (s_tref st - 1)%Z (s_tmp st)), [EvRef (-1)%Z])
  | RefLoad => (same (set_ref st (s_tref st) (zupd (s_tmp st) t (s_tref st))), [])
  | RefStoreInc => (same (set_ref st (s_tmp st t + 1)%Z (s_tmp st)), [])
  | ErrSlotFind =>
      (same (set_x st (supd (s_slot st) t (match find_rec (s_erecs st) t 0 with
                                           | Some i => Some (s_egen st, i) | None => None end))
                   (s_hash2 st) (s_gscr st) (s_lscr st)),
       [EvAccess RErrTab (holds st t LHash)])
  | ErrSlotRead =>
      (adv st (RPtr None) (t_local ts) rest,
       [EvAccess RErrTab (holds st t LHash);
        EvSlot (match s_slot st t with Some (g, _) => g =? s_egen st | None => true end)])
  | HashCheck => (adv st (RCached (s_hash st)) (t_local ts) rest, [])
  | HashFillRest => (same (set_x st (s_slot st) true (s_gscr st) (s_lscr st)), [EvAccess RHashCache (holds st t LHash)])
  | ScrWrite g v =>
      (same (if g then set_x st (s_slot st) (s_hash2 st) v (s_lscr st)
             else set_x st (s_slot st) (s_hash2 st) (s_gscr st) (nupd (s_lscr st) t v)), [])
  | ScrRead g => (same st, [EvScratch g (if g then s_gscr st else s_lscr st t)])
  end.

Definition exec (st : state) (t : tid) : state * list event :=
  match nth_error (s_thr st) t with
  | None => (st, [])
  | Some ts =>
      match t_rem ts with
      | [] => (st, [])
      | stp :: rest => exec_step st t ts stp rest
      end
  end.

Definition trace : Type := list (tid * event).

Fixpoint run (sched : list tid) (st : state) : state * trace :=
  match sched with
  | [] => (st, [])
  | t :: s' =>
      let r1 := exec st t in
      let r2 := run s' (fst r1) in
      (fst r2, map (fun e => (t, e)) (snd r1) ++ snd r2)
  end.

(* ---------------------------------------------------------------------------------------------------------------
   schedules given call by call: (t, None) lets thread t run until the end of its current API call (at most [fuel]
   steps; a blocked thread stops), (t, Some k) lets it execute exactly k steps (a preemption inside a call)
   --------------------------------------------------------------------------------------------------------------- *)
Definition thread_rem (st : state) (t : tid) : list step :=
  match nth_error (s_thr st) t with Some ts => t_rem ts | None => [] end.

Definition is_opend (e : event) : bool := match e with EvOpEnd => true | _ => false end.
Definition is_blocked (e : event) : bool := match e with EvBlocked _ => true | _ => false end.

Fixpoint run_call (fuel : nat) (t : tid) (st : state) : state * trace :=
  match fuel with
  | O => (st, [])
  | S f =>
      match thread_rem st t with
      | [] => (st, [])
      | _ :: _ =>
          let r1 := exec st t in
          let tr1 := map (fun e => (t, e)) (snd r1) in
          if existsb is_opend (snd r1) || existsb is_blocked (snd r1)
          then (fst r1, tr1)
          else let r2 := run_call f t (fst r1) in (fst r2, tr1 ++ snd r2)
      end
  end.

Fixpoint run_calls (sched : list (tid * option nat)) (st : state) : state * trace :=
  match sched with
  | [] => (st, [])
  | (t, None) :: s' =>
      let r1 := run_call 32 t st in
      let r2 := run_calls s' (fst r1) in (fst r2, snd r1 ++ snd r2)
  | (t, Some k) :: s' =>
      let r1 := run (repeat t k) st in
      let r2 := run_calls s' (fst r1) in (fst r2, snd r1 ++ snd r2)
  end.

(* ---------------------------------------------------------------------------------------------------------------
   observations
   --------------------------------------------------------------------------------------------------------------- *)
Definition is_bad_access (e : event) : bool := match e with EvAccess _ false => true | _ => false end.
Definition is_dangling (e : event) : bool := match e with EvDangling _ => true | _ => false end.

Definition count_ev (f : event -> bool) (tr : trace) : nat := length (filter (fun x => f (snd x)) tr).

(* the dictionary calls in the order in which they returned *)
Fixpoint dict_events (tr : trace) : list (tid * dop * dret) :=
  match tr with
  | [] => []
  | (t, EvDict o r) :: tr' => (t, o, r) :: dict_events tr'
  | _ :: tr' => dict_events tr'
  end.

(* the atomic specification of the two calls *)
Definition atomic_dop (d : dictT) (o : dop) : dictT * dret :=
  match o with
  | DIns s => (dupd d s (d s + 1), RStr s)
  | DRem s => if d s =? 0 then (d, RCode ENOTFOUND) else (dupd d s (d s - 1), RCode 0)
  end.

Definition dret_eqb (a b : dret) : bool :=
  match a, b with
  | RStr x, RStr y => beq_bytes x y
  | RCode x, RCode y => x =? y
  | _, _ => false
  end.

(* serial execution of a list of calls: final dictionary, and whether every call returned the recorded value *)
Fixpoint replay (d : dictT) (l : list (tid * dop * dret)) : dictT * bool :=
  match l with
  | [] => (d, true)
  | (_, o, r) :: l' =>
      let x := atomic_dop d o in
      let y := replay (fst x) l' in
      (fst y, dret_eqb (snd x) r && snd y)
  end.

(* the dictionary calls a remaining program will still complete (straight-line programs) *)
Fixpoint ops_of (p : list step) : list dop :=
  match p with
  | [] => []
  | DictInsBump s :: p' => DIns s :: ops_of p'
  | DictRemDec s :: p' => DRem s :: ops_of p'
  | _ :: p' => ops_of p'
  end.

Definition thread_local (st : state) (t : tid) : N :=
  match nth_error (s_thr st) t with Some ts => t_local ts | None => 0 end.

(* ---------------------------------------------------------------------------------------------------------------
   static lock discipline of a program: the set of held locks is followed through the program; guarded steps need
   their lock; a conditionally skipped block must be lock-neutral
   --------------------------------------------------------------------------------------------------------------- *)
Definition held : Type := (bool * bool)%type.       (* (dict.lock, lyb_hash_lock) *)
Definition hget (h : held) (m : lockid) : bool := match m with LDict => fst h | LHash => snd h end.
Definition hset (h : held) (m : lockid) (b : bool) : held :=
  match m with LDict => (b, snd h) | LHash => (fst h, b) end.
Definition held_eqb (a b : held) : bool := Bool.eqb (fst a) (fst b) && Bool.eqb (snd a) (snd b).

Definition needs (s : step) : option lockid :=
  match s with
  | DictInsFind _ | DictInsBump _ | DictRemFind _ | DictRemDec _ => Some LDict
  | ErrFind | ErrInsert | HashFill | ErrSlotFind | ErrSlotRead | HashFillRest => Some LHash
  | _ => None
  end.

(* straight-line block: held set after it, None = discipline broken *)
Fixpoint disc_block (h : held) (p : list step) : option held :=
  match p with
  | [] => Some h
  | Acquire m :: p' => if hget h m then None else disc_block (hset h m true) p'
  | Release m :: p' => if hget h m then disc_block (hset h m false) p' else None
  | SkipIf _ _ :: _ => None
  | s :: p' =>
      match needs s with
      | Some m => if hget h m then disc_block h p' else None
      | None => disc_block h p'
      end
  end.

Fixpoint disc (h : held) (p : list step) : bool :=
  match p with
  | [] => held_eqb h (false, false)
  | Acquire m :: p' => negb (hget h m) && disc (hset h m true) p'
  | Release m :: p' => hget h m && disc (hset h m false) p'
  | SkipIf _ n :: p' =>
      (n <=? length p')%nat &&
      match disc_block h (firstn n p') with Some h' => held_eqb h' h | None => false end && disc h p'
  | s :: p' =>
      match needs s with
      | Some m => hget h m && disc h p'
      | None => disc h p'
      end
  end.

(* no step writes the process-wide logging options / no step touches the thread-local override *)
Definition is_global_log (s : step) : bool := match s with LogSaveSet _ | LogRestore => true | _ => false end.
Definition is_temp_log (s : step) : bool := match s with LogTempSet _ | LogTempClear => true | _ => false end.
Definition global_log_free (p : list step) : bool := negb (existsb is_global_log p).
Definition temp_log_free (p : list step) : bool := negb (existsb is_temp_log p).

(* scratch: no step uses the process-wide buffer; the values a thread reads back from its thread-local buffer alone *)
Definition is_global_scr (s : step) : bool := match s with ScrWrite true _ | ScrRead true => true | _ => false end.
Definition is_local_scr (s : step) : bool := match s with ScrWrite false _ | ScrRead false => true | _ => false end.
Definition global_scr_free (p : list step) : bool := negb (existsb is_global_scr p).
Fixpoint scr_reads (p : list step) (x : N) : list N :=
  match p with
  | [] => []
  | ScrWrite false v :: p' => scr_reads p' v
  | ScrRead false :: p' => x :: scr_reads p' x
  | _ :: p' => scr_reads p' x
  end.
Fixpoint scr_unskipped (p : list step) : bool :=
  match p with
  | [] => true
  | SkipIf _ n :: p' => negb (existsb is_local_scr (firstn n p')) && scr_unskipped p'
  | _ :: p' => scr_unskipped p'
  end.
(* the values thread t read back from its thread-local buffer, in order *)
Fixpoint local_reads (t : tid) (tr : trace) : list N :=
  match tr with
  | [] => []
  | (u, EvScratch false v) :: tr' => if Nat.eqb u t then v :: local_reads t tr' else local_reads t tr'
  | _ :: tr' => local_reads t tr'
  end.

(* LYB hash cache: every read of a cached hash is preceded, in the same thread, by the (locked) fill of all nodes.
   k = this thread has completed a fill; a conditionally skipped block must not contain hash cache steps *)
Definition is_hash_step (s : step) : bool := match s with HashFillRest | HashRead => true | _ => false end.
Fixpoint hchk (k : bool) (p : list step) : bool :=
  match p with
  | [] => true
  | HashFillRest :: p' => hchk true p'
  | HashRead :: p' => k && hchk k p'
  | SkipIf _ n :: p' => negb (existsb is_hash_step (firstn n p')) && hchk k p'
  | _ :: p' => hchk k p'
  end.

(* err_ht slot pointers: every read through a slot pointer happens in the critical section in which the pointer was
   obtained (f = the thread has looked the slot up since it last took lyb_hash_lock and has not inserted since); a
   conditionally skipped block contains no slot pointer step (it may take and drop the lock: that only resets f) *)
Definition is_slot_step (s : step) : bool := match s with ErrSlotFind | ErrSlotRead => true | _ => false end.
Fixpoint schk (f : bool) (p : list step) : bool :=
  match p with
  | [] => true
  | ErrSlotFind :: p' => schk true p'
  | ErrSlotRead :: p' => f && schk f p'
  | ErrInsert :: p' => schk false p'
  | Acquire LHash :: p' => schk false p'
  | Release LHash :: p' => schk false p'
  | SkipIf _ n :: p' => negb (existsb is_slot_step (firstn n p')) && schk f p'
  | _ :: p' => schk f p'
  end.
Definition slot_current (st : state) (t : tid) : bool :=
  match s_slot st t with Some (g, _) => g =? s_egen st | None => true end.
Definition fresh (st : state) (t : tid) : bool := holds st t LHash && slot_current st t.

(* no step is half of a plain (non-atomic) increment of the shared type's reference count *)
Definition is_plain_ref (s : step) : bool := match s with RefLoad | RefStoreInc => true | _ => false end.
Definition plain_ref_free (p : list step) : bool := negb (existsb is_plain_ref p).
Fixpoint ref_sum (tr : trace) : Z :=
  match tr with
  | [] => 0%Z
  | (_, EvRef d) :: tr' => (d + ref_sum tr')%Z
  | _ :: tr' => ref_sum tr'
  end.

(* Priv steps are never inside a conditionally skipped block *)
Definition is_priv (s : step) : bool := match s with Priv _ => true | _ => false end.
Fixpoint privs_unskipped (p : list step) : bool :=
  match p with
  | [] => true
  | SkipIf _ n :: p' => negb (existsb is_priv (firstn n p')) && privs_unskipped p'
  | _ :: p' => privs_unskipped p'
  end.
Fixpoint priv_result (p : list step) (x : N) : N :=
  match p with
  | [] => x
  | Priv f :: p' => priv_result p' (priv_fun f x)
  | _ :: p' => priv_result p' x
  end.

(* ---------------------------------------------------------------------------------------------------------------
   ownership of dictionary references: a thread only gives back references it obtained itself
   --------------------------------------------------------------------------------------------------------------- *)
Definition tok_eqb (a b : tid * bytes) : bool := Nat.eqb (fst a) (fst b) && beq_bytes (snd a) (snd b).
Fixpoint take_tok (k : tid * bytes) (l : list (tid * bytes)) : option (list (tid * bytes)) :=
  match l with
  | [] => None
  | x :: r => if tok_eqb x k then Some r
              else match take_tok k r with Some r' => Some (x :: r') | None => None end
  end.
(* the references held after the calls of l (in this order), None when some thread removes a string it does not hold *)
Fixpoint owned (l : list (tid * dop)) (own : list (tid * bytes)) : option (list (tid * bytes)) :=
  match l with
  | [] => Some own
  | (t, DIns s) :: l' => owned l' ((t, s) :: own)
  | (t, DRem s) :: l' => match take_tok (t, s) own with Some own' => owned l' own' | None => None end
  end.
Definition held_refs (own : list (tid * bytes)) (x : bytes) : N :=
  N.of_nat (length (filter (fun k => beq_bytes (snd k) x) own)).

(* ---------------------------------------------------------------------------------------------------------------
   the two witness scenarios (also forced on the C code by impl/t_conc.c, flags f)
   --------------------------------------------------------------------------------------------------------------- *)
(* regression (former witness of err_rec_pointer_stable_refuted): threads 0..4 log their first error one after the
   other; thread 0 calls ly_err_last and is preempted after ly_err_get_rec returned (3 steps: Acquire, ErrFind,
   Release); thread 5 logs its first error (the 6th record: 6*100/8 = 75 -> lyht_resize frees the arena of record
   pointers); thread 0 uses its handle: since 75f292f it names the record itself and the read gives thread 0's item *)
Definition w_err_progs : list (list step) :=
  [compile [ALogStore 10; AErrLast]; compile [ALogStore 11]; compile [ALogStore 12]; compile [ALogStore 13];
   compile [ALogStore 14]; compile [ALogStore 15]].
Definition w_err_sched : list (tid * option nat) :=
  [(0, None); (1, None); (2, None); (3, None); (4, None); (0, Some 3); (5, None); (0, None)]%nat.

(* two threads print the shared value 0 (canonical string b0 b2); both test value->_canonical before either stores;
   afterwards the tree is freed once (thread 2 = the main thread after joining) *)
Definition w_canon_str : bytes := [98; 48; 32; 98; 50].
Definition w_canon_progs : list (list step) :=
  [compile [APrintLazy 0 w_canon_str]; compile [APrintLazy 0 w_canon_str]; compile [AFreeLazy 0 w_canon_str]].
Definition w_canon_sched : list (tid * option nat) :=
  [(0, Some 2); (1, Some 2); (0, None); (1, None); (2, None)]%nat.
Definition w_canon_sched_serial : list (tid * option nat) := [(0, None); (1, None); (2, None)]%nat.

(* the same two schedules step by step (one thread id per executed step) *)
Definition w_err_fine : list tid :=
  (repeat 0 9 ++ repeat 1 9 ++ repeat 2 9 ++ repeat 3 9 ++ repeat 4 9 ++ repeat 0 3 ++ repeat 5 9 ++ repeat 0 2)%nat.
Definition w_canon_fine : list tid :=
  (repeat 0 2 ++ repeat 1 2 ++ repeat 0 7 ++ repeat 1 7 ++ repeat 2 8)%nat.
Definition w_canon_fine_serial : list tid := (repeat 0 9 ++ repeat 1 4 ++ repeat 2 8)%nat.

Definition all_done (st : state) : bool := forallb (fun ts => match t_rem ts with [] => true | _ => false end) (s_thr st).

(* two unlocked removals of a string with one reference: both find it, both decrement *)
Definition w_nolock_progs : list (list step) :=
  [[DictRemFind w_canon_str; DictRemDec w_canon_str]; [DictRemFind w_canon_str; DictRemDec w_canon_str]].
Definition w_nolock_fine : list tid := [0; 1; 0; 1]%nat.
Definition w_one_ref : dictT := dupd (fun _ => 0) w_canon_str 1.

(* logging options: thread 0 silences the logger for a trial through the process-wide cell, thread 1 logs meanwhile;
   and two overlapping silenced windows (0 saves 3, 1 saves 0, 0 restores 3, 1 restores 0) *)
Definition w_log_progs : list (list step) := [p_silent_trial_global 1; compile [ALogObserve]].
Definition w_log_fine : list tid := [0; 1; 0; 0; 0; 0; 1]%nat.
Definition w_log2_progs : list (list step) := [p_silent_trial_global 1; p_silent_trial_global 2].
Definition w_log2_fine : list tid := [0; 1; 0; 0; 0; 0; 1; 1; 1; 1]%nat.
(* the same with the thread-local override (as coded) *)
Definition w_log_progs_temp : list (list step) := [compile [ASilentTrial 1]; compile [ALogObserve]].

(* reference count of a shared compiled type: two threads duplicate a value with a plain ++ (load, load, store, store: one
   increment is lost), and a plain ++ that overwrites another thread's atomic decrement *)
Definition w_ref_progs : list (list step) := [p_dup_iid_plain; p_dup_iid_plain].
Definition w_ref_fine : list tid := [0; 1; 0; 1; 0; 1; 0; 1]%nat.
Definition w_ref2_progs : list (list step) := [p_dup_iid_plain; compile [AFreeIid]].
Definition w_ref2_fine : list tid := [0; 0; 1; 0; 0; 1; 1]%nat.
Definition w_ref_progs_atomic : list (list step) := [compile [ADupIid]; compile [ADupIid]].

(* regression witnesses of three seeded changes.
   err slot: threads 0..4 have error records; thread 0 looks its slot up, drops the lock; thread 5 logs its first error
   (6th record: the arena is enlarged = freed); thread 0 reads the slot *)
Definition w_slot_progs : list (list step) :=
  [compile [ALogStore 10] ++ p_err_get_late; compile [ALogStore 11]; compile [ALogStore 12]; compile [ALogStore 13];
   compile [ALogStore 14]; compile [ALogStore 15]].
Definition w_slot_fine : list tid :=
  (repeat 0 9 ++ repeat 1 9 ++ repeat 2 9 ++ repeat 3 9 ++ repeat 4 9 ++ repeat 0 3 ++ repeat 5 9 ++ repeat 0 2)%nat.
Definition w_slot_progs_ok : list (list step) :=
  [compile [ALogStore 10] ++ p_err_get_slot; compile [ALogStore 11]; compile [ALogStore 12]; compile [ALogStore 13];
   compile [ALogStore 14]; compile [ALogStore 15]].
(* double-checked hash cache: thread 0 has stored the first node's hashes; thread 1 tests, skips the lock, reads *)
Definition w_hashdc_progs : list (list step) := [p_lyb_hash_dc; p_lyb_hash_dc].
Definition w_hashdc_fine : list tid := [0; 0; 0; 0; 1; 1; 1; 1; 0; 0; 0; 0]%nat.
Definition w_hash_progs : list (list step) := [p_lyb_hash; p_lyb_hash].
Definition w_hash_fine : list tid := [0; 0; 1; 1; 0; 0; 0; 0; 1; 1; 1; 1; 1; 1]%nat.
(* static scratch: thread 0 fills it, thread 1 fills it, thread 0 reads *)
Definition w_scr_progs : list (list step) := [p_time_print_static 5; p_time_print_static 9].
Definition w_scr_fine : list tid := [0; 1; 0; 1; 0; 1]%nat.
Definition w_scr_progs_local : list (list step) := [p_time_print 5; p_time_print 9].
