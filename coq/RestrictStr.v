(* RestrictStr.v — string types along a typedef chain: length AND patterns (slice restrict, property C11).
     lys_compile_type_() case LY_TYPE_STRING        src/schema_compile_node.c
       if (type_p->length)   lys_compile_type_range(..., base ? base->length : NULL, &str->length)
       else if (base && base->length)   str->length = lysc_range_dup(base->length)        (ALL parts)
       if (type_p->patterns) lys_compile_type_patterns(type_p->patterns, base ? base->patterns : NULL, &str->patterns)
       else if (base && base->patterns) str->patterns = lysc_patterns_dup(base->patterns)
     lys_compile_type_patterns(): the patterns of the base are duplicated first, the own ones appended in order.
   The two restrictions are handled independently of each other. A pattern is opaque here (type P: the regular
   expression machinery is property C18); a level of the chain is (its length argument text if it has a length
   statement, its pattern statements in order). Model only; proofs in RestrictStrP.v. *)
From LY Require Import Base TypesMisc IntLex Dec64 Restrict.

Section StrChain.
  Variable P : Type.

  Record str_eff : Type := { se_len : parts; se_pats : list P }.      (* se_len = [] : no length restriction *)

  Definition compile_str_level (b : str_eff) (lvl : option bytes * list P) : res str_eff :=
    match fst lvl with
    | Some r =>
        match compile_range RLen (se_len b) r with
        | Err e => Err e
        | Ok ps => Ok {| se_len := ps; se_pats := se_pats b ++ snd lvl |}
        end
    | None => Ok {| se_len := se_len b; se_pats := se_pats b ++ snd lvl |}
    end.

  Fixpoint compile_str_chain (b : str_eff) (lvls : list (option bytes * list P)) : res str_eff :=
    match lvls with
    | [] => Ok b
    | l :: ls =>
        match compile_str_level b l with
        | Err e => Err e
        | Ok b' => compile_str_chain b' ls
        end
    end.

  (* lyplg_type_store_string: the length (in characters) against the length parts, then every pattern *)
  Variable matches : P -> bytes -> bool.
  Definition str_accepts (t : str_eff) (len : Z) (s : bytes) : bool :=
    validate_range (se_len t) len && forallb (fun p => matches p s) (se_pats t).
End StrChain.
Arguments se_len {P}. Arguments se_pats {P}. Arguments Build_str_eff {P}.
