(* XPathLookup.v — slice xpath (C08): key predicates answered by a lookup.

   src/xpath.c answers  list[key1=value1]...[keyN=valueN]  (a child step on a keyed list whose first predicates compare
   the keys) by ONE lookup: eval_name_test_try_compile_predicates() evaluates every value once and
   moveto_node_hash_child() finds the instances whose keys have these values. Since /repo 97c7154 the lookup is used
   only when the value does not depend on the list instance: it does not start a relative path and does not use the
   implicit context node, position() or last() outside of nested predicates ([ctx_free]), and it evaluates to a string
   or to exactly one node ([lookup_str]); otherwise every instance is evaluated (the generic way).
   Here: the condition as a boolean function of the predicate, the lookup as a function on the candidate list, and
   the theorem that it selects exactly what the generic evaluation of the predicates selects - same nodes, same order -
   for every tree, every context, every candidate list and any number of keys. *)
From Coq Require Import QArith.
From LY Require Import Base XPathConv XPathTree XPathSem XPathSemP.
From Coq Require Import ZifyBool ZifyNat ZifyN.
Local Open Scope N_scope.

(* the value of the expression does not depend on the context node, position or size (predicates of inner steps
   have their own context; current() is the same for all the instances) *)
Fixpoint ctx_free (e : expr) : bool :=
  match e with
  | ERoot | ELit _ | ENum _ => true
  | ECtx => false
  | EStep base _ _ _ _ => ctx_free base
  | EFilter e' _ => ctx_free e'
  | EOr a b | EAnd a b | ECmp _ a b | EArith _ a b | EUnion a b | EFun2 _ a b => ctx_free a && ctx_free b
  | ENeg a | EFun1 _ a => ctx_free a
  | EFun0 f => match f with FTrue | FFalse | FCurrent => true | _ => false end
  | EFun3 _ a b c => ctx_free a && ctx_free b && ctx_free c
  end.

Lemma fold_res_ext {A B} (f g : A -> B -> res A) l : (forall a b, f a b = g a b) -> forall a, fold_res f l a = fold_res g l a.
Proof.
  intro H. induction l as [|b r IH]; intro a; cbn [fold_res]; [reflexivity|].
  rewrite H. destruct (g a b); cbn [bind]; [apply IH|reflexivity].
Qed.

Section Lookup.
  Variable fl : flags.
  Variable t : list xnode.

  (* the predicates of a step see the outer context only through current() *)
  Lemma apply_preds_cur cx1 cx2 rv ps : c_cur cx1 = c_cur cx2 ->
    forall l, apply_preds fl t cx1 rv ps l = apply_preds fl t cx2 rv ps l.
  Proof.
    intro Hc. induction ps as [|p r IH] using preds_ind_simple; intro l; cbn [apply_preds]; [reflexivity|].
    rewrite Hc. destruct (filter_idx _ l 1); cbn [bind]; [apply IH|reflexivity].
  Qed.

  Lemma step_body_ext S0 ds ax nt ap1 ap2 : (forall rv l, ap1 rv l = ap2 rv l) ->
    step_body fl t S0 ds ax nt ap1 = step_body fl t S0 ds ax nt ap2.
  Proof.
    intro H. unfold step_body. rewrite !H.
    erewrite fold_res_ext; [reflexivity|]. intros a b. rewrite H. reflexivity.
  Qed.

  (* a context-free expression has the same value in every context with the same current() node *)
  Theorem ctx_free_eval e : forall cx1 cx2, ctx_free e = true -> c_cur cx1 = c_cur cx2 ->
    eval fl t cx1 e = eval fl t cx2 e.
  Proof.
    induction e; intros cx1 cx2 Hf Hc; cbn [ctx_free] in Hf; cbn [eval];
      repeat match goal with H : _ && _ = true |- _ => apply andb_true_iff in H; destruct H end;
      try reflexivity; try discriminate.
    - rewrite (IHe cx1 cx2) by assumption. destruct (eval fl t cx2 e) as [[S0|s|x|b]|]; cbn [bind]; try reflexivity.
      apply step_body_ext. intros rv l. apply apply_preds_cur. exact Hc.
    - rewrite (IHe cx1 cx2) by assumption. destruct (eval fl t cx2 e) as [[S0|s|x|b]|]; cbn [bind]; try reflexivity.
      rewrite (apply_preds_cur cx1 cx2 false ps Hc). reflexivity.
    - rewrite (IHe1 cx1 cx2), (IHe2 cx1 cx2) by assumption. reflexivity.
    - rewrite (IHe1 cx1 cx2), (IHe2 cx1 cx2) by assumption. reflexivity.
    - rewrite (IHe1 cx1 cx2), (IHe2 cx1 cx2) by assumption. reflexivity.
    - rewrite (IHe1 cx1 cx2), (IHe2 cx1 cx2) by assumption. reflexivity.
    - rewrite (IHe cx1 cx2) by assumption. reflexivity.
    - rewrite (IHe1 cx1 cx2), (IHe2 cx1 cx2) by assumption. reflexivity.
    - destruct f; try discriminate; try reflexivity. rewrite Hc. reflexivity.
    - rewrite (IHe cx1 cx2) by assumption. reflexivity.
    - rewrite (IHe1 cx1 cx2), (IHe2 cx1 cx2) by assumption. reflexivity.
    - rewrite (IHe1 cx1 cx2), (IHe2 cx1 cx2), (IHe3 cx1 cx2) by assumption. reflexivity.
  Qed.
End Lookup.

(* ------------------------------------------------------------------------------------------------ *)
(* the lookup                                                                                       *)
(* ------------------------------------------------------------------------------------------------ *)
(* the predicate [key = value], key a prefixed name *)
Definition key_pred (m k : bytes) (v : expr) : expr :=
  ECmp CEq (EStep ECtx false AxChild (TName (Some m) k) PNil) v.

Fixpoint key_preds (kvs : list (bytes * bytes * expr)) : preds :=
  match kvs with
  | [] => PNil
  | (m, k, v) :: r => PCons (key_pred m k v) (key_preds r)
  end.

(* the context in which the value is evaluated once: any (the code takes some instance of the list; the value is
   context-free, so the root serves as well) with the current() node of the evaluation *)
Definition once_ctx (cur : item) : ectx := {| c_item := IRoot; c_pos := 1; c_size := 1; c_cur := cur |}.

Section LookupSpec.
  Variable t : list xnode.
  Let sv := string_value spec_flags t.

  (* eval_name_test_try_compile_predicate_append() since /repo 97c7154: the string to look up, None = no lookup.
     (The further conditions of the code - the type of the value node and the canonical form of its string for the
     type of the key - are about set_comp_canonize(), which the recommendation does not have: switch cmp-canonize.) *)
  Definition lookup_str (cur : item) (v : expr) : option bytes :=
    if ctx_free v then
      match eval spec_flags t (once_ctx cur) v with
      | Ok (VStr s) => Some s
      | Ok (VSet [n]) => Some (sv n)
      | _ => None
      end
    else None.

  Definition lookup_ok (cur : item) (kvs : list (bytes * bytes * expr)) : bool :=
    forallb (fun kv => match lookup_str cur (snd kv) with Some _ => true | None => false end) kvs.

  (* does the instance have the value s in its key k *)
  Definition key_is (inst : item) (m k s : bytes) : bool :=
    existsb (fun d => beq_bytes (sv d) s) (cands spec_flags t AxChild (TName (Some m) k) inst).

  (* moveto_node_hash_child(): of the candidate instances those whose key tuple is the tuple of the looked up strings
     (with unique key tuples: at most one), in the order of the candidates *)
  Fixpoint lookup_insts (cur : item) (kvs : list (bytes * bytes * expr)) (insts : list item) : list item :=
    match kvs with
    | [] => insts
    | (m, k, v) :: r =>
        match lookup_str cur v with
        | Some s => lookup_insts cur r (filter (fun inst => key_is inst m k s) insts)
        | None => []
        end
    end.

  Lemma beq_bytes_sym a b : beq_bytes a b = beq_bytes b a.
  Proof.
    destruct (beq_bytes a b) eqn:H1; destruct (beq_bytes b a) eqn:H2; try reflexivity.
    - apply beq_bytes_eq in H1. subst. assert (beq_bytes b b = true) by (apply beq_bytes_eq; reflexivity). congruence.
    - apply beq_bytes_eq in H2. subst. assert (beq_bytes a a = true) by (apply beq_bytes_eq; reflexivity). congruence.
  Qed.

  (* one key predicate on one instance, generic evaluation: the value is evaluated in the context of the instance *)
  Lemma key_pred_generic cxi m k v s : lookup_str (c_cur cxi) v = Some s ->
    eval spec_flags t cxi (key_pred m k v) = Ok (VBool (key_is (c_item cxi) m k s)).
  Proof.
    unfold lookup_str. destruct (ctx_free v) eqn:Hf; [|discriminate]. intro H.
    unfold key_pred. cbn [eval bind]. unfold step_body.
    cbn [is_ns_axis is_attr_axis is_child_axis spec_flags f_nsaxis f_text
         f_predglobal andb orb negb bind fold_res reverse_axis apply_preds].
    rewrite merge_nil_l. cbn [bind].
    rewrite (ctx_free_eval spec_flags t v cxi (once_ctx (c_cur cxi)) Hf eq_refl).
    destruct (eval spec_flags t (once_ctx (c_cur cxi)) v) as [[l|s0|x|b]|]; try discriminate.
    - destruct l as [|n [|n2 r]]; try discriminate. injection H as <-.
      cbn [bind cmp_values flip_op]. unfold key_is. f_equal. f_equal.
      induction (cands spec_flags t AxChild (TName (Some m) k) (c_item cxi)) as [|d r IH]; cbn [existsb]; [reflexivity|].
      rewrite IH. f_equal. rewrite cmp_set_str_spec. cbn [existsb]. rewrite orb_false_r. apply beq_bytes_sym.
    - injection H as <-. cbn [bind cmp_values]. rewrite cmp_set_str_spec. reflexivity.
  Qed.

  (* the lookup selects exactly what the generic evaluation of the key predicates selects: for every context (also a
     reverse axis), every candidate list, any number of keys *)
  Theorem lookup_eq_generic cx rv kvs : lookup_ok (c_cur cx) kvs = true ->
    forall insts, apply_preds spec_flags t cx rv (key_preds kvs) insts = Ok (lookup_insts (c_cur cx) kvs insts).
  Proof.
    induction kvs as [|[[m k] v] r IH]; intros Hok insts; cbn [key_preds apply_preds lookup_insts]; [reflexivity|].
    cbn [lookup_ok forallb snd] in Hok. apply andb_true_iff in Hok. destruct Hok as [Hv Hr].
    destruct (lookup_str (c_cur cx) v) as [s|] eqn:Hs; [|discriminate].
    erewrite filter_idx_ext.
    2:{ intros it i. rewrite (key_pred_generic _ m k v s) by exact Hs. cbn [bind pred_true to_bool c_item]. reflexivity. }
    rewrite filter_idx_pure. cbn [bind]. apply IH. exact Hr.
  Qed.

  (* the whole step  list[key=value]...  from one context node *)
  Corollary lookup_step_eq_generic cx m ln kvs : lookup_ok (c_cur cx) kvs = true ->
    eval spec_flags t cx (EStep ECtx false AxChild (TName (Some m) ln) (key_preds kvs)) =
    Ok (VSet (lookup_insts (c_cur cx) kvs (cands spec_flags t AxChild (TName (Some m) ln) (c_item cx)))).
  Proof.
    intro Hok. cbn [eval bind]. unfold step_body.
    cbn [is_ns_axis is_attr_axis is_child_axis spec_flags f_nsaxis f_text
         f_predglobal andb orb negb bind fold_res reverse_axis].
    rewrite (lookup_eq_generic cx false kvs Hok). cbn [bind]. rewrite merge_nil_l. reflexivity.
  Qed.
End LookupSpec.

(* the step from a context SET (base evaluates to S0): the union, in document order, of the lookups per context node *)
Theorem lookup_step_set_eq_generic t cx base S0 m ln kvs :
  eval spec_flags t cx base = Ok (VSet S0) -> lookup_ok t (c_cur cx) kvs = true ->
  eval spec_flags t cx (EStep base false AxChild (TName (Some m) ln) (key_preds kvs)) =
  bind (fold_res (fun acc c => Ok (merge_items acc
                    (lookup_insts t (c_cur cx) kvs (cands spec_flags t AxChild (TName (Some m) ln) c)))) S0 [])
       (fun l => Ok (VSet l)).
Proof.
  intros Hb Hok. cbn [eval]. rewrite Hb. cbn [bind]. unfold step_body.
  cbn [is_ns_axis is_attr_axis is_child_axis spec_flags f_nsaxis f_text f_predglobal andb orb negb reverse_axis].
  f_equal. apply fold_res_ext. intros acc c. rewrite (lookup_eq_generic t cx false kvs Hok). reflexivity.
Qed.

(* ------------------------------------------------------------------------------------------------ *)
(* regression: the condition of the lookup before /repo 97c7154                                      *)
(* ------------------------------------------------------------------------------------------------ *)
(* before, (almost) any value was evaluated once with the FIRST instance as context node and its string
   (of a node-set: of its first node, empty when there is none) was looked up *)
Definition old_lookup_insts (t : list xnode) (cur : item) (m k : bytes) (v : expr) (insts : list item) : list item :=
  match insts with
  | [] => []
  | first :: _ =>
      match eval spec_flags t {| c_item := first; c_pos := 1; c_size := 1; c_cur := cur |} v with
      | Ok val => filter (fun inst => key_is t inst m k (to_str spec_flags t val)) insts
      | Err _ => []
      end
  end.

Definition lA : bytes := [97].
Definition lmk (k : nkind) (name val : bytes) (keys : list bytes) : ninfo :=
  {| ni_kind := k; ni_mod := lA; ni_name := name; ni_val := val; ni_dflt := false; ni_type := TyStr; ni_keys := keys |}.
Definition lleaf (name val : bytes) : rtree := RNode (lmk KLeaf name val []) [].
Definition l_c : bytes := [99].
Definition l_l : bytes := [108].
Definition l_k : bytes := [107].
Definition l_w : bytes := [119].
Definition l_zz : bytes := [122; 122].
(* c { l {k 'a', w 'b'}  l {k 'b', w 'a'}  l {k ''} } : element ids c 0, l 1 (k 2, w 3), l 4 (k 5, w 6), l 7 (k 8) *)
Definition lk_tree : list xnode := tree_of_forest
  [ RNode (lmk KCont l_c [] [])
      [ RNode (lmk KList l_l [] [l_k]) [ lleaf l_k [97]; lleaf l_w [98] ];
        RNode (lmk KList l_l [] [l_k]) [ lleaf l_k [98]; lleaf l_w [97] ];
        RNode (lmk KList l_l [] [l_k]) [ lleaf l_k [] ] ] ].
Definition lch (b : expr) (n : bytes) : expr := EStep b false AxChild (TName (Some lA) n) PNil.
Definition l_insts : list item :=
  match eval spec_flags lk_tree (once_ctx IRoot) (lch (lch ERoot l_c) l_l) with Ok (VSet l) => l | _ => [] end.
Definition generic_keys (v : expr) : res (list N) :=
  match apply_preds spec_flags lk_tree (once_ctx IRoot) false (key_preds [(lA, l_k, v)]) l_insts with
  | Ok l => Ok (map item_key l) | Err e => Err e end.

(* class 1, the value depends on the list instance: /a:c/a:l[a:k=a:w] selects no instance (no k equals its own w);
   the old lookup took w of the first instance ('b') and returned the second one. Not context-free: no lookup now. *)
Example lookup_context_dependent_refuted :
  generic_keys (lch ECtx l_w) = Ok [] /\
  map item_key (old_lookup_insts lk_tree IRoot lA l_k (lch ECtx l_w) l_insts) = [9] /\
  lookup_ok lk_tree IRoot [(lA, l_k, lch ECtx l_w)] = false.
Proof. repeat split; vm_compute; reflexivity. Qed.

(* class 2, a node-set value taken as a string: /a:c/a:l[a:k=/a:c/a:zz] with no zz selects nothing (a comparison
   with an empty node-set is false); the old lookup looked up the empty string and returned the instance with the
   empty key. Not exactly one node: no lookup now. *)
Example lookup_nodeset_as_string_refuted :
  generic_keys (lch (lch ERoot l_c) l_zz) = Ok [] /\
  map item_key (old_lookup_insts lk_tree IRoot lA l_k (lch (lch ERoot l_c) l_zz) l_insts) = [15] /\
  lookup_ok lk_tree IRoot [(lA, l_k, lch (lch ERoot l_c) l_zz)] = false.
Proof. repeat split; vm_compute; reflexivity. Qed.

(* a literal value: the lookup is taken and selects what the generic evaluation selects; a path with its own
   predicates from the root is context-free *)
Example lookup_taken_regression :
  let v := EStep (lch ERoot l_c) false AxChild (TName (Some lA) l_l) (PCons (ENum [50]) (PCons (ECmp CEq (lch ECtx l_w) (ELit [97])) PNil)) in
  lookup_ok lk_tree IRoot [(lA, l_k, ELit [98])] = true /\
  generic_keys (ELit [98]) = Ok (map item_key (lookup_insts lk_tree IRoot [(lA, l_k, ELit [98])] l_insts)) /\
  generic_keys (ELit [98]) = Ok [9] /\ ctx_free v = true.
Proof. repeat split; vm_compute; reflexivity. Qed.

(* ------------------------------------------------------------------------------------------------ *)
(* executable form for the correspondence runs                                                      *)
(* ------------------------------------------------------------------------------------------------ *)
(* the key predicates a step starts with: [m:k = v] ... ; None when some predicate has another form *)
Fixpoint split_key_preds (ps : preds) : option (list (bytes * bytes * expr)) :=
  match ps with
  | PNil => Some []
  | PCons (ECmp CEq (EStep ECtx false AxChild (TName (Some m) k) PNil) v) r =>
      match split_key_preds r with Some l => Some ((m, k, v) :: l) | None => None end
  | PCons _ _ => None
  end.

(* the answer through the lookup, when the expression is  base/m:list[m:k=v]...  with values that allow it *)
Definition lookup_answer (t : list xnode) (cx : ectx) (e : expr) : option (res value) :=
  match e with
  | EStep base false AxChild (TName (Some m) ln) (PCons p r) =>
      match split_key_preds (PCons p r) with
      | Some kvs =>
          if lookup_ok t (c_cur cx) kvs then
            match eval spec_flags t cx base with
            | Ok (VSet S0) =>
                Some (bind (fold_res (fun acc c => Ok (merge_items acc
                              (lookup_insts t (c_cur cx) kvs (cands spec_flags t AxChild (TName (Some m) ln) c)))) S0 [])
                           (fun l => Ok (VSet l)))
            | _ => None
            end
          else None
      | None => None
      end
  | _ => None
  end.

Lemma split_key_preds_sound ps : forall kvs, split_key_preds ps = Some kvs -> ps = key_preds kvs.
Proof.
  induction ps as [|p r IH] using preds_ind_simple; intros kvs H.
  - cbn in H. injection H as <-. reflexivity.
  - cbn [split_key_preds] in H.
    destruct p as [| |b ds ax nt ps'| | | |op a v| | | | | | | | |]; try discriminate.
    destruct op; try discriminate. destruct a as [| |b ds ax nt ps'| | | | | | | | | | | | |]; try discriminate.
    destruct b; try discriminate. destruct ds; try discriminate. destruct ax; try discriminate.
    destruct nt as [pfx k| | | |]; try discriminate. destruct pfx as [m|]; try discriminate.
    destruct ps'; try discriminate.
    destruct (split_key_preds r) as [l|] eqn:Hr; [|discriminate]. injection H as <-.
    cbn [key_preds]. unfold key_pred. rewrite (IH l eq_refl). reflexivity.
Qed.

(* whenever the lookup answers, it answers what the evaluation of the expression answers *)
Theorem lookup_answer_eq_eval t cx e r : lookup_answer t cx e = Some r -> eval spec_flags t cx e = r.
Proof.
  unfold lookup_answer. destruct e as [| |base ds ax nt ps| | | | | | | | | | | | |]; try discriminate.
  destruct ds; try discriminate. destruct ax; try discriminate.
  destruct nt as [pfx ln| | | |]; try discriminate. destruct pfx as [m|]; try discriminate.
  destruct ps as [|p r0]; try discriminate.
  destruct (split_key_preds (PCons p r0)) as [kvs|] eqn:Hs; [|discriminate].
  destruct (lookup_ok t (c_cur cx) kvs) eqn:Hok; [|discriminate].
  destruct (eval spec_flags t cx base) as [[S0|s|x|b]|] eqn:Hb; try discriminate.
  intro H. injection H as <-. rewrite (split_key_preds_sound _ _ Hs).
  apply lookup_step_set_eq_generic; assumption.
Qed.

(* for a top-level evaluation with context node c (what the correspondence run compares) *)
Definition lookup_answer_top (t : list xnode) (c : item) (e : expr) : option (res value) :=
  lookup_answer t {| c_item := c; c_pos := 1; c_size := 1; c_cur := c |} e.

Theorem lookup_answer_top_eq_eval t c e r : lookup_answer_top t c e = Some r -> eval_top spec_flags t c e = r.
Proof. unfold lookup_answer_top, eval_top, top_ctx. cbn [spec_flags f_nsaxis andb]. apply lookup_answer_eq_eval. Qed.
