(* TypesMisc.v — small shared pieces of the typed-value models (slice types, property C03):
     - the C-locale isspace()/isdigit() classes and the scanning helpers used by IntLex and Dec64,
     - lyplg_type_validate_range() of src/plugins_types.c (range and length restrictions),
     - the boolean store callback lyplg_type_store_boolean() of src/plugins_types/boolean.c.
   Model only; the proofs are in TypesMiscP.v. *)
From LY Require Import Base.
Local Open Scope N_scope.

(* error classes of the typed-value models (the public API maps all of them to LY_EVALID, the
   drivers print E for every one of them) *)
Definition E_INVAL  : N := 1.   (* LY_EINVAL: LY_CHECK_ARG_RET in ly_parse_int/ly_parse_uint *)
Definition E_VALID  : N := 2.   (* LY_EVALID: not a number / trailing garbage / ERANGE *)
Definition E_DENIED : N := 3.   (* LY_EDENIED: outside min..max of the built-in type *)
Definition E_EMPTY  : N := 4.   (* empty value (after the leading white space) *)
Definition E_RANGE  : N := 5.   (* range / length restriction violated *)
Definition E_FRAC   : N := 6.   (* decimal64: more fraction digits than fraction-digits *)

(* isspace() in the C locale: SP, HT, LF, VT, FF, CR. (Bytes >= 0x80 are negative chars in C; glibc
   tables cover -128..-1 and answer no in the C locale.) *)
Definition is_space (b : N) : bool := (b =? 32) || ((9 <=? b) && (b <=? 13)).

(* for ( ; len && isspace( *value); ++value, --len) {}   and   while (isspace( *ptr)) ++ptr; *)
Fixpoint skip_space (s : bytes) : bytes :=
  match s with
  | c :: s' => if is_space c then skip_space s' else s
  | [] => []
  end.

(* longest prefix of decimal digits and what follows it *)
Fixpoint span_digits (s : bytes) : bytes * bytes :=
  match s with
  | c :: s' => if is_digit c then (let '(d, r) := span_digits s' in (c :: d, r)) else ([], s)
  | [] => ([], [])
  end.

(* ---------- lyplg_type_validate_range(basetype, range, value, ...) ----------
   [parts] is range->parts as (min, max) pairs. The C function compares as uint64_t when
   basetype < LY_TYPE_DEC64 (binary, uint*, string, bits, boolean) and as int64_t otherwise
   (decimal64, int* ); the model value is the mathematical integer in both cases, so both are [Z]
   comparisons. Branch by branch:
     value < min of this part            -> error (the parts are assumed ascending, so no later part is tried)
     value <= max of this part           -> LY_SUCCESS
     this was the last part              -> error
   and LY_SUCCESS when the loop ends without a decision (only possible for an empty array). *)
Fixpoint validate_range (parts : list (Z * Z)) (v : Z) : bool :=
  match parts with
  | [] => true
  | (lo, hi) :: ps =>
      if (v <? lo)%Z then false
      else if (v <=? hi)%Z then true
      else match ps with [] => false | _ :: _ => validate_range ps v end
  end.

(* Spec (RFC 7950 9.2.4 / 9.4.4): the value lies in one of the parts *)
Definition in_parts (parts : list (Z * Z)) (v : Z) : Prop :=
  exists lo hi, In (lo, hi) parts /\ (lo <= v <= hi)%Z.

(* what the schema compiler guarantees for range->parts (RFC 7950 9.2.4: the parts must be disjoint
   and in ascending order) *)
Fixpoint parts_sorted (parts : list (Z * Z)) : Prop :=
  match parts with
  | [] => True
  | (lo, hi) :: ps =>
      (lo <= hi)%Z /\
      match ps with [] => True | (lo2, _) :: _ => (hi < lo2)%Z end /\
      parts_sorted ps
  end.

(* ---------- lyplg_type_store_boolean() (text formats) ----------
   value_len == 4 && !strncmp(value, true, 4) -> 1; value_len == 5 && !strncmp(value, false, 5) -> 0 (string literals true / false);
   anything else is an error. No white space is tolerated. The canonical string is the value itself. *)
Definition s_true : bytes := [116;114;117;101].
Definition s_false : bytes := [102;97;108;115;101].

Definition bool_store (s : bytes) : res bool :=
  if beq_bytes s s_true then Ok true
  else if beq_bytes s s_false then Ok false
  else Err E_VALID.

Definition bool_canon (b : bool) : bytes := if b then s_true else s_false.

(* lyplg_type_compare_boolean / lyplg_type_sort_boolean: on the stored 0/1 *)
Definition bool_compare (a b : bool) : bool := Bool.eqb a b.
Definition bool_sort (a b : bool) : comparison :=
  match a, b with
  | false, true => Lt
  | true, false => Gt
  | _, _ => Eq
  end.
