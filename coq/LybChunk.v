(* LybChunk.v - model of the LYB sibling-chunk layer.
   Writer: lyb_write_sibling_meta(), lyb_write(), lyb_write_stop_siblings(), lyb_write_start_siblings()
   of src/printer_lyb.c on top of the memory variant of ly_write_(), ly_write_skip(), ly_write_skipped()
   of src/out.c.
   Reader: lyb_read_sibling_meta(), lyb_read(), lyb_read_stop_siblings(), lyb_read_start_siblings() of
   src/parser_lyb.c on top of ly_in_read() of src/in.c.

   Both sides keep the array lybctx->siblings of struct lyd_lyb_sibling {written; position; inner_chunks}.
   In the model the array is a list with the INNERMOST (last, LYB_LAST_SIBLING) element first; the C
   index u of an element is the length of the list behind it. The C loops LY_ARRAY_FOR(siblings, u)
   run from the outermost to the innermost element: the recursive functions below first process
   the tail of the list and then its head, which is the same order.

   The output is a byte list; ly_write_skip() appends a hole (the C buffer is uninitialised there,
   the model and the driver put zeros) and ly_write_skipped() overwrites it (back-patching).

   Everything is parametric in the five LYB constants (Section Gen) and instantiated with the
   values scraped from src/lyb.h (Gen/Consts.v) at the end of the file. *)
From LY Require Import Base.
From LY.Gen Require Consts.
Local Open Scope N_scope.

Definition E_LOGINT : N := 1.  (* LOGINT: inner_chunks at LYB_INCHUNK_MAX (writer), written != 0 at stop (reader) *)
Definition E_NOSIB : N := 2.   (* stop with no open siblings: C would index siblings[-1]; no caller does *)
Definition E_EOF : N := 3.     (* reader: the input is exhausted (the C memory input has no length and reads on) *)
Definition E_ASSERT : N := 4.  (* assert(written <= LYB_SIZE_MAX) fails (asserts are enabled in the verification builds) *)
Definition E_FUEL : N := 99.   (* model artefact, excluded by the theorems *)

(* struct lyd_lyb_sibling; [position] is an offset into the output for the writer and the
   0/1 flag (a follow-up chunk exists) for the reader *)
Record sib : Type := mk_sib { written : N; position : N; inner_chunks : N }.

(* a script of calls; the reader gets the same shape with the payload lengths *)
Inductive op : Type := Start | Write (bs : bytes) | Stop.
Inductive rop : Type := RStart | RRead (n : N) | RStop.

Definition shape_op (o : op) : rop :=
  match o with Start => RStart | Write bs => RRead (N.of_nat (length bs)) | Stop => RStop end.
Definition shape (s : list op) : list rop := map shape_op s.
Fixpoint payloads (s : list op) : list bytes :=
  match s with
  | [] => []
  | Write bs :: s' => bs :: payloads s'
  | _ :: s' => payloads s'
  end.

(* nesting discipline: no Stop without an open Start; [d] opens are pending at the end *)
Fixpoint bracketed (s : list op) (d : nat) : option nat :=
  match s with
  | [] => Some d
  | Start :: s' => bracketed s' (S d)
  | Write _ :: s' => bracketed s' d
  | Stop :: s' => match d with O => None | S d' => bracketed s' d' end
  end.
Definition well_bracketed (s : list op) : bool :=
  match bracketed s O with Some O => true | _ => false end.

(* the discipline of the printer: at least k payload bytes are handed to lyb_write() directly before every
   nested lyb_write_start_siblings() (lyb_print_node() writes the node type and the schema hash, k = 2).
   d = open siblings, prev = bytes written since the last start/stop *)
Fixpoint disciplined (k : nat) (s : list op) (d prev : nat) : bool :=
  match s with
  | [] => true
  | Start :: s' => (Nat.eqb d 0 || Nat.leb k prev) && disciplined k s' (S d) 0
  | Write bs :: s' => disciplined k s' d (prev + length bs)
  | Stop :: s' => disciplined k s' (pred d) 0
  end.
(* deepest nesting reached *)
Fixpoint max_depth (s : list op) (d : nat) : nat :=
  match s with
  | [] => d
  | Start :: s' => Nat.max (S d) (max_depth s' (S d))
  | Write _ :: s' => max_depth s' d
  | Stop :: s' => Nat.max d (max_depth s' (pred d))
  end.

(* htole64(num) + memcpy of the k low bytes, and the way back (num = 0; memcpy; le64toh) *)
Fixpoint le_bytes (k : nat) (n : N) : bytes :=
  match k with O => [] | S k' => n mod 256 :: le_bytes k' (n / 256) end.
Fixpoint le_val (bs : bytes) : N :=
  match bs with [] => 0 | b :: r => b + 256 * le_val r end.

(* memcpy(&buf[p], a, |a|) inside the buffer *)
Definition patch (p : nat) (a l : bytes) : bytes := firstn p l ++ a ++ skipn (p + length a) l.

(* first n bytes of the input and the rest; None when the input is shorter *)
Fixpoint take (n : nat) (l : bytes) : option (bytes * bytes) :=
  match n with
  | O => Some ([], l)
  | S n' =>
      match l with
      | [] => None
      | x :: l' => match take n' l' with None => None | Some (a, b) => Some (x :: a, b) end
      end
  end.

(* element with C index k *)
Fixpoint get_level (sibs : list sib) (k : nat) : option sib :=
  match sibs with
  | [] => None
  | s :: outer => if Nat.eqb (length outer) k then Some s else get_level outer k
  end.
(* apply f to every element, f gets the C index *)
Fixpoint map_levels (f : nat -> sib -> sib) (sibs : list sib) : list sib :=
  match sibs with
  | [] => []
  | s :: outer => f (length outer) s :: map_levels f outer
  end.
Fixpoint exists_level (f : nat -> sib -> bool) (sibs : list sib) : bool :=
  match sibs with
  | [] => false
  | s :: outer => f (length outer) s || exists_level f outer
  end.

Definition add_written (n : N) (s : sib) : sib := mk_sib (written s + n) (position s) (inner_chunks s).
Definition inc_inner (s : sib) : sib := mk_sib (written s) (position s) (inner_chunks s + 1).

Definition U64 : N := 18446744073709551616.
(* size_t subtraction *)
Definition sub64 (a b : N) : N := if b <=? a then a - b else U64 - (b - a).
Definition sub_written (n : N) (s : sib) : sib := mk_sib (sub64 (written s) n) (position s) (inner_chunks s).

Section Gen.
Variables SIZE_MAX SIZE_BYTES INCHUNK_MAX INCHUNK_BYTES META_BYTES : N.

(* ------------------------------------------------------------------------------------------ *)
(* writer                                                                                      *)
(* ------------------------------------------------------------------------------------------ *)

(* struct ly_out, memory variant: buffer and method.mem.len *)
Record wstate : Type := mk_w { w_sibs : list sib; w_out : bytes; w_len : N }.

(* meta_buf of lyb_write_sibling_meta(): (written & LYB_SIZE_MAX) on LYB_SIZE_BYTES bytes, then
   (inner_chunks & LYB_INCHUNK_MAX) on LYB_INCHUNK_BYTES bytes, little endian.
   (LYB_META_BYTES is defined as the sum of the two; see LybChunkP.consts_ok.) *)
Definition meta_of (size inner : N) : bytes :=
  le_bytes (N.to_nat SIZE_BYTES) (N.land size SIZE_MAX) ++
  le_bytes (N.to_nat INCHUNK_BYTES) (N.land inner INCHUNK_MAX).
Definition meta_bytes (s : sib) : bytes := meta_of (written s) (inner_chunks s).

(* lyb_write_sibling_meta(out, sib): ly_write_skipped(out, sib->position, meta_buf, LYB_META_BYTES) *)
Definition write_sibling_meta (out : bytes) (s : sib) : bytes :=
  patch (N.to_nat (position s)) (meta_bytes s) out.

(* ly_write_skip(out, LYB_META_BYTES, &position) *)
Definition hole : bytes := repeat 0 (N.to_nat META_BYTES).

(* first loop of lyb_write(): (to_write, full) after LY_ARRAY_FOR(lybctx->siblings, u) started
   with to_write = count, full = NULL; full is given as its C index *)
Fixpoint wscan (sibs : list sib) (count : N) : N * option nat :=
  match sibs with
  | [] => (count, None)
  | s :: outer =>
      let '(to_write, full) := wscan outer count in
      if SIZE_MAX <=? written s + to_write
      then (SIZE_MAX - written s, Some (length outer))
      else (to_write, full)
  end.

(* number of loop iterations that suffices (LybChunkP.write_loop_fuel_ok): every iteration but the last
   two closes one chunk, and a level closes at most count / LYB_SIZE_MAX + 1 chunks *)
Definition loop_fuel (depth : nat) (count : N) : nat :=
  S (S (depth * S (N.to_nat (count / SIZE_MAX)))).

(* while (1) of lyb_write(out, buf, count, lybctx) *)
Fixpoint write_loop (fuel : nat) (buf : bytes) (count : N) (st : wstate) : res wstate :=
  match fuel with
  | O => Err E_FUEL
  | S fuel' =>
      let '(to_write, full) := wscan (w_sibs st) count in
      match full, count =? 0 with
      | None, true => Ok st                                  (* if (!full && !count) break; *)
      | _, _ =>
          (* if (to_write) { ly_write_(); all written += to_write; count -= to_write; buf += to_write; } *)
          let st1 :=
            if to_write =? 0 then st
            else mk_w (map (add_written to_write) (w_sibs st))
                      (w_out st ++ firstn (N.to_nat to_write) buf)
                      (w_len st + to_write) in
          let buf1 := if to_write =? 0 then buf else skipn (N.to_nat to_write) buf in
          let count1 := if to_write =? 0 then count else count - to_write in
          (* assert(lybctx->siblings[u].written <= LYB_SIZE_MAX) *)
          if negb (to_write =? 0) && existsb (fun s => SIZE_MAX <? written s) (w_sibs st1) then Err E_ASSERT
          else
          match full with
          | None => write_loop fuel' buf1 count1 st1
          | Some k =>
              match get_level (w_sibs st1) k with
              | None => Err E_NOSIB                            (* not reachable: k comes from wscan *)
              | Some f =>
                  (* lyb_write_sibling_meta(out, full); full->written = 0; full->inner_chunks = 0;
                     ly_write_skip(out, LYB_META_BYTES, &full->position); *)
                  let out2 := write_sibling_meta (w_out st1) f in
                  let sibs2 := map_levels (fun u s => if Nat.eqb u k then mk_sib 0 (w_len st1) 0 else s)
                                          (w_sibs st1) in
                  (* for (iter = &siblings[0]; iter != full; ++iter) { if (iter->inner_chunks == LYB_INCHUNK_MAX) LOGINT; ++ } *)
                  if exists_level (fun u s => Nat.ltb u k && (inner_chunks s =? INCHUNK_MAX)) sibs2
                  then Err E_LOGINT
                  else write_loop fuel' buf1 count1
                         (mk_w (map_levels (fun u s => if Nat.ltb u k then inc_inner s else s) sibs2)
                               (out2 ++ hole)
                               (w_len st1 + META_BYTES))
              end
          end
      end
  end.

Definition lyb_write (buf : bytes) (st : wstate) : res wstate :=
  let count := N.of_nat (length buf) in
  write_loop (loop_fuel (length (w_sibs st)) count) buf count st.

(* lyb_write_start_siblings(): push {0, ?, 0}; ++inner_chunks of all the others (LOGINT at the
   maximum); ly_write_skip() *)
Definition lyb_write_start_siblings (st : wstate) : res wstate :=
  if existsb (fun s => inner_chunks s =? INCHUNK_MAX) (w_sibs st) then Err E_LOGINT
  else Ok (mk_w (mk_sib 0 (w_len st) 0 :: map inc_inner (w_sibs st))
                (w_out st ++ hole)
                (w_len st + META_BYTES)).

(* lyb_write_stop_siblings(): lyb_write_sibling_meta(LYB_LAST_SIBLING); LY_ARRAY_DECREMENT *)
Definition lyb_write_stop_siblings (st : wstate) : res wstate :=
  match w_sibs st with
  | [] => Err E_NOSIB
  | s :: outer => Ok (mk_w outer (write_sibling_meta (w_out st) s) (w_len st))
  end.

Definition write_op (o : op) (st : wstate) : res wstate :=
  match o with
  | Start => lyb_write_start_siblings st
  | Write bs => lyb_write bs st
  | Stop => lyb_write_stop_siblings st
  end.

Fixpoint run_write_from (s : list op) (st : wstate) : res wstate :=
  match s with
  | [] => Ok st
  | o :: s' => match write_op o st with Ok st' => run_write_from s' st' | Err e => Err e end
  end.

Definition w_init : wstate := mk_w [] [] 0.
Definition run_write (s : list op) : res wstate := run_write_from s w_init.

(* ------------------------------------------------------------------------------------------ *)
(* reader                                                                                      *)
(* ------------------------------------------------------------------------------------------ *)

(* siblings and the rest of the input (in->current) *)
Record rstate : Type := mk_r { r_sibs : list sib; r_in : bytes }.

(* lyb_read_sibling_meta(): the new value of *sib and the rest of the input *)
Definition read_sibling_meta (inp : bytes) : option (sib * bytes) :=
  match take (N.to_nat META_BYTES) inp with
  | None => None
  | Some (m, rest) =>
      let w := le_val (firstn (N.to_nat SIZE_BYTES) m) in
      let i := le_val (firstn (N.to_nat INCHUNK_BYTES) (skipn (N.to_nat SIZE_BYTES) m)) in
      Some (mk_sib w (if w =? SIZE_MAX then 1 else 0) i, rest)
  end.

(* first loop of lyb_read(): (to_read, empty) *)
Fixpoint rscan (sibs : list sib) (count : N) : N * option nat :=
  match sibs with
  | [] => (count, None)
  | s :: outer =>
      let '(to_read, empty) := rscan outer count in
      if (written s <=? to_read) && negb (position s =? 0)
      then (written s, Some (length outer))
      else (to_read, empty)
  end.

(* while (1) of lyb_read(buf, count, lybctx); returns the bytes stored into buf *)
Fixpoint read_loop (fuel : nat) (count : N) (st : rstate) : res (bytes * rstate) :=
  match fuel with
  | O => Err E_FUEL
  | S fuel' =>
      let '(to_read, empty) := rscan (r_sibs st) count in
      match empty, count =? 0 with
      | None, true => Ok ([], st)                            (* if (!empty && !count) break; *)
      | _, _ =>
          (* if (to_read) { ly_in_read(); all written -= to_read; count -= to_read; buf += to_read; } *)
          match (if to_read =? 0 then Some ([], r_in st) else take (N.to_nat to_read) (r_in st)) with
          | None => Err E_EOF
          | Some (data, in1) =>
              let sibs1 := if to_read =? 0 then r_sibs st else map (sub_written to_read) (r_sibs st) in
              let count1 := if to_read =? 0 then count else count - to_read in
              (* assert(lybctx->siblings[u].written <= LYB_SIZE_MAX) *)
              if negb (to_read =? 0) && existsb (fun s => SIZE_MAX <? written s) sibs1 then Err E_ASSERT
              else
              match empty with
              | None =>
                  match read_loop fuel' count1 (mk_r sibs1 in1) with
                  | Ok (more, st') => Ok (data ++ more, st')
                  | Err e => Err e
                  end
              | Some k =>
                  (* lyb_read_sibling_meta(empty, lybctx) *)
                  match read_sibling_meta in1 with
                  | None => Err E_EOF
                  | Some (ns, in2) =>
                      match read_loop fuel' count1
                              (mk_r (map_levels (fun u s => if Nat.eqb u k then ns else s) sibs1) in2) with
                      | Ok (more, st') => Ok (data ++ more, st')
                      | Err e => Err e
                      end
                  end
              end
          end
      end
  end.

Definition lyb_read (count : N) (st : rstate) : res (bytes * rstate) :=
  read_loop (loop_fuel (length (r_sibs st)) count) count st.

(* lyb_read_start_siblings(): push; lyb_read_sibling_meta(LYB_LAST_SIBLING) *)
Definition lyb_read_start_siblings (st : rstate) : res rstate :=
  match read_sibling_meta (r_in st) with
  | None => Err E_EOF
  | Some (ns, in1) => Ok (mk_r (ns :: r_sibs st) in1)
  end.

(* lyb_read_stop_siblings(): if (LYB_LAST_SIBLING.written) LOGINT_RET; LY_ARRAY_DECREMENT *)
Definition lyb_read_stop_siblings (st : rstate) : res rstate :=
  match r_sibs st with
  | [] => Err E_NOSIB
  | s :: outer => if written s =? 0 then Ok (mk_r outer (r_in st)) else Err E_LOGINT
  end.

(* runs a shape; the payloads are returned in order *)
Fixpoint run_read_from (s : list rop) (st : rstate) : res (list bytes * rstate) :=
  match s with
  | [] => Ok ([], st)
  | RStart :: s' =>
      match lyb_read_start_siblings st with Ok st' => run_read_from s' st' | Err e => Err e end
  | RStop :: s' =>
      match lyb_read_stop_siblings st with Ok st' => run_read_from s' st' | Err e => Err e end
  | RRead n :: s' =>
      match lyb_read n st with
      | Ok (bs, st') =>
          match run_read_from s' st' with Ok (l, st'') => Ok (bs :: l, st'') | Err e => Err e end
      | Err e => Err e
      end
  end.

Definition run_read (s : list rop) (inp : bytes) : res (list bytes * rstate) :=
  run_read_from s (mk_r [] inp).

End Gen.

(* ------------------------------------------------------------------------------------------ *)
(* the model of the code: the section instantiated with the constants of src/lyb.h             *)
(* ------------------------------------------------------------------------------------------ *)
Definition lyb_run_write : list op -> res wstate :=
  run_write Consts.LYB_SIZE_MAX Consts.LYB_SIZE_BYTES Consts.LYB_INCHUNK_MAX Consts.LYB_INCHUNK_BYTES
            Consts.LYB_META_BYTES.
Definition lyb_run_read : list rop -> bytes -> res (list bytes * rstate) :=
  run_read Consts.LYB_SIZE_MAX Consts.LYB_SIZE_BYTES Consts.LYB_INCHUNK_BYTES Consts.LYB_META_BYTES.

(* the same with small constants, to exercise the chunk boundaries with short scripts
   (used by the examples and by the model-only self checks) *)
Definition lyb_run_write_small (mx : N) : list op -> res wstate := run_write mx 2 65535 2 4.
Definition lyb_run_read_small (mx : N) : list rop -> bytes -> res (list bytes * rstate) := run_read mx 2 2 4.

(* fixed pattern used by the drivers for long payloads: byte i of Wn<count> is
   (i * 7 + i / 251 + 1) mod 256, computed incrementally (v = the byte, r = i mod 251) *)
Fixpoint pattern_go (n : nat) (v r : N) (acc : bytes) : bytes :=
  match n with
  | O => acc
  | S n' =>
      let v1 := if r =? 250 then v + 8 else v + 7 in
      pattern_go n' (if 256 <=? v1 then v1 - 256 else v1) (if r =? 250 then 0 else r + 1) (v :: acc)
  end.
Definition pattern (n : N) : bytes := rev_append (pattern_go (N.to_nat n) 1 0 []) [].
