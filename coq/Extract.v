(* Extract.v — extraction of the executable models to OCaml (ExtrOcamlBasic only:
   bool, option, unit, list, prod, sumbool, sumor mapped to OCaml's; N/Z/positive/nat stay
   the extracted inductive types). The file model.ml/.mli is written into this directory and
   moved to ../ocaml by the top-level Makefile. *)
From Coq Require Extraction ExtrOcamlBasic.
From LY Require Import Base Utf8 XmlText.
Extraction Language OCaml.
Extraction "model.ml"
  N.add N.mul N.div N.modulo N.sub Z.add Z.mul Z.opp Z.of_N Z.abs_N Z.sub
  Utf8.getutf8 Utf8.pututf8 Utf8.checkutf8 Utf8.all_getutf8 Utf8.all_checkutf8
  XmlText.xml_esc XmlText.xml_value.
