(* XPathConvP.v — slice xpath (C08): the conversion kernels of src/xpath.c against XPath 1.0.

   For each kernel: a theorem  impl = spec  on the domain where the code follows the recommendation, and
   [..._refuted] witnesses (checked by computation, each confirmed on the real library by the correspondence run)
   where it does not. *)
From Coq Require Import QArith Qround.
From LY Require Import Base XPathConv.
From Coq Require Import ZifyBool ZifyNat ZifyN.
Local Open Scope Z_scope.

(* ------------------------------------------------------------------------------------------------ *)
(* string -> number                                                                                 *)
(* ------------------------------------------------------------------------------------------------ *)
Definition B (l : list Z) : bytes := map Z.to_N l.

(* white space is neither a digit nor the point *)
Definition no_num_head (w : bytes) : Prop :=
  match w with b :: _ => is_digit b = false /\ (b =? 46)%N = false | [] => True end.

Lemma ws_no_num_head w : forallb is_xmlws w = true -> no_num_head w.
Proof.
  destruct w as [|b r]; [exact (fun _ => I)|]. cbn [forallb no_num_head]. intro H.
  apply andb_true_iff in H. destruct H as [H _]. unfold is_xmlws, is_digit in *. lia.
Qed.

Lemma take_digits_app p w : no_num_head w -> forall acc cnt,
  take_digits (p ++ w) acc cnt = let '(v, c, r) := take_digits p acc cnt in (v, c, r ++ w).
Proof.
  intro Hw. induction p as [|d p' IH]; intros acc cnt; cbn [app take_digits].
  - destruct w as [|b r]; [reflexivity|]. cbn [take_digits]. destruct Hw as [Hd _]. rewrite Hd. reflexivity.
  - destruct (is_digit d); [apply IH|reflexivity].
Qed.

Lemma parse_mantissa_app p w : no_num_head w ->
  parse_mantissa (p ++ w) = match parse_mantissa p with Some (q, r) => Some (q, r ++ w) | None => None end.
Proof.
  intro Hw. unfold parse_mantissa. rewrite (take_digits_app p w Hw).
  destruct (take_digits p 0%N 0%nat) as [[v1 c1] r1].
  destruct r1 as [|b r1']; cbn [app].
  - assert (He : eat 46 w = None).
    { destruct w as [|x r]; [reflexivity|]. cbn [eat]. destruct Hw as [_ Hx]. rewrite Hx. reflexivity. }
    rewrite He. cbn [eat]. destruct (c1 =? 0)%nat; reflexivity.
  - cbn [eat]. destruct (b =? 46)%N.
    + rewrite (take_digits_app r1' w Hw). destruct (take_digits r1' 0%N 0%nat) as [[v2 c2] r2].
      destruct (c1 + c2 =? 0)%nat; reflexivity.
    + destruct (c1 =? 0)%nat; reflexivity.
Qed.

Lemma take_digits_rest s : forall acc cnt, exists pre, s = pre ++ snd (take_digits s acc cnt).
Proof.
  induction s as [|d r IH]; intros acc cnt; cbn [take_digits].
  - exists []. reflexivity.
  - destruct (is_digit d).
    + destruct (IH (10 * acc + (d - 48))%N (S cnt)) as [pre Hp]. exists (d :: pre). cbn. f_equal. exact Hp.
    + exists []. reflexivity.
Qed.

(* what the mantissa scanner leaves is a suffix of its input *)
Lemma parse_mantissa_suffix s q r : parse_mantissa s = Some (q, r) -> exists pre, s = pre ++ r.
Proof.
  unfold parse_mantissa. destruct (take_digits s 0%N 0%nat) as [[v1 c1] r1] eqn:H1.
  destruct (take_digits_rest s 0%N 0%nat) as [pre1 Hp1]. rewrite H1 in Hp1. cbn [snd] in Hp1.
  destruct r1 as [|b r1']; cbn [eat].
  - destruct (c1 =? 0)%nat; intro H; [discriminate|]. injection H as _ Hr. rewrite <- Hr. exists pre1. exact Hp1.
  - destruct (b =? 46)%N.
    + destruct (take_digits r1' 0%N 0%nat) as [[v2 c2] r2] eqn:H2.
      destruct (take_digits_rest r1' 0%N 0%nat) as [pre2 Hp2]. rewrite H2 in Hp2. cbn [snd] in Hp2.
      destruct (c1 + c2 =? 0)%nat; intro H; [discriminate|]. injection H as _ Hr. rewrite <- Hr.
      exists (pre1 ++ b :: pre2). rewrite <- app_assoc. cbn [app]. rewrite <- Hp2. exact Hp1.
    + destruct (c1 =? 0)%nat; intro H; [discriminate|]. injection H as _ Hr. rewrite <- Hr. exists pre1. exact Hp1.
Qed.

(* drop_while / trim_right *)
Lemma drop_while_split (f : N -> bool) s : exists w, s = w ++ drop_while f s /\ forallb f w = true.
Proof.
  induction s as [|b r IH]; cbn [drop_while].
  - exists []. split; reflexivity.
  - destruct (f b) eqn:Hb.
    + destruct IH as [w [Hs Hw]]. exists (b :: w). cbn [app forallb]. rewrite Hb, Hw. split; [f_equal; exact Hs|reflexivity].
    + exists []. split; reflexivity.
Qed.

Lemma drop_while_hd (f : N -> bool) s : match drop_while f s with b :: _ => f b = false | [] => True end.
Proof.
  induction s as [|b r IH]; cbn [drop_while]; [exact I|].
  destruct (f b) eqn:Hb; [exact IH|exact Hb].
Qed.

Lemma drop_while_nil (f : N -> bool) s : drop_while f s = [] -> forallb f s = true.
Proof.
  induction s as [|b r IH]; cbn [drop_while forallb]; [reflexivity|].
  destruct (f b); [exact IH|discriminate].
Qed.

Lemma drop_while_all (f : N -> bool) s : forallb f s = true -> drop_while f s = [].
Proof.
  induction s as [|b r IH]; cbn [drop_while forallb]; [reflexivity|].
  destruct (f b); [exact IH|discriminate].
Qed.

Lemma forallb_rev (f : N -> bool) s : forallb f s = true -> forallb f (rev s) = true.
Proof.
  rewrite !forallb_forall. intros H x Hx. apply H. apply in_rev. exact Hx.
Qed.

(* a string ends with no white space when its only suffix of white space is the empty one *)
Definition no_ws_tail (p : bytes) : Prop := forall pre r, p = pre ++ r -> forallb is_xmlws r = true -> r = [].

Lemma trim_right_split s : exists w, s = trim_right is_xmlws s ++ w /\ forallb is_xmlws w = true /\
  no_ws_tail (trim_right is_xmlws s).
Proof.
  unfold trim_right. destruct (drop_while_split is_xmlws (rev s)) as [w [Hs Hw]].
  exists (rev w). split; [|split].
  - rewrite <- rev_app_distr, <- Hs. symmetry. apply rev_involutive.
  - apply forallb_rev. exact Hw.
  - intros pre r Hp Hr. pose proof (drop_while_hd is_xmlws (rev s)) as Hh.
    apply (f_equal (@rev N)) in Hp. rewrite rev_involutive, rev_app_distr in Hp. rewrite Hp in Hh.
    destruct (rev r) as [|x rr] eqn:Hrr.
    + apply (f_equal (@rev N)) in Hrr. rewrite rev_involutive in Hrr. exact Hrr.
    + cbn [app] in Hh. apply forallb_rev in Hr. rewrite Hrr in Hr. cbn [forallb] in Hr.
      rewrite Hh in Hr. discriminate.
Qed.

Lemma no_ws_tail_cons b p : no_ws_tail (b :: p) -> no_ws_tail p.
Proof. intros H pre r Hp Hr. apply (H (b :: pre) r); [cbn; f_equal; exact Hp|exact Hr]. Qed.

(* scanning and then skipping white space up to the end = trimming first and then scanning up to the end *)
Lemma scan_then_skip prec neg p w : forallb is_xmlws w = true -> no_ws_tail p ->
  match parse_mantissa (p ++ w) with
  | Some (q, r) => match drop_while is_xmlws r with [] => XFin neg (rnd prec q) | _ :: _ => XNaN end
  | None => XNaN
  end =
  match parse_mantissa p with Some (q, []) => XFin neg (rnd prec q) | _ => XNaN end.
Proof.
  intros Hw Hp. rewrite (parse_mantissa_app p w (ws_no_num_head w Hw)).
  destruct (parse_mantissa p) as [[q r]|] eqn:Hm; [|reflexivity].
  destruct r as [|b r']; cbn [app].
  - rewrite (drop_while_all is_xmlws w Hw). reflexivity.
  - destruct (drop_while is_xmlws (b :: r' ++ w)) as [|x rest] eqn:Hd; [|reflexivity].
    exfalso. apply drop_while_nil in Hd. change (b :: r' ++ w) with ((b :: r') ++ w) in Hd.
    rewrite forallb_app in Hd. apply andb_true_iff in Hd. destruct Hd as [Hr _].
    destruct (parse_mantissa_suffix p q (b :: r') Hm) as [pre Hpre].
    discriminate (Hp pre (b :: r') Hpre Hr).
Qed.

(* cast_string_to_number() (since /repo b906576) is number() of the recommendation for EVERY string: white space,
   sign, malformed numbers, exponents, hexadecimal, inf/nan, anything *)
Theorem s2n_impl_eq_spec prec s : impl_s2n prec s = spec_s2n prec s.
Proof.
  unfold impl_s2n, spec_s2n. set (d := drop_while is_xmlws s).
  destruct (trim_right_split d) as [w [Hd [Hw Ht]]]. set (t := trim_right is_xmlws d) in *.
  destruct t as [|b t'] eqn:Et.
  - (* only white space: nothing is left *)
    cbn [app] in Hd. pose proof (drop_while_hd is_xmlws s) as Hh. fold d in Hh. rewrite Hd in Hh.
    destruct w as [|x w']; [|cbn [forallb] in Hw; rewrite Hh in Hw; discriminate].
    rewrite Hd. reflexivity.
  - rewrite Hd. cbn [app]. unfold eat_sign. cbn [andb].
    destruct (b =? 45)%N.
    + apply scan_then_skip; [exact Hw|exact (no_ws_tail_cons b t' Ht)].
    + change (b :: t' ++ w) with ((b :: t') ++ w). apply scan_then_skip; [exact Hw|exact Ht].
Qed.

(* regression values: what only strtold() accepted is NaN now, trailing white space is accepted
   (each was a listed deviation until /repo b906576) *)
Example s2n_regression :
  impl_s2n 64 (B [49; 101; 51]) = XNaN /\                       (* 1e3 *)
  impl_s2n 64 (B [43; 53]) = XNaN /\                            (* +5 *)
  impl_s2n 64 (B [48; 120; 49; 48]) = XNaN /\                   (* 0x10 *)
  impl_s2n 64 (B [105; 110; 102]) = XNaN /\                     (* inf *)
  impl_s2n 64 (B [11; 53]) = XNaN /\                            (* vertical tab 5 *)
  impl_s2n 64 (B [32; 53; 32]) = x_of_Z 5 /\                    (* blank 5 blank *)
  impl_s2n 64 (B [45; 46; 53]) = XFin true (1 # 2) /\           (* -.5 *)
  impl_s2n 64 (B [53; 46]) = x_of_Z 5 /\ impl_s2n 64 (B [46]) = XNaN /\ impl_s2n 64 (B [45]) = XNaN /\
  impl_s2n 64 (B [49; 46; 50; 46; 51]) = XNaN.                  (* 1.2.3 *)
Proof. repeat split; vm_compute; reflexivity. Qed.

(* ------------------------------------------------------------------------------------------------ *)
(* number -> string                                                                                 *)
(* ------------------------------------------------------------------------------------------------ *)
Lemma q_is_int_Qeq p q : Qeq p q -> q_is_int p = q_is_int q.
Proof.
  destruct p as [a b], q as [c d]. unfold Qeq, q_is_int. cbn [Qnum Qden]. intro H.
  destruct (a mod Z.pos b =? 0) eqn:Ha; destruct (c mod Z.pos d =? 0) eqn:Hc; try reflexivity; exfalso.
  - apply Z.eqb_eq in Ha. apply Z.mod_divide in Ha; [|lia]. destruct Ha as [k Hk]. subst a.
    assert (c = k * Z.pos d) by nia. subst c. rewrite Z.mod_mul in Hc by lia. discriminate.
  - apply Z.eqb_eq in Hc. apply Z.mod_divide in Hc; [|lia]. destruct Hc as [k Hk]. subst c.
    assert (a = k * Z.pos b) by nia. subst a. rewrite Z.mod_mul in Ha by lia. discriminate.
Qed.

Lemma q_is_int_inject z : q_is_int (inject_Z z) = true.
Proof. unfold q_is_int. cbn [inject_Z Qnum Qden]. rewrite Z.mod_1_r. reflexivity. Qed.

(* an integer rounded to [prec] bits is an integer *)
Lemma rnd_int_is_int prec u : q_is_int (rnd prec (inject_Z u)) = true.
Proof.
  unfold rnd. cbn [inject_Z Qnum]. destruct (u <=? 0); [reflexivity|].
  unfold rnd_pos. cbv zeta. cbn [inject_Z Qnum Qden].
  set (e := if _ <? 2 ^ prec then _ else _). clearbody e.
  rewrite (q_is_int_Qeq _ _ (Qred_correct _)).
  unfold pow2. destruct (0 <=? e) eqn:He; cbn [fst snd].
  - match goal with |- q_is_int (inject_Z ?a * inject_Z ?b) = true => generalize a; intro m' end.
    unfold q_is_int, Qmult. cbn [inject_Z Qnum Qden]. rewrite Z.mod_1_r. reflexivity.
  - rewrite Z.mod_1_r, Z.div_1_r. change (2 * 0 ?= 1) with Lt. cbv iota.
    unfold q_is_int, Qmult. cbn [inject_Z Qnum Qden]. rewrite Pos.mul_1_l.
    rewrite Z2Pos.id by (apply Z.pow_pos_nonneg; lia).
    rewrite Z.mul_1_r. rewrite Z.mod_mul by (apply Z.pow_nonzero; lia). reflexivity.
Qed.

Lemma Qred_inject_Z v : Qred (inject_Z v) = inject_Z v.
Proof.
  unfold Qred, inject_Z. pose proof (Z.ggcd_correct_divisors v 1) as H. pose proof (Z.ggcd_gcd v 1) as Hg.
  destruct (Z.ggcd v 1) as [g [aa bb]]. cbn [fst] in Hg. rewrite Z.gcd_1_r in Hg. subst g.
  destruct H as [H1 H2]. cbn [snd]. rewrite Z.mul_1_l in H1, H2. subst aa bb. reflexivity.
Qed.

(* a long double (a fixed point of the rounding, in lowest terms) with an integral value is that integer over 1 *)
Lemma ld_int m : rnd 64 m = m -> q_is_int m = true -> m = inject_Z (q_int_val m).
Proof.
  intros H Hi.
  assert (Heq : Qeq m (inject_Z (q_int_val m))).
  { destruct m as [a b]. unfold q_is_int, q_int_val, Qeq in *. cbn [Qnum Qden inject_Z] in *.
    pose proof (Z.div_mod a (Z.pos b) ltac:(lia)). lia. }
  assert (Hred : Qred m = m).
  { unfold rnd in H. destruct (Qnum m <=? 0).
    - rewrite <- H. reflexivity.
    - unfold rnd_pos in H. match type of H with Qred ?X = _ => set (X0 := X) in H end.
      rewrite <- H. apply Qred_complete. apply Qred_correct. }
  rewrite <- Hred at 1. rewrite (Qred_complete _ _ Heq). apply Qred_inject_Z.
Qed.

Lemma round_dec_int m : q_is_int m = true -> round_dec m 0 = q_int_val m.
Proof.
  intro Hi. unfold round_dec. change (inject_Z (10 ^ Z.of_nat 0)) with 1%Q.
  assert (Ht : Qeq (Qred (m * 1)) m) by (rewrite Qred_correct; ring).
  rewrite (Qfloor_comp _ _ Ht).
  assert (Hf : Qfloor m = q_int_val m) by (destruct m; reflexivity). rewrite Hf.
  assert (Hr : Qeq (Qred (Qred (m * 1) - inject_Z (q_int_val m))) 0).
  { rewrite Qred_correct, Ht. destruct m as [a b]. unfold q_is_int, q_int_val, Qeq, Qminus, Qplus, Qopp in *.
    cbn [Qnum Qden inject_Z] in *. pose proof (Z.div_mod a (Z.pos b) ltac:(lia)). nia. }
  rewrite (Qcompare_comp _ _ Hr (1 # 2) (1 # 2) (Qeq_refl _)). reflexivity.
Qed.

Lemma shortest_decimals_ge prec m fuel : forall j, (j <= shortest_decimals prec m j fuel)%nat.
Proof.
  induction fuel as [|f IH]; intro j; cbn [shortest_decimals]; [lia|].
  destruct (Qeq_bool _ m); [lia|]. specialize (IH (S j)). lia.
Qed.

(* the numbers of the code: long doubles *)
Definition x_ld (x : xnum) : Prop := match x with XFin _ m => rnd 64 m = m | _ => True end.

(* lyxp_set_cast() to string (since /repo 54bf5db) is string() of the recommendation (read at the precision of the
   code) for EVERY long double: NaN, infinities, zeros, integers in and beyond the long long range, fractions *)
Theorem n2s_impl_eq_spec x : x_ld x -> impl_n2s x = spec_n2s 64 x.
Proof.
  destruct x as [|neg|neg m]; try reflexivity. cbn [x_ld]. intro Hld.
  unfold impl_n2s, spec_n2s. destruct (q_is_zero m) eqn:Hz; [reflexivity|].
  destruct (q_is_int m) eqn:Hi.
  - (* integers *)
    match goal with |- (if true && ?c1 && ?c2 then _ else _) = _ => destruct (true && c1 && c2) end; [reflexivity|].
    cbn [shortest_decimals]. rewrite (round_dec_int m Hi).
    change (Z.to_pos (10 ^ Z.of_nat 0)) with 1%positive.
    change (q_int_val m # 1) with (inject_Z (q_int_val m)). rewrite <- (ld_int m Hld Hi). rewrite Hld.
    rewrite (proj2 (Qeq_bool_iff m m) (Qeq_refl m)). cbn [print_dec]. rewrite (round_dec_int m Hi). reflexivity.
  - (* fractions: no digits after the point never reads back, then the same search *)
    cbn [andb]. cbn [shortest_decimals].
    change (Z.to_pos (10 ^ Z.of_nat 0)) with 1%positive.
    change (round_dec m 0 # 1) with (inject_Z (round_dec m 0)).
    destruct (Qeq_bool (rnd 64 (inject_Z (round_dec m 0))) m) eqn:Hq.
    + apply Qeq_bool_iff in Hq. apply q_is_int_Qeq in Hq. rewrite rnd_int_is_int, Hi in Hq. discriminate.
    + pose proof (shortest_decimals_ge 64 m frac_digits_max 1%nat) as Hge.
      destruct (shortest_decimals 64 m 1 frac_digits_max) as [|j]; [lia|]. reflexivity.
Qed.

(* regression values (each was a listed deviation until /repo 54bf5db: one fraction digit, '.0' on big integers) *)
Example n2s_regression :
  impl_n2s (XFin false (1 # 4)) = B [48; 46; 50; 53] /\                                    (* 0.25 *)
  impl_n2s (impl_s2n 64 (B [45; 48; 46; 48; 53])) = B [45; 48; 46; 48; 53] /\              (* -0.05 *)
  impl_n2s (XFin false (inject_Z (2 ^ 63))) = B [57;50;50;51;51;55;50;48;51;54;56;53;52;55;55;53;56;48;56] /\
  impl_n2s (XFin true (inject_Z (2 ^ 63))) = 45%N :: B [57;50;50;51;51;55;50;48;51;54;56;53;52;55;55;53;56;48;56] /\
  impl_n2s (XFin false (3 # 2)) = B [49; 46; 53] /\ impl_n2s (XFin true 0) = B [48] /\ impl_n2s XNaN = B [78; 97; 78].
Proof. repeat split; vm_compute; reflexivity. Qed.

(* ------------------------------------------------------------------------------------------------ *)
(* floor / ceiling / round                                                                          *)
(* ------------------------------------------------------------------------------------------------ *)
(* a number is well formed when its magnitude is not negative *)
Definition x_wf (x : xnum) : Prop := match x with XFin _ m => Qle 0 m | _ => True end.

Lemma x_same_fin neg a b : Qeq a b -> x_same (XFin neg a) (XFin neg b) = true.
Proof.
  intro H. unfold x_same, x_eq, x_cmp, sq. destruct neg.
  - rewrite (proj1 (Qeq_alt (Qopp a) (Qopp b))); [reflexivity|]. rewrite H. reflexivity.
  - rewrite (proj1 (Qeq_alt a b) H). reflexivity.
Qed.

(* floor() as coded (floorl of the signed value, /repo commit 0327904) is the floor of the recommendation for
   every number: negative and positive, integral or not, zeros, infinities and NaN *)
Theorem floor_impl_eq_spec x : x_wf x -> x_same (impl_floor x) (spec_floor x) = true.
Proof.
  destruct x as [|neg|neg m]; try reflexivity.
  - intros _. destruct neg; reflexivity.
  - intro Hwf. cbn [x_wf] in Hwf. unfold impl_floor, spec_floor.
    destruct m as [n d]. unfold q_is_zero, q_is_int, Qfloor, sq. cbn [Qnum Qden Qopp].
    assert (Hn : 0 <= n) by (unfold Qle in Hwf; cbn in Hwf; lia).
    destruct (n =? 0) eqn:Hz.
    + assert (n = 0) by lia. subst n. rewrite Z.mod_0_l by lia. cbn. apply x_same_fin. reflexivity.
    + assert (Hpos : 0 < n) by lia.
      pose proof (Z.div_mod n (Z.pos d) ltac:(lia)) as Hdm.
      pose proof (Z.mod_pos_bound n (Z.pos d) ltac:(lia)) as Hmb.
      destruct neg.
      * (* negative *)
        change (- (n # d))%Q with ((- n) # d). cbv beta iota.
        destruct (n mod Z.pos d =? 0) eqn:Hi.
        -- assert (Hm0 : n mod Z.pos d = 0) by lia.
           rewrite (Z.div_opp_l_z n (Z.pos d)) by lia.
           assert (Hq : 0 < n / Z.pos d) by nia.
           replace (- (n / Z.pos d) =? 0) with false by lia.
           unfold x_of_Z. replace (- (n / Z.pos d) <? 0) with true by lia.
           apply x_same_fin. rewrite Z.abs_neq by lia. rewrite Z.opp_involutive.
           unfold Qeq. cbn [Qnum Qden inject_Z]. nia.
        -- rewrite (Z.div_opp_l_nz n (Z.pos d)) by lia.
           assert (Hq : 0 <= n / Z.pos d) by (apply Z.div_pos; lia).
           replace (- (n / Z.pos d) - 1 =? 0) with false by lia.
           unfold x_of_Z. replace (- (n / Z.pos d) - 1 <? 0) with true by lia.
           apply x_same_fin. rewrite Z.abs_neq by lia.
           replace (- (- (n / Z.pos d) - 1)) with (n / Z.pos d + 1) by lia. reflexivity.
      * (* positive *)
        destruct (n mod Z.pos d =? 0) eqn:Hi.
        -- assert (Hm0 : n mod Z.pos d = 0) by lia.
           assert (Hq : 0 < n / Z.pos d) by nia.
           replace (n / Z.pos d =? 0) with false by lia.
           unfold x_of_Z. replace (n / Z.pos d <? 0) with false by lia.
           apply x_same_fin. rewrite Z.abs_eq by lia.
           unfold Qeq. cbn [Qnum Qden inject_Z]. nia.
        -- assert (Hq : 0 <= n / Z.pos d) by (apply Z.div_pos; lia).
           destruct (n / Z.pos d =? 0) eqn:Hq0.
           ++ assert (Hqz : n / Z.pos d = 0) by lia. rewrite Hqz. apply x_same_fin. reflexivity.
           ++ unfold x_of_Z. replace (n / Z.pos d <? 0) with false by lia.
              apply x_same_fin. rewrite Z.abs_eq by lia. reflexivity.
Qed.

(* regression values of the recommendation (the code used to truncate towards zero, /repo commit 0327904) *)
Example floor_ceiling_round_regression :
  spec_floor (XFin true (3 # 2)) = XFin true (inject_Z 2) /\ spec_floor (XFin true (1 # 2)) = XFin true (inject_Z 1) /\
  spec_ceiling (XFin true (3 # 2)) = XFin true (inject_Z 1) /\ spec_ceiling (XFin true (1 # 2)) = XFin true (inject_Z 0) /\
  spec_round 53 (XFin true (16 # 10)) = XFin true (inject_Z 2) /\ spec_floor XNaN = XNaN /\ spec_ceiling XNaN = XNaN /\
  spec_round 53 x_zero = x_zero /\
  impl_floor (XFin true (3 # 2)) = x_of_Z (-2) /\ impl_ceiling (XFin true (3 # 2)) = x_of_Z (-1) /\
  impl_floor (XFin true (1 # 2)) = x_of_Z (-1) /\ impl_ceiling (XFin true (1 # 2)) = XFin true 0 /\ impl_floor XNaN = XNaN.
Proof. repeat split; vm_compute; reflexivity. Qed.

(* ------------------------------------------------------------------------------------------------ *)
(* string-length: bytes versus characters                                                           *)
(* ------------------------------------------------------------------------------------------------ *)
Lemma utf8_chars_aux_ascii s : forall cur,
  forallb (fun b => (b <? 128)%N) s = true ->
  length (utf8_chars_aux s cur true) = S (length s).
Proof.
  induction s as [|b r IH]; intros cur H; cbn [utf8_chars_aux]; [reflexivity|].
  cbn [forallb] in H. apply andb_true_iff in H. destruct H as [Hb Hr].
  unfold is_cont. replace ((128 <=? b)%N && (b <? 192)%N) with false by lia. cbn [andb].
  rewrite app_length. cbn [length]. rewrite IH by exact Hr. reflexivity.
Qed.

Theorem string_length_ascii s : forallb (fun b => (b <? 128)%N) s = true ->
  impl_string_length s = spec_string_length s.
Proof.
  intro H. unfold impl_string_length, spec_string_length, utf8_chars.
  destruct s as [|b r]; [reflexivity|].
  cbn [utf8_chars_aux]. cbn [forallb] in H. apply andb_true_iff in H. destruct H as [Hb Hr].
  unfold is_cont. rewrite andb_false_r. cbn [app].
  rewrite utf8_chars_aux_ascii by exact Hr. reflexivity.
Qed.

Example string_length_nonascii_refuted :
  impl_string_length (B [195; 169]) = 2%nat /\ spec_string_length (B [195; 169]) = 1%nat.
Proof. split; reflexivity. Qed.
Example substring_nonascii_refuted :
  substring 64 true (B [97; 195; 169; 98]) (x_of_Z 2) (Some (x_of_Z 1)) = B [195] /\
  substring 53 false (B [97; 195; 169; 98]) (x_of_Z 2) (Some (x_of_Z 1)) = B [195; 169].
Proof. split; vm_compute; reflexivity. Qed.
