(* XPathConvP.v — slice xpath (C08): the conversion kernels of src/xpath.c against XPath 1.0.

   For each kernel: a theorem  impl = spec  on the domain where the code follows the recommendation, and
   [..._refuted] witnesses (checked by computation, each confirmed on the real library by the correspondence run)
   where it does not. *)
From Coq Require Import QArith Qround.
From LY Require Import Base XPathConv.
From Coq Require Import ZifyBool ZifyNat ZifyN.
Local Open Scope Z_scope.

(* ------------------------------------------------------------------------------------------------ *)
(* string -> number                                                                                 *)
(* ------------------------------------------------------------------------------------------------ *)
Definition num_char (b : N) : bool := is_digit b || (b =? 46)%N.

Lemma drop_while_head f s : match s with b :: _ => f b = false | [] => True end -> drop_while f s = s.
Proof. destruct s as [|b r]; cbn; [reflexivity|]. intro H. rewrite H. reflexivity. Qed.

Lemma num_char_not_space b : num_char b = true -> c_isspace b = false /\ is_xmlws b = false.
Proof. unfold num_char, c_isspace, is_xmlws, is_digit. intro H. split; lia. Qed.

Lemma take_digits_rest s : forall acc cnt, exists pre, s = pre ++ snd (take_digits s acc cnt).
Proof.
  induction s as [|d r IH]; intros acc cnt; cbn [take_digits].
  - exists []. reflexivity.
  - destruct (is_digit d).
    + destruct (IH (10 * acc + (d - 48))%N (S cnt)) as [pre Hp]. exists (d :: pre). cbn. f_equal. exact Hp.
    + exists []. reflexivity.
Qed.

Lemma forallb_suffix (f : N -> bool) pre s : forallb f (pre ++ s) = true -> forallb f s = true.
Proof. rewrite forallb_app. intro H. apply andb_true_iff in H. apply H. Qed.

(* the rest after the mantissa is a suffix, so it consists of the same kind of characters *)
Lemma parse_mantissa_rest s q r : forallb num_char s = true -> parse_mantissa s = Some (q, r) ->
  forallb num_char r = true.
Proof.
  intros Hs H. unfold parse_mantissa in H.
  destruct (take_digits s 0%N 0%nat) as [[v1 c1] r1] eqn:H1.
  destruct (take_digits_rest s 0%N 0%nat) as [pre1 Hp1]. rewrite H1 in Hp1. cbn [snd] in Hp1.
  assert (Hr1 : forallb num_char r1 = true) by (eapply forallb_suffix; rewrite <- Hp1; exact Hs).
  unfold eat in H. destruct r1 as [|b r1'].
  - destruct (c1 =? 0)%nat; inversion H; subst; reflexivity.
  - destruct (b =? 46)%N.
    + destruct (take_digits r1' 0%N 0%nat) as [[v2 c2] r2] eqn:H2.
      destruct (take_digits_rest r1' 0%N 0%nat) as [pre2 Hp2]. rewrite H2 in Hp2. cbn [snd] in Hp2.
      destruct (c1 + c2 =? 0)%nat; inversion H; subst r.
      cbn [forallb] in Hr1. apply andb_true_iff in Hr1. destruct Hr1 as [_ Hr1].
      eapply forallb_suffix. rewrite <- Hp2. exact Hr1.
    + destruct (c1 =? 0)%nat; inversion H; subst; exact Hr1.
Qed.

Lemma ci_prefix_num p0 p s : forallb num_char s = true -> (97 <= p0)%N -> ci_prefix (p0 :: p) s = None \/ s = [].
Proof.
  intros Hs Hp. destruct s as [|b r]; [right; reflexivity|left].
  cbn [forallb] in Hs. apply andb_true_iff in Hs. destruct Hs as [Hb _].
  cbn [ci_prefix]. unfold c_lower. unfold num_char, is_digit in Hb.
  replace ((65 <=? b)%N && (b <=? 90)%N) with false by lia.
  replace (p0 =? b)%N with false by lia. reflexivity.
Qed.

Lemma parse_exp_num m1 m2 s : forallb num_char s = true -> (65 <= m1)%N -> (65 <= m2)%N ->
  parse_exp m1 m2 s = (0, s).
Proof.
  intros Hs H1 H2. destruct s as [|b r]; [reflexivity|].
  cbn [forallb] in Hs. apply andb_true_iff in Hs. destruct Hs as [Hb _]. unfold num_char, is_digit in Hb.
  cbn [parse_exp]. replace ((b =? m1)%N || (b =? m2)%N) with false by lia. reflexivity.
Qed.

Lemma trim_right_id f s : forallb (fun b => negb (f b)) s = true -> trim_right f s = s.
Proof.
  intro H. unfold trim_right.
  rewrite drop_while_head; [apply rev_involutive|].
  destruct (rev s) as [|b r] eqn:Hr; [exact I|].
  assert (Hin : In b s) by (apply in_rev; rewrite Hr; left; reflexivity).
  rewrite forallb_forall in H. specialize (H b Hin). destruct (f b); [discriminate|reflexivity].
Qed.

(* on the lexical space of XPath numbers without surrounding white space - an optional minus sign followed by
   digits and points - strtold() and the recommendation agree (malformed ones such as 1.2.3 or a lone . are NaN
   for both) *)
Theorem s2n_impl_eq_spec_plain prec (neg : bool) body :
  forallb num_char body = true ->
  impl_s2n prec ((if neg then [45%N] else []) ++ body) = spec_s2n prec ((if neg then [45%N] else []) ++ body).
Proof.
  intro Hb. set (s := (if neg then [45%N] else []) ++ body).
  assert (Hall : forallb (fun b => num_char b || (b =? 45)%N) s = true).
  { subst s. rewrite forallb_app. apply andb_true_iff. split.
    - destruct neg; reflexivity.
    - rewrite forallb_forall in *. intros x Hx. rewrite (Hb x Hx). reflexivity. }
  assert (Hnosp : forall f : N -> bool, (forall b, num_char b || (b =? 45)%N = true -> f b = false) ->
                                  drop_while f s = s /\ trim_right f s = s).
  { intros f Hf. split.
    - apply drop_while_head. destruct s as [|b r] eqn:Hs; [exact I|].
      apply Hf. cbn [forallb] in Hall. apply andb_true_iff in Hall. apply Hall.
    - apply trim_right_id. rewrite forallb_forall in *. intros x Hx. rewrite (Hf x (Hall x Hx)). reflexivity. }
  assert (Hsign : forall plus, eat_sign plus s = (neg, body)).
  { intro plus. subst s. destruct neg; cbn [app]; unfold eat_sign.
    - reflexivity.
    - destruct body as [|b r]; [reflexivity|].
      cbn [forallb] in Hb. apply andb_true_iff in Hb. destruct Hb as [Hb0 _]. unfold num_char, is_digit in Hb0.
      replace (b =? 45)%N with false by lia. replace (plus && (b =? 43)%N) with false by lia. reflexivity. }
  unfold impl_s2n, spec_s2n.
  destruct (Hnosp c_isspace) as [Hd1 _].
  { intros b H. unfold c_isspace. unfold num_char, is_digit in H. lia. }
  destruct (Hnosp is_xmlws) as [Hd2 Ht2].
  { intros b H. unfold is_xmlws. unfold num_char, is_digit in H. lia. }
  rewrite Hd1, Hd2, Ht2, !Hsign.
  destruct (ci_prefix_num 105%N [110; 102; 105; 110; 105; 116; 121]%N body Hb ltac:(lia)) as [Hc1|Hnil].
  2:{ subst body. reflexivity. }
  rewrite Hc1.
  destruct (ci_prefix_num 105%N [110; 102]%N body Hb ltac:(lia)) as [Hc2|Hnil]; [|subst body; reflexivity].
  rewrite Hc2.
  assert (Hhex : match body with
                 | z :: x :: r => (z =? 48)%N && ((x =? 120)%N || (x =? 88)%N)
                 | _ => false
                 end = false).
  { destruct body as [|z [|x r]]; try reflexivity.
    cbn [forallb] in Hb. apply andb_true_iff in Hb. destruct Hb as [_ Hb].
    apply andb_true_iff in Hb. destruct Hb as [Hx _]. unfold num_char, is_digit in Hx. lia. }
  assert (Hnohex : parse_hex body = None).
  { unfold parse_hex. destruct body as [|z [|x r]]; try reflexivity. rewrite Hhex. reflexivity. }
  rewrite Hnohex.
  destruct (parse_mantissa body) as [[q r]|] eqn:Hm; [|reflexivity].
  pose proof (parse_mantissa_rest _ _ _ Hb Hm) as Hr.
  rewrite (parse_exp_num 101 69 r Hr) by lia.
  destruct r as [|b r']; [|reflexivity].
  replace (0 =? 0) with true by reflexivity.
  destruct (q_is_zero q) eqn:Hz.
  - unfold rnd. unfold q_is_zero in Hz. replace (Qnum q <=? 0) with true by lia. reflexivity.
  - replace ((0 <? -4900) || (4900 <? 0)) with false by reflexivity. reflexivity.
Qed.

Definition B (l : list Z) : bytes := map Z.to_N l.

(* what strtold() accepts beyond the recommendation, and what it rejects *)
Example s2n_exponent_refuted : impl_s2n 64 (B [49; 101; 51]) = x_of_Z 1000 /\ spec_s2n 53 (B [49; 101; 51]) = XNaN.
Proof. split; vm_compute; reflexivity. Qed.
Example s2n_plus_refuted : impl_s2n 64 (B [43; 53]) = x_of_Z 5 /\ spec_s2n 53 (B [43; 53]) = XNaN.
Proof. split; vm_compute; reflexivity. Qed.
Example s2n_hex_refuted : impl_s2n 64 (B [48; 120; 49; 48]) = x_of_Z 16 /\ spec_s2n 53 (B [48; 120; 49; 48]) = XNaN.
Proof. split; vm_compute; reflexivity. Qed.
Example s2n_inf_refuted : impl_s2n 64 (B [105; 110; 102]) = XInf false /\ spec_s2n 53 (B [105; 110; 102]) = XNaN.
Proof. split; vm_compute; reflexivity. Qed.
(* trailing white space: the recommendation allows it, strtold() does not consume it *)
Example s2n_trailing_space_refuted : impl_s2n 64 (B [32; 53; 32]) = XNaN /\ spec_s2n 53 (B [32; 53; 32]) = x_of_Z 5.
Proof. split; vm_compute; reflexivity. Qed.
(* leading white space of isspace() that is not XML white space (vertical tab) *)
Example s2n_vtab_refuted : impl_s2n 64 (B [11; 53]) = x_of_Z 5 /\ spec_s2n 53 (B [11; 53]) = XNaN.
Proof. split; vm_compute; reflexivity. Qed.

(* ------------------------------------------------------------------------------------------------ *)
(* number -> string                                                                                 *)
(* ------------------------------------------------------------------------------------------------ *)
(* integers in the long long range, both zeros, NaN and the infinities are printed as the recommendation says *)
Theorem n2s_impl_eq_spec_int prec neg z : 0 <= z <= ll_max ->
  impl_n2s (XFin neg (inject_Z z)) = spec_n2s prec (XFin neg (inject_Z z)).
Proof.
  intro Hz. unfold impl_n2s, spec_n2s.
  destruct (q_is_zero (inject_Z z)); [reflexivity|].
  assert (Hint : q_is_int (inject_Z z) = true).
  { unfold q_is_int. cbn [inject_Z Qnum Qden]. rewrite Z.mod_1_r. reflexivity. }
  assert (Hval : q_int_val (inject_Z z) = z).
  { unfold q_int_val. cbn [inject_Z Qnum Qden]. apply Z.div_1_r. }
  rewrite Hint, Hval. cbn [andb].
  unfold ll_min, ll_max in *.
  destruct neg.
  - replace ((- 2 ^ 63 <=? - z) && (- z <=? 2 ^ 63 - 1)) with true by lia. reflexivity.
  - replace ((- 2 ^ 63 <=? z) && (z <=? 2 ^ 63 - 1)) with true by lia. reflexivity.
Qed.

Theorem n2s_impl_eq_spec_special prec : 
  impl_n2s XNaN = spec_n2s prec XNaN /\ (forall neg, impl_n2s (XInf neg) = spec_n2s prec (XInf neg)).
Proof. split; [reflexivity|intro neg; reflexivity]. Qed.

(* '%03.1Lf': one fraction digit only *)
Example n2s_quarter_refuted :
  impl_n2s (XFin false (1 # 4)) = B [48; 46; 50] /\ spec_n2s 53 (XFin false (1 # 4)) = B [48; 46; 50; 53].
Proof. split; vm_compute; reflexivity. Qed.
(* string(-0.05): the long double nearest to 0.05 rounds to '-0.1'; the recommendation gives '-0.05' *)
Example n2s_minus_005_refuted :
  impl_n2s (impl_s2n 64 (B [45; 48; 46; 48; 53])) = B [45; 48; 46; 49] /\
  spec_n2s 53 (spec_s2n 53 (B [45; 48; 46; 48; 53])) = B [45; 48; 46; 48; 53].
Proof. split; vm_compute; reflexivity. Qed.
(* integers beyond the long long range get '.0' *)
Example n2s_big_refuted :
  impl_n2s (XFin false (inject_Z (2 ^ 63))) = B [57;50;50;51;51;55;50;48;51;54;56;53;52;55;55;53;56;48;56;46;48] /\
  spec_n2s 53 (XFin false (inject_Z (2 ^ 63))) = B [57;50;50;51;51;55;50;48;51;54;56;53;52;55;55;53;56;48;56].
Proof. split; vm_compute; reflexivity. Qed.

(* ------------------------------------------------------------------------------------------------ *)
(* floor / ceiling / round                                                                          *)
(* ------------------------------------------------------------------------------------------------ *)
(* a number is well formed when its magnitude is not negative *)
Definition x_wf (x : xnum) : Prop := match x with XFin _ m => Qle 0 m | _ => True end.

Lemma x_same_fin neg a b : Qeq a b -> x_same (XFin neg a) (XFin neg b) = true.
Proof.
  intro H. unfold x_same, x_eq, x_cmp, sq. destruct neg.
  - rewrite (proj1 (Qeq_alt (Qopp a) (Qopp b))); [reflexivity|]. rewrite H. reflexivity.
  - rewrite (proj1 (Qeq_alt a b) H). reflexivity.
Qed.

(* floor() as coded (floorl of the signed value, /repo commit 0327904) is the floor of the recommendation for
   every number: negative and positive, integral or not, zeros, infinities and NaN *)
Theorem floor_impl_eq_spec x : x_wf x -> x_same (impl_floor x) (spec_floor x) = true.
Proof.
  destruct x as [|neg|neg m]; try reflexivity.
  - intros _. destruct neg; reflexivity.
  - intro Hwf. cbn [x_wf] in Hwf. unfold impl_floor, spec_floor.
    destruct m as [n d]. unfold q_is_zero, q_is_int, Qfloor, sq. cbn [Qnum Qden Qopp].
    assert (Hn : 0 <= n) by (unfold Qle in Hwf; cbn in Hwf; lia).
    destruct (n =? 0) eqn:Hz.
    + assert (n = 0) by lia. subst n. rewrite Z.mod_0_l by lia. cbn. apply x_same_fin. reflexivity.
    + assert (Hpos : 0 < n) by lia.
      pose proof (Z.div_mod n (Z.pos d) ltac:(lia)) as Hdm.
      pose proof (Z.mod_pos_bound n (Z.pos d) ltac:(lia)) as Hmb.
      destruct neg.
      * (* negative *)
        change (- (n # d))%Q with ((- n) # d). cbv beta iota.
        destruct (n mod Z.pos d =? 0) eqn:Hi.
        -- assert (Hm0 : n mod Z.pos d = 0) by lia.
           rewrite (Z.div_opp_l_z n (Z.pos d)) by lia.
           assert (Hq : 0 < n / Z.pos d) by nia.
           replace (- (n / Z.pos d) =? 0) with false by lia.
           unfold x_of_Z. replace (- (n / Z.pos d) <? 0) with true by lia.
           apply x_same_fin. rewrite Z.abs_neq by lia. rewrite Z.opp_involutive.
           unfold Qeq. cbn [Qnum Qden inject_Z]. nia.
        -- rewrite (Z.div_opp_l_nz n (Z.pos d)) by lia.
           assert (Hq : 0 <= n / Z.pos d) by (apply Z.div_pos; lia).
           replace (- (n / Z.pos d) - 1 =? 0) with false by lia.
           unfold x_of_Z. replace (- (n / Z.pos d) - 1 <? 0) with true by lia.
           apply x_same_fin. rewrite Z.abs_neq by lia.
           replace (- (- (n / Z.pos d) - 1)) with (n / Z.pos d + 1) by lia. reflexivity.
      * (* positive *)
        destruct (n mod Z.pos d =? 0) eqn:Hi.
        -- assert (Hm0 : n mod Z.pos d = 0) by lia.
           assert (Hq : 0 < n / Z.pos d) by nia.
           replace (n / Z.pos d =? 0) with false by lia.
           unfold x_of_Z. replace (n / Z.pos d <? 0) with false by lia.
           apply x_same_fin. rewrite Z.abs_eq by lia.
           unfold Qeq. cbn [Qnum Qden inject_Z]. nia.
        -- assert (Hq : 0 <= n / Z.pos d) by (apply Z.div_pos; lia).
           destruct (n / Z.pos d =? 0) eqn:Hq0.
           ++ assert (Hqz : n / Z.pos d = 0) by lia. rewrite Hqz. apply x_same_fin. reflexivity.
           ++ unfold x_of_Z. replace (n / Z.pos d <? 0) with false by lia.
              apply x_same_fin. rewrite Z.abs_eq by lia. reflexivity.
Qed.

(* regression values of the recommendation (the code used to truncate towards zero, /repo commit 0327904) *)
Example floor_ceiling_round_regression :
  spec_floor (XFin true (3 # 2)) = XFin true (inject_Z 2) /\ spec_floor (XFin true (1 # 2)) = XFin true (inject_Z 1) /\
  spec_ceiling (XFin true (3 # 2)) = XFin true (inject_Z 1) /\ spec_ceiling (XFin true (1 # 2)) = XFin true (inject_Z 0) /\
  spec_round 53 (XFin true (16 # 10)) = XFin true (inject_Z 2) /\ spec_floor XNaN = XNaN /\ spec_ceiling XNaN = XNaN /\
  spec_round 53 x_zero = x_zero /\
  impl_floor (XFin true (3 # 2)) = x_of_Z (-2) /\ impl_ceiling (XFin true (3 # 2)) = x_of_Z (-1) /\
  impl_floor (XFin true (1 # 2)) = x_of_Z (-1) /\ impl_ceiling (XFin true (1 # 2)) = XFin true 0 /\ impl_floor XNaN = XNaN.
Proof. repeat split; vm_compute; reflexivity. Qed.

(* ------------------------------------------------------------------------------------------------ *)
(* string-length: bytes versus characters                                                           *)
(* ------------------------------------------------------------------------------------------------ *)
Lemma utf8_chars_aux_ascii s : forall cur,
  forallb (fun b => (b <? 128)%N) s = true ->
  length (utf8_chars_aux s cur true) = S (length s).
Proof.
  induction s as [|b r IH]; intros cur H; cbn [utf8_chars_aux]; [reflexivity|].
  cbn [forallb] in H. apply andb_true_iff in H. destruct H as [Hb Hr].
  unfold is_cont. replace ((128 <=? b)%N && (b <? 192)%N) with false by lia. cbn [andb].
  rewrite app_length. cbn [length]. rewrite IH by exact Hr. reflexivity.
Qed.

Theorem string_length_ascii s : forallb (fun b => (b <? 128)%N) s = true ->
  impl_string_length s = spec_string_length s.
Proof.
  intro H. unfold impl_string_length, spec_string_length, utf8_chars.
  destruct s as [|b r]; [reflexivity|].
  cbn [utf8_chars_aux]. cbn [forallb] in H. apply andb_true_iff in H. destruct H as [Hb Hr].
  unfold is_cont. rewrite andb_false_r. cbn [app].
  rewrite utf8_chars_aux_ascii by exact Hr. reflexivity.
Qed.

Example string_length_nonascii_refuted :
  impl_string_length (B [195; 169]) = 2%nat /\ spec_string_length (B [195; 169]) = 1%nat.
Proof. split; reflexivity. Qed.
Example substring_nonascii_refuted :
  substring 64 true (B [97; 195; 169; 98]) (x_of_Z 2) (Some (x_of_Z 1)) = B [195] /\
  substring 53 false (B [97; 195; 169; 98]) (x_of_Z 2) (Some (x_of_Z 1)) = B [195; 169].
Proof. split; vm_compute; reflexivity. Qed.
